#!/bin/bash
# usage: seedcheck.sh <PROP> <seed-dir> [worktree]
# Confirms a seeded change (compiles, suite passes, demo fails with / passes without) in a scratch
# worktree outside /repo and /verif, then applies it to /repo, runs the property's check (and all
# other registered checks), and undoes it.
export GOFLAGS=-mod=mod GOPROXY=off GOSUMDB=off GOTOOLCHAIN=local; unset GOWORK
PROP=$1; SD=$2; WT=${3:-${SEEDWT:-/tmp/wt_seedcheck}}
if [ ! -d "$WT" ]; then git -C /repo worktree add --detach "$WT" HEAD -q || exit 2; fi
git -C "$WT" checkout -q --detach "$(git -C /repo rev-parse HEAD)" 2>/dev/null
git -C "$WT" checkout -- . ; git -C "$WT" clean -fdq
demo=$(ls "$SD"/demo*.go | head -1)
pkgdir=$(head -5 "$demo" | grep -o 'v8/[A-Za-z0-9_/]*' | head -1)
case "$pkgdir" in *_test|*zz_*) pkgdir=$(dirname "$pkgdir");; esac
[ -z "$pkgdir" ] && pkgdir="v8/$(grep -m1 '^package ' "$demo" | awk '{print $2}')"
echo "== $SD  demo=$demo pkgdir=$pkgdir"
git -C "$WT" apply "$SD/patch.diff" || { echo "RESULT apply-failed"; exit 1; }
( cd "$WT/v8" && go build ./... ) || { echo "RESULT nocompile"; git -C "$WT" checkout -- .; exit 1; }
suite=$( cd "$WT/v8" && go test -vet=off -count=1 ./... 2>&1 | grep -v "no test files" | grep -v "^ok" | head -5 )
if [ -n "$suite" ]; then echo "suite output: $suite"; fi
made=""; [ -d "$WT/$pkgdir" ] || { mkdir -p "$WT/$pkgdir"; made=1; }
cp "$demo" "$WT/$pkgdir/zz_seed_demo_test.go"
RACE=""; grep -qs -- "-race" "$SD/notes.md" "$demo" && RACE="-race"   # demonstrations of data races need the race detector
with=$( cd "$WT/$pkgdir" && go test $RACE -vet=off -count=1 -run 'Seed|seed|ZZ|Zz' . 2>&1 | tail -3 | tr '\n' ' ' )
git -C "$WT" apply -R "$SD/patch.diff"
without=$( cd "$WT/$pkgdir" && go test $RACE -vet=off -count=1 -run 'Seed|seed|ZZ|Zz' . 2>&1 | tail -3 | tr '\n' ' ' )
rm -f "$WT/$pkgdir/zz_seed_demo_test.go"; [ -n "$made" ] && rmdir "$WT/$pkgdir" 2>/dev/null
echo "suite_with_change: $( [ -z "$suite" ] && echo pass || echo FAIL )"
echo "demo_with_change: $with"
echo "demo_without: $without"
# now against /repo (NOREPO=1: skip; detection is then established by tools/redetect.py on scratch copies)
[ -n "$NOREPO" ] && { echo "== done (confirmation only)"; exit 0; }
cd /verif
git -C /repo apply "$SD/patch.diff" || { echo "RESULT repo-apply-failed"; exit 1; }
for p in $(${LINT:-bin/gokrb5lint} list); do case " $SEEDCHECK_SKIP " in *" $p "*) continue;; esac
  out=$(${LINT:-bin/gokrb5lint} check $p -noevidence 2>&1)
  n=$(echo "$out" | grep -c '^VIOLATION')
  if [ "$n" != "0" ]; then echo "DETECTED by $p ($n): $(echo "$out" | grep '^violation' | head -3 | cut -c1-220 | tr '\n' '|')"; fi
done
git -C /repo checkout -- .
echo "== done"
