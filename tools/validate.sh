#!/bin/sh
# validates MANIFEST.json and every evidence file against the schemas
python3-vt - <<'PY'
import json,glob,jsonschema,sys
jsonschema.validate(json.load(open('/verif/MANIFEST.json')),json.load(open('/root/.vp/MANIFEST.schema.json')))
es=json.load(open('/root/.vp/EVIDENCE.schema.json'))
n=0
for f in sorted(glob.glob('/verif/evidence/C*.json')):
    jsonschema.validate(json.load(open(f)),es); n+=1
print('manifest ok,',n,'evidence files ok')
PY
