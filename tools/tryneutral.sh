#!/bin/bash
# usage: tryneutral.sh <dir-with-patch.diff> [check-id ...]
# Applies a behaviour-preserving refactoring to a scratch copy of /repo/v8 (never /repo), confirms it builds and the
# pinned suite passes, and runs the checks (default: all): every one must stay silent.
export GOFLAGS=-mod=mod GOPROXY=off GOSUMDB=off GOTOOLCHAIN=local; unset GOWORK
sd=$1; shift
ids="$@"; [ -z "$ids" ] && ids=$(/verif/bin/gokrb5lint list)
d=$(mktemp -d ${TMPDIR:-/tmp}/tryneutralXXXX)
rsync -a --exclude .git ${SRC:-/repo/v8}/ $d/
( cd $d && patch -p2 -s --no-backup-if-mismatch < $sd/patch.diff ) || { echo "RESULT apply-failed"; rm -rf $d; exit 2; }
( cd $d && go build -trimpath ./... ) || { echo "RESULT nocompile"; rm -rf $d; exit 2; }
if [ -z "$NOSUITE" ]; then
  bad=$( cd $d && go test -vet=off -count=1 ./... 2>&1 | grep -v "no test files" | grep -v "^ok" | head -3 )
  [ -n "$bad" ] && { echo "RESULT suite-fails: $bad"; rm -rf $d; exit 2; }
fi
n=0
for p in $ids; do
  out=$(/verif/bin/gokrb5lint check $p -noevidence -repo $d 2>&1)
  if echo "$out" | grep -q "^VIOLATION\|cannot analyse"; then
    n=$((n+1)); echo "ALARM $p:"; echo "$out" | grep -A3 "^violation\|cannot analyse" | cut -c1-500 | head -24
  fi
done
[ $n = 0 ] && echo "RESULT silent"
rm -rf $d
