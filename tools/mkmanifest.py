#!/usr/bin/env python3
"""Regenerates /verif/MANIFEST.json from the table below (kept next to the
checker so the manifest, the level notes and the list of declined properties
stay consistent). Run after adding or changing a check."""
import json, os, sys

ROOT = os.path.dirname(os.path.dirname(os.path.abspath(__file__)))

ENV = "GOFLAGS=-mod=mod GOPROXY=off GOSUMDB=off GOTOOLCHAIN=local GOWORK=off"

TRUST = ("Trusted base: go/packages, go/types and go/ssa of golang.org/x/tools v0.29.0 with go1.23.5; the rule and reference tables in "
         "/verif/checker, transcribed by hand from the RFC sections cited per row. Dependencies of gokrb5 (gofork asn1, rpc/ndr, aescts, stdlib) are "
         "outside the analysed scope. The check decides the named structural clauses on every CFG path / call site of the current source; it does not "
         "decide the behaviour on concrete inputs (declined clauses are listed in evidence.coverage.not_decided and DESIGN.md §4).")

# id -> (technique, level text, design_ref)
CHECKS = {
}

NOT_APPLICABLE = {
}

def load_table():
    p = os.path.join(ROOT, "tools", "checks.json")
    with open(p) as f:
        d = json.load(f)
    return d["checks"], d.get("not_applicable", {})

def main():
    checks, na = load_table()
    props = [json.loads(l)["id"] for l in open(os.path.join(ROOT, "properties.jsonl"))]
    out_checks = []
    for pid in props:
        if pid not in checks:
            continue
        c = checks[pid]
        out_checks.append({
            "property_id": pid,
            "quick_cmd": f"bin/gokrb5lint check {pid} -tier quick",
            "thorough_cmd": f"bin/gokrb5lint check {pid} -tier thorough",
            "evidence_file": f"/verif/evidence/{pid}.json",
            "replay_cmd_template": "bin/gokrb5lint explain {path}",
            "engine": "gokrb5lint",
            "technique": c["technique"],
            "level_claimed": {"category": "other", "text": c["level"], "design_ref": c.get("design_ref", "DESIGN.md §3 " + pid)},
            "level_note": c.get("note", "") + (" " if c.get("note") else "") + TRUST,
        })
    missing = [p for p in props if p not in checks and p not in na]
    if missing:
        sys.exit("properties neither claimed nor declined: %s" % missing)
    m = {
        "version": 1,
        "setup_cmd": f"cd checker && env {ENV} go build -o ../bin/gokrb5lint .",
        "hooks": {
            "guard": "verif",
            "enable": "none needed: every check reads and type-checks the source of /repo/v8 (go/packages + go/ssa); nothing in gokrb5 is instrumented, the tag is reserved and unused",
            "baseline_off_cmd": "cd /repo/v8 && env GOFLAGS=-mod=mod GOPROXY=off go test -vet=off -count=1 ./...",
            "source_commits": [],
            "add_only": True,
        },
        "engines": [{
            "name": "gokrb5lint",
            "path": "checker/",
            "serves_properties": [c["property_id"] for c in out_checks],
            "kind_free_text": "repository-specific static analyser (Go, go/packages + go/types + go/ssa + VTA call graph): check-list/guard dominance (syntactic matcher with a scenario-evaluation fallback), provenance by access path, byte-placement analysis of assembled buffers, lockset, bounds obligations with a linear prover, write-through and package-state summaries, constant/tag tables vs RFC reference tables, taint, one syntax-tree rule; rebuilt by setup_cmd, loads /repo/v8's working tree on every run",
        }],
        "checks": out_checks,
        "not_applicable": [{"property_id": k, "reason": v} for k, v in sorted(na.items())],
        "notes": "All checks are static analyses (family: static analysis). Exit 0 = every obligation discharged or listed in known_findings.json (printed as KNOWN-FINDING); exit 1 + VIOLATION lines = an unlisted violation, including anchor-missing; exit 2 = the machinery itself failed (module does not load/type-check). 'fix:' commits in /repo repair genuine defects found by the rules; they are recorded under 'fixed' in known_findings.json and suppress nothing.",
    }
    with open(os.path.join(ROOT, "MANIFEST.json"), "w") as f:
        json.dump(m, f, indent=1)
        f.write("\n")
    print("wrote MANIFEST.json with", len(out_checks), "checks,", len(na), "not applicable")

if __name__ == "__main__":
    main()
