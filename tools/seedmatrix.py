#!/usr/bin/env python3
"""Renders /verif/seeded/*/*/meta.json as the markdown table of DESIGN.md §7.6 (between the
SEED-MATRIX markers) — which checks catch which seeded changes."""
import glob, json, os, re
rows = []
for mp in sorted(glob.glob("/verif/seeded/*/*/meta.json")):
    m = json.load(open(mp))
    sd = os.path.relpath(os.path.dirname(mp), "/verif/seeded")
    title = re.sub(r"^C\d+ seed \d+\s*[-—–:]\s*", "", m.get("title", "")).strip()
    det = m.get("detected_by") or []
    own = [d for d in det if d.startswith(m["property"] + ".")]
    other = [d for d in det if not d.startswith(m["property"] + ".")]
    verdict = ", ".join(own) if own else ("—" if not other else "(own check silent)")
    rows.append((sd, title[:110], verdict, ", ".join(other) or "", "yes" if det else "**missed**"))
out = ["| Seed | Change (author's title) | Rules of the property's own check | Rules of other checks | Caught |", "|---|---|---|---|---|"]
for r in rows:
    out.append("| %s | %s | %s | %s | %s |" % r)
n = len(rows); c = sum(1 for r in rows if r[4] == "yes")
out.append("")
out.append("%d of %d seeded changes are reported by at least one check; %d by the check of the property they were written against." % (c, n, sum(1 for r in rows if r[2] not in ("—", "(own check silent)"))))
txt = "\n".join(out)
p = "/verif/DESIGN.md"
s = open(p).read()
b, e = "<!-- SEED-MATRIX-BEGIN -->", "<!-- SEED-MATRIX-END -->"
if b in s and e in s:
    s = s[:s.index(b) + len(b)] + "\n" + txt + "\n" + s[s.index(e):]
    open(p, "w").write(s)
    print("DESIGN.md matrix updated: %d/%d caught" % (c, n))
else:
    print(txt)
