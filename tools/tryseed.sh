#!/bin/bash
# usage: tryseed.sh <seeddir-or-ID/n> <check-id>...  — apply a stored seed to a scratch copy (never /repo) and run checks on it
export GOFLAGS=-mod=mod GOPROXY=off GOSUMDB=off GOTOOLCHAIN=local; unset GOWORK
sd=$1; shift
[ -d "$sd" ] || sd=/verif/seeded/$sd
d=$(mktemp -d ${TMPDIR:-/tmp}/tryseedXXXX)
rsync -a --exclude .git ${SRC:-/repo/v8}/ $d/
( cd $d && patch -p2 -s --no-backup-if-mismatch < $sd/patch.diff && go build -trimpath ./... ) || { echo "apply/build failed"; rm -rf $d; exit 2; }
for p in "$@"; do
  /verif/bin/gokrb5lint check $p -noevidence -repo $d 2>&1 | grep -A2 "^violation" | cut -c1-400
done
rm -rf $d
