#!/usr/bin/env python3
"""redetect.py [ID/n ...]   (default: every stored seed)
Re-evaluates which rules of which checks report each stored seeded change, on a scratch copy of
/repo/v8 outside /repo and /verif (never touches /repo), and rewrites meta.json "detected_by".
The confirmation of the seed itself (suite passes, demo fails/passes) is not repeated."""
import glob, json, os, re, shutil, subprocess, sys, tempfile
env = dict(os.environ, GOFLAGS="-mod=mod", GOPROXY="off", GOSUMDB="off", GOTOOLCHAIN="local")
env.pop("GOWORK", None)
lint = "/verif/bin/gokrb5lint"
ids = subprocess.run([lint, "list"], capture_output=True, text=True).stdout.split()
seeds = sys.argv[1:] or sorted(os.path.relpath(os.path.dirname(p), "/verif/seeded") for p in glob.glob("/verif/seeded/*/*/meta.json"))
for sd in seeds:
    d = "/verif/seeded/" + sd
    tmp = tempfile.mkdtemp(prefix="redetect-", dir=os.environ.get("TMPDIR", "/tmp"))
    try:
        subprocess.run(["rsync", "-a", "--exclude", ".git", "/repo/v8/", tmp + "/"], check=True)
        r = subprocess.run(["patch", "-p2", "-s", "--no-backup-if-mismatch", "-i", d + "/patch.diff"], cwd=tmp, capture_output=True, text=True)
        if r.returncode:
            print(sd, "patch does not apply to the current tree; detected_by left as it is"); continue
        if subprocess.run(["go", "build", "./..."], cwd=tmp, env=env, capture_output=True).returncode:
            print(sd, "does not build on the current tree; detected_by left as it is"); continue
        det = []
        for p in ids:
            out = subprocess.run([lint, "check", p, "-noevidence", "-repo", tmp], capture_output=True, text=True, env=env).stdout
            for m in re.finditer(r"^violation: rule=(C\d+\.[A-Za-z0-9_-]+)", out, re.M):
                if m.group(1) not in det: det.append(m.group(1))
        m = json.load(open(d + "/meta.json"))
        old = m.get("detected_by")
        m["detected_by"] = det
        json.dump(m, open(d + "/meta.json", "w"), indent=1)
        print(sd, det, "(was %s)" % old if old != det else "")
    finally:
        shutil.rmtree(tmp, ignore_errors=True)
