#!/usr/bin/env python3
"""saveseed.py <PROP> <n> <srcdir>

Confirms a seeded change with tools/seedcheck.sh (scratch worktree outside /repo and /verif: the
change compiles, the pinned suite passes with it, the demonstration fails with it and passes without
it), runs every registered check against /repo with the change applied (and undoes it), and stores
the change as /verif/seeded/<PROP>/<n>/{patch.diff, demo_test.go, notes.md, meta.json}.
meta.json records what the change needs to manifest (from the author's notes), what was run and
which rules of which checks report it ("detected_by"; empty = missed)."""
import json, os, re, shutil, subprocess, sys

prop, n, src = sys.argv[1], sys.argv[2], sys.argv[3]
out = subprocess.run(["/verif/tools/seedcheck.sh", prop, src], capture_output=True, text=True).stdout
print(out)
def field(name):
    m = re.search(r"^" + name + r": (.*)$", out, re.M)
    return m.group(1).strip() if m else ""
suite = field("suite_with_change")
with_ = field("demo_with_change")
without = field("demo_without")
confirmed = suite == "pass" and ("FAIL" in with_) and with_.count("ok") == 0 and without.startswith("ok") or (suite == "pass" and "FAIL" in with_ and "ok" in without and "FAIL" not in without)
det = []
for m in re.finditer(r"^DETECTED by (C\d+) \(\d+\): (.*)$", out, re.M):
    for r in re.finditer(r"rule=(C\d+\.[A-Za-z0-9_-]+)", m.group(2)):
        if r.group(1) not in det:
            det.append(r.group(1))
notes = open(os.path.join(src, "notes.md")).read() if os.path.exists(os.path.join(src, "notes.md")) else ""
title = notes.splitlines()[0].lstrip("# ").strip() if notes else ""
def bullet(*keys):
    for k in keys:
        m = re.search(r"^[-*] \*{0,2}" + k + r"[^:]*:\*{0,2}\s*(.*?)(?=^\s*[-*] |\Z|^\s*$)", notes, re.M | re.S | re.I)
        if m:
            return " ".join(m.group(1).split())
    return ""
meta = {
    "property": prop,
    "seed": int(n),
    "title": title,
    "change": bullet("Change"),
    "breaks": bullet("Clause broken", "Breaks", "Clause"),
    "needs_to_manifest": bullet("Needs to manifest", "What it needs", "Needs"),
    "author": "fresh sub-agent given only the property text and a scratch worktree (see DESIGN.md, seeding)",
    "confirmation": {
        "ran": [
            "scratch worktree /tmp/wt_seedcheck at /repo HEAD: git apply patch.diff; go build ./...; go test -vet=off -count=1 ./... (pinned suite)",
            "demo copied next to the package as zz_seed_demo_test.go; go test -vet=off -count=1 -run 'Seed|seed|ZZ|Zz' . with the change, then with the change reverted",
            "git -C /repo apply patch.diff; bin/gokrb5lint check <every registered id> -noevidence; git -C /repo checkout -- .",
        ],
        "repo_head": subprocess.run(["git", "-C", "/repo", "rev-parse", "--short", "HEAD"], capture_output=True, text=True).stdout.strip(),
        "suite_with_change": suite,
        "demo_with_change": with_[:300],
        "demo_without_change": without[:300],
        "confirmed": bool(confirmed),
    },
    "detected_by": det,
}
if not confirmed:
    print("NOT CONFIRMED; not stored")
    sys.exit(1)
dst = f"/verif/seeded/{prop}/{n}"
os.makedirs(dst, exist_ok=True)
for f in os.listdir(src):
    if f.endswith(".go") or f in ("patch.diff", "notes.md"):
        shutil.copy(os.path.join(src, f), os.path.join(dst, f))
json.dump(meta, open(os.path.join(dst, "meta.json"), "w"), indent=1)
print("stored", dst, "detected_by", det)
