package main

func init() {
	addMutants(
		Mutant{"C19", "skip-verify-without-kdc-checksum", "pac/pac_type.go",
			"\tif ok, err := pac.verify(key); !ok {\n\t\treturn err\n\t}", "\tif pac.KDCChecksum == nil {\n\t\treturn nil\n\t}\n\tif ok, err := pac.verify(key); !ok {\n\t\treturn err\n\t}", "C19.signature"},
		Mutant{"C19", "verify-over-unzeroed-data", "pac/pac_type.go",
			"\t\tpac.ZeroSigData,\n\t\tpac.ServerChecksum.Signature,", "\t\tpac.Data,\n\t\tpac.ServerChecksum.Signature,", "C19.signature"},
		Mutant{"C19", "usage-16", "pac/pac_type.go",
			"keyusage.KERB_NON_KERB_CKSUM_SALT); !ok {", "keyusage.KERB_NON_KERB_SALT); !ok {", "C19.signature"},
		Mutant{"C19", "kdc-signature-as-server", "pac/pac_type.go",
			"\t\tpac.ZeroSigData,\n\t\tpac.ServerChecksum.Signature,", "\t\tpac.ZeroSigData,\n\t\tpac.KDCChecksum.Signature,", "C19.signature"},
		Mutant{"C19", "clientinfo-not-required", "pac/pac_type.go",
			"\tif pac.ClientInfo == nil {\n\t\treturn false, errors.New(\"PAC Info Buffers does not contain a ClientInfo\")\n\t}", "", "C19.signature"},
		Mutant{"C19", "zero-wrong-span", "pac/signature_data.go",
			"copy(rb[4:4+c], z)", "copy(rb[0:c], z)", "C19.zeroing"},
		Mutant{"C19", "kdc-signature-not-zeroed", "pac/pac_type.go",
			"\t\t\tcopy(pac.ZeroSigData[int(buf.Offset):int(buf.Offset)+int(buf.CBBufferSize)], zb)\n\t\t\tif err != nil {\n\t\t\t\treturn fmt.Errorf(\"error processing KDCChecksum: %v\", err)", "\t\t\t_ = zb\n\t\t\tif err != nil {\n\t\t\t\treturn fmt.Errorf(\"error processing KDCChecksum: %v\", err)", "C19.zeroing"},
		Mutant{"C19", "sha256-size-12", "pac/signature_data.go",
			"\tcase uint32(chksumtype.HMAC_SHA256_128_AES128):\n\t\tc = 16", "\tcase uint32(chksumtype.HMAC_SHA256_128_AES128):\n\t\tc = 12", "C19.sizes"},
		Mutant{"C19", "logofftime-from-logontime", "service/APExchange.go",
			"LogOffTime:          pac.KerbValidationInfo.LogOffTime.Time(),", "LogOffTime:          pac.KerbValidationInfo.LogOnTime.Time(),", "C19.report"},
		Mutant{"C19", "userid-from-primarygroup-basic-auth", "service/authenticator.go",
			"UserID:              int(pac.KerbValidationInfo.UserID),", "UserID:              int(pac.KerbValidationInfo.PrimaryGroupID),", "C19.report"},
		Mutant{"C19", "pac-key-lookup-kvno-0", "messages/Ticket.go",
			"\t\t\t\tkey, _, err := keytab.GetEncryptionKey(*sname, t.Realm, t.EncPart.KVNO, t.EncPart.EType)\n\t\t\t\tif err != nil {\n\t\t\t\t\treturn isPAC, p, NewKRBError", "\t\t\t\tkey, _, err := keytab.GetEncryptionKey(*sname, t.Realm, 0, t.EncPart.EType)\n\t\t\t\tif err != nil {\n\t\t\t\t\treturn isPAC, p, NewKRBError", "C19.signature"},
		Mutant{"C19", "processing-error-swallowed", "messages/Ticket.go",
			"\t\t\t\terr = p.ProcessPACInfoBuffers(key, l)\n\t\t\t\treturn isPAC, p, err", "\t\t\t\terr = p.ProcessPACInfoBuffers(key, l)\n\t\t\t\tif err != nil {\n\t\t\t\t\tl.Printf(\"PAC: %v\", err)\n\t\t\t\t}\n\t\t\t\treturn isPAC, p, nil", "C19.signature"},
	)
}
