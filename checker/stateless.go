package main

// Key derivation, encryption and checksum functions are functions of their arguments.
//
// "String-to-key depends on password, salt and parameters only", "a different key or usage gives
// an error", "the checksum equals the RFC value" all quantify over histories as well as over
// inputs: the answer to one call must not depend on earlier calls. On the pinned tree that is
// visible in the shape of the code: the crypto packages keep no package-level variable at all.
// The structural condition checked here: a function of the crypto packages touches package-level
// state only if that state is a constant (initialised once, never written afterwards), or a
// look-up table (map / sync.Map) whose key is a struct that carries every parameter of the
// function injectively (the parameter itself, string(bytes), the etype's id) — a memo table keyed
// like that returns what the function would compute. A table keyed by a digest, a checksum, a
// concatenation or a subset of the parameters makes the result depend on what was asked before.

import (
	"fmt"
	"go/token"
	"go/types"
	"sort"
	"strings"

	"golang.org/x/tools/go/ssa"
)

type globalUse struct {
	fn *ssa.Function
	in ssa.Instruction
}

// moduleGlobalWrites: for each module global, the functions outside package initialisers that may
// write it (store to it, or take its address for anything but a method call / load).
func (w *World) globalWriters() map[*ssa.Global][]string {
	if w.gWriters != nil {
		return w.gWriters
	}
	w.gWriters = map[*ssa.Global][]string{}
	for _, fn := range w.allFns {
		for _, b := range fn.Blocks {
			for _, in := range b.Instrs {
				if st, ok := in.(*ssa.Store); ok {
					if g, ok := st.Addr.(*ssa.Global); ok {
						w.gWriters[g] = append(w.gWriters[g], FuncKey(fn))
					}
				}
			}
		}
	}
	return w.gWriters
}

// tableWriters: where the contents of the map/slice global g may change outside package
// initialisers: a map update or delete, an element store, or the loaded value escaping to anything
// but a look-up, a range, an index read, len/cap, or a read-only library call. "" if nowhere.
func (w *World) tableWriters(g *ssa.Global) string {
	if w.tWriters == nil {
		w.tWriters = map[*ssa.Global]string{}
	} else if s, ok := w.tWriters[g]; ok {
		return s
	}
	res := ""
	var readOnly func(v ssa.Value, fn *ssa.Function, depth int) string
	readOnly = func(v ssa.Value, fn *ssa.Function, depth int) string {
		if v.Referrers() == nil || depth > 4 {
			return ""
		}
		for _, ref := range *v.Referrers() {
			where := FuncKey(fn) + " at " + w.Pos(InstrPos(ref))
			switch x := ref.(type) {
			case *ssa.Lookup, *ssa.Range, *ssa.DebugRef, *ssa.Index:
			case *ssa.Next:
			case *ssa.MapUpdate:
				if x.Map == v {
					return where
				}
			case *ssa.IndexAddr:
				// element address: reads only
				if x.Referrers() != nil {
					for _, r2 := range *x.Referrers() {
						switch y := r2.(type) {
						case *ssa.Store:
							if y.Addr == x {
								return where
							}
						case *ssa.UnOp, *ssa.DebugRef:
						default:
							// the element (a nested slice) is handed on: follow one level
							if val, ok := r2.(ssa.Value); ok {
								if s := readOnly(val, fn, depth+1); s != "" {
									return s
								}
							}
						}
					}
				}
			case *ssa.UnOp:
				if s := readOnly(x, fn, depth+1); s != "" {
					return s
				}
			case *ssa.Slice:
				if s := readOnly(x, fn, depth+1); s != "" {
					return s
				}
			case *ssa.Call:
				if bi, ok := x.Call.Value.(*ssa.Builtin); ok {
					switch bi.Name() {
					case "len", "cap":
						continue
					case "delete":
						return where
					case "copy", "append":
						if len(x.Call.Args) == 2 && x.Call.Args[1] == v && x.Call.Args[0] != v {
							continue
						}
						return where
					}
					return where
				}
				if f := x.Call.StaticCallee(); f != nil && f.Pkg != nil {
					switch f.Pkg.Pkg.Path() + "." + f.Name() {
					case "bytes.Equal", "bytes.Compare", "bytes.HasPrefix", "bytes.Contains", "crypto/hmac.Equal", "crypto/subtle.ConstantTimeCompare", "encoding/hex.EncodeToString", "sort.SearchInts":
						continue
					}
				}
				return where
			case *ssa.Phi:
				if s := readOnly(x, fn, depth+1); s != "" {
					return s
				}
			case *ssa.BinOp: // comparison with nil
			case *ssa.If:
			default:
				return where
			}
		}
		return ""
	}
	for _, fn := range w.allFns {
		if res != "" {
			break
		}
		for _, b := range fn.Blocks {
			for _, in := range b.Instrs {
				for _, op := range in.Operands(nil) {
					if *op != ssa.Value(g) {
						continue
					}
					switch x := in.(type) {
					case *ssa.UnOp:
						if s := readOnly(x, fn, 0); s != "" {
							res = s
						}
					case *ssa.Store:
						if x.Addr == ssa.Value(g) {
							res = FuncKey(fn) + " at " + w.Pos(InstrPos(in))
						}
					case *ssa.DebugRef:
					default:
						res = FuncKey(fn) + " at " + w.Pos(InstrPos(in))
					}
				}
			}
		}
	}
	w.tWriters[g] = res
	return res
}

func isTableType(t types.Type) (string, bool) {
	if p, ok := t.(*types.Pointer); ok {
		t = p.Elem()
	}
	if _, ok := t.Underlying().(*types.Map); ok {
		return "map", true
	}
	if n, ok := t.(*types.Named); ok && n.Obj().Pkg() != nil && n.Obj().Pkg().Path() == "sync" && n.Obj().Name() == "Map" {
		return "sync.Map", true
	}
	return "", false
}

// mutableGlobal: g is package-level state (not a constant).
func (w *World) mutableGlobal(g *ssa.Global) (bool, string) {
	if _, ok := w.globalConstBytes(g); ok {
		return false, ""
	}
	elem := g.Type().(*types.Pointer).Elem()
	if kind, ok := isTableType(elem); ok && kind == "sync.Map" {
		return true, kind
	}
	if wr := w.globalWriters()[g]; len(wr) > 0 {
		return true, "variable written by " + strings.Join(wr, ", ")
	}
	// a map or slice that is filled by the package initialiser and only read afterwards is a
	// constant table (a look-up table of weak keys, of checksum ids …), not state
	if kind, ok := isTableType(elem); ok {
		if wr := w.tableWriters(g); wr != "" {
			return true, kind + " written at " + wr
		}
		return false, ""
	}
	switch u := elem.Underlying().(type) {
	case *types.Slice:
		if wr := w.tableWriters(g); wr != "" {
			return true, "shared " + u.String() + " written at " + wr
		}
		return false, ""
	case *types.Chan:
		return true, "shared " + u.String()
	case *types.Pointer:
		// a pointer to a mutable object (a cache, a pool): state unless it is nil forever
		return true, "pointer to shared " + u.Elem().String()
	case *types.Struct:
		if n, ok := elem.(*types.Named); ok && n.Obj().Pkg() != nil && n.Obj().Pkg().Path() == "sync" {
			return true, "sync." + n.Obj().Name()
		}
	}
	return false, ""
}

// injectiveKey: key is a struct literal whose fields carry every parameter of fn injectively.
func injectiveKey(fa *FuncAn, key ssa.Value) (bool, string) {
	if mi, ok := key.(*ssa.MakeInterface); ok {
		key = mi.X
	}
	ld, ok := key.(*ssa.UnOp)
	if !ok || ld.Op != token.MUL {
		return false, "the key " + trunc(fa.R.R(key), 80) + " is not a struct of the function's parameters"
	}
	a, ok := ld.X.(*ssa.Alloc)
	if !ok || a.Referrers() == nil {
		return false, "the key is not a struct literal"
	}
	if _, isSt := a.Type().(*types.Pointer).Elem().Underlying().(*types.Struct); !isSt {
		return false, "the key is not a struct literal"
	}
	covered := map[*ssa.Parameter]bool{}
	for _, ref := range *a.Referrers() {
		fad, ok := ref.(*ssa.FieldAddr)
		if !ok || fad.Referrers() == nil {
			continue
		}
		for _, r2 := range *fad.Referrers() {
			st, ok := r2.(*ssa.Store)
			if !ok || st.Addr != fad {
				continue
			}
			v := st.Val
			for {
				if cv, ok := v.(*ssa.Convert); ok {
					// string(bytes), integer widening: injective
					v = cv.X
					continue
				}
				if ct, ok := v.(*ssa.ChangeType); ok {
					v = ct.X
					continue
				}
				break
			}
			switch x := v.(type) {
			case *ssa.Parameter:
				covered[x] = true
			case *ssa.Call:
				// e.GetETypeID(): the etype's identity
				if x.Call.IsInvoke() && x.Call.Method.Name() == "GetETypeID" {
					if p, ok := x.Call.Value.(*ssa.Parameter); ok {
						covered[p] = true
					}
				}
			}
		}
	}
	var missing []string
	for _, p := range fa.Fn.Params {
		if !covered[p] {
			missing = append(missing, p.Name())
		}
	}
	if len(missing) > 0 {
		return false, "the key does not carry the parameter(s) " + strings.Join(missing, ", ") + " themselves (a digest, a length or a concatenation does not identify them)"
	}
	return true, ""
}

func ruleStateless(w *World, c *Check, rule string) {
	ruleStatelessIn(w, c, rule, "crypto", "a crypto function")
}

// ruleStatelessIn: the same audit for package root (and its sub-packages).
func ruleStatelessIn(w *World, c *Check, rule, root, what string) {
	inCrypto := func(fn *ssa.Function) bool {
		if fn.Pkg == nil {
			return false
		}
		rp := relPkg(fn.Pkg.Pkg.Path())
		return rp == root || strings.HasPrefix(rp, root+"/")
	}
	// self-test: the classifier recognises the state the module is known to keep elsewhere
	control := false
	if sp := w.SSAPkgs["service"]; sp != nil {
		for _, m := range sp.Members {
			if g, ok := m.(*ssa.Global); ok && g.Name() == "replayCache" {
				if mut, _ := w.mutableGlobal(g); mut {
					control = true
				}
			}
		}
	}
	c.Decide(control, rule, "service", "classifier-control", "-", "the state classifier recognises service.replayCache as package-level state (positive control for a rule whose expected count is zero)", "service.replayCache was not recognised: the rule would pass vacuously")
	perPkg := map[string]int{}
	bad := map[string]bool{}
	for _, fn := range w.allFns {
		if !inCrypto(fn) {
			continue
		}
		pk := relPkg(fn.Pkg.Pkg.Path())
		perPkg[pk] += 0
		var fa *FuncAn
		for _, b := range fn.Blocks {
			for _, in := range b.Instrs {
				for _, op := range in.Operands(nil) {
					g, ok := (*op).(*ssa.Global)
					if !ok || g.Pkg == nil || !inModule(g.Pkg.Pkg.Path()) {
						continue
					}
					mut, kind := w.mutableGlobal(g)
					if !mut {
						continue
					}
					perPkg[pk]++
					if fa == nil {
						fa = NewFuncAn(w, fn)
					}
					gname := relPkg(g.Pkg.Pkg.Path()) + "." + g.Name()
					where := w.Pos(InstrPos(in))
					construct := "state " + gname
					desc := "package-level state touched by " + what + " is a memo table keyed by all of the function's parameters"
					var key ssa.Value
					switch x := in.(type) {
					case *ssa.Call:
						if f := x.Call.StaticCallee(); f != nil && f.Pkg != nil && f.Pkg.Pkg.Path() == "sync" && len(x.Call.Args) >= 2 && x.Call.Args[0] == ssa.Value(g) {
							switch f.Name() {
							case "Load", "Store", "LoadOrStore", "LoadAndDelete", "Delete", "Swap", "CompareAndSwap":
								key = x.Call.Args[1]
							}
						}
					case *ssa.UnOp:
						// m := *g followed by look-ups / updates of m
						if x.Op == token.MUL && x.Referrers() != nil {
							okAll := len(*x.Referrers()) > 0
							for _, r2 := range *x.Referrers() {
								switch y := r2.(type) {
								case *ssa.Lookup:
									key = y.Index
								case *ssa.MapUpdate:
									key = y.Key
								case *ssa.DebugRef:
								default:
									okAll = false
								}
							}
							if !okAll {
								key = nil
							}
						}
					}
					if key == nil {
						bad[pk] = true
						c.Fail(rule, FuncKey(fn), construct, where, desc, fmt.Sprintf("%s (%s) is used here other than as a look-up table: the result of the function can depend on earlier calls", gname, kind))
						continue
					}
					if ok, why := injectiveKey(fa, key); !ok {
						bad[pk] = true
						c.Fail(rule, FuncKey(fn), construct, where, desc, fmt.Sprintf("%s (%s): %s — two different inputs can share an entry, so the answer depends on which was seen first", gname, kind, why))
					} else {
						c.Ok(rule, FuncKey(fn), construct, where, desc)
					}
				}
			}
		}
	}
	pks := make([]string, 0, len(perPkg))
	for k := range perPkg {
		pks = append(pks, k)
	}
	sort.Strings(pks)
	for _, pk := range pks {
		if perPkg[pk] == 0 {
			c.Ok(rule, pk, "no-package-state", "-", "package "+pk+" keeps no package-level state: every function is a function of its arguments")
		}
	}
}
