package main

// Mutant corpus (thorough tier, and `gokrb5lint mutants`): realistic
// regressions as {file, unique old text, new text}. Each is applied to a
// scratch copy of the module outside /repo and /verif, must compile, and the
// property's rules must report it. Results go to the evidence; they never
// influence the exit code of a check (that is decided by the real tree only).

import (
	"bytes"
	"encoding/json"
	"fmt"
	"os"
	"os/exec"
	"path/filepath"
	"sort"
	"strings"
	"sync"
)

type Mutant struct {
	Prop string
	Name string
	File string // relative to the module root
	Old  string
	New  string
	Rule string // rule id expected to fire (substring of the violation key); "" = any
	// File "patch:<path>" names a unified diff (paths a/v8/…) applied instead of the Old→New edit:
	// the seeded changes kept under /verif/seeded (written by fresh sub-agents that saw only
	// the property text), replayed as a regression corpus.
}

// patchOf: a Mutant whose File is "patch:<path>" applies that diff.
func (m Mutant) patch() string { return strings.TrimPrefix(m.File, "patch:") }
func (m Mutant) isPatch() bool { return strings.HasPrefix(m.File, "patch:") }

const neutralRule = "(none: must stay silent)"

// neutralPatches lists /verif/neutral/<area>/<n>/patch.diff: behaviour-preserving refactorings
// written by sub-agents that were told nothing about the checks. Every check must stay silent on
// every one of them (replayed in the thorough tier; a "false-alarm" status is a defect of the check).
func neutralPatches(prop string) []Mutant {
	self, err := os.Executable()
	if err != nil {
		return nil
	}
	root := filepath.Join(filepath.Dir(filepath.Dir(self)), "neutral")
	ps, _ := filepath.Glob(filepath.Join(root, "*", "*", "patch.diff"))
	sort.Strings(ps)
	var out []Mutant
	for _, p := range ps {
		d := filepath.Dir(p)
		out = append(out, Mutant{Prop: prop, Name: "neutral-" + filepath.Base(filepath.Dir(d)) + "-" + filepath.Base(d), Rule: neutralRule, File: "patch:" + p})
	}
	return out
}

// seededMutants lists /verif/seeded/<prop>/<n>/patch.diff for the properties whose check is
// recorded as detecting it (meta.json "detected_by").
func seededMutants(prop string) []Mutant {
	self, err := os.Executable()
	if err != nil {
		return nil
	}
	root := filepath.Join(filepath.Dir(filepath.Dir(self)), "seeded")
	metas, _ := filepath.Glob(filepath.Join(root, "*", "*", "meta.json"))
	sort.Strings(metas)
	var out []Mutant
	for _, mp := range metas {
		raw, err := os.ReadFile(mp)
		if err != nil {
			continue
		}
		var meta struct {
			Property   string   `json:"property"`
			DetectedBy []string `json:"detected_by"`
		}
		if json.Unmarshal(raw, &meta) != nil {
			continue
		}
		d := filepath.Dir(mp)
		for _, by := range meta.DetectedBy {
			p, rule, _ := strings.Cut(by, ".")
			if prop != "" && p != prop {
				continue
			}
			out = append(out, Mutant{Prop: p, Name: "seeded-" + meta.Property + "-" + filepath.Base(d), Rule: strings.TrimSuffix(p+"."+rule, "."), File: "patch:" + filepath.Join(d, "patch.diff")})
		}
	}
	return out
}

var mutantTable []Mutant

func addMutants(ms ...Mutant) { mutantTable = append(mutantTable, ms...) }

func scratchBase() string {
	if d := os.Getenv("TMPDIR"); d != "" {
		return d
	}
	return "/tmp"
}

func runOneMutant(m Mutant, repo string, self string) MutantResult {
	res := MutantResult{Name: m.Name, Expected: m.Rule}
	var src []byte
	var err error
	if !m.isPatch() {
		src, err = os.ReadFile(filepath.Join(repo, m.File))
		if err != nil {
			res.Status, res.Detail = "skipped", "file missing"
			return res
		}
		if n := strings.Count(string(src), m.Old); n != 1 {
			res.Status, res.Detail = "skipped", fmt.Sprintf("old text occurs %d times in the tree under test", n)
			return res
		}
	}
	dir, err := os.MkdirTemp(scratchBase(), "gokrb5-mutant-")
	if err != nil {
		res.Status, res.Detail = "skipped", err.Error()
		return res
	}
	defer os.RemoveAll(dir)
	cp := exec.Command("rsync", "-a", "--exclude", ".git", repo+"/", dir+"/")
	if out, err := cp.CombinedOutput(); err != nil {
		res.Status, res.Detail = "skipped", "rsync: "+string(out)
		return res
	}
	if m.isPatch() {
		pc := exec.Command("patch", "-p2", "-s", "--no-backup-if-mismatch", "-i", m.patch())
		pc.Dir = dir
		if out, err := pc.CombinedOutput(); err != nil {
			res.Status, res.Detail = "skipped", "patch does not apply to the tree under test: "+trunc(string(out), 200)
			return res
		}
	} else {
		mut := strings.Replace(string(src), m.Old, m.New, 1)
		if err := os.WriteFile(filepath.Join(dir, m.File), []byte(mut), 0o644); err != nil {
			res.Status, res.Detail = "skipped", err.Error()
			return res
		}
	}
	// -trimpath: the scratch copies then share build-cache entries (without it every copy adds its own
	// full set of objects to the cache, which filled the disk once)
	env := append(os.Environ(), "GOFLAGS=-mod=mod -trimpath", "GOPROXY=off", "GOSUMDB=off", "GOTOOLCHAIN=local", "GOWORK=off")
	bld := exec.Command("go", "build", "./...")
	bld.Dir = dir
	bld.Env = env
	if out, err := bld.CombinedOutput(); err != nil {
		res.Status, res.Detail = "nocompile", trunc(string(out), 300)
		return res
	}
	chk := exec.Command(self, "check", m.Prop, "-tier", "quick", "-repo", dir, "-noevidence")
	chk.Env = env
	var buf bytes.Buffer
	chk.Stdout = &buf
	chk.Stderr = &buf
	err = chk.Run()
	out := buf.String()
	code := 0
	if ee, ok := err.(*exec.ExitError); ok {
		code = ee.ExitCode()
	} else if err != nil {
		res.Status, res.Detail = "skipped", err.Error()
		return res
	}
	if m.Rule == neutralRule {
		// a behaviour-preserving refactoring: the check must stay silent
		if code == 0 {
			res.Status, res.Detail = "silent", "no alarm on a behaviour-preserving refactoring"
			return res
		}
		res.Status = "false-alarm"
		for _, l := range strings.Split(out, "\n") {
			if strings.HasPrefix(l, "violation: rule=") {
				res.Detail = trunc(l, 200)
				break
			}
		}
		if code == 2 {
			res.Detail = "checker could not analyse the refactored tree: " + trunc(out, 200)
		}
		return res
	}
	if code == 1 && strings.Contains(out, "VIOLATION property="+m.Prop) {
		for _, l := range strings.Split(out, "\n") {
			if strings.HasPrefix(l, "violation: rule=") && strings.Contains(strings.SplitN(l, " ", 3)[1], m.Rule) {
				res.Status = "detected"
				res.Detail = trunc(l, 200)
				return res
			}
		}
		res.Status, res.Detail = "missed", "violation reported but not by rule "+m.Rule
		return res
	}
	res.Status = "missed"
	res.Detail = fmt.Sprintf("exit %d", code)
	if code == 2 {
		res.Detail += ": " + trunc(out, 300)
	}
	return res
}

func runMutants(prop, repo string) []MutantResult {
	self, err := os.Executable()
	if err != nil {
		return nil
	}
	var ms []Mutant
	for _, m := range mutantTable {
		if m.Prop == prop || prop == "" {
			ms = append(ms, m)
		}
	}
	ms = append(ms, seededMutants(prop)...)
	if prop != "" {
		ms = append(ms, neutralPatches(prop)...)
	}
	results := make([]MutantResult, len(ms))
	sem := make(chan struct{}, 6)
	var wg sync.WaitGroup
	for i := range ms {
		wg.Add(1)
		go func(i int) {
			defer wg.Done()
			sem <- struct{}{}
			defer func() { <-sem }()
			results[i] = runOneMutant(ms[i], repo, self)
			results[i].Name = ms[i].Prop + ":" + ms[i].Name
		}(i)
	}
	wg.Wait()
	sort.SliceStable(results, func(i, j int) bool { return results[i].Name < results[j].Name })
	for _, r := range results {
		if r.Status != "detected" && r.Status != "silent" {
			fmt.Printf("mutant %-60s %s %s\n", r.Name, r.Status, r.Detail)
		}
	}
	return results
}

func cmdMutants(args []string) int {
	prop := ""
	if len(args) > 0 {
		prop = args[0]
	}
	rs := runMutants(prop, "/repo/v8")
	det, miss, skip := 0, 0, 0
	for _, r := range rs {
		switch r.Status {
		case "silent":
			det++
		case "detected":
			det++
		case "missed":
			miss++
		default:
			skip++
		}
		fmt.Printf("%-70s %-9s %s\n", r.Name, r.Status, trunc(r.Detail, 140))
	}
	fmt.Printf("mutants: %d detected, %d missed, %d skipped/nocompile\n", det, miss, skip)
	return 0
}
