package main

// Results bound to variables of the wrong name.
//
// A function that hands back several values of one type (realm, authTime, endTime, renewTill, …)
// is consumed positionally: `realm, _, renewTill, _, _ := s.timeDetails()` compiles whichever slot
// the name is put in. Where the callee's results have names — declared result names, or the field /
// variable each return statement yields at that position — a variable that carries the name of a
// *different* result of the same type than the one it receives is a swapped slot. This is a
// syntactic rule over the type-checked syntax trees (names do not exist in SSA).

import (
	"go/ast"
	"go/types"
	"strings"
)

func resultNamesOf(w *World, fn *types.Func) []string {
	sig := fn.Type().(*types.Signature)
	n := sig.Results().Len()
	names := make([]string, n)
	declared := true
	for i := 0; i < n; i++ {
		names[i] = strings.ToLower(sig.Results().At(i).Name())
		if names[i] == "" || names[i] == "_" {
			declared = false
		}
	}
	if declared {
		return names
	}
	// from the return statements of the declaration
	var decl *ast.FuncDecl
	for _, p := range w.Pkgs {
		if p.Types != fn.Pkg() {
			continue
		}
		for _, f := range p.Syntax {
			for _, d := range f.Decls {
				if fd, ok := d.(*ast.FuncDecl); ok && p.TypesInfo.Defs[fd.Name] == types.Object(fn) {
					decl = fd
				}
			}
		}
	}
	if decl == nil || decl.Body == nil {
		return nil
	}
	out := make([]string, n)
	first := true
	ok := true
	ast.Inspect(decl.Body, func(nd ast.Node) bool {
		if _, isLit := nd.(*ast.FuncLit); isLit {
			return false
		}
		ret, isRet := nd.(*ast.ReturnStmt)
		if !isRet {
			return true
		}
		if len(ret.Results) != n {
			ok = false
			return true
		}
		for i, e := range ret.Results {
			name := ""
			switch x := e.(type) {
			case *ast.SelectorExpr:
				name = strings.ToLower(x.Sel.Name)
			case *ast.Ident:
				name = strings.ToLower(x.Name)
			}
			if first {
				out[i] = name
			} else if out[i] != name {
				out[i] = ""
			}
		}
		first = false
		return true
	})
	if !ok || first {
		return nil
	}
	return out
}

func ruleResultNames(w *World, c *Check, rule string) {
	checked := 0
	for _, p := range w.Pkgs {
		rp := relPkg(p.PkgPath)
		if strings.HasPrefix(rp, "examples") || strings.HasPrefix(rp, "test") {
			continue
		}
		for _, f := range p.Syntax {
			if strings.HasSuffix(w.Fset.Position(f.Pos()).Filename, "_test.go") {
				continue
			}
			ast.Inspect(f, func(nd ast.Node) bool {
				as, ok := nd.(*ast.AssignStmt)
				if !ok || len(as.Rhs) != 1 || len(as.Lhs) < 2 {
					return true
				}
				call, ok := as.Rhs[0].(*ast.CallExpr)
				if !ok {
					return true
				}
				var callee *types.Func
				switch fx := call.Fun.(type) {
				case *ast.Ident:
					callee, _ = p.TypesInfo.Uses[fx].(*types.Func)
				case *ast.SelectorExpr:
					callee, _ = p.TypesInfo.Uses[fx.Sel].(*types.Func)
				}
				if callee == nil || callee.Pkg() == nil || !inModule(callee.Pkg().Path()) {
					return true
				}
				names := resultNamesOf(w, callee)
				if names == nil || len(names) != len(as.Lhs) {
					return true
				}
				sig := callee.Type().(*types.Signature)
				checked++
				bad := ""
				for i, l := range as.Lhs {
					id, ok := l.(*ast.Ident)
					if !ok || id.Name == "_" {
						continue
					}
					ln := strings.ToLower(id.Name)
					if names[i] == ln || names[i] == "" {
						continue
					}
					for j, rn := range names {
						if j != i && rn != "" && rn == ln && types.Identical(sig.Results().At(i).Type(), sig.Results().At(j).Type()) {
							bad = id.Name + " receives result #" + itoa(i+1) + " (" + names[i] + ") of " + callee.Name() + ", whose result #" + itoa(j+1) + " is " + rn
						}
					}
				}
				where := w.Pos(as.Pos())
				key := rp + ":" + callee.Name()
				if bad != "" {
					c.Fail(rule, key, "result-names@"+enclosingFuncName(f, as), where, "each variable receives the result of its own name", bad)
				} else {
					c.Ok(rule, key, "result-names@"+enclosingFuncName(f, as), where, "each variable receives the result of its own name")
				}
				return true
			})
		}
	}
	_ = checked
}

func enclosingFuncName(f *ast.File, n ast.Node) string {
	name := "?"
	for _, d := range f.Decls {
		if fd, ok := d.(*ast.FuncDecl); ok && fd.Pos() <= n.Pos() && n.End() <= fd.End() {
			name = fd.Name.Name
			if fd.Recv != nil && len(fd.Recv.List) == 1 {
				switch t := fd.Recv.List[0].Type.(type) {
				case *ast.StarExpr:
					if id, ok := t.X.(*ast.Ident); ok {
						name = id.Name + "." + name
					}
				case *ast.Ident:
					name = t.Name + "." + name
				}
			}
		}
	}
	return name
}
