package main

func init() {
	addMutants(
		Mutant{"C16", "forwardable-stored-in-proxiable", "config/krb5conf.go", "\t\t\tl.Forwardable = v\n", "\t\t\tl.Proxiable = v\n", "C16.libdefaults"},
		Mutant{"C16", "noaddresses-parses-the-key", "config/krb5conf.go", "\t\tcase \"noaddresses\":\n\t\t\tv, err := parseBoolean(p[1])", "\t\tcase \"noaddresses\":\n\t\t\tv, err := parseBoolean(p[0])", "C16.libdefaults"},
		Mutant{"C16", "ticket-lifetime-error-ignored", "config/krb5conf.go", "\t\tcase \"ticket_lifetime\":\n\t\t\td, err := parseDuration(p[1])\n\t\t\tif err != nil {\n\t\t\t\treturn InvalidErrorf(\"libdefaults section line (%s): %v\", line, err)\n\t\t\t}", "\t\tcase \"ticket_lifetime\":\n\t\t\td, err := parseDuration(p[1])\n\t\t\tif err != nil {\n\t\t\t\td = 24 * time.Hour\n\t\t\t}", "C16.libdefaults"},
		Mutant{"C16", "renew-lifetime-key-misspelt", "config/krb5conf.go", "\t\tcase \"renew_lifetime\":", "\t\tcase \"renew_life\":", "C16.libdefaults"},
		Mutant{"C16", "permitted-ids-not-recomputed", "config/krb5conf.go", "\tl.PermittedEnctypeIDs = parseETypes(l.PermittedEnctypes, l.AllowWeakCrypto)\n\treturn nil", "\treturn nil", "C16.derived"},
		Mutant{"C16", "tgs-ids-from-tkt-names", "config/krb5conf.go", "\tl.DefaultTGSEnctypeIDs = parseETypes(l.DefaultTGSEnctypes, l.AllowWeakCrypto)\n\tl.DefaultTktEnctypeIDs = parseETypes(l.DefaultTktEnctypes, l.AllowWeakCrypto)\n\tl.PermittedEnctypeIDs = parseETypes(l.PermittedEnctypes, l.AllowWeakCrypto)\n\treturn nil", "\tl.DefaultTGSEnctypeIDs = parseETypes(l.DefaultTktEnctypes, l.AllowWeakCrypto)\n\tl.DefaultTktEnctypeIDs = parseETypes(l.DefaultTktEnctypes, l.AllowWeakCrypto)\n\tl.PermittedEnctypeIDs = parseETypes(l.PermittedEnctypes, l.AllowWeakCrypto)\n\treturn nil", "C16.derived"},
		Mutant{"C16", "kpasswd-shares-admin-final-flag", "config/krb5conf.go", "appendUntilFinal(&r.KPasswdServer, v, &kpasswdServerFinal)", "_ = kpasswdServerFinal\n\t\t\tappendUntilFinal(&r.KPasswdServer, v, &adminServerFinal)", "C16.realmkeys"},
		Mutant{"C16", "kdc-default-port-750", "config/krb5conf.go", "\t\t\t\t\tv = strings.TrimSpace(v) + \":88\"", "\t\t\t\t\tv = strings.TrimSpace(v) + \":750\"", "C16.realmkeys"},
		Mutant{"C16", "master-kdc-appended-to-kdc", "config/krb5conf.go", "appendUntilFinal(&r.MasterKDC, v, &masterKDCFinal)", "appendUntilFinal(&r.KDC, v, &masterKDCFinal)", "C16.realmkeys"},
		Mutant{"C16", "final-marker-kept", "config/krb5conf.go", "\t\t*final = true\n\t\tvalue = value[:len(value)-1]", "\t\t*final = true", "C16.realmkeys"},
		Mutant{"C16", "realms-error-swallowed", "config/krb5conf.go", "\t\t\t\t\treturn nil, fmt.Errorf(\"error processing realms section: %v\", err)\n", "\t\t\t\t\te = fmt.Errorf(\"error processing realms section: %v\", err)\n", "C16.errors"},
		Mutant{"C16", "unopened-close-accepted", "config/krb5conf.go", "\t\t\tif c < 1 {\n\t\t\t\t// but not started a block!!!", "\t\t\tif c < 0 {\n\t\t\t\t// but not started a block!!!", "C16.errors"},
		Mutant{"C16", "boolean-y-is-false", "config/krb5conf.go", "\tcase \"y\":\n\t\treturn true, nil", "\tcase \"y\":\n\t\treturn false, nil", "C16.boolean"},
		Mutant{"C16", "boolean-unknown-is-false-without-error", "config/krb5conf.go", "\treturn false, errors.New(\"invalid boolean value\")", "\treturn false, nil", "C16.boolean"},
		Mutant{"C16", "kdc-realm-prefix-match", "config/hosts.go", "\t\tif r.Realm != realm {\n\t\t\tcontinue\n\t\t}\n\t\tks = r.KDC", "\t\tif !strings.HasPrefix(r.Realm, realm) {\n\t\t\tcontinue\n\t\t}\n\t\tks = r.KDC", "C16.select"},
		Mutant{"C16", "kdc-count-of-master-list", "config/hosts.go", "\t\tks = r.KDC\n", "\t\tks = r.MasterKDC\n", "C16.select"},
		Mutant{"C16", "resolve-shortest-suffix-first", "config/krb5conf.go", "\tfor i := 2; i <= periods; i++ {", "\tfor i := periods; i >= 2; i-- {", "C16.resolve"},
		Mutant{"C16", "resolve-suffix-without-dot", "config/krb5conf.go", "c.DomainRealm[\".\"+z[len(z)-1]]", "c.DomainRealm[z[len(z)-1]]", "C16.resolve"},
		Mutant{"C16", "draw-refilled-with-first", "config/hosts.go", "\t\t\t\tks[len(ks)-1], ks[ri] = ks[ri], ks[len(ks)-1]", "\t\t\t\tks[0], ks[ri] = ks[ri], ks[0]", "C16.once"},
		Mutant{"C16", "draw-over-whole-list", "config/hosts.go", "\t\t\tri := rand.Intn(l)", "\t\t\tri := rand.Intn(count)", "C16.once"},
	)
}
