package main

// C12 — KDC exchange succeeds whenever some configured KDC and transport works.

import (
	"fmt"
	"go/token"
	"go/types"
	"strings"

	"golang.org/x/tools/go/ssa"
)

func init() {
	register(&Property{
		ID:      "C12",
		Run:     runC12,
		Explain: "Structure of the fail-over logic in client.(*Client).sendToKDC, dialSendUDP/TCP and sendTCP: (1) on every return with a nil error the bytes returned are, on every path and for every phi operand, the result of a sendKDCTCP/sendKDCUDP call whose error was tested nil on that path (catches results bound to a shadowed variable or zero-value operands); (2) transport order: udp_preference_limit 1 ⇒ TCP only; small requests UDP first with TCP tried on every UDP failure except a KRB-ERROR other than RESPONSE_TOO_BIG (52); large requests TCP first with UDP tried on every non-KRB-ERROR failure; (3) KRB-ERROR arms return the asserted KRBError itself; (4) the dial loops visit i = 1…len(kdcs), every failure continues with the next server, the only in-loop return is a success, the error after the loop is non-nil, SetDeadline precedes each send and the dial timeout is a finite constant; (5) TCP framing: 4-byte big-endian length of exactly the request, reply sized from the 4-byte big-endian header; (6) no recursion through sendToKDC. Added: the bytes written to the TCP connection are BE32(len(request)) ‖ request by placement (including hand-written shifts); order/fall-back rules follow per-strategy helpers; every transport attempt asserts its error to KRBError and returns it as such; a reply received in a dial loop is returned, not skipped; the UDP receive buffer has at least 4096 bytes.",
		NotDecided: []string{
			"socket-level behaviour per fault pattern (runtime); a short first read of the TCP length header (bare conn.Read) is printed as a note",
			"GetKDCs returns a permutation of the configured servers (value property; its mutation side effect is C11)",
		},
	})
}

const sendRe = `client\.\(\*Client\)\.sendKDC(TCP|UDP)`

// valueSources expands phis: each source value with the innermost edge that selects it.
type valSrc struct {
	v   ssa.Value
	via *Edge
}

func valueSources(v ssa.Value, via *Edge, seen map[ssa.Value]bool) []valSrc {
	if seen[v] {
		return nil
	}
	seen[v] = true
	if phi, ok := v.(*ssa.Phi); ok {
		var out []valSrc
		for i, e := range phi.Edges {
			p := phi.Block().Preds[i]
			var edge *Edge
			for k, s := range p.Succs {
				if s == phi.Block() {
					ee := Edge{p, k}
					edge = &ee
				}
			}
			out = append(out, valueSources(e, edge, seen)...)
		}
		return out
	}
	return []valSrc{{v, via}}
}

func runC12(w *World, c *Check) {
	c.Rule("C12.payload", "bytes returned with a nil error are the result of the send that succeeded on that path", 3)
	c.Rule("C12.order", "transport order and fall-back follow udp_preference_limit; KRB-ERROR stops the fall-back except RESPONSE_TOO_BIG on UDP", 5)
	c.Rule("C12.krberror", "a KRB-ERROR from a KDC is returned as that KRBError", 8)
	c.Rule("C12.loop", "dialSendUDP/TCP try every configured server: failures continue, only success returns inside the loop, bounded by len(kdcs), deadline before send and per connection", 14)
	c.Rule("C12.framing", "TCP request = 4-byte big-endian length ‖ request; reply buffer sized from the 4-byte big-endian header", 4)
	c.Rule("C12.every-kdc", "the list the send loops walk holds every configured server once: randServOrder draws among those that remain and removes exactly the drawn one", 5)
	c.Rule("C12.bounded", "no recursion through sendToKDC; sends per call are bounded by the two transports × configured servers", 1)

	fn := w.Func("client.(*Client).sendToKDC")
	if fn == nil {
		// role look-up: the callee of ASExchange that calls both transports
		for _, f := range w.ModuleFuncs() {
			fa := NewFuncAn(w, f)
			if len(fa.Calls(`client\.\(\*Client\)\.sendKDCTCP`)) > 0 && len(fa.Calls(`client\.\(\*Client\)\.sendKDCUDP`)) > 0 {
				fn = f
			}
		}
	}
	if fn == nil {
		c.Missing("C12.payload", "client.(*Client).sendToKDC")
		return
	}
	fa := NewFuncAn(w, fn)
	fk := FuncKey(fn)

	// ---- rule 1: payload provenance -------------------------------------------
	// The strategies may live in helpers extracted from sendToKDC (one per transport order): every
	// function below sendToKDC that calls the transports is a subject of the payload and KRB-ERROR rules.
	root := fa
	subjects := []*FuncAn{fa}
	for _, sub := range fa.withNewHelpers()[1:] {
		if len(sub.Calls(sendRe)) > 0 {
			subjects = append(subjects, NewFuncAn(w, sub.Fn))
		}
	}
	nOK := 0
	for _, fa := range subjects {
		fn := fa.Fn
		fk := fk
		if fa != root {
			fk = fk + "→" + FuncKey(fn)
		}
		for _, x := range fa.Exits() {
			rs := RetResults(x.Ret)
			if len(rs) != 2 {
				continue
			}
			if k, ok := rs[1].(*ssa.Const); !ok || k.Value != nil {
				continue // not a nil-error return
			}
			nOK++
			where := w.Pos(InstrPos(x.Ret))
			label := "success-return@" + fa.exitLabel(x)
			v := rs[0]
			// select the operand for this in-edge if v is a phi of the return block
			srcs := []valSrc{}
			if phi, ok := v.(*ssa.Phi); ok && x.In != nil && phi.Block() == x.Ret.Block() {
				for i, p := range phi.Block().Preds {
					if p == x.In.From {
						srcs = valueSources(phi.Edges[i], x.In, map[ssa.Value]bool{})
					}
				}
			} else {
				srcs = valueSources(v, x.In, map[ssa.Value]bool{})
			}
			good := len(srcs) > 0
			detail := ""
			for _, s := range srcs {
				ex, ok := s.v.(*ssa.Extract)
				var call *ssa.Call
				if ok && ex.Index == 0 {
					call, _ = ex.Tuple.(*ssa.Call)
				}
				if call == nil || !fullMatch(sendRe, fa.CalleeName(call)) {
					good = false
					detail = "a returned operand is " + fa.R.R(s.v) + ", not the result of a send (zero value or unrelated variable)"
					break
				}
				// the error of that call must have been tested nil on every path selecting this operand
				var errEx ssa.Value
				for _, ref := range *call.Referrers() {
					if e2, ok := ref.(*ssa.Extract); ok && e2.Index == 1 {
						errEx = e2
					}
				}
				var pass []Edge
				if errEx != nil {
					for _, cd := range fa.Conds {
						if cd.Kind != "eq" {
							continue
						}
						bo, ok := stripNot(cd.If.Cond).(*ssa.BinOp)
						if !ok {
							continue
						}
						if (bo.X == errEx && isNilConst(bo.Y)) || (bo.Y == errEx && isNilConst(bo.X)) {
							pass = append(pass, Edge{cd.If.Block(), cd.HoldsSucc})
						}
					}
				}
				if len(pass) == 0 {
					good = false
					detail = "the error of " + fa.RenderCall(call) + " at " + w.Pos(InstrPos(call)) + " is never tested"
					break
				}
				target := s.via
				if target == nil {
					target = x.In
				}
				rm := map[Edge]bool{}
				for _, e := range pass {
					rm[e] = true
				}
				var path []*ssa.BasicBlock
				if target == nil {
					path = pathTo(fn.Blocks[0], rm, nil, map[*ssa.BasicBlock]bool{x.Ret.Block(): true})
				} else {
					path = pathTo(fn.Blocks[0], rm, map[Edge]bool{*target: true}, nil)
				}
				if path != nil {
					good = false
					detail = fmt.Sprintf("the bytes of %s (called at %s) are returned with a nil error on a path on which that call's error was not nil: %s — the result of the send that succeeded is lost (bound to another variable)",
						fa.CalleeName(call), w.Pos(InstrPos(call)), fa.DescribePath(path))
					break
				}
			}
			c.Decide(good, "C12.payload", fk, label, where, "the bytes returned with a nil error come from the send whose error was nil on this path", detail)
		}
	}
	if nOK == 0 {
		c.Fail("C12.payload", fk, "success-returns", w.Pos(fn.Pos()), "sendToKDC has nil-error returns", "none found")
	}

	// ---- rule 2: transport order -------------------------------------------------
	lim := `recv\.Config\.LibDefaults\.UDPPreferenceLimit`
	tcpOnly := fa.MatchGuard(EqPass("1", lim))
	small := fa.MatchGuard(GuardPat{Kind: "gt", X: `len\(b\)`, Y: lim, PassWhen: false}) // edge on which len(b) <= limit
	where := w.Pos(fn.Pos())
	// a region: the code that handles one case of the selection — the blocks below an edge of
	// sendToKDC, or the body of the strategy helper that edge hands over to
	type region struct {
		fa    *FuncAn
		start *ssa.BasicBlock
	}
	resolve := func(e Edge) region {
		b := e.To()
		for steps := 0; steps < 6 && b != nil; steps++ {
			for _, in := range b.Instrs {
				call, ok := in.(*ssa.Call)
				if !ok {
					continue
				}
				if fullMatch(sendRe, fa.CalleeName(call)) {
					return region{fa, e.To()}
				}
				if g := call.Call.StaticCallee(); g != nil {
					for _, sfa := range subjects[1:] {
						if sfa.Fn == g {
							return region{sfa, g.Blocks[0]}
						}
					}
				}
			}
			if len(b.Succs) != 1 {
				break
			}
			b = b.Succs[0]
		}
		return region{fa, e.To()}
	}
	firstSend := func(r region) (string, *ssa.Call) {
		// first send call reached from the start of the region (straight-line walk)
		fa := r.fa
		b := r.start
		for steps := 0; steps < 6 && b != nil; steps++ {
			for _, in := range b.Instrs {
				if call, ok := in.(*ssa.Call); ok && fullMatch(sendRe, fa.CalleeName(call)) {
					return fa.CalleeName(call), call
				}
			}
			if len(b.Succs) != 1 {
				return "", nil
			}
			b = b.Succs[0]
		}
		return "", nil
	}
	if len(tcpOnly) != 1 || len(small) != 1 {
		c.Fail("C12.order", fk, "selectors", where, "the function branches on udp_preference_limit == 1 and on len(request) <= udp_preference_limit", "branches not found; conditions: "+trunc(fa.condSummary(), 400))
	} else {
		// region helpers
		reach := func(r region) map[*ssa.BasicBlock]bool {
			seen := map[*ssa.BasicBlock]bool{}
			st := []*ssa.BasicBlock{r.start}
			for len(st) > 0 {
				b := st[len(st)-1]
				st = st[:len(st)-1]
				if seen[b] {
					continue
				}
				seen[b] = true
				st = append(st, b.Succs...)
			}
			return seen
		}
		// (a) limit == 1: only TCP
		onlyTCP := true
		r1 := resolve(tcpOnly[0])
		for b := range reach(r1) {
			for _, in := range b.Instrs {
				if call, ok := in.(*ssa.Call); ok {
					if strings.HasSuffix(r1.fa.CalleeName(call), "sendKDCUDP") {
						onlyTCP = false
					}
					// a helper below the region that can reach the UDP transport
					if g := call.Call.StaticCallee(); g != nil && newHelper(g) && len(NewFuncAn(w, g).CallsDeep(`client\.\(\*Client\)\.sendKDCUDP`)) > 0 {
						onlyTCP = false
					}
				}
			}
		}
		n1, _ := firstSend(r1)
		c.Decide(onlyTCP && strings.HasSuffix(n1, "sendKDCTCP"), "C12.order", fk, "limit-1-tcp-only", where, "udp_preference_limit = 1 ⇒ only TCP is used", "UDP reachable / first send is "+n1)
		// (b) small: UDP first
		rS := resolve(small[0])
		nS, udpCall := firstSend(rS)
		c.Decide(strings.HasSuffix(nS, "sendKDCUDP"), "C12.order", fk, "small-udp-first", where, "requests not larger than the limit try UDP first", "first send is "+nS)
		// (c) large: TCP first
		rL := resolve(Edge{small[0].From, 1 - small[0].Succ})
		nL, tcpCall := firstSend(rL)
		c.Decide(strings.HasSuffix(nL, "sendKDCTCP"), "C12.order", fk, "large-tcp-first", where, "larger requests try TCP first", "first send is "+nL)
		// fall-backs
		fallback := func(name string, r region, first *ssa.Call, other string, allowKRBStop string) {
			fa := r.fa
			if first == nil {
				c.Fail("C12.order", fk, name, where, "fall-back to the other transport", "first send not found")
				return
			}
			errV := errExtract(first, 1)
			_, errEdges := nilTestEdges(fa, errV) // edges on which the first send failed
			if len(errEdges) == 0 {
				c.Fail("C12.order", fk, name, w.Pos(InstrPos(first)), "the first transport's error is tested", "no test of its error")
				return
			}
			blocked := blocksCalling(fa, func(n string, ci ssa.CallInstruction) bool { return strings.HasSuffix(n, other) })
			// legitimate stop: KRBError (ok) and, for UDP first, code != 52
			var stop []Edge
			okAssert, asserted := krbAssert(fa, errV)
			if allowKRBStop == "any" {
				stop = okAssert
			} else {
				stop = codeNot52Edges(fa, asserted)
				// the 52 test must itself be under the ok edge
				for _, e := range stop {
					if p := pathTo(errEdges[0].To(), edgeSet(okAssert), nil, map[*ssa.BasicBlock]bool{e.From: true}); p != nil {
						stop = nil
					}
				}
			}
			rm := map[Edge]bool{}
			for _, e := range stop {
				rm[e] = true
			}
			for b := range blocked {
				for k := range b.Succs {
					rm[Edge{b, k}] = true
				}
			}
			// from the failure edge, any return reached without the other transport and without the legitimate stop?
			tb := map[*ssa.BasicBlock]bool{}
			for _, x := range fa.Exits() {
				if !blocked[x.Ret.Block()] {
					tb[x.Ret.Block()] = true
				}
			}
			var bad []*ssa.BasicBlock
			for _, e := range errEdges {
				if blocked[e.To()] {
					continue
				}
				if p := pathTo(e.To(), rm, nil, tb); p != nil {
					// reaching a return *through a stop edge target* is excluded by rm; this is a real bypass
					bad = p
				}
			}
			desc := "after the first transport fails the other one is tried"
			if allowKRBStop == "any" {
				desc += ", unless the KDC answered with a KRB-ERROR"
			} else {
				desc += ", unless the KDC answered with a KRB-ERROR other than RESPONSE_TOO_BIG (52)"
			}
			c.Decide(bad == nil && len(stop) > 0, "C12.order", fk, name, w.Pos(InstrPos(first)), desc, "a failure path returns without trying "+other+": "+fa.DescribePath(bad))
		}
		fallback("small-fallback-tcp", rS, udpCall, "sendKDCTCP", "not52")
		fallback("large-fallback-udp", rL, tcpCall, "sendKDCUDP", "any")
	}

	// ---- rule 3: KRB-ERROR arms ---------------------------------------------------
	arms := 0
	for _, fa := range subjects {
		fk := fk
		if fa != root {
			fk = fk + "→" + FuncKey(fa.Fn)
		}
		for _, x := range fa.Exits() {
			fs := fa.factsOn(x.In)
			if len(fs) == 0 {
				continue
			}
			f := fs[0]
			var errTerm string
			if f.c.Kind == "bool" && f.holds {
				errTerm = regexpFind(`^(`+sendRe+`\(.*\)#1\.\(messages\.KRBError,ok\))#1$`, f.c.L)
			}
			if f.c.Kind == "eq" && !f.holds && (f.c.L == "52" || f.c.R == "52") {
				errTerm = regexpFind(`^(`+sendRe+`\(.*\)#1\.\(messages\.KRBError,ok\))#0\.ErrorCode$`, f.c.L+f.c.R[len(f.c.R):])
				if errTerm == "" {
					errTerm = regexpFind(`^(`+sendRe+`\(.*\)#1\.\(messages\.KRBError,ok\))#0\.ErrorCode$`, f.c.R)
				}
			}
			if errTerm == "" {
				continue
			}
			arms++
			es := fa.R.R(RetResults(x.Ret)[1])
			c.Decide(es == errTerm+"#0", "C12.krberror", fk, "arm:"+fa.exitLabel(x), w.Pos(InstrPos(x.Ret)), "the KRBError asserted from the transport's error is returned as the error", "returns "+trunc(es, 160))
		}
	}
	if arms == 0 {
		c.Fail("C12.krberror", fk, "arms", where, "sendToKDC has KRB-ERROR branches", "none found")
	}
	// every transport attempt, first or fall-back, looks at its error for a KRB-ERROR and hands it
	// back as such: the exchanges above recognise a KDC's error (PREAUTH_REQUIRED, WRONG_REALM …)
	// by its type, a KRB-ERROR wrapped into a plain error is treated as a network failure
	for _, fa := range subjects {
		for _, call := range fa.Calls(sendRe) {
			cv, _ := call.(*ssa.Call)
			if cv == nil {
				continue
			}
			errV := errExtract(cv, 1)
			okA, asserted := krbAssert(fa, errV)
			returned := false
			for _, x := range fa.Exits() {
				rs := RetResults(x.Ret)
				if len(rs) == 2 {
					for _, a := range asserted {
						if rs[1] == a {
							returned = true
						}
						if mi, isMI := rs[1].(*ssa.MakeInterface); isMI && (mi.X == a || fa.R.R(mi.X) == fa.R.R(a)) {
							returned = true // (the asserted value may sit in a local whose field is also read)
						}
					}
				}
			}
			c.Decide(errV != nil && len(okA) > 0 && returned, "C12.krberror", fk, fmt.Sprintf("typed:%s#%d", strings.TrimPrefix(fa.CalleeName(call), "client.(*Client)."), nthCall(fa, call)), w.Pos(InstrPos(call)), "a KRB-ERROR returned by this transport attempt is asserted and handed back as a KRBError", "the error of this send is never asserted to messages.KRBError and returned as such")
		}
	}
	// each KRBError assertion is applied to the error whose failure it handles: the operand is the
	// value of the nearest dominating `err != nil` test (identity: the UDP and TCP errors are
	// different values that a rendering by type cannot tell apart)
	for _, fa := range subjects {
		fn := fa.Fn
		fk := fk
		if fa != root {
			fk = fk + "→" + FuncKey(fn)
		}
		for _, b := range fn.Blocks {
			for _, in := range b.Instrs {
				ta, ok := in.(*ssa.TypeAssert)
				if !ok || !ta.CommaOk || !strings.HasSuffix(ta.AssertedType.String(), "messages.KRBError") {
					continue
				}
				var nearest ssa.Value
				for _, dc := range domConds(b) {
					bo, isB := dc.cond.(*ssa.BinOp)
					if !isB || (bo.Op != token.NEQ && bo.Op != token.EQL) || (bo.Op == token.NEQ) != dc.holds {
						continue
					}
					for _, pair := range [][2]ssa.Value{{bo.X, bo.Y}, {bo.Y, bo.X}} {
						if cn, isC := pair[1].(*ssa.Const); isC && cn.Value == nil && types.Identical(pair[0].Type(), ta.X.Type()) {
							nearest = pair[0]
						}
					}
					if nearest != nil {
						break
					}
				}
				c.Decide(nearest != nil && nearest == ta.X, "C12.krberror", fk, "assert-own-error:"+fa.R.R(ta.X), w.Pos(InstrPos(ta)),
					"the error inspected for a KRB-ERROR is the one whose failure this branch handles (the nearest dominating err != nil test)",
					"asserts "+trunc(fa.R.R(ta.X), 100)+" under the failure test of "+func() string {
						if nearest == nil {
							return "no error"
						}
						return trunc(fa.R.R(nearest), 100)
					}())
			}
		}
	}

	// ---- rule 4: the dial loops ------------------------------------------------------
	for _, lk := range []struct{ fk, proto, send string }{{"client.dialSendUDP", "udp", `client\.sendUDP`}, {"client.dialSendTCP", "tcp", `client\.sendTCP`}} {
		lf := w.Func(lk.fk)
		if lf == nil {
			c.Missing("C12.loop", lk.fk)
			continue
		}
		la := NewFuncAn(w, lf)
		lw := w.Pos(lf.Pos())
		// the loop may live in a helper introduced later and shared by both transports, which is
		// given the network name and the send step (a literal that only forwards to sendUDP/TCP):
		// the rule then reads the helper with this function's arguments
		if len(la.Calls(lk.send)) == 0 {
			if h, args, ok := sharedDialLoop(la, lk.send); ok {
				la = NewFuncAnCtx(w, h, args)
				lf = h
				lk.send = `dyn:` + lk.send
			}
		}
		// loop bound: $L > len(kdcs) exits; $L starts at 1 and is incremented by 1
		var hdr *ssa.BasicBlock
		var idx *ssa.Phi
		for _, cd := range la.Conds {
			if cd.Kind == "gt" && la.M(`len\(kdcs\)`, cd.R) && strings.HasPrefix(cd.L, "$L") {
				hdr = cd.If.Block()
				bo := stripNot(cd.If.Cond).(*ssa.BinOp)
				if p, ok := bo.X.(*ssa.Phi); ok {
					idx = p
				} else if p, ok := bo.Y.(*ssa.Phi); ok {
					idx = p
				}
			}
		}
		if hdr == nil || idx == nil {
			c.Fail("C12.loop", lk.fk, "bound", lw, "the loop runs while i <= len(kdcs)", "loop condition not found; conditions: "+trunc(la.condSummary(), 300))
			continue
		}
		def := la.R.PhiDef(idx)
		sym := la.R.R(idx)
		inc := map[string]bool{"(1 + " + sym + ")": true, "(" + sym + " + 1)": true}
		okIdx := len(def) == 2 && ((def[0] == "1" && inc[def[1]]) || (def[1] == "1" && inc[def[0]]))
		c.Decide(okIdx, "C12.loop", lk.fk, "index", lw, "the server index starts at 1 and advances by 1 (GetKDCs numbers servers from 1)", fmt.Sprintf("index is φ%v", def))
		// dial with a constant timeout to kdcs[i]
		checkCallsFA(c, "C12.loop", la, []CallSpec{
			{Name: "dial", Desc: "each server is dialled with a finite constant timeout", Callee: `net\.DialTimeout`, Want: `net\.DialTimeout\("` + lk.proto + `", kdcs\[` + q(sym) + `\], [1-9][0-9]*\)`},
		})
		// deadline before send
		sends := la.Calls(lk.send)
		dl := la.Calls(`net\.Conn\.SetDeadline`)
		okDL := len(sends) == 1 && len(dl) == 1
		if okDL {
			pass := la.MatchGuard(EqPass("nil", `net\.Conn\.SetDeadline\(.*\)`))
			okDL = len(pass) > 0 && la.PathToInstrAvoiding(pass, sends[0]) == nil
		}
		// a reply that was received is the answer: from the edge on which the send succeeded the
		// function returns it — it does not go round the loop again (whatever the reply says is for
		// the exchange above to decide; dropping it here loses a KRB-ERROR's code)
		if len(sends) == 1 {
			sv, _ := sends[0].(*ssa.Call)
			okRet := false
			detail := "no test of the send's error"
			if sv != nil {
				errV := errExtract(sv, 1)
				nilEdges, _ := nilTestEdges(la, errV)
				if len(nilEdges) > 0 {
					okRet = true
					for _, e := range nilEdges {
						// can the loop header be reached again from the success edge?
						seen := map[*ssa.BasicBlock]bool{}
						st := []*ssa.BasicBlock{e.To()}
						for len(st) > 0 {
							nb := st[len(st)-1]
							st = st[:len(st)-1]
							if seen[nb] {
								continue
							}
							seen[nb] = true
							if nb == hdr {
								okRet = false
								detail = "after a successful send the loop can continue with the next server: the reply is dropped"
							}
							st = append(st, nb.Succs...)
						}
					}
				}
			}
			c.Decide(okRet, "C12.loop", lk.fk, "reply-returned", lw, "a reply received from a server is returned, not skipped", detail)
		}
		c.Decide(okDL, "C12.loop", lk.fk, "deadline-before-send", lw, "a deadline is set (and its error checked) before every send, so a silent server cannot block", "SetDeadline does not dominate the send")
		// the deadline is taken per connection: the clock is read inside the loop, so a server that
		// used up its time does not eat into the next one's
		okPer := false
		if len(dl) == 1 {
			arg := dl[0].Common().Args[0]
			seen := map[ssa.Value]bool{}
			var nowIn func(v ssa.Value, depth int) bool
			nowIn = func(v ssa.Value, depth int) bool {
				if depth > 6 || seen[v] {
					return false
				}
				seen[v] = true
				if call, isCall := v.(*ssa.Call); isCall {
					if f := call.Call.StaticCallee(); f != nil && calleeName(f) == "time.Now" {
						return loopHeaderOf(call.Block()) == hdr
					}
					for _, a := range call.Call.Args {
						if nowIn(a, depth+1) {
							return true
						}
					}
				}
				return false
			}
			okPer = nowIn(arg, 0)
		}
		c.Decide(okPer, "C12.loop", lk.fk, "deadline-per-connection", lw, "the deadline of each connection is computed from the clock inside the loop", "the SetDeadline argument does not derive from a time.Now() call made inside the loop (one deadline shared by all servers?)")
		// in-loop returns: only on send success
		for _, x := range la.Exits() {
			inLoop := loopHeaderOf(x.Ret.Block()) == hdr || (x.In != nil && loopHeaderOf(x.In.From) == hdr && x.In.From != hdr)
			rs := RetResults(x.Ret)
			es := la.R.R(rs[1])
			if inLoop {
				good := es == "nil" && fullMatch(lk.send+`\(.*\)#0`, la.R.R(rs[0]))
				if good {
					pass := la.MatchGuard(EqPass("nil", lk.send+`\(.*\)#1`))
					good = len(pass) > 0 && la.PathAvoiding(pass, []Exit{x}) == nil
				}
				c.Decide(good, "C12.loop", lk.fk, "in-loop-return@"+la.exitLabel(x), w.Pos(InstrPos(x.Ret)), "the only return inside the loop is the successful send's result", "returns "+trunc(la.R.R(rs[0]), 80)+" , "+trunc(es, 80))
			} else {
				c.Decide(la.knownNonNilErr(rs[1], x.In), "C12.loop", lk.fk, "after-loop-error", w.Pos(InstrPos(x.Ret)), "when no server worked the function returns a non-nil error", "returns error "+trunc(es, 80))
			}
		}
		// every failure edge continues with the next server (reaches the header again without returning)
		for _, pat := range []string{`net\.DialTimeout\(.*\)#1`, `net\.Conn\.SetDeadline\(.*\)`, lk.send + `\(.*\)#1`} {
			fails := la.MatchGuard(NePass("nil", pat))
			name := "failure-continues:" + strings.ReplaceAll(strings.SplitN(pat, `\(`, 2)[0], `\`, "")
			if len(fails) == 0 {
				c.Fail("C12.loop", lk.fk, name, lw, "a failing step moves on to the next server", "the step's error is not tested")
				continue
			}
			good := true
			for _, e := range fails {
				// from the failure edge, following the straight line, we must come back to the header
				b := e.To()
				for steps := 0; steps < 8 && b != hdr; steps++ {
					if len(b.Succs) != 1 {
						good = false
						break
					}
					b = b.Succs[0]
				}
				if b != hdr {
					good = false
				}
			}
			c.Decide(good, "C12.loop", lk.fk, name, w.Pos(InstrPos(lastInstr(fails[0].From))), "a failing step moves on to the next server (continue)", "the failure edge does not lead back to the loop head (it returns or breaks)")
		}
	}

	// ---- rule 5: TCP framing ------------------------------------------------------------
	if tf := w.Func("client.sendTCP"); tf == nil {
		c.Missing("C12.framing", "client.sendTCP")
	} else {
		ta0 := NewFuncAn(w, tf)
		tw := w.Pos(tf.Pos())
		// Sending: what goes to the connection's Write is BE32(len(request)) at 0:4 followed by the
		// request — read off the placements of the written buffer, whatever assembles it and
		// wherever (in sendTCP or in a helper extracted from it).
		var wrs []string
		okWr, nConnWrite := false, 0
		reqName := substParams(tf, "b")
		for _, dc := range ta0.CallsDeep(`.*\.Write`) {
			cm := dc.ci.Common()
			if len(cm.Args) == 0 || strings.Contains(dc.fa.CalleeName(dc.ci), "Buffer") {
				continue
			}
			nConnWrite++
			ps, total := dc.fa.BufferPlaces(cm.Args[len(cm.Args)-1])
			wrs = append(wrs, placesString(ps)+" (length "+total+")")
			if len(ps) == 2 && fullMatch(`BE32\((?:uint32\()?len\(`+q(reqName)+`\)\)?\)@0:4`, ps[0].String()) && ps[1].What == reqName && ps[1].Off == "4" && total == "4+len("+reqName+")" {
				okWr = true
			} else {
				okWr = false
				break
			}
		}
		c.Decide(okWr && nConnWrite >= 1, "C12.framing", "client.sendTCP", "length-prefix", tw, "the length header is the big-endian uint32 length of the request in a 4-byte buffer (RFC 4120 §7.2.2)", fmt.Sprintf("written: %v", wrs))
		c.Decide(okWr && nConnWrite >= 1, "C12.framing", "client.sendTCP", "header-then-request", tw, "what is written is that header followed by exactly the request bytes", fmt.Sprintf("written: %v", wrs))
		// Receiving: the calls may live in a helper; they are related by SSA identity inside it
		u32d := ta0.CallsDeep(`.*[bB]igEndian.*\.Uint32`)
		rdd := ta0.CallsDeep(`.*\.Read`)
		rfd := ta0.CallsDeep(`io\.ReadFull`)
		cnd := ta0.CallsDeep(`io\.CopyN`)
		rctx := ta0
		if len(u32d) == 1 {
			rctx = u32d[0].fa
		}
		cis := func(ds []deepCall) []ssa.CallInstruction {
			var out []ssa.CallInstruction
			for _, d := range ds {
				if d.fa.Fn == rctx.Fn {
					out = append(out, d.ci)
				}
			}
			return out
		}
		u32, rd, rf, cn := cis(u32d), cis(rdd), cis(rfd), cis(cnd)
		is4 := func(v ssa.Value) bool {
			return fullMatch(`local<\[4\]byte>(#\d+)?\[:4\]|make\(\[\]byte, 4\)`, rctx.R.R(v))
		}
		lastArg := func(ci ssa.CallInstruction, i int) ssa.Value {
			a := ci.Common().Args
			return a[len(a)-i]
		}
		okLen := len(u32) == 1 && len(u32d) == 1 && is4(lastArg(u32[0], 1))
		if okLen {
			// the buffer decoded is the one a Read filled
			buf := stripSlice(lastArg(u32[0], 1))
			filled := false
			for _, ci := range rd {
				if stripSlice(lastArg(ci, 1)) == buf {
					filled = true
				}
			}
			okLen = filled
		}
		// the hand-written form: the count is b[0]<<24|…|b[3] of the 4 bytes a Read filled (rendered
		// as the same Uint32 call by the renderer; there is no call to relate by identity, the value
		// that is decoded *is* the count)
		manualCount := false
		if !okLen && len(u32d) == 0 {
			var counts []ssa.Value
			for _, d := range cnd {
				counts = append(counts, d.ci.Common().Args[2])
				rctx = d.fa
			}
			for _, v := range counts {
				for {
					cv, isConv := v.(*ssa.Convert)
					if !isConv {
						break
					}
					v = cv.X
				}
				m := regexpFind(`^encoding/binary\.\(bigEndian\)\.Uint32\(encoding/binary\.BigEndian, (.*)\)$`, rctx.R.R(v))
				if m == "" || !fullMatch(`local<\[4\]byte>(#\d+)?\[:4\]|make\(\[\]byte, 4\)`, m) {
					continue
				}
				for _, d := range rdd {
					if d.fa.Fn == rctx.Fn && d.fa.R.R(stripSlice(lastArg(d.ci, 1))) == strings.TrimSuffix(m, "[:4]") || d.fa.R.R(lastArg(d.ci, 1)) == m {
						okLen, manualCount = true, true
					}
				}
			}
			if manualCount {
				cn = cis(cnd)
			}
		}
		c.Decide(okLen, "C12.framing", "client.sendTCP", "reply-length", tw, "the reply length is the big-endian uint32 of the 4 bytes read from the connection", fmt.Sprintf("Uint32 calls: %v", renderCalls(rctx, u32)))
		connRe := `(conn|@0)`
		okRF := len(rf) == 1 && len(rfd) == 1 && fullMatch(`io\.ReadFull\(`+connRe+`, make\(\[\]byte, .*Uint32\(.*\)\)\)`, rctx.RenderCall(rf[0]))
		if !okRF && len(rf) == 0 && len(cn) == 1 && len(cnd) == 1 {
			// the equivalent that does not pre-allocate: exactly that many bytes copied from the connection into a buffer whose bytes are returned
			okRF = fullMatch(`io\.CopyN\(local<bytes\.Buffer>(#\d+)?, `+connRe+`, .*Uint32\(.*\)\)`, rctx.RenderCall(cn[0]))
			// the count is the decoded length itself (identity), not an expression over it
			if okRF && manualCount {
				// established above: the count argument is the decoded value
			} else if okRF && len(u32) == 1 {
				n := cn[0].Common().Args[2]
				for {
					cv, isConv := n.(*ssa.Convert)
					if !isConv {
						break
					}
					n = cv.X
				}
				okRF = n == u32[0].Value()
			}
			ret := false
			for _, rs := range rctx.returnsOf() {
				if len(rs) == 2 && rs[1] == "nil" && fullMatch(`bytes\.\(\*Buffer\)\.Bytes\(local<bytes\.Buffer>(#\d+)?\)`, rs[0]) {
					ret = true
				}
			}
			if ret && rctx.Fn != tf {
				// … and the anchor hands back the helper's bytes
				ret = false
				for _, rs := range ta0.returnsOf() {
					if len(rs) == 2 && rs[1] == "nil" && fullMatch(`bytes\.\(\*Buffer\)\.Bytes\(local<bytes\.Buffer>(#\d+)?\)`, rs[0]) {
						ret = true
					}
				}
			}
			okRF = okRF && ret
		}
		c.Decide(okRF, "C12.framing", "client.sendTCP", "reply-read-full", tw, "exactly the announced number of bytes is read from the connection (io.ReadFull into a buffer of that length, or io.CopyN of that length) and those bytes are what is returned", fmt.Sprintf("ReadFull calls: %v; CopyN calls: %v", renderCalls(rctx, rf), renderCalls(rctx, cn)))
		ta := NewFuncAn(w, tf)
		for _, ci := range ta.Calls(`.*\.Read`) {
			if !strings.Contains(ta.CalleeName(ci), "ReadFull") {
				c.Note("C12.framing", "client.sendTCP", "bare-read", w.Pos(InstrPos(ci)), "the 4-byte length header is read with a bare Read (a short first read would desynchronise the framing; whether it can happen is a transport question)")
			}
		}
	}

	// ---- UDP: the datagram read must have room for a KDC's reply ---------------------------------
	// A datagram longer than the buffer is cut without an error, and a cut reply is neither the KDC's
	// answer nor a reason to retry over TCP. The tree reads into 4096 bytes (what KDCs send at most
	// over UDP before answering "response too big"); the request-size limit (udp_preference_limit,
	// 1465) is not a bound on replies.
	if uf := w.Func("client.sendUDP"); uf == nil {
		c.Missing("C12.framing", "client.sendUDP")
	} else {
		ua := NewFuncAn(w, uf)
		n, small := 0, ""
		bc := newBoundsCtx(w, uf)
		for _, dc := range ua.CallsDeep(`net\.\(\*UDPConn\)\.(ReadFrom|Read|ReadFromUDP)`) {
			args := dc.ci.Common().Args
			if len(args) < 2 {
				continue
			}
			n++
			lbc := bc
			if dc.fa.Fn != uf {
				lbc = newBoundsCtx(w, dc.fa.Fn)
			}
			l := lbc.lenLin(args[1], 0)
			if !l.isConst() || l.k < 4096 {
				small = fmt.Sprintf("%s reads into %s", w.Pos(InstrPos(dc.ci)), dc.fa.R.R(args[1]))
			}
		}
		c.Decide(n >= 1 && small == "", "C12.framing", "client.sendUDP", "udp-receive-buffer", w.Pos(uf.Pos()), "the UDP reply is read into a buffer of at least 4096 bytes", small)
	}

	// ---- rule 6: no recursion ---------------------------------------------------------
	cg := w.CallGraph()
	seen := map[*ssa.Function]bool{}
	var st []*ssa.Function
	rec := false
	if n := cg.Nodes[fn]; n != nil {
		for _, e := range n.Out {
			st = append(st, e.Callee.Func)
		}
	}
	for len(st) > 0 {
		f := st[len(st)-1]
		st = st[:len(st)-1]
		if f == fn {
			rec = true
			break
		}
		if seen[f] || f.Pkg == nil || !inModule(f.Pkg.Pkg.Path()) {
			continue
		}
		seen[f] = true
		if n := cg.Nodes[f]; n != nil {
			for _, e := range n.Out {
				st = append(st, e.Callee.Func)
			}
		}
	}
	c.Decide(!rec, "C12.bounded", fk, "no-recursion", where, "sendToKDC is not reachable from itself: at most one pass over each transport per call", "sendToKDC can reach itself through the call graph")
	ruleDrawRemove(w, c, "C12.every-kdc")
}

func isNilConst(v ssa.Value) bool {
	k, ok := v.(*ssa.Const)
	return ok && k.Value == nil
}

func edgeSet(es []Edge) map[Edge]bool {
	m := map[Edge]bool{}
	for _, e := range es {
		m[e] = true
	}
	return m
}

// errExtract returns the error result (#idx) extract of a call.
func errExtract(call *ssa.Call, idx int) ssa.Value {
	if call.Referrers() == nil {
		return nil
	}
	for _, ref := range *call.Referrers() {
		if e, ok := ref.(*ssa.Extract); ok && e.Index == idx {
			return e
		}
	}
	return nil
}

// nilTestEdges: the edges on which value v (an error) is nil / non-nil, by SSA identity.
func nilTestEdges(fa *FuncAn, v ssa.Value) (isNil, nonNil []Edge) {
	if v == nil {
		return
	}
	for _, cd := range fa.Conds {
		if cd.Kind != "eq" {
			continue
		}
		bo, ok := stripNot(cd.If.Cond).(*ssa.BinOp)
		if !ok {
			continue
		}
		if (bo.X == v && isNilConst(bo.Y)) || (bo.Y == v && isNilConst(bo.X)) {
			isNil = append(isNil, Edge{cd.If.Block(), cd.HoldsSucc})
			nonNil = append(nonNil, Edge{cd.If.Block(), 1 - cd.HoldsSucc})
		}
	}
	return
}

// krbAssert finds `e, ok := v.(messages.KRBError)`: the ok-true edges and the asserted value.
func krbAssert(fa *FuncAn, v ssa.Value) (okEdges []Edge, asserted []ssa.Value) {
	if v == nil || v.Referrers() == nil {
		return
	}
	for _, ref := range *v.Referrers() {
		ta, ok := ref.(*ssa.TypeAssert)
		if !ok || !ta.CommaOk || !strings.HasSuffix(ta.AssertedType.String(), "messages.KRBError") {
			continue
		}
		okV := errExtractTA(ta, 1)
		if e0 := errExtractTA(ta, 0); e0 != nil {
			asserted = append(asserted, e0)
		}
		for _, cd := range fa.Conds {
			if cd.Kind == "bool" && stripNot(cd.If.Cond) == okV {
				okEdges = append(okEdges, Edge{cd.If.Block(), cd.HoldsSucc})
			}
		}
	}
	return
}

func errExtractTA(ta *ssa.TypeAssert, idx int) ssa.Value {
	if ta.Referrers() == nil {
		return nil
	}
	for _, ref := range *ta.Referrers() {
		if e, ok := ref.(*ssa.Extract); ok && e.Index == idx {
			return e
		}
	}
	return nil
}

// codeNot52Edges: edges on which the asserted KRBError's ErrorCode != 52.
func codeNot52Edges(fa *FuncAn, asserted []ssa.Value) []Edge {
	var out []Edge
	for _, cd := range fa.Conds {
		if cd.Kind != "eq" || !(cd.L == "52" || cd.R == "52") {
			continue
		}
		other := cd.L
		if cd.L == "52" {
			other = cd.R
		}
		for _, a := range asserted {
			if other == fa.R.R(a)+".ErrorCode" {
				// identity of the asserted value: the load must derive from it
				bo, _ := stripNot(cd.If.Cond).(*ssa.BinOp)
				if bo != nil && (derivesFrom(bo.X, a) || derivesFrom(bo.Y, a)) {
					out = append(out, Edge{cd.If.Block(), 1 - cd.HoldsSucc})
				}
			}
		}
	}
	return out
}

// derivesFrom: v is a load/field of value a (possibly through a spill alloc).
func derivesFrom(v, a ssa.Value) bool {
	for depth := 0; depth < 6 && v != nil; depth++ {
		if v == a {
			return true
		}
		switch x := v.(type) {
		case *ssa.UnOp:
			v = x.X
		case *ssa.FieldAddr:
			v = x.X
		case *ssa.Field:
			v = x.X
		case *ssa.Alloc:
			if st := uniqueStoreInstr(x); st != nil {
				v = st.Val
			} else {
				return false
			}
		default:
			return false
		}
	}
	return false
}

// nthCall: the ordinal of a call among the calls of the same callee in its function (stable name
// for an obligation that does not depend on line numbers).
func nthCall(fa *FuncAn, ci ssa.CallInstruction) int {
	n := 0
	name := fa.CalleeName(ci)
	for _, b := range fa.Fn.Blocks {
		for _, in := range b.Instrs {
			if c2, ok := in.(ssa.CallInstruction); ok && fa.CalleeName(c2) == name {
				n++
				if c2 == ci {
					return n
				}
			}
		}
	}
	return n
}

// sharedDialLoop: fa's function only hands its arguments to one helper introduced later, returns
// what the helper returns, and passes as one argument a function literal that only forwards
// (conn.(*net.XConn), b) to the send function. It returns the helper and the call's arguments in
// fa's terms, with the literal spelled as the send function it forwards to.
func sharedDialLoop(fa *FuncAn, sendRe string) (*ssa.Function, []string, bool) {
	var site *ssa.Call
	for _, b := range fa.Fn.Blocks {
		for _, in := range b.Instrs {
			switch x := in.(type) {
			case *ssa.Call:
				if site != nil {
					return nil, nil, false
				}
				site = x
			case *ssa.Return:
				if site == nil || !forwardsTupleOf(RetResults(x), site) {
					return nil, nil, false
				}
			}
		}
	}
	if site == nil {
		return nil, nil, false
	}
	h := site.Call.StaticCallee()
	if h == nil || !newHelper(h) || len(h.Blocks) == 0 {
		return nil, nil, false
	}
	args := fa.CallArgs(site)
	found := false
	for i, a := range site.Call.Args {
		var lit *ssa.Function
		switch x := a.(type) {
		case *ssa.Function:
			lit = x
		case *ssa.MakeClosure:
			lit, _ = x.Fn.(*ssa.Function)
		}
		if lit == nil {
			continue
		}
		name, ok := forwardsToSend(fa.W, lit, sendRe)
		if !ok || found || i >= len(args) {
			return nil, nil, false
		}
		args[i] = name
		found = true
	}
	return h, args, found
}

func forwardsTupleOf(rs []ssa.Value, call *ssa.Call) bool {
	if !forwardsTuple(rs) {
		return false
	}
	return rs[0].(*ssa.Extract).Tuple == ssa.Value(call)
}

// forwardsToSend: lit is func(conn net.Conn, b []byte) { return send(conn.(*T), b) }.
func forwardsToSend(w *World, lit *ssa.Function, sendRe string) (string, bool) {
	if len(lit.Params) != 2 || len(lit.FreeVars) != 0 {
		return "", false
	}
	var call *ssa.Call
	for _, b := range lit.Blocks {
		for _, in := range b.Instrs {
			switch x := in.(type) {
			case *ssa.Call:
				if call != nil {
					return "", false
				}
				call = x
			case *ssa.Return:
				if call == nil || !forwardsTupleOf(RetResults(x), call) {
					return "", false
				}
			case *ssa.TypeAssert:
				if x.CommaOk || x.X != ssa.Value(lit.Params[0]) {
					return "", false
				}
			case *ssa.DebugRef, *ssa.Extract:
			default:
				return "", false
			}
		}
	}
	if call == nil {
		return "", false
	}
	f := call.Call.StaticCallee()
	if f == nil || !fullMatch(sendRe, calleeName(f)) || len(call.Call.Args) != 2 || call.Call.Args[1] != ssa.Value(lit.Params[1]) {
		return "", false
	}
	if ta, ok := call.Call.Args[0].(*ssa.TypeAssert); !ok || ta.X != ssa.Value(lit.Params[0]) {
		return "", false
	}
	return calleeName(f), true
}
