package main

// C10 — tickets obtained and cached by the client are the right ones and still valid.

import (
	"fmt"
	"regexp"
	"strings"

	"golang.org/x/tools/go/ssa"
)

func init() {
	register(&Property{
		ID:      "C10",
		Run:     runC10,
		Explain: "(1) cache validity gate: every `…, true` return of Client.GetCachedTicket is dominated by now.After(e.StartTime) ∧ now.Before(e.EndTime) on the entry it returns, or by a successful renewTicket under now.Before(e.RenewTill), and returns ticket and key of one entry value; (2) pairing: the arguments of every cache.addEntry call and the (ticket, key) returned by GetServiceTicket are rooted at one reply variable and same-typed time arguments match the callee's parameter names; addSession/session.update take every field from one decrypted part; (3) referral bound: the recursive calls of ASExchange and TGSExchange pass referral+1 and are dominated by `referral > 5 ⇒ error`; (4) configuration reaches the request: in NewASReq and tgsReq the last store to each request field on every path to the success return derives from the configuration field the property names (ticket_lifetime→Till, renew_lifetime→RTime+RENEWABLE, enctype lists→EType, forwardable/proxiable/canonicalize→flags 1/3/15, noaddresses→Addresses), so a later overwrite is reported; KDC option numbers equal RFC 4120 §5.4.1; (5) pre-authentication: PA-ENC-TIMESTAMP is encrypted with key usage 1 under the key for the negotiated etype and replaces an existing one; the TGS-REQ authenticator checksums the marshalled request body with usage 6 under the session key and is sent in an AP-REQ built from that TGT and key. Added: the session is keyed by the realm component of krbtgt/REALM; same-typed results handed back together are bound to variables of their own names at every call site (syntax-tree rule); nothing writes the TGS-REQ body after a call that checksums it.",
		NotDecided: []string{
			"behaviour over operation histories and KDC topologies; renewal timing (runtime histories)",
			"well-formedness of the encodings sent (C13)",
		},
	})
}

// liveLastStores returns the stores to addresses matching addrPat that can be
// the last such store on some path to a success exit.
func liveLastStores(fa *FuncAn, addrPat string, exits []Exit) (live []*ssa.Store, dead []*ssa.Store) {
	stores := fa.storesTo(addrPat)
	hasStore := map[*ssa.BasicBlock][]*ssa.Store{}
	for _, st := range stores {
		hasStore[st.Block()] = append(hasStore[st.Block()], st)
	}
	te := map[Edge]bool{}
	tb := map[*ssa.BasicBlock]bool{}
	for _, x := range exits {
		if x.In == nil {
			tb[x.Ret.Block()] = true
		} else {
			te[*x.In] = true
		}
	}
	for _, st := range stores {
		// a later store in the same block kills it
		killed := false
		for _, o := range hasStore[st.Block()] {
			if o != st && instrIndex(o) > instrIndex(st) {
				killed = true
			}
		}
		if killed {
			dead = append(dead, st)
			continue
		}
		// reach a success exit from this block without entering another storing block
		rm := map[Edge]bool{}
		for b := range hasStore {
			if b == st.Block() {
				continue
			}
			for _, p := range b.Preds {
				for k, s := range p.Succs {
					if s == b {
						rm[Edge{p, k}] = true
					}
				}
			}
		}
		reach := tb[st.Block()]
		if !reach {
			for k := range st.Block().Succs {
				e := Edge{st.Block(), k}
				if rm[e] {
					continue
				}
				if te[e] {
					reach = true
					break
				}
				if p := pathTo(e.To(), rm, te, tb); p != nil {
					reach = true
					break
				}
			}
		}
		if reach {
			live = append(live, st)
		} else {
			dead = append(dead, st)
		}
	}
	return
}

// ruleConfigField: the last store to a request field derives from the config field.
func ruleConfigField(c *Check, rule string, fa *FuncAn, exits []Exit, name, addrPat, wantPat, desc string, enabling []GuardPat) {
	fk := FuncKey(fa.Fn)
	w := fa.W
	live, dead := liveLastStores(fa, addrPat, exits)
	where := w.Pos(fa.Fn.Pos())
	if len(live) == 0 {
		c.Fail(rule, fk, name, where, desc, "the request field is never stored on a path to the success return")
		return
	}
	good := true
	detail := ""
	for _, st := range live {
		v := fa.R.R(st.Val)
		if !fa.M(wantPat, v) {
			good = false
			detail = fmt.Sprintf("on some path the value that reaches the request is %s (stored at %s)", trunc(v, 160), w.Pos(InstrPos(st)))
			for _, d := range dead {
				if fa.M(wantPat, fa.R.R(d.Val)) {
					detail += fmt.Sprintf("; the store of the configured value at %s is overwritten before the request is returned", w.Pos(InstrPos(d)))
				}
			}
		}
	}
	where = w.Pos(InstrPos(live[0]))
	// under the enabling condition a store must happen
	if good && len(enabling) > 0 {
		var en []Edge
		for _, g := range enabling {
			en = append(en, fa.MatchGuard(g)...)
		}
		if len(en) == 0 {
			good, detail = false, "the enabling configuration test was not found"
		} else {
			rm := map[Edge]bool{}
			for _, st := range live {
				for _, p := range st.Block().Preds {
					for k, s := range p.Succs {
						if s == st.Block() {
							rm[Edge{p, k}] = true
						}
					}
				}
			}
			te := map[Edge]bool{}
			tb := map[*ssa.BasicBlock]bool{}
			for _, x := range exits {
				if x.In == nil {
					tb[x.Ret.Block()] = true
				} else {
					te[*x.In] = true
				}
			}
			for _, e := range en {
				storing := false
				for _, st := range live {
					if st.Block() == e.To() {
						storing = true
					}
				}
				if storing {
					continue
				}
				if te[e] {
					good, detail = false, "with the setting enabled the success return is reached directly, without storing the field"
					continue
				}
				if p := pathTo(e.To(), rm, te, tb); p != nil {
					good, detail = false, "with the setting enabled a path reaches the success return without storing the field: "+fa.DescribePath(p)
				}
			}
		}
	}
	c.Decide(good, rule, fk, name, where, desc, detail)
}

// ruleConfigFlag: flag n is set exactly under the configuration test.
func ruleConfigFlag(c *Check, rule string, fa *FuncAn, exits []Exit, name string, flag int, optPat string, cond []GuardPat, desc string) {
	fk := FuncKey(fa.Fn)
	w := fa.W
	var en []Edge
	for _, g := range cond {
		en = append(en, fa.MatchGuard(g)...)
	}
	var sites []ssa.CallInstruction
	for _, ci := range fa.Calls(`types\.SetFlag`) {
		a := fa.CallArgs(ci)
		if len(a) == 2 && fa.M(optPat, a[0]) && a[1] == fmt.Sprint(flag) {
			sites = append(sites, ci)
		}
	}
	where := w.Pos(fa.Fn.Pos())
	if len(en) == 0 || len(sites) == 0 {
		c.Fail(rule, fk, name, where, desc, fmt.Sprintf("configuration test found: %v; SetFlag(…, %d) sites: %d", len(en) > 0, flag, len(sites)))
		return
	}
	where = w.Pos(InstrPos(sites[0]))
	// (a) every site only under the condition
	for _, ci := range sites {
		if p := fa.PathToInstrAvoiding(en, ci); p != nil {
			c.Fail(rule, fk, name, where, desc, "the flag is set on a path where the setting is off: "+fa.DescribePath(p))
			return
		}
	}
	// (b) with the setting on, the flag is set before the success return
	blocked := map[*ssa.BasicBlock]bool{}
	for _, ci := range sites {
		blocked[ci.Block()] = true
	}
	rm := map[Edge]bool{}
	for b := range blocked {
		for _, p := range b.Preds {
			for k, s := range p.Succs {
				if s == b {
					rm[Edge{p, k}] = true
				}
			}
		}
	}
	te := map[Edge]bool{}
	tb := map[*ssa.BasicBlock]bool{}
	for _, x := range exits {
		if x.In == nil {
			tb[x.Ret.Block()] = true
		} else {
			te[*x.In] = true
		}
	}
	for _, e := range en {
		if blocked[e.To()] {
			continue
		}
		if te[e] {
			c.Fail(rule, fk, name, where, desc, "with the setting on the success return is reached directly, without setting the flag")
			return
		}
		if p := pathTo(e.To(), rm, te, tb); p != nil {
			c.Fail(rule, fk, name, where, desc, "with the setting on a path reaches the success return without setting the flag: "+fa.DescribePath(p))
			return
		}
	}
	c.Ok(rule, fk, name, where, desc)
}

func runC10(w *World, c *Check) {
	c.Rule("C10.gate", "a cached ticket is returned as valid only inside [StartTime, EndTime) or after a successful renewal inside RenewTill; ticket and key come from one entry", 4)
	c.Rule("C10.pairing", "ticket, session key and validity times stored or returned together come from one reply; time arguments match parameter names", 10)
	c.Rule("C10.result-names", "values handed back together (realm, auth/start/end/renew-till times, ticket, key) are bound to variables of their own names at every call site: no same-typed result slot is swapped", 20)
	ruleResultNames(w, c, "C10.result-names")
	c.Rule("C10.body-final", "the TGS-REQ body is complete before its checksum is taken: nothing writes the request body after the authenticator checksum over it was computed (RFC 4120 §5.5.1: the checksum covers the req-body that is sent)", 2)
	ruleBodyFinal(w, c, "C10.body-final")
	c.Rule("C10.referral", "referral recursion passes referral+1 and is bounded by a constant", 4)
	c.Rule("C10.config", "configured lifetimes, enctypes, options and address policy reach the request (last store on every path); option numbers per RFC 4120 §5.4.1", 24)
	c.Rule("C10.preauth", "PA-ENC-TIMESTAMP: usage 1, key for the negotiated etype, replaces an existing one; TGS-REQ authenticator checksum over the marshalled body with usage 6 under the session key", 9)

	// ---- rule 1: cache gate -------------------------------------------------------
	if fn := w.Func("client.(*Client).GetCachedTicket"); fn == nil {
		c.Missing("C10.gate", "client.(*Client).GetCachedTicket")
	} else {
		fa := NewFuncAn(w, fn)
		fk := FuncKey(fn)
		ent := `client\.\(\*Cache\)\.getEntry\(recv\.cache, spn\)#0`
		ren := `client\.\(\*Client\)\.renewTicket\(recv, ` + ent + `\)`
		after := fa.MatchGuard(TruePass(P("time.(Time).After(", reNow, ", ", re(ent), ".StartTime)")))
		before := fa.MatchGuard(TruePass(P("time.(Time).Before(", reNow, ", ", re(ent), ".EndTime)")))
		renewable := fa.MatchGuard(TruePass(P("time.(Time).Before(", reNow, ", ", re(ent), ".RenewTill)")))
		renewed := fa.MatchGuard(EqPass("nil", ren+`#1`))
		found := fa.MatchGuard(TruePass(`client\.\(\*Cache\)\.getEntry\(recv\.cache, spn\)#1`))
		n := 0
		for _, x := range fa.Exits() {
			rs := RetResults(x.Ret)
			if len(rs) != 3 {
				continue
			}
			if v, known := fa.knownBool(rs[2], x.In); known && !v {
				continue
			}
			n++
			where := w.Pos(InstrPos(x.Ret))
			tk, key := fa.R.R(rs[0]), fa.R.R(rs[1])
			label := "valid-return@" + fa.exitLabel(x)
			switch {
			case fullMatch(ent+`\.Ticket`, tk) && fullMatch(ent+`\.SessionKey`, key):
				ok := len(after) > 0 && len(before) > 0 && len(found) > 0 &&
					fa.PathAvoiding(after, []Exit{x}) == nil && fa.PathAvoiding(before, []Exit{x}) == nil && fa.PathAvoiding(found, []Exit{x}) == nil
				c.Decide(ok, "C10.gate", fk, label, where, "the cached entry is returned only when now is after its StartTime and before its EndTime", "a path returns the cached entry as valid without both time tests")
			case fullMatch(ren+`#0\.Ticket`, tk) && fullMatch(ren+`#0\.SessionKey`, key):
				// the validity handed back may be the test itself (…, err == nil)
				okRenewed := fullMatch(`\((`+ren+`#1 == nil|nil == `+ren+`#1)\)`, fa.R.R(rs[2])) ||
					(len(renewed) > 0 && fa.PathAvoiding(renewed, []Exit{x}) == nil)
				ok := len(renewable) > 0 && okRenewed && fa.PathAvoiding(renewable, []Exit{x}) == nil
				c.Decide(ok, "C10.gate", fk, label, where, "a renewed entry is returned only when renewal succeeded and was attempted before RenewTill", "a path returns the renewed entry as valid without the RenewTill test or with a renewal error")
			default:
				c.Fail("C10.gate", fk, label, where, "ticket and session key returned as valid belong to one cache entry (the looked-up one or the renewed one)", "returns "+trunc(tk, 100)+" with "+trunc(key, 100))
			}
		}
		if n == 0 {
			c.Fail("C10.gate", fk, "valid-returns", w.Pos(fn.Pos()), "GetCachedTicket can return a valid ticket", "no return with ok possibly true")
		}
	}
	checkGuards(w, c, "C10.gate", "client.(*Client).renewTicket", BoolErrSuccess(-1, 1), []GuardSpec{
		{Name: "exchange-ok", Desc: "a failed renewal exchange ⇒ error", Main: []GuardPat{EqPass("nil", `client\.\(\*Client\)\.TGSREQGenerateAndExchange\(recv, .*\.Ticket\.SName, .*\.Ticket\.Realm, .*\.Ticket, .*\.SessionKey, true\)#2`)}},
		{Name: "re-read-from-cache", Desc: "the renewed entry is re-read from the cache and must exist", Main: []GuardPat{TruePass(`client\.\(\*Cache\)\.getEntry\(recv\.cache, .*\)#1`)}},
	})

	// ---- rule 2: pairing ------------------------------------------------------------
	for _, fn := range w.ModuleFuncs() {
		fa := NewFuncAn(w, fn)
		for _, ci := range fa.Calls(`client\.\(\*Cache\)\.addEntry`) {
			args := fa.CallArgs(ci)
			where := w.Pos(InstrPos(ci))
			if len(args) != 7 {
				continue
			}
			// root = the ticket operand minus ".Ticket"
			tkArg := args[1]
			// a ticket decoded from a credential's bytes: root at the credential
			for _, uc := range fa.Calls(`messages\.\(\*Ticket\)\.Unmarshal`) {
				ua := fa.CallArgs(uc)
				if len(ua) == 2 && ua[0] == args[1] && strings.HasSuffix(ua[1], ".Ticket") {
					tkArg = ua[1]
				}
			}
			root := strings.TrimSuffix(tkArg, ".Ticket")
			root = strings.TrimSuffix(root, ".KDCRepFields")
			want := map[int]string{2: "AuthTime", 3: "StartTime", 4: "EndTime", 5: "RenewTill", 6: "Key|SessionKey"}
			good := strings.HasSuffix(tkArg, ".Ticket")
			detail := ""
			for i := 2; i <= 6; i++ {
				if !fullMatch(q(root)+`(\.KDCRepFields)?(\.DecryptedEncPart)?\.(`+want[i]+`)`, args[i]) {
					good = false
					detail += fmt.Sprintf("argument %d (%s) is %s; ", i, strings.ReplaceAll(want[i], "|", "/"), trunc(args[i], 100))
				}
			}
			c.Decide(good, "C10.pairing", FuncKey(fn), "addEntry-arguments", where, "ticket, times (authTime, startTime, endTime, renewTill in that order) and session key of a cache entry come from one reply/credential", detail)
		}
	}
	if fn := w.Func("client.(*Client).GetServiceTicket"); fn == nil {
		c.Missing("C10.pairing", "client.(*Client).GetServiceTicket")
	} else {
		fa := NewFuncAn(w, fn)
		for _, x := range fa.SuccessExits(BoolErrSuccess(-1, 2)) {
			rs := RetResults(x.Ret)
			tk, key := fa.R.R(rs[0]), fa.R.R(rs[1])
			where := w.Pos(InstrPos(x.Ret))
			a := regexpFind(`^(.*)#0$`, tk)
			b := regexpFind(`^(.*)#1$`, key)
			pairCached := a != "" && a == b && strings.HasPrefix(a, "client.(*Client).GetCachedTicket(")
			r1 := regexpFind(`^(.*)\.(?:KDCRepFields\.)?Ticket$`, tk)
			r2 := regexpFind(`^(.*)\.(?:KDCRepFields\.)?DecryptedEncPart\.Key$`, key)
			pairReply := r1 != "" && r1 == r2 && strings.Contains(r1, "TGSREQGenerateAndExchange(")
			c.Decide(pairCached || pairReply, "C10.pairing", FuncKey(fn), "returned-pair@"+fa.exitLabel(x), where, "the ticket and the session key returned were issued together (same cache hit or same TGS reply)", "returns "+trunc(tk, 120)+" with "+trunc(key, 120))
		}
		checkCallsFA(c, "C10.pairing", fa, []CallSpec{
			{Name: "exchange-with-session-tgt", Desc: "the TGS exchange uses the TGT and session key of one session for the SPN's realm", Callee: `client\.\(\*Client\)\.TGSREQGenerateAndExchange`,
				Want: `client\.\(\*Client\)\.TGSREQGenerateAndExchange\(recv, types\.NewPrincipalName\(1, spn\), (.*), client\.\(\*Client\)\.sessionTGT\(recv, .*\)#0, client\.\(\*Client\)\.sessionTGT\(recv, .*\)#1, false\)`},
		})
	}
	// addSession / session.update: every field from the one decrypted part
	fieldsFromDep := func(fk, local string, dep string) {
		fn := w.Func(fk)
		if fn == nil {
			c.Missing("C10.pairing", fk)
			return
		}
		fa := NewFuncAn(w, fn)
		want := map[string]string{"authTime": dep + ".AuthTime", "endTime": dep + ".EndTime", "renewTill": dep + ".RenewTill", "sessionKey": dep + ".Key", "sessionKeyExpiration": dep + ".KeyExpiration", "tgt": "tgt"}
		got := map[string]string{}
		for _, st := range fa.storesTo(local + `\.\w+`) {
			a := fa.R.R(st.Addr)
			got[a[strings.LastIndex(a, ".")+1:]] = fa.R.R(st.Val)
		}
		for _, f := range sortedKeys(want) {
			c.Decide(got[f] == substParams(fn, want[f]), "C10.pairing", fk, "session."+f, w.Pos(fn.Pos()), "session field "+f+" is taken from "+want[f], "stored value is "+got[f])
		}
	}
	fieldsFromDep("client.(*Client).addSession", `new\(session\)|local<client\.session>|&?client\.session\{.*|.*session.*`, "dep")
	fieldsFromDep("client.(*session).update", `recv`, "dep")
	// the session is filed under the realm the TGT is *for* — the last component of krbtgt/REALM —
	// not under the realm that issued it: for a cross-realm TGT krbtgt/B@A these differ, and sessionTGT(B)
	// must find it (while the home-realm session must not be replaced)
	if fn := w.Func("client.(*Client).addSession"); fn != nil {
		fa := NewFuncAn(w, fn)
		ns := substParams(fn, `tgt.SName.NameString`)
		got := ""
		for _, st := range fa.storesTo(`(new\(session\)|local<client\.session>(#\d+)?)\.realm`) {
			got = fa.R.R(st.Val)
		}
		good := got == ns+"[(len("+ns+") - 1)]" || got == ns+"[1]"
		c.Decide(good, "C10.pairing", FuncKey(fn), "session.realm", w.Pos(fn.Pos()), "a TGT session is keyed by the realm component of the TGT's service name (krbtgt/REALM)", "the session realm is "+got)
	}

	// ---- rule 3: referral bound --------------------------------------------------------
	for _, fk := range []string{"client.(*Client).ASExchange", "client.(*Client).TGSExchange"} {
		fn := w.Func(fk)
		if fn == nil {
			c.Missing("C10.referral", fk)
			continue
		}
		fa := NewFuncAn(w, fn)
		var self []ssa.CallInstruction
		for _, b := range fn.Blocks {
			for _, in := range b.Instrs {
				if call, ok := in.(*ssa.Call); ok && call.Call.StaticCallee() == fn {
					self = append(self, call)
				}
			}
		}
		if len(self) == 0 {
			c.Note("C10.referral", fk, "no-recursion", w.Pos(fn.Pos()), "the exchange does not call itself")
			c.Ok("C10.referral", fk, "bounded", w.Pos(fn.Pos()), "no referral recursion")
			continue
		}
		// the bound: referral > K ⇒ no self call
		var pass []Edge
		bound := ""
		for _, cd := range fa.Conds {
			if cd.Kind == "gt" && fa.M(`referral`, cd.L) && isConstTerm(cd.R) {
				pass = append(pass, Edge{cd.If.Block(), 1 - cd.HoldsSucc})
				bound = cd.R
			}
		}
		for _, ci := range self {
			args := fa.CallArgs(ci)
			last := args[len(args)-1]
			where := w.Pos(InstrPos(ci))
			c.Decide(fa.M(`\(1 \+ referral\)|\(referral \+ 1\)`, last), "C10.referral", fk, "increments", where, "the recursive call passes referral + 1", "passes "+last)
			ok := len(pass) > 0 && fa.PathToInstrAvoiding(pass, ci) == nil
			c.Decide(ok, "C10.referral", fk, "bounded", where, "the recursive call is reached only when referral does not exceed a constant bound ("+bound+")", "recursive call reachable without the bound test")
			// the step can be taken at all: what must hold on the way to it does not contradict
			// what the reply validation it comes after insists on
			why := contradictsValidation(fa, ci)
			c.Decide(why == "", "C10.referral", fk, "followable", where, "the conditions under which a referral is followed are compatible with the checks every accepted reply has passed (a referral reply names another krbtgt than the one asked for)", why)
		}
	}

	// ---- rule 4: configuration reaches the request ---------------------------------------
	wantFlags := map[string]int{"Forwardable": 1, "Proxiable": 3, "Renewable": 8, "Canonicalize": 15, "EncTktInSkey": 28, "Renew": 30}
	for _, n := range sortedKeys(wantFlags) {
		v, ok := w.ConstInt("iana/flags", n)
		c.Decide(ok && int(v) == wantFlags[n], "C10.config", "iana/flags", "const "+n, "-", fmt.Sprintf("KDC option %s is bit %d (RFC 4120 §5.4.1 / RFC 6806)", n, wantFlags[n]), fmt.Sprintf("constant is %d", v))
	}
	type reqFn struct {
		fk, req, etypes, realm string
		isAS                   bool
	}
	for _, rf := range []reqFn{
		{"messages.NewASReq", `local<messages\.ASReq>\.KDCReqFields\.ReqBody`, "DefaultTktEnctypeIDs", "realm", true},
		{"messages.tgsReq", `local<messages\.KDCReqFields>\.ReqBody`, "DefaultTGSEnctypeIDs", "kdcRealm", false},
	} {
		fn := w.Func(rf.fk)
		if fn == nil {
			c.Missing("C10.config", rf.fk)
			continue
		}
		fa := NewFuncAn(w, fn)
		exits := fa.SuccessExits(BoolErrSuccess(-1, 1))
		lib := `c\.LibDefaults\.`
		now := string(reNow)
		ruleConfigField(c, "C10.config", fa, exits, "ticket_lifetime→Till", rf.req+`\.Till`, `time\.\(Time\)\.Add\(`+now+`, `+lib+`TicketLifetime\)`, "requested end time = now + ticket_lifetime", nil)
		ruleConfigField(c, "C10.config", fa, exits, "renew_lifetime→RTime", rf.req+`\.RTime`, `time\.\(Time\)\.Add\(`+now+`, `+lib+`RenewLifetime\)`, "requested renew-till = now + renew_lifetime when renew_lifetime is set",
			[]GuardPat{NePass("0", lib+`RenewLifetime`), {Kind: "gt", X: lib + `RenewLifetime`, Y: "0", PassWhen: true}})
		ruleConfigField(c, "C10.config", fa, exits, "enctypes→EType", rf.req+`\.EType`, lib+rf.etypes, "requested enctypes are the configured "+rf.etypes, nil)
		ruleConfigField(c, "C10.config", fa, exits, "noaddresses→Addresses", rf.req+`\.Addresses`, `append\(types\.LocalHostAddresses\(\)#0, types\.HostAddressesFromNetIPs\(`+lib+`ExtraAddresses\)\)`, "addresses are sent (local + extra_addresses) unless noaddresses is set",
			[]GuardPat{FalsePass(lib + `NoAddresses`)})
		ruleConfigField(c, "C10.config", fa, exits, "realm", rf.req+`\.Realm`, rf.realm, "the request names the realm it is sent to", nil)
		ruleConfigField(c, "C10.config", fa, exits, "cname", rf.req+`\.CName`, `cname`, "the request carries the client name", nil)
		ruleConfigField(c, "C10.config", fa, exits, "sname", rf.req+`\.SName`, `sname`, "the request names the service asked for", nil)
		ruleConfigField(c, "C10.config", fa, exits, "nonce", rf.req+`\.Nonce`, `math/big\.\(\*Int\)\.Int64\(crypto/rand\.Int\(crypto/rand\.Reader, .*\)#0\)`, "the nonce is drawn from crypto/rand", nil)
		opt := rf.req + `\.KDCOptions`
		ruleConfigFlag(c, "C10.config", fa, exits, "forwardable→flag1", 1, opt, []GuardPat{TruePass(lib + `Forwardable`)}, "FORWARDABLE is requested exactly when forwardable is configured")
		ruleConfigFlag(c, "C10.config", fa, exits, "proxiable→flag3", 3, opt, []GuardPat{TruePass(lib + `Proxiable`)}, "PROXIABLE is requested exactly when proxiable is configured")
		ruleConfigFlag(c, "C10.config", fa, exits, "canonicalize→flag15", 15, opt, []GuardPat{TruePass(lib + `Canonicalize`)}, "CANONICALIZE is requested exactly when canonicalize is configured")
		renewCond := []GuardPat{NePass("0", lib+`RenewLifetime`), {Kind: "gt", X: lib + `RenewLifetime`, Y: "0", PassWhen: true}}
		if !rf.isAS {
			renewCond = append(renewCond, TruePass(`renewal`))
			ruleConfigFlag(c, "C10.config", fa, exits, "renewal→flag30", 30, opt, []GuardPat{TruePass(`renewal`)}, "RENEW is requested exactly for a renewal")
		}
		ruleConfigFlag(c, "C10.config", fa, exits, "renew_lifetime→flag8", 8, opt, renewCond, "RENEWABLE is requested exactly when renew_lifetime is set (or for a renewal)")
		if rf.isAS {
			checkCallsFA(c, "C10.config", fa, []CallSpec{
				{Name: "kdc_default_options", Desc: "the configured default KDC options are copied into the request's options", Callee: `copy`, Want: `copy\(types\.NewKrbFlags\(\)\.Bytes, ` + lib + `KDCDefaultOptions\.Bytes\)`},
			})
		}
	}

	// ---- rule 5: pre-authentication ---------------------------------------------------------
	keyCall := `client\.\(\*Client\)\.Key\(cl, .*\)`
	sfa, _ := checkCalls(w, c, "C10.preauth", "client.setPAData", []CallSpec{
		{Name: "timestamp-usage-1", Desc: "the PA-ENC-TS-ENC is encrypted with the client key, key usage 1 and that key's kvno", Callee: `crypto\.GetEncryptedData`,
			Want: `crypto\.GetEncryptedData\(types\.GetPAEncTSEncAsnMarshalled\(\)#0, (φ\(` + keyCall + `#0\|` + keyCall + `#0\)|` + keyCall + `#0), 1, (φ\(` + keyCall + `#1\|` + keyCall + `#1\)|` + keyCall + `#1)\)`},
	})
	if sfa != nil {
		rulePreauthKey(c, sfa)
		// an existing PA-ENC-TIMESTAMP (type 2) is looked for before the new one is appended
		rep := sfa.MatchGuard(EqPass("2", `.*\.PAData\[\$i\d\]\.PADataType`))
		c.Decide(len(rep) > 0, "C10.preauth", FuncKey(sfa.Fn), "replaces-existing-timestamp", w.Pos(sfa.Fn.Pos()), "an existing PA-ENC-TIMESTAMP is removed so that a retry carries exactly one", "no loop testing PADataType == 2 over the request's PA-data")
	}
	body := `messages\.\(\*KDCReqBody\)\.Marshal\(recv\.KDCReqFields\.ReqBody\)#0`
	tfa, _ := checkCalls(w, c, "C10.preauth", "messages.(*TGSReq).setPAData", []CallSpec{
		{Name: "checksum-body-usage-6", Desc: "the authenticator checksum is over the marshalled request body, keyed by the session key, usage 6", Callee: `crypto/etype\.EType\.GetChecksumHash`,
			Want: `crypto/etype\.EType\.GetChecksumHash\(crypto\.GetEtype\(sessionKey\.KeyType\)#0, sessionKey\.KeyValue, ` + body + `, 6\)`},
		{Name: "apreq-from-tgt-and-key", Desc: "the AP-REQ carrying the authenticator is built from the TGT and session key given", Callee: `messages\.NewAPReq`, Want: `messages\.NewAPReq\(tgt, sessionKey, .*\)`},
		{Name: "authenticator-realm-name", Desc: "the authenticator names the TGT's realm and the request's client", Callee: `types\.NewAuthenticator`, Want: `types\.NewAuthenticator\(tgt\.Realm, recv\.KDCReqFields\.ReqBody\.CName\)`},
	})
	if tfa != nil {
		okT, okV := false, false
		for _, st := range tfa.storesTo(`.*\.Cksum\.(CksumType|Checksum)|local<types\.Checksum>\.(CksumType|Checksum)`) {
			a, v := tfa.R.R(st.Addr), tfa.R.R(st.Val)
			if strings.HasSuffix(a, ".CksumType") && fullMatch(`crypto/etype\.EType\.GetHashID\(crypto\.GetEtype\(sessionKey\.KeyType\)#0\)`, substBack(tfa, v)) {
				okT = true
			}
			if strings.HasSuffix(a, ".Checksum") && strings.HasPrefix(v, "crypto/etype.EType.GetChecksumHash(") {
				okV = true
			}
		}
		c.Decide(okT && okV, "C10.preauth", FuncKey(tfa.Fn), "cksum-fields", w.Pos(tfa.Fn.Pos()), "the authenticator's checksum is typed with the etype's GetHashID and carries that checksum", "stores do not have that shape")
		pa := tfa.storesTo(`.*PADataType`)
		okPA := false
		for _, st := range pa {
			if tfa.R.R(st.Val) == "1" {
				okPA = true
			}
		}
		c.Decide(okPA, "C10.preauth", FuncKey(tfa.Fn), "pa-tgs-req", w.Pos(tfa.Fn.Pos()), "the AP-REQ is sent as PA-TGS-REQ (padata type 1)", "no PAData with type 1 is stored")
	}
}

// substBack maps actual parameter names in a rendered term back to the
// reference names used by literal patterns (inverse of substParams for values).
func substBack(fa *FuncAn, s string) string {
	ref, ok := refParams[FuncKey(fa.Fn)]
	params := fa.Fn.Params
	if fa.Fn.Signature.Recv() != nil && len(params) > 0 {
		params = params[1:]
	}
	if !ok || len(ref) != len(params) {
		return s
	}
	ren := map[string]string{}
	for i, p := range params {
		if ref[i] != p.Name() {
			ren[p.Name()] = ref[i]
		}
	}
	if len(ren) == 0 {
		return s
	}
	return renameIdents(s, ren)
}

// ruleBodyFinal: the function that checksums the marshalled KDC-REQ-BODY (by role: it calls
// KDCReqBody.Marshal and an etype's GetChecksumHash) and every function of package messages that
// reaches it are "sealing" calls. In a function that makes a sealing call, no store into a
// ReqBody field and no SetFlag/UnsetFlag on ReqBody options may be reachable after that call.
func ruleBodyFinal(w *World, c *Check, rule string) {
	sealing := map[*ssa.Function]bool{}
	var msgFns []*ssa.Function
	for _, fn := range w.ModuleFuncs() {
		if fn.Pkg == nil || relPkg(fn.Pkg.Pkg.Path()) != "messages" {
			continue
		}
		msgFns = append(msgFns, fn)
		fa := NewFuncAn(w, fn)
		if len(fa.Calls(`messages\.\(\*?KDCReqBody\)\.Marshal`)) > 0 && len(fa.Calls(`crypto/etype\.EType\.GetChecksumHash`)) > 0 {
			sealing[fn] = true
		}
	}
	if len(sealing) == 0 {
		c.Fail(rule, "messages", "sealing-function", "-", "a function of package messages checksums the marshalled request body", "none found: the obligation cannot be anchored")
		return
	}
	for changed := true; changed; {
		changed = false
		for _, fn := range msgFns {
			if sealing[fn] {
				continue
			}
			for _, b := range fn.Blocks {
				for _, in := range b.Instrs {
					if ci, ok := in.(ssa.CallInstruction); ok {
						if g := ci.Common().StaticCallee(); g != nil && sealing[g] {
							sealing[fn] = true
							changed = true
						}
					}
				}
			}
		}
	}
	for _, fn := range msgFns {
		fa := NewFuncAn(w, fn)
		for _, b := range fn.Blocks {
			for i, in := range b.Instrs {
				ci, ok := in.(ssa.CallInstruction)
				if !ok {
					continue
				}
				g := ci.Common().StaticCallee()
				if g == nil || !sealing[g] {
					continue
				}
				// instructions reachable after the sealing call
				bad := ""
				check := func(x ssa.Instruction) {
					switch y := x.(type) {
					case *ssa.Store:
						if a := fa.R.R(y.Addr); strings.Contains(a, ".ReqBody") {
							bad = "store to " + a + " at " + w.Pos(InstrPos(x))
						}
					case *ssa.Call:
						n := fa.CalleeName(y)
						if n == "types.SetFlag" || n == "types.UnsetFlag" {
							if as := fa.CallArgs(y); len(as) > 0 && strings.Contains(as[0], "ReqBody") {
								bad = n + "(" + as[0] + ", …) at " + w.Pos(InstrPos(x))
							}
						}
					}
				}
				for _, x := range b.Instrs[i+1:] {
					check(x)
				}
				seen := map[*ssa.BasicBlock]bool{}
				st := append([]*ssa.BasicBlock{}, b.Succs...)
				for len(st) > 0 {
					nb := st[len(st)-1]
					st = st[:len(st)-1]
					if seen[nb] {
						continue
					}
					seen[nb] = true
					for _, x := range nb.Instrs {
						check(x)
					}
					st = append(st, nb.Succs...)
				}
				c.Decide(bad == "", rule, FuncKey(fn), "after:"+strings.TrimPrefix(fa.CalleeName(ci), "messages."), w.Pos(InstrPos(in)), "the request body is not written after its checksum was computed", bad+": the body that is sent differs from the one the authenticator checksum covers")
			}
		}
	}
}

// rulePreauthKey: which etype, and which hints, the pre-authentication key is derived with.
// The rule is over the alternatives of the etype operand of each (*Client).Key call in setPAData,
// wherever they are computed (in place, or in a helper introduced later): an alternative computed
// only behind `krberr == nil` is available only when there is no KDC error (a use is dominated by
// its definition), and likewise for `krberr != nil`.
func rulePreauthKey(c *Check, sfa *FuncAn) {
	w := sfa.W
	fnKey := FuncKey(sfa.Fn)
	kr := substParams(sfa.Fn, "krberr")
	isParam := false
	for _, p := range sfa.Fn.Params {
		if sfa.R.R(p) == kr {
			isParam = true
		}
	}
	if !isParam {
		c.Fail("C10.preauth", fnKey, "key-for-negotiated-etype", w.Pos(sfa.Fn.Pos()), "setPAData(cl, krberr, req)", "parameter list changed: the KDC error operand cannot be identified")
		return
	}
	under1 := func(a *FuncAn, in ssa.Instruction, isNil bool) bool {
		pass, _ := a.matchGuardsRaw([]rawPat{{regexp.QuoteMeta(kr), "nil", GuardPat{Kind: "eq", PassWhen: isNil}, true}}, 0)
		return len(pass) > 0 && a.PathToInstrAvoiding(pass, in) == nil
	}
	// in a helper introduced later: also what dominates the helper's call in setPAData
	under := func(a *FuncAn, in ssa.Instruction, isNil bool) bool {
		return under1(a, in, isNil) || (a != sfa && a.Via != nil && under1(sfa, a.Via, isNil))
	}
	const wantA = `crypto\.GetEtype\(φ\(.*\)\)#0`
	wantB := `client\.preAuthEType\(` + regexp.QuoteMeta(kr) + `\)#0`
	var badA, badB []string
	sawA, sawB := false, false
	where := w.Pos(sfa.Fn.Pos())
	for _, a := range sfa.withNewHelpers() {
		for _, ci := range a.Calls(`client\.\(\*Client\)\.Key`) {
			args := ci.Common().Args
			if len(args) != 4 {
				continue
			}
			where = w.Pos(InstrPos(ci))
			hints := a.R.R(args[3])
			callNil := under(a, ci, true)
			callErr := under(a, ci, false)
			if kv := a.R.R(args[2]); kv != "0" {
				badA = append(badA, "kvno operand is "+kv)
			}
			switch {
			case hints == kr:
			case hints == "nil" && callNil:
			default:
				badB = append(badB, "the hints operand is "+hints+" on a path where a KDC error may be present")
			}
			for _, lv := range a.LeafValues(args[1]) {
				t := lv.fa.R.R(lv.v)
				in, _ := lv.v.(ssa.Instruction)
				switch {
				case in != nil && fullMatch(wantA, t):
					sawA = true
					if !(callNil || under(lv.fa, in, true)) {
						badA = append(badA, "the remembered/configured etype "+trunc(t, 80)+" can reach the key derivation when a KDC error is present")
					}
				case in != nil && fullMatch(wantB, t):
					sawB = true
					if !(callErr || under(lv.fa, in, false)) {
						badB = append(badB, "the hint-selected etype is computed although no KDC error is present")
					}
					if hints != kr {
						badB = append(badB, "the hint-selected etype is used with hints "+hints)
					}
				default:
					badA = append(badA, "the etype operand may be "+trunc(t, 100))
				}
			}
		}
	}
	if !sawA {
		badA = append(badA, "no key derivation for crypto.GetEtype(remembered or configured etype)")
	}
	if !sawB {
		badB = append(badB, "no key derivation for preAuthEType(krberr)")
	}
	c.Decide(len(badB) == 0, "C10.preauth", fnKey, "key-for-negotiated-etype", where, "after a KDC error the key is derived for the etype the KDC's hints select, with those hints", strings.Join(badB, "; "))
	c.Decide(len(badA) == 0, "C10.preauth", fnKey, "key-for-remembered-etype", where, "without a KDC error the key is for the remembered or configured etype", strings.Join(badA, "; "))
}

// contradictsValidation: a contradiction rule. On the way to instruction in, some boolean
// conditions of fa must have a fixed truth value (every path to in takes that edge). Where such a
// condition is "a module validator f(…) returned ok", f's own success in turn fixes the truth of
// the conditions inside f (rendered with the call's arguments). The same term required true by
// one and false by the other means the instruction can never be reached.
func contradictsValidation(fa *FuncAn, in ssa.Instruction) string {
	type need struct {
		pol  bool
		from string
	}
	needs := map[string]need{}
	var opened []*ssa.Call
	for _, cd := range fa.Conds {
		if cd.Kind != "bool" {
			continue
		}
		hold := Edge{cd.If.Block(), cd.HoldsSucc}
		other := Edge{cd.If.Block(), 1 - cd.HoldsSucc}
		switch {
		case fa.PathToInstrAvoiding([]Edge{hold}, in) == nil:
			needs[cd.L] = need{true, fa.W.Pos(InstrPos(cd.If))}
			if ex, ok := stripNot(cd.If.Cond).(*ssa.Extract); ok && ex.Index == 0 {
				if call, ok := ex.Tuple.(*ssa.Call); ok {
					opened = append(opened, call)
				}
			}
		case fa.PathToInstrAvoiding([]Edge{other}, in) == nil:
			needs[cd.L] = need{false, fa.W.Pos(InstrPos(cd.If))}
		}
	}
	for _, call := range opened {
		g := call.Call.StaticCallee()
		if g == nil || len(g.Blocks) == 0 || g.Pkg == nil || !inModule(g.Pkg.Pkg.Path()) || g.Signature.Results().Len() != 2 {
			continue
		}
		sub := NewFuncAnCtx(fa.W, g, fa.CallArgs(call))
		exits := sub.SuccessExits(BoolErrSuccess(0, 1))
		if len(exits) == 0 {
			continue
		}
		for _, sd := range sub.Conds {
			if sd.Kind != "bool" {
				continue
			}
			hold := Edge{sd.If.Block(), sd.HoldsSucc}
			other := Edge{sd.If.Block(), 1 - sd.HoldsSucc}
			var pol, fixed bool
			switch {
			case sub.PathAvoiding([]Edge{hold}, exits) == nil:
				pol, fixed = true, true
			case sub.PathAvoiding([]Edge{other}, exits) == nil:
				pol, fixed = false, true
			}
			if !fixed {
				continue
			}
			if n, ok := needs[sd.L]; ok && n.pol != pol {
				return fmt.Sprintf("unreachable: %s accepts a reply only when %s is %v (%s), the step is taken only when it is %v (%s)",
					FuncKey(g), trunc(sd.L, 140), pol, fa.W.Pos(InstrPos(sd.If)), n.pol, n.from)
			}
		}
	}
	return ""
}
