package main

// CFG helpers over go/ssa functions: canonical branch conditions, edge-level
// reachability with removed edges (the must-pass-through test), success-exit
// classification and witness paths.

import (
	"fmt"
	"go/token"
	"go/types"
	"regexp"
	"sort"
	"strings"

	"golang.org/x/tools/go/ssa"
)

// Edge is the k-th successor edge of block From.
type Edge struct {
	From *ssa.BasicBlock
	Succ int
}

func (e Edge) To() *ssa.BasicBlock { return e.From.Succs[e.Succ] }

// Cond is a canonical branch condition.
//
//	Kind "eq": L == R (operands sorted)       Holds edge = edge on which L == R
//	Kind "gt": L >  R                          Holds edge = edge on which L > R (strictly, or L >= R when NonStrict)
//	Kind "bool": L is a boolean expression     Holds edge = edge on which L is true
type Cond struct {
	Kind      string
	L, R      string
	NonStrict bool // for gt: the Holds edge also carries L == R
	HoldsSucc int  // successor index (0/1) on which the relation holds
	If        *ssa.If
	Raw       string // the un-canonicalised rendering
	// Alts: for an integer gt, the algebraically equivalent spellings L' > R' obtained by moving
	// terms of the linear form across the comparison (x > len-16 ⇔ 16 > len-x ⇔ x+16 > len)
	Alts [][2]string
}

func (c Cond) String() string {
	switch c.Kind {
	case "eq":
		return fmt.Sprintf("%s == %s", c.L, c.R)
	case "gt":
		if c.NonStrict {
			return fmt.Sprintf("%s >= %s", c.L, c.R)
		}
		return fmt.Sprintf("%s > %s", c.L, c.R)
	}
	return c.L
}

// FuncAn bundles a function with its renderer and canonical conditions.
type FuncAn struct {
	W      *World
	Fn     *ssa.Function
	R      *Renderer
	Conds  []Cond
	byIf   map[*ssa.If]int
	bc     *boundsCtx             // lazily built, for linearAlts
	oracle func(v ssa.Value) sval // set while a scenario is evaluated (symeval.go): what the scenario decides about v
	Via    ssa.Instruction        // for a helper context made by withNewHelpers: the call in the anchor function through which it is reached
}

// NewFuncAnCtx renders the parameters of fn as the given caller-side terms.
func NewFuncAnCtx(w *World, fn *ssa.Function, args []string) *FuncAn {
	subst := map[*ssa.Parameter]string{}
	for i, p := range fn.Params {
		if i < len(args) {
			subst[p] = args[i]
		}
	}
	return newFuncAn(w, fn, subst)
}

func NewFuncAn(w *World, fn *ssa.Function) *FuncAn { return newFuncAn(w, fn, nil) }

// NewFuncAnRaw renders calls of helpers as calls (no inlining of their results): for rules that
// reason about the call itself (which edge of `if helper(…)` was taken).
func NewFuncAnRaw(w *World, fn *ssa.Function) *FuncAn { return newFuncAnOpt(w, fn, nil, true) }

func newFuncAn(w *World, fn *ssa.Function, subst map[*ssa.Parameter]string) *FuncAn {
	return newFuncAnOpt(w, fn, subst, false)
}

func newFuncAnOpt(w *World, fn *ssa.Function, subst map[*ssa.Parameter]string, raw bool) *FuncAn {
	r := NewRenderer(w, fn)
	r.noInline = raw
	r.subst = subst
	fa := &FuncAn{W: w, Fn: fn, R: r, byIf: map[*ssa.If]int{}}
	for _, b := range fn.Blocks {
		if len(b.Instrs) == 0 {
			continue
		}
		if iff, ok := b.Instrs[len(b.Instrs)-1].(*ssa.If); ok {
			c := fa.canon(shortCircuitCond(iff))
			c.If = iff
			if c.Kind == "gt" {
				c.Alts = fa.linearAlts(shortCircuitCond(iff))
			}
			fa.byIf[iff] = len(fa.Conds)
			fa.Conds = append(fa.Conds, c)
		}
	}
	return fa
}

// canon canonicalises a boolean SSA value. HoldsSucc is 0 when the relation
// holds on the true edge.
func (fa *FuncAn) canon(v ssa.Value) Cond {
	flip := false
	for {
		if u, ok := v.(*ssa.UnOp); ok && u.Op == token.NOT {
			v = u.X
			flip = !flip
			continue
		}
		break
	}
	raw := fa.R.R(v)
	c := Cond{Kind: "bool", L: raw, Raw: raw}
	if b, ok := v.(*ssa.BinOp); ok {
		l, r := fa.R.R(b.X), fa.R.R(b.Y)
		switch b.Op {
		case token.EQL, token.NEQ:
			if r < l {
				l, r = r, l
			}
			c = Cond{Kind: "eq", L: l, R: r, Raw: raw}
			if b.Op == token.NEQ {
				flip = !flip
			}
		case token.GTR:
			c = Cond{Kind: "gt", L: l, R: r, Raw: raw}
		case token.LSS:
			c = Cond{Kind: "gt", L: r, R: l, Raw: raw}
		case token.GEQ: // l >= r  ==  !(r > l)
			c = Cond{Kind: "gt", L: r, R: l, Raw: raw}
			flip = !flip
		case token.LEQ: // l <= r == !(l > r)
			c = Cond{Kind: "gt", L: l, R: r, Raw: raw}
			flip = !flip
		}
	}
	if flip {
		c.HoldsSucc = 1
	}
	return c
}

// CondOf returns the canonical condition of an If.
func (fa *FuncAn) CondOf(iff *ssa.If) Cond { return fa.Conds[fa.byIf[iff]] }

// --- patterns ---------------------------------------------------------------

// GuardPat describes a branch and which of its edges is the *pass* edge
// (the one that may lead to success).
//
//	Kind "eq":  operands X,Y (regexps, order-insensitive); PassWhen = relation value on the pass edge
//	Kind "gt":  relation X > Y; PassWhen = its value on the pass edge. Matches a branch on X > Y / X >= Y and the
//	            complementary spellings Y < X, !(Y >= X), ... (strictness at the boundary is not distinguished)
//	Kind "bool": X regexp; PassWhen = truth value on the pass edge
type GuardPat struct {
	Kind     string
	X, Y     string
	PassWhen bool
}

func EqPass(x, y string) GuardPat     { return GuardPat{Kind: "eq", X: x, Y: y, PassWhen: true} }
func NePass(x, y string) GuardPat     { return GuardPat{Kind: "eq", X: x, Y: y, PassWhen: false} }
func TruePass(x string) GuardPat      { return GuardPat{Kind: "bool", X: x, PassWhen: true} }
func FalsePass(x string) GuardPat     { return GuardPat{Kind: "bool", X: x, PassWhen: false} }
func NotExceeds(x, y string) GuardPat { return GuardPat{Kind: "gt", X: x, Y: y} }

var reCache = map[string]*regexp.Regexp{}

// fullMatch matches the whole string against a pattern. Patterns are regexps
// unless they contain no regexp metacharacters other than ().*[]| in which case
// callers should have quoted them with q().
func fullMatch(pat, s string) bool {
	re, ok := reCache[pat]
	if !ok {
		re = regexp.MustCompile("^(?:" + pat + ")$")
		reCache[pat] = re
	}
	return re.MatchString(s)
}

// q quotes a literal term for use in a pattern.
func q(s string) string { return regexp.QuoteMeta(s) }

// matchOne: does canonical condition c match pattern p (operands x, y already in this function's
// vocabulary)? Returns the successor index on which the guard is passed (0 = the branch taken
// when the tested SSA value is true).
func matchOne(c Cond, x, y string, p GuardPat) (int, bool) {
	switch p.Kind {
	case "eq":
		if c.Kind != "eq" {
			return 0, false
		}
		if (fullMatch(x, c.L) && fullMatch(y, c.R)) || (fullMatch(x, c.R) && fullMatch(y, c.L)) {
			succ := c.HoldsSucc
			if !p.PassWhen {
				succ = 1 - succ
			}
			return succ, true
		}
	case "bool":
		if c.Kind != "bool" {
			return 0, false
		}
		if fullMatch(x, c.L) {
			succ := c.HoldsSucc
			if !p.PassWhen {
				succ = 1 - succ
			}
			return succ, true
		}
	case "gt":
		if c.Kind != "gt" {
			return 0, false
		}
		if fullMatch(x, c.L) && fullMatch(y, c.R) {
			// the relation X > Y (or X >= Y) holds on HoldsSucc
			succ := c.HoldsSucc
			if !p.PassWhen {
				succ = 1 - succ
			}
			return succ, true
		} else if fullMatch(y, c.L) && fullMatch(x, c.R) {
			// the branch tests Y > X; "X exceeds Y" (non-strictly) is its not-holds edge
			succ := 1 - c.HoldsSucc
			if !p.PassWhen {
				succ = c.HoldsSucc
			}
			return succ, true
		}
		for _, alt := range c.Alts {
			if fullMatch(x, alt[0]) && fullMatch(y, alt[1]) {
				succ := c.HoldsSucc
				if !p.PassWhen {
					succ = 1 - succ
				}
				return succ, true
			} else if fullMatch(y, alt[0]) && fullMatch(x, alt[1]) {
				succ := 1 - c.HoldsSucc
				if !p.PassWhen {
					succ = c.HoldsSucc
				}
				return succ, true
			}
		}
	}
	return 0, false
}

// rawPat is a guard pattern whose operands are already in the analysed function's vocabulary.
type rawPat struct {
	x, y string
	p    GuardPat
	main bool // a spelling of the guard itself (as opposed to an enabling condition under which it is not required)
}

// MatchGuard returns the pass edges of every If in the function matching p — directly, or through
// a helper (see MatchGuardSet).
func (fa *FuncAn) MatchGuard(p GuardPat) []Edge {
	pass, _ := fa.matchGuardsRaw([]rawPat{{substParams(fa.Fn, p.X), substParams(fa.Fn, p.Y), p, true}}, 0)
	return pass
}

// MatchGuardSet matches a guard given by alternative spellings (main) and the enabling conditions
// under which it is legitimately not required (unless). It returns the pass edges of the guard
// and the union with the unless edges. A check that was extracted into a helper is still the same
// check: an If whose condition is a call of a module function returning one bool — or an
// `err ==/!= nil` test of a module function returning an error — yields a pass edge when, in the
// callee with the call's arguments substituted for its parameters, every return of true (of
// false; of a nil error) requires passing the guard or one of its unless edges, and the guard
// itself is present there.
func (fa *FuncAn) MatchGuardSet(main, unless []GuardPat) (pass, all []Edge) {
	var pats []rawPat
	for _, p := range main {
		pats = append(pats, rawPat{substParams(fa.Fn, p.X), substParams(fa.Fn, p.Y), p, true})
	}
	for _, p := range unless {
		pats = append(pats, rawPat{substParams(fa.Fn, p.X), substParams(fa.Fn, p.Y), p, false})
	}
	return fa.matchGuardsRaw(pats, 0)
}

func (fa *FuncAn) matchGuardsRaw(pats []rawPat, depth int) (pass, all []Edge) {
	for _, c := range fa.Conds {
		for _, rp := range pats {
			if succ, ok := matchOne(c, rp.x, rp.y, rp.p); ok {
				e := Edge{c.If.Block(), succ}
				all = append(all, e)
				if rp.main {
					pass = append(pass, e)
				}
			}
		}
	}
	if depth >= 2 {
		return
	}
	for _, c := range fa.Conds {
		v := c.If.Cond
		for {
			u, ok := v.(*ssa.UnOp)
			if !ok || u.Op != token.NOT {
				break
			}
			v = u.X
		}
		switch c.Kind {
		case "bool":
			call, ok := v.(*ssa.Call)
			if !ok {
				continue
			}
			g := helperCallee(fa, call)
			if g == nil {
				continue
			}
			res := g.Signature.Results()
			if res.Len() != 1 || !types.Identical(res.At(0).Type().Underlying(), types.Typ[types.Bool]) {
				continue
			}
			ga := NewFuncAnCtx(fa.W, g, fa.CallArgs(call))
			whenTrue, whenFalse := ga.helperImplies(pats, depth+1)
			switch {
			case whenTrue:
				e := Edge{c.If.Block(), c.HoldsSucc}
				pass, all = append(pass, e), append(all, e)
			case whenFalse:
				e := Edge{c.If.Block(), 1 - c.HoldsSucc}
				pass, all = append(pass, e), append(all, e)
			}
		case "eq":
			// a helper that reports by error: `if err := check(…); err != nil { reject }`
			if !(c.L == "nil" || c.R == "nil") {
				continue
			}
			bo, ok := v.(*ssa.BinOp)
			if !ok {
				continue
			}
			var ev ssa.Value
			if cn, isC := bo.Y.(*ssa.Const); isC && cn.Value == nil {
				ev = bo.X
			} else if cn, isC := bo.X.(*ssa.Const); isC && cn.Value == nil {
				ev = bo.Y
			} else {
				continue
			}
			var call *ssa.Call
			switch e := ev.(type) {
			case *ssa.Call:
				call = e
			case *ssa.Extract:
				if cc, isCall := e.Tuple.(*ssa.Call); isCall && e.Index == cc.Call.Signature().Results().Len()-1 {
					call = cc
				}
			}
			if call == nil {
				continue
			}
			g := helperCallee(fa, call)
			if g == nil {
				continue
			}
			res := g.Signature.Results()
			if res.Len() < 1 || res.At(res.Len()-1).Type().String() != "error" {
				continue
			}
			ga := NewFuncAnCtx(fa.W, g, fa.CallArgs(call))
			gpass, gall := ga.matchGuardsRaw(pats, depth+1)
			if len(gpass) == 0 {
				continue
			}
			var nilExits []Exit
			for _, ex := range ga.Exits() {
				rs := RetResults(ex.Ret)
				if len(rs) == 0 {
					continue
				}
				if !ga.knownNonNilErr(rs[len(rs)-1], ex.In) {
					nilExits = append(nilExits, ex)
				}
			}
			if len(nilExits) > 0 && ga.PathAvoiding(gall, nilExits) == nil {
				e := Edge{c.If.Block(), c.HoldsSucc}
				pass, all = append(pass, e), append(all, e)
			}
		}
	}
	return
}

func helperCallee(fa *FuncAn, call *ssa.Call) *ssa.Function {
	g := call.Call.StaticCallee()
	if g == nil || len(g.Blocks) == 0 || g.Pkg == nil || !inModule(g.Pkg.Pkg.Path()) || g == fa.Fn {
		return nil
	}
	return g
}

// helperImplies: in this (boolean, single-result) function, does returning true — respectively
// false — imply that the guard was passed (or was not required)?
func (fa *FuncAn) helperImplies(pats []rawPat, depth int) (whenTrue, whenFalse bool) {
	gpass, gall := fa.matchGuardsRaw(pats, depth)
	var mayTrue, mayFalse []Exit // exits not settled by a matching returned expression
	nTrue, nFalse, matched := 0, 0, 0
	for _, ex := range fa.Exits() {
		rs := RetResults(ex.Ret)
		if len(rs) != 1 {
			return false, false
		}
		if v, known := fa.knownBool(rs[0], ex.In); known {
			if v {
				nTrue++
				mayTrue = append(mayTrue, ex)
			} else {
				nFalse++
				mayFalse = append(mayFalse, ex)
			}
			continue
		}
		// a returned expression: true ⇔ its condition holds (through the phi of a short-circuit:
		// the operand of the edge this exit arrives over)
		nTrue++
		nFalse++
		rv := rs[0]
		if phi, isPhi := rv.(*ssa.Phi); isPhi && ex.In != nil && phi.Block() == ex.In.To() {
			for i, p := range phi.Block().Preds {
				if p == ex.In.From && i < len(phi.Edges) {
					rv = phi.Edges[i]
				}
			}
		}
		cc := fa.canon(rv)
		settled := false
		for _, rp := range pats {
			if !rp.main {
				continue
			}
			if succ, ok := matchOne(cc, rp.x, rp.y, rp.p); ok {
				matched++
				if succ == 0 {
					mayFalse = append(mayFalse, ex) // expression true ⇒ guard passed
				} else {
					mayTrue = append(mayTrue, ex)
				}
				settled = true
				break
			}
		}
		if !settled {
			mayTrue = append(mayTrue, ex)
			mayFalse = append(mayFalse, ex)
		}
	}
	if len(gpass) == 0 && matched == 0 {
		return false, false
	}
	whenTrue = nTrue > 0 && (len(mayTrue) == 0 || fa.PathAvoiding(gall, mayTrue) == nil)
	whenFalse = nFalse > 0 && (len(mayFalse) == 0 || fa.PathAvoiding(gall, mayFalse) == nil)
	// a guard tested once per element of a loop (zero elements pass vacuously): the helper
	// implements it when no true (false) return is reachable from a rejecting edge
	inLoop := len(gpass) > 0
	for _, e := range gpass {
		if loopHeaderOf(e.From) == nil {
			inLoop = false
		}
	}
	if inLoop && !whenTrue && !whenFalse {
		rejectFree := func(exits []Exit) bool {
			te := map[Edge]bool{}
			tb := map[*ssa.BasicBlock]bool{}
			for _, x := range exits {
				if x.In == nil {
					tb[x.Ret.Block()] = true
				} else {
					te[*x.In] = true
				}
			}
			for _, e := range gpass {
				rej := Edge{e.From, 1 - e.Succ}
				if te[rej] {
					return false
				}
				if p := pathTo(rej.To(), map[Edge]bool{e: true}, te, tb); p != nil {
					return false
				}
			}
			return true
		}
		if nTrue > 0 && len(mayTrue) > 0 && rejectFree(mayTrue) {
			whenTrue = true
		} else if nFalse > 0 && len(mayFalse) > 0 && rejectFree(mayFalse) {
			whenFalse = true
		}
	}
	if whenTrue && whenFalse {
		// every return needs the guard: it is not what the result reports
		return false, false
	}
	return whenTrue, whenFalse
}

// --- reachability -------------------------------------------------------------

// Exit is a return instruction reached through a particular in-edge (nil edge:
// the entry block itself).
type Exit struct {
	Ret *ssa.Return
	In  *Edge
}

// ExitClass classifies exits as success (true) or not.
type ExitClass func(fa *FuncAn, ret *ssa.Return, in *Edge) bool

// edgeFacts collects the branch facts known to hold when control arrives over
// edge e: the If at e.From (when it ends in one) and the Ifs whose single
// outcome dominates e.From.
type fact struct {
	c     Cond
	holds bool
}

func (fa *FuncAn) factsOn(e *Edge) []fact {
	var out []fact
	if e == nil {
		return nil
	}
	b := e.From
	if iff, ok := lastInstr(b).(*ssa.If); ok {
		c := fa.CondOf(iff)
		out = append(out, fact{c, e.Succ == c.HoldsSucc})
	}
	// walk up the dominator tree
	for cur := b; cur != nil; cur = cur.Idom() {
		d := cur.Idom()
		if d == nil {
			break
		}
		iff, ok := lastInstr(d).(*ssa.If)
		if !ok {
			continue
		}
		for k, s := range d.Succs {
			if len(s.Preds) == 1 && (s == cur || s.Dominates(cur)) && d.Succs[1-k] != s {
				c := fa.CondOf(iff)
				out = append(out, fact{c, k == c.HoldsSucc})
			}
		}
	}
	return out
}

func lastInstr(b *ssa.BasicBlock) ssa.Instruction {
	if len(b.Instrs) == 0 {
		return nil
	}
	return b.Instrs[len(b.Instrs)-1]
}

// knownFalse: is boolean value v known to be false on arrival over e?
func (fa *FuncAn) knownBool(v ssa.Value, e *Edge) (val, known bool) {
	if c, ok := v.(*ssa.Const); ok && c.Value != nil {
		return c.Value.String() == "true", true
	}
	if fa.oracle != nil {
		if s := fa.oracle(v); s.kind == 1 {
			return s.b, true
		}
	}
	if phi, ok := v.(*ssa.Phi); ok && e != nil && phi.Block() == e.To() {
		for i, p := range phi.Block().Preds {
			if p == e.From {
				return fa.knownBool(phi.Edges[i], nil)
			}
		}
	}
	s := fa.R.R(v)
	for _, f := range fa.factsOn(e) {
		if f.c.Kind == "bool" && f.c.L == s {
			return f.holds, true
		}
	}
	return false, false
}

var errCtorRe = regexp.MustCompile(`^(fmt\.Errorf|errors\.New|krberror\.\w+|messages\.NewKRBError|\w[\w/]*\.\(\*?\w+\)\.\w*[Ee]rrorf?|config\.\w*Errorf?)\(`)

// knownNonNilErr: is error value v known to be non-nil on arrival over e?
func (fa *FuncAn) knownNonNilErr(v ssa.Value, e *Edge) bool {
	if c, ok := v.(*ssa.Const); ok {
		return c.Value != nil
	}
	if fa.oracle != nil {
		if s := fa.oracle(v); s.kind == 2 && !s.b {
			return true
		}
	}
	if phi, ok := v.(*ssa.Phi); ok && e != nil && phi.Block() == e.To() {
		for i, p := range phi.Block().Preds {
			if p == e.From {
				return fa.knownNonNilErr(phi.Edges[i], nil)
			}
		}
	}
	s := fa.R.R(v)
	if errCtorRe.MatchString(s) {
		return true
	}
	// a module function all of whose returns are non-nil errors
	if call, ok := v.(*ssa.Call); ok {
		if f := call.Call.StaticCallee(); f != nil && alwaysErr(fa.W, f, 0) {
			return true
		}
	}
	// a value of a concrete struct type boxed into error
	if mi, ok := v.(*ssa.MakeInterface); ok {
		if _, isPtr := mi.X.Type().Underlying().(*types.Pointer); !isPtr {
			return true
		}
	}
	for _, f := range fa.factsOn(e) {
		if f.c.Kind == "eq" && ((f.c.L == s && f.c.R == "nil") || (f.c.R == s && f.c.L == "nil")) {
			return !f.holds
		}
	}
	return false
}

// BoolErrSuccess returns an ExitClass for functions returning (…bool…, …error…):
// an exit is a success unless the bool result is known false or the error
// result is known non-nil. Index -1 disables a test.
func BoolErrSuccess(boolIdx, errIdx int) ExitClass {
	return func(fa *FuncAn, ret *ssa.Return, in *Edge) bool {
		res := RetResults(ret)
		if boolIdx >= 0 && boolIdx < len(res) {
			if v, known := fa.knownBool(res[boolIdx], in); known && !v {
				return false
			}
		}
		if errIdx >= 0 && errIdx < len(res) {
			if fa.knownNonNilErr(res[errIdx], in) {
				return false
			}
		}
		return true
	}
}

// RetResults returns the result operands of a return, seeing through the
// result spill go/ssa inserts in functions that contain a defer
// (store r <- v; rundefers; t = *r; return t).
func RetResults(ret *ssa.Return) []ssa.Value {
	out := make([]ssa.Value, len(ret.Results))
	for i, v := range ret.Results {
		out[i] = v
		u, ok := v.(*ssa.UnOp)
		if !ok || u.Op != token.MUL || u.Block() != ret.Block() {
			continue
		}
		a, ok := u.X.(*ssa.Alloc)
		if !ok {
			continue
		}
		var last ssa.Value
		for _, in := range ret.Block().Instrs {
			if in == ssa.Instruction(u) {
				break
			}
			if st, ok := in.(*ssa.Store); ok && st.Addr == a {
				last = st.Val
			}
		}
		if last != nil {
			out[i] = last
		}
	}
	return out
}

// Exits enumerates (return, in-edge) pairs of the function.
func (fa *FuncAn) Exits() []Exit {
	var out []Exit
	for _, b := range fa.Fn.Blocks {
		ret, ok := lastInstr(b).(*ssa.Return)
		if !ok {
			continue
		}
		if b == fa.Fn.Recover {
			continue // the panic-recovery epilogue is not a normal exit
		}
		if len(b.Preds) == 0 {
			out = append(out, Exit{ret, nil})
			continue
		}
		for _, p := range b.Preds {
			for k, s := range p.Succs {
				if s == b {
					e := Edge{p, k}
					out = append(out, Exit{ret, &e})
				}
			}
		}
	}
	return out
}

// SuccessExits filters Exits by class.
func (fa *FuncAn) SuccessExits(cls ExitClass) []Exit {
	var out []Exit
	for _, x := range fa.Exits() {
		if cls(fa, x.Ret, x.In) {
			out = append(out, x)
		}
	}
	return out
}

// pathTo searches a path from `from` (block start) to any target, never
// traversing a removed edge. Targets are either edges (arrival over that
// edge) or blocks. Returns the block path or nil.
func pathTo(from *ssa.BasicBlock, removed map[Edge]bool, targetEdge map[Edge]bool, targetBlock map[*ssa.BasicBlock]bool) []*ssa.BasicBlock {
	if targetBlock[from] {
		return []*ssa.BasicBlock{from}
	}
	prev := map[*ssa.BasicBlock]*ssa.BasicBlock{from: nil}
	queue := []*ssa.BasicBlock{from}
	build := func(last *ssa.BasicBlock, final *ssa.BasicBlock) []*ssa.BasicBlock {
		var rev []*ssa.BasicBlock
		if final != nil {
			rev = append(rev, final)
		}
		for b := last; b != nil; b = prev[b] {
			rev = append(rev, b)
		}
		for i, j := 0, len(rev)-1; i < j; i, j = i+1, j-1 {
			rev[i], rev[j] = rev[j], rev[i]
		}
		return rev
	}
	for len(queue) > 0 {
		b := queue[0]
		queue = queue[1:]
		for k, s := range b.Succs {
			e := Edge{b, k}
			if removed[e] {
				continue
			}
			if targetEdge[e] {
				return build(b, s)
			}
			// s is a pure "if φ(consts)" block: on arrival from b the branch
			// outcome is fixed, so step through it to the feasible successor
			// only (keeps `ok := true; for {…ok = false; break}; if ok` exact)
			if fs, ok := phiConstSucc(s, b); ok {
				e2 := Edge{s, fs}
				if removed[e2] {
					continue
				}
				if targetBlock[s] {
					return build(b, s)
				}
				if targetEdge[e2] {
					return append(build(b, s), s.Succs[fs])
				}
				s2 := s.Succs[fs]
				if _, seen := prev[s2]; seen {
					continue
				}
				// record s on the path only if not yet visited
				if _, seen := prev[s]; !seen {
					prev[s] = b
					prev[s2] = s
				} else {
					prev[s2] = b
				}
				if targetBlock[s2] {
					return build(s2, nil)
				}
				queue = append(queue, s2)
				continue
			}
			if _, seen := prev[s]; seen {
				continue
			}
			prev[s] = b
			if targetBlock[s] {
				return build(s, nil)
			}
			queue = append(queue, s)
		}
	}
	return nil
}

// phiConstSucc: block s consists only of phis and an If whose condition is a
// phi of s with a boolean constant on the edge from pred. Returns the feasible
// successor index.
func phiConstSucc(s, pred *ssa.BasicBlock) (int, bool) {
	iff, ok := lastInstr(s).(*ssa.If)
	if !ok {
		return 0, false
	}
	for _, in := range s.Instrs[:len(s.Instrs)-1] {
		if _, isPhi := in.(*ssa.Phi); !isPhi {
			return 0, false
		}
	}
	cond := iff.Cond
	neg := false
	for {
		if u, ok := cond.(*ssa.UnOp); ok && u.Op == token.NOT {
			cond, neg = u.X, !neg
			continue
		}
		break
	}
	phi, ok := cond.(*ssa.Phi)
	if !ok || phi.Block() != s {
		return 0, false
	}
	for i, p := range s.Preds {
		if p != pred {
			continue
		}
		c, ok := phi.Edges[i].(*ssa.Const)
		if !ok || c.Value == nil {
			return 0, false
		}
		v := c.Value.String() == "true"
		if neg {
			v = !v
		}
		if v {
			return 0, true
		}
		return 1, true
	}
	return 0, false
}

// PathAvoiding returns a path from the function entry to a success exit that
// uses none of the pass edges, or nil when every path to success uses one.
func (fa *FuncAn) PathAvoiding(pass []Edge, exits []Exit) []*ssa.BasicBlock {
	if len(fa.Fn.Blocks) == 0 {
		return nil
	}
	removed := map[Edge]bool{}
	for _, e := range pass {
		removed[e] = true
	}
	te := map[Edge]bool{}
	tb := map[*ssa.BasicBlock]bool{}
	for _, x := range exits {
		if x.In == nil {
			tb[x.Ret.Block()] = true
		} else {
			te[*x.In] = true
		}
	}
	return pathTo(fa.Fn.Blocks[0], removed, te, tb)
}

// PathToInstrAvoiding returns a path from entry to the block of instr that
// uses none of the pass edges, or nil.
func (fa *FuncAn) PathToInstrAvoiding(pass []Edge, in ssa.Instruction) []*ssa.BasicBlock {
	removed := map[Edge]bool{}
	for _, e := range pass {
		removed[e] = true
	}
	return pathTo(fa.Fn.Blocks[0], removed, nil, map[*ssa.BasicBlock]bool{in.Block(): true})
}

// PathFromTo: path from block a to the block of instr avoiding removed edges.
func PathFromTo(a *ssa.BasicBlock, removed []Edge, in ssa.Instruction) []*ssa.BasicBlock {
	rm := map[Edge]bool{}
	for _, e := range removed {
		rm[e] = true
	}
	return pathTo(a, rm, nil, map[*ssa.BasicBlock]bool{in.Block(): true})
}

// DescribePath renders a block path as source lines.
func (fa *FuncAn) DescribePath(path []*ssa.BasicBlock) string {
	var parts []string
	last := ""
	for _, b := range path {
		p := token.NoPos
		for _, in := range b.Instrs {
			if in.Pos().IsValid() {
				p = in.Pos()
				break
			}
		}
		s := fmt.Sprintf("b%d", b.Index)
		if p.IsValid() {
			s += "@" + fmt.Sprint(fa.W.Fset.Position(p).Line)
		}
		if s != last {
			parts = append(parts, s)
		}
		last = s
	}
	return strings.Join(parts, " → ")
}

// Calls returns every call instruction in the function whose rendered callee
// matches the pattern (matched against the part before the argument list).
func (fa *FuncAn) Calls(calleePat string) []ssa.CallInstruction {
	var out []ssa.CallInstruction
	for _, b := range fa.Fn.Blocks {
		for _, in := range b.Instrs {
			ci, ok := in.(ssa.CallInstruction)
			if !ok {
				continue
			}
			name := fa.CalleeName(ci)
			if fullMatch(calleePat, name) {
				out = append(out, ci)
			}
		}
	}
	return out
}

// deepCall is a call site found in the function or in a new helper it calls (with the helper's
// parameters rendered as the caller's arguments).
type deepCall struct {
	ci   ssa.CallInstruction
	fa   *FuncAn
	site ssa.CallInstruction // the call in the anchor function through which ci is reached (ci itself when direct)
}

// CallsDeep: the call sites matching calleePat in the function and, transitively (depth 3), in the
// new helpers it calls — see newHelper.
func (fa *FuncAn) CallsDeep(calleePat string) []deepCall {
	var out []deepCall
	var walk func(a *FuncAn, depth int, site ssa.CallInstruction)
	walk = func(a *FuncAn, depth int, site ssa.CallInstruction) {
		for _, b := range a.Fn.Blocks {
			for _, in := range b.Instrs {
				ci, ok := in.(ssa.CallInstruction)
				if !ok {
					continue
				}
				top := site
				if top == nil {
					top = ci
				}
				if fullMatch(calleePat, a.CalleeName(ci)) {
					out = append(out, deepCall{ci, a, top})
				}
				if depth < 3 {
					if g := ci.Common().StaticCallee(); g != nil && newHelper(g) && g != a.Fn {
						sub := NewFuncAnCtx(a.W, g, a.CallArgs(ci))
						sub.R.inlineDepth = a.R.inlineDepth + 1
						walk(sub, depth+1, top)
					}
				}
			}
		}
	}
	walk(fa, 0, nil)
	return out
}

// CalleeName renders the callee of a call site (without arguments).
func (fa *FuncAn) CalleeName(ci ssa.CallInstruction) string {
	c := ci.Common()
	if c.IsInvoke() {
		return shortType(c.Value.Type()) + "." + c.Method.Name()
	}
	switch f := c.Value.(type) {
	case *ssa.Function:
		return calleeName(f)
	case *ssa.Builtin:
		return f.Name()
	case *ssa.MakeClosure:
		return "closure:" + FuncKey(f.Fn.(*ssa.Function))
	}
	return "dyn:" + fa.R.R(c.Value)
}

// CallArgs renders the arguments of a call (receiver first for methods/invokes).
func (fa *FuncAn) CallArgs(ci ssa.CallInstruction) []string {
	c := ci.Common()
	var vs []ssa.Value
	if c.IsInvoke() {
		vs = append(vs, c.Value)
	}
	if f := c.StaticCallee(); f != nil && !c.IsInvoke() {
		vs = append(vs, refOrderArgs(f, c.Args)...)
	} else {
		vs = append(vs, c.Args...)
	}
	out := make([]string, len(vs))
	for i, v := range vs {
		out[i] = fa.R.R(v)
	}
	return out
}

// SortedKeys helper.
func sortedKeys[M ~map[string]V, V any](m M) []string {
	ks := make([]string, 0, len(m))
	for k := range m {
		ks = append(ks, k)
	}
	sort.Strings(ks)
	return ks
}

func compileRe(pat string) *regexp.Regexp {
	re, ok := reCache["raw:"+pat]
	if !ok {
		re = regexp.MustCompile(pat)
		reCache["raw:"+pat] = re
	}
	return re
}

// exitLabel names an exit by the branch outcome it is reached on (position-free).
func (fa *FuncAn) exitLabel(x Exit) string {
	fs := fa.factsOn(x.In)
	if len(fs) == 0 {
		return "entry"
	}
	f := fs[0]
	if f.holds {
		return trunc(f.c.String(), 100)
	}
	return "!(" + trunc(f.c.String(), 100) + ")"
}

// M matches s against a pattern after parameter substitution/translation.
func (fa *FuncAn) M(pat, s string) bool { return fullMatch(substParams(fa.Fn, pat), s) }

var alwaysErrMemo = map[*ssa.Function]int{}

// alwaysErr: fn has a single error result and every return yields a non-nil error.
func alwaysErr(w *World, fn *ssa.Function, depth int) bool {
	if v, ok := alwaysErrMemo[fn]; ok {
		return v == 1
	}
	alwaysErrMemo[fn] = 0
	res := fn.Signature.Results()
	if depth > 3 || len(fn.Blocks) == 0 || res.Len() != 1 || res.At(0).Type().String() != "error" {
		return false
	}
	fa := NewFuncAn(w, fn)
	for _, x := range fa.Exits() {
		if !fa.knownNonNilErr(RetResults(x.Ret)[0], x.In) {
			return false
		}
	}
	alwaysErrMemo[fn] = 1
	return true
}

// ConstNilErrSuccess: only returns whose error result is the nil constant are
// success exits (for functions that forward a callee's error on failure).
func ConstNilErrSuccess(errIdx int) ExitClass {
	return func(fa *FuncAn, ret *ssa.Return, in *Edge) bool {
		res := RetResults(ret)
		if errIdx >= len(res) {
			return false
		}
		k, ok := res[errIdx].(*ssa.Const)
		return ok && k.Value == nil
	}
}

// shortCircuitCond: `switch { case a && b: }` (and `x := a && b; if x`) materialises the
// short-circuit as a phi of booleans in the block of the If: φ(false [a failed] | b). Arriving over
// a constant edge the branch is decided (pathTo prunes those by phiConstSucc); arriving over the
// single non-constant edge the If tests that value. The condition of such an If is therefore that
// value — the same condition the if-statement form branches on directly.
func shortCircuitCond(iff *ssa.If) ssa.Value {
	v := iff.Cond
	neg := 0
	for {
		u, ok := v.(*ssa.UnOp)
		if !ok || u.Op != token.NOT {
			break
		}
		v = u.X
		neg++
	}
	phi, ok := v.(*ssa.Phi)
	if !ok || phi.Block() != iff.Block() {
		return iff.Cond
	}
	var nonConst ssa.Value
	n := 0
	for _, e := range phi.Edges {
		if _, isC := e.(*ssa.Const); isC {
			continue
		}
		nonConst = e
		n++
	}
	if n != 1 || neg != 0 {
		return iff.Cond
	}
	return nonConst
}

// TrueImplies: this single-result boolean function returns true only when guard p was passed — by a
// branch, or because the returned expression is the guard's condition.
func (fa *FuncAn) TrueImplies(p GuardPat) bool {
	whenTrue, _ := fa.helperImplies([]rawPat{{substParams(fa.Fn, p.X), substParams(fa.Fn, p.Y), p, true}}, 0)
	return whenTrue
}

// linearAlts: for an integer comparison, the spellings L' > R' (relative to the canonical gt of the
// condition: same Holds edge) that move terms of the linear form L − R across the comparison.
// Only forms whose sides are sums/differences of at most two terms are produced.
func (fa *FuncAn) linearAlts(cond ssa.Value) [][2]string {
	v := cond
	for {
		u, ok := v.(*ssa.UnOp)
		if !ok || u.Op != token.NOT {
			break
		}
		v = u.X
	}
	bo, ok := v.(*ssa.BinOp)
	if !ok {
		return nil
	}
	if _, _, isInt := intInfo(bo.X.Type(), 64); !isInt {
		return nil
	}
	var l, r ssa.Value
	switch bo.Op {
	case token.GTR, token.LEQ: // canonical gt: X > Y
		l, r = bo.X, bo.Y
	case token.LSS, token.GEQ: // canonical gt: Y > X
		l, r = bo.Y, bo.X
	default:
		return nil
	}
	if fa.bc == nil {
		fa.bc = newBoundsCtx(fa.W, fa.Fn)
		fa.bc.r = fa.R
	}
	bc := fa.bc
	d := bc.lin(l).add(bc.lin(r), -1) // d > 0
	type term struct {
		s   string
		pos bool
	}
	var terms []term
	for a, cf := range d.t {
		if cf != 1 && cf != -1 {
			return nil
		}
		terms = append(terms, term{bc.atomName(a), cf == 1})
	}
	if d.k != 0 {
		k := d.k
		if k < 0 {
			terms = append(terms, term{fmt.Sprint(-k), false})
		} else {
			terms = append(terms, term{fmt.Sprint(k), true})
		}
	}
	if len(terms) < 2 || len(terms) > 4 {
		return nil
	}
	sort.Slice(terms, func(i, j int) bool { return terms[i].s < terms[j].s })
	side := func(ts []term) (string, bool) {
		var pos, neg []string
		for _, t := range ts {
			if t.pos {
				pos = append(pos, t.s)
			} else {
				neg = append(neg, t.s)
			}
		}
		switch {
		case len(ts) == 0:
			return "0", true
		case len(pos) == 1 && len(neg) == 0:
			return pos[0], true
		case len(pos) == 2 && len(neg) == 0:
			return "(" + pos[0] + " + " + pos[1] + ")", true
		case len(pos) == 1 && len(neg) == 1:
			return "(" + pos[0] + " - " + neg[0] + ")", true
		}
		return "", false
	}
	var out [][2]string
	n := len(terms)
	for mask := 0; mask < 1<<uint(n); mask++ {
		var left, right []term
		for i, t := range terms {
			if mask&(1<<uint(i)) != 0 {
				left = append(left, t)
			} else {
				right = append(right, term{t.s, !t.pos}) // moved across: sign flips
			}
		}
		ls, ok1 := side(left)
		rs, ok2 := side(right)
		if ok1 && ok2 {
			out = append(out, [2]string{ls, rs})
		}
	}
	return out
}

// withNewHelpers: the function and, with their parameters rendered as its arguments, the helpers
// introduced later that it calls (transitively, depth 2): the places where a construct that used to
// be in the function's own body may live after an extract-method refactoring.
func (fa *FuncAn) withNewHelpers() []*FuncAn {
	out := []*FuncAn{fa}
	seen := map[*ssa.Function]bool{fa.Fn: true}
	var walk func(a *FuncAn, depth int)
	walk = func(a *FuncAn, depth int) {
		for _, b := range a.Fn.Blocks {
			for _, in := range b.Instrs {
				call, ok := in.(*ssa.Call)
				if !ok {
					continue
				}
				g := call.Call.StaticCallee()
				if g == nil || !newHelper(g) || seen[g] {
					continue
				}
				seen[g] = true
				sub := NewFuncAnCtx(a.W, g, a.CallArgs(call))
				sub.R.inlineDepth = a.R.inlineDepth + 1
				sub.Via = a.Via
				if sub.Via == nil {
					sub.Via = call
				}
				out = append(out, sub)
				if depth < 2 {
					walk(sub, depth+1)
				}
			}
		}
	}
	walk(fa, 0)
	return out
}

// LeafTerms: the values v may take, as terms — through φs and through the results of helpers
// extracted from the function (their success returns, with parameters read as the arguments).
func (fa *FuncAn) LeafTerms(v ssa.Value) []string {
	var out []string
	seen := map[ssa.Value]bool{}
	var walk func(a *FuncAn, v ssa.Value, depth int)
	walk = func(a *FuncAn, v ssa.Value, depth int) {
		if seen[v] || depth > 12 {
			return
		}
		seen[v] = true
		switch x := v.(type) {
		case *ssa.Phi:
			for _, e := range x.Edges {
				walk(a, e, depth+1)
			}
			return
		case *ssa.Extract, *ssa.Call:
			idx := 0
			var call *ssa.Call
			if ex, ok := x.(*ssa.Extract); ok {
				idx = ex.Index
				call, _ = ex.Tuple.(*ssa.Call)
			} else {
				call = x.(*ssa.Call)
			}
			if call != nil {
				if g := call.Call.StaticCallee(); g != nil && newHelper(g) && g != a.Fn && a.R.inlineDepth < 3 {
					sub := NewFuncAnCtx(a.W, g, a.CallArgs(call))
					sub.R.inlineDepth = a.R.inlineDepth + 1
					n := g.Signature.Results().Len()
					found := false
					for _, ex := range sub.Exits() {
						rs := RetResults(ex.Ret)
						if idx >= len(rs) {
							continue
						}
						if n >= 2 && g.Signature.Results().At(n-1).Type().String() == "error" && sub.knownNonNilErr(rs[n-1], ex.In) {
							continue
						}
						found = true
						walk(sub, rs[idx], depth+1)
					}
					if found {
						return
					}
				}
			}
		}
		out = append(out, a.R.R(v))
	}
	walk(fa, v, 0)
	return out
}

// leafValue is a value a result may take, with the function context it lives in.
type leafValue struct {
	fa *FuncAn
	v  ssa.Value
}

// LeafValues: like LeafTerms, but the values themselves (through φs and through the success
// returns of helpers extracted from the function).
func (fa *FuncAn) LeafValues(v ssa.Value) []leafValue {
	var out []leafValue
	seen := map[ssa.Value]bool{}
	var walk func(a *FuncAn, v ssa.Value, depth int)
	walk = func(a *FuncAn, v ssa.Value, depth int) {
		if seen[v] || depth > 12 {
			return
		}
		seen[v] = true
		switch x := v.(type) {
		case *ssa.Phi:
			for _, e := range x.Edges {
				walk(a, e, depth+1)
			}
			return
		case *ssa.Extract, *ssa.Call:
			idx := 0
			var call *ssa.Call
			if ex, ok := x.(*ssa.Extract); ok {
				idx = ex.Index
				call, _ = ex.Tuple.(*ssa.Call)
			} else {
				call = x.(*ssa.Call)
			}
			if call != nil {
				if g := call.Call.StaticCallee(); g != nil && newHelper(g) && g != a.Fn && a.R.inlineDepth < 3 {
					sub := NewFuncAnCtx(a.W, g, a.CallArgs(call))
					sub.R.inlineDepth = a.R.inlineDepth + 1
					found := false
					n := g.Signature.Results().Len()
					for _, ex := range sub.Exits() {
						rs := RetResults(ex.Ret)
						if idx >= len(rs) {
							continue
						}
						if idx < n-1 && n >= 2 && g.Signature.Results().At(n-1).Type().String() == "error" && sub.knownNonNilErr(rs[n-1], ex.In) {
							continue
						}
						found = true
						walk(sub, rs[idx], depth+1)
					}
					if found {
						return
					}
				}
			}
		}
		out = append(out, leafValue{a, v})
	}
	walk(fa, v, 0)
	return out
}
