package main

// E7: secrets to sinks. SSA taint analysis with per-function summaries
// (parameter→result, parameter→sink, intrinsic sources) iterated to a fixpoint
// over the module, plus a type-level rule for aggregates handed to formatting
// sinks and a JSON/gob type audit.

import (
	"fmt"
	"go/types"
	"reflect"
	"sort"
	"strings"

	"golang.org/x/tools/go/ssa"
)

type taintCfg struct {
	w *World
	// source fields (types.Var identity)
	srcField map[*types.Var]string
	// source parameters: function key -> param indices (incl. receiver as 0 for methods)
	srcParam map[string][]int
	// functions whose bodies are exempt as sinks (explicit dump APIs)
	exemptFn map[string]string
}

type taintSummary struct {
	paramToRet   map[int]bool // param i taints some result
	retIntrinsic bool         // some result carries an intrinsic source
	paramToSink  map[int]string
	retWhy       string
}

type taintHit struct {
	fn   *ssa.Function
	site ssa.Instruction
	sink string
	why  string
	kind string // "flow" | "type"
	arg  string
}

type taintAn struct {
	cfg    *taintCfg
	sums   map[*ssa.Function]*taintSummary
	hits   map[string]taintHit
	fns    []*ssa.Function
	nSinks int
}

var sinkRe = compileReMust(`^(fmt\.(Errorf|Fprintf|Fprint|Fprintln|Printf|Print|Println)|errors\.New|krberror\.(Errorf|NewErrorf|NewKrberror)|krberror\.\(\*?Krberror\)\.Add|messages\.NewKRBError|log\.\(\*Logger\)\.\w+|log\.(Printf|Print|Println|Fatal\w*|Panic\w*)|client\.\(\*Client\)\.Log|spnego\.\(\*SPNEGO\)\.Log|net/http\.Error|encoding/json\.(Marshal|MarshalIndent)|encoding/json\.\(\*Encoder\)\.Encode|encoding/gob\.\(\*Encoder\)\.Encode|config\.(InvalidErrorf|UnsupportedDirective\w*)|panic)$`)

// results of these calls carry no information about their key/secret operands
var declassRe = compileReMust(`(\.EncryptMessage|\.EncryptData|\.DecryptMessage|\.DecryptData|\.GetChecksumHash|\.VerifyChecksum|\.VerifyIntegrity|common\.GetHash|common\.GetIntegrityHash|common\.GetChecksumHash|rfc8009\.GetIntegityHash|rfc4757\.HMAC|rfc4757\.Checksum|crypto\.GetEncryptedData|crypto\.DecryptMessage|crypto\.DecryptEncPart|hash\.Hash\.Sum|crypto/hmac\.New|crypto/hmac\.Equal|bytes\.Equal|crypto/subtle\.\w+|\.Marshal|messages\.NewTicket)$`)

// library calls through which a tainted operand taints the result
var propRe = compileReMust(`^(encoding/hex\.EncodeToString|encoding/hex\.Dump|encoding/base64\.\(\*Encoding\)\.EncodeToString|fmt\.Sprintf|fmt\.Sprint|fmt\.Sprintln|strings\.\w+|bytes\.\w+|bytes\.\(\*Buffer\)\.\w+|string|append|copy|bytes\.NewBuffer|bytes\.NewReader|strconv\.Quote|.*\.(StringToKey|StringToKeyIter|StringToPBKDF2|DeriveKey|DeriveRandom|RandomToKey|KDF_HMAC_SHA2|Nfold|DES3RandomToKey|DES3StringToKey)|.*pbkdf2\.Key(64)?)$`)

func compileReMust(p string) *regexpT { return &regexpT{compileRe(p)} }

type regexpT struct {
	re interface{ MatchString(string) bool }
}

func (r *regexpT) Match(s string) bool { return r.re.MatchString(s) }

func bytesOrString(t types.Type) bool {
	switch u := t.Underlying().(type) {
	case *types.Basic:
		return u.Info()&types.IsString != 0
	case *types.Slice:
		if b, ok := u.Elem().Underlying().(*types.Basic); ok {
			return b.Kind() == types.Byte || b.Kind() == types.Uint8 || b.Kind() == types.Rune || b.Kind() == types.Int32 || b.Kind() == types.Uint16
		}
		// []string
		if b, ok := u.Elem().Underlying().(*types.Basic); ok && b.Info()&types.IsString != 0 {
			return true
		}
	case *types.Array:
		if b, ok := u.Elem().Underlying().(*types.Basic); ok {
			return b.Kind() == types.Byte || b.Kind() == types.Uint8
		}
	case *types.Interface:
		return true
	case *types.Pointer:
		return bytesOrString(u.Elem())
	}
	return false
}

// typeHasSource: walking the type as a formatter would, does it reach a source field?
func (tc *taintCfg) typeHasSource(t types.Type, depth int, seen map[types.Type]bool) (string, bool) {
	if depth > 6 || seen[t] {
		return "", false
	}
	seen[t] = true
	defer delete(seen, t)
	switch u := t.Underlying().(type) {
	case *types.Struct:
		for i := 0; i < u.NumFields(); i++ {
			f := u.Field(i)
			if why, ok := tc.srcField[f]; ok {
				return why, true
			}
			if why, ok := tc.typeHasSource(f.Type(), depth+1, seen); ok {
				return shortType(t) + "." + f.Name() + " → " + why, true
			}
		}
	case *types.Pointer:
		return tc.typeHasSource(u.Elem(), depth+1, seen)
	case *types.Slice:
		return tc.typeHasSource(u.Elem(), depth+1, seen)
	case *types.Array:
		return tc.typeHasSource(u.Elem(), depth+1, seen)
	case *types.Map:
		return tc.typeHasSource(u.Elem(), depth+1, seen)
	}
	return "", false
}

func newTaintAn(cfg *taintCfg) *taintAn {
	ta := &taintAn{cfg: cfg, sums: map[*ssa.Function]*taintSummary{}, hits: map[string]taintHit{}}
	for _, fn := range cfg.w.ModuleFuncs() {
		if strings.HasSuffix(fn.Pkg.Pkg.Path(), "/examples") || strings.HasSuffix(fn.Pkg.Pkg.Path(), "/test/testdata") {
			continue
		}
		ta.fns = append(ta.fns, fn)
		ta.sums[fn] = &taintSummary{paramToRet: map[int]bool{}, paramToSink: map[int]string{}}
	}
	return ta
}

// analyse one function given which parameters are assumed tainted (by index);
// returns taint of values. why[v] explains the origin.
func (ta *taintAn) run(fn *ssa.Function, assume map[int]string, report bool) (tainted map[ssa.Value]string) {
	tainted = map[ssa.Value]string{}
	fa := NewFuncAn(ta.cfg.w, fn)
	fk := FuncKey(fn)
	for i, why := range assume {
		if i < len(fn.Params) {
			tainted[fn.Params[i]] = why
		}
	}
	for _, i := range ta.cfg.srcParam[fk] {
		if i < len(fn.Params) {
			tainted[fn.Params[i]] = "secret parameter " + fn.Params[i].Name() + " of " + fk
		}
	}
	mark := func(v ssa.Value, why string) bool {
		if _, ok := tainted[v]; ok {
			return false
		}
		tainted[v] = why
		return true
	}
	isT := func(v ssa.Value) (string, bool) {
		w, ok := tainted[v]
		return w, ok
	}
	// taint of memory cells: allocs (and field/index addresses of them) that had a tainted store
	for changed := true; changed; {
		changed = false
		for _, b := range fn.Blocks {
			for _, in := range b.Instrs {
				switch x := in.(type) {
				case *ssa.FieldAddr:
					st := x.X.Type().Underlying().(*types.Pointer).Elem().Underlying().(*types.Struct)
					if why, ok := ta.cfg.srcField[st.Field(x.Field)]; ok {
						if mark(x, why+" (field "+st.Field(x.Field).Name()+")") {
							changed = true
						}
					} else if w, ok := isT(x.X); ok && bytesOrString(x.Type().(*types.Pointer).Elem()) && !isStructPtr(x.X.Type()) {
						if mark(x, w) {
							changed = true
						}
					}
				case *ssa.Field:
					st := x.X.Type().Underlying().(*types.Struct)
					if why, ok := ta.cfg.srcField[st.Field(x.Field)]; ok {
						if mark(x, why+" (field "+st.Field(x.Field).Name()+")") {
							changed = true
						}
					}
				case *ssa.UnOp:
					if x.Op.String() == "*" {
						if w, ok := isT(x.X); ok && bytesOrString(x.Type()) {
							if mark(x, w) {
								changed = true
							}
						}
					}
				case *ssa.Store:
					if w, ok := isT(x.Val); ok {
						// the cell becomes tainted: mark the address (alloc / index addr of an alloc)
						if mark(x.Addr, w) {
							changed = true
						}
						if ia, ok := x.Addr.(*ssa.IndexAddr); ok {
							if mark(ia.X, w) {
								changed = true
							}
						}
						// a local aggregate holding a tainted field is tainted as a whole
						root := x.Addr
						for {
							if fad, ok := root.(*ssa.FieldAddr); ok {
								root = fad.X
								continue
							}
							break
						}
						if al, ok := root.(*ssa.Alloc); ok && root != x.Addr {
							if mark(al, w) {
								changed = true
							}
						}
					}
				case *ssa.Slice:
					if w, ok := isT(x.X); ok {
						if mark(x, w) {
							changed = true
						}
					}
				case *ssa.IndexAddr:
					if w, ok := isT(x.X); ok && bytesOrString(x.X.Type()) {
						if mark(x, w) {
							changed = true
						}
					}
				case *ssa.Index:
					if w, ok := isT(x.X); ok {
						if mark(x, w) {
							changed = true
						}
					}
				case *ssa.Lookup:
					if w, ok := isT(x.X); ok && bytesOrString(x.Type()) {
						if mark(x, w) {
							changed = true
						}
					}
				case *ssa.Convert:
					if w, ok := isT(x.X); ok && bytesOrString(x.Type()) {
						if mark(x, w) {
							changed = true
						}
					}
				case *ssa.ChangeType:
					if w, ok := isT(x.X); ok {
						if mark(x, w) {
							changed = true
						}
					}
				case *ssa.MakeInterface:
					if w, ok := isT(x.X); ok {
						if mark(x, w) {
							changed = true
						}
					}
				case *ssa.Phi:
					for _, e := range x.Edges {
						if w, ok := isT(e); ok {
							if mark(x, w) {
								changed = true
							}
						}
					}
				case *ssa.BinOp:
					if x.Op.String() == "+" && bytesOrString(x.Type()) {
						for _, o := range []ssa.Value{x.X, x.Y} {
							if w, ok := isT(o); ok {
								if mark(x, w) {
									changed = true
								}
							}
						}
					}
				case *ssa.Extract:
					if call, ok := x.Tuple.(*ssa.Call); ok {
						if w, ok := ta.callResultTaint(fa, call, x.Index, tainted); ok && bytesOrString(x.Type()) {
							if mark(x, w) {
								changed = true
							}
						}
					}
				case *ssa.Call:
					if w, ok := ta.callResultTaint(fa, x, 0, tainted); ok && (bytesOrString(x.Type()) || isTuple(x.Type())) {
						if !isTuple(x.Type()) {
							if mark(x, w) {
								changed = true
							}
						}
					}
					// copy(dst, src): dst becomes tainted
					if bi, ok := x.Call.Value.(*ssa.Builtin); ok && bi.Name() == "copy" && len(x.Call.Args) == 2 {
						if w, ok := isT(x.Call.Args[1]); ok {
							if mark(x.Call.Args[0], w) {
								changed = true
							}
							if sl, ok := x.Call.Args[0].(*ssa.Slice); ok {
								if mark(sl.X, w) {
									changed = true
								}
							}
						}
					}
				}
			}
		}
	}
	if !report {
		return tainted
	}
	// sinks
	if _, ex := ta.cfg.exemptFn[fk]; ex {
		return tainted
	}
	for _, b := range fn.Blocks {
		for _, in := range b.Instrs {
			ci, ok := in.(ssa.CallInstruction)
			if !ok {
				continue
			}
			name := fa.CalleeName(ci)
			common := ci.Common()
			var operands []ssa.Value
			for i, a := range common.Args {
				// the receiver of a logging method is not formatted
				if i == 0 && !common.IsInvoke() && common.StaticCallee() != nil && common.StaticCallee().Signature.Recv() != nil {
					continue
				}
				operands = append(operands, flattenVariadic(a)...)
			}
			if sinkRe.Match(name) {
				ta.nSinks++
				for _, a := range operands {
					if w, ok := isT(a); ok {
						ta.addHit(fn, in, name, w, "flow", fa.R.R(a))
					}
					// type-level: an aggregate that contains a source field
					raw := a
					if mi, ok := a.(*ssa.MakeInterface); ok {
						raw = mi.X
					}
					if _, isErr := raw.Type().Underlying().(*types.Interface); isErr {
						continue
					}
					if strings.HasPrefix(name, "encoding/") {
						continue // encoders are audited by type with their own tag rules (C20.encoders)
					}
					if why, ok := ta.cfg.typeHasSource(raw.Type(), 0, map[types.Type]bool{}); ok {
						ta.addHit(fn, in, name, "value of type "+shortType(raw.Type())+" contains "+why, "type", fa.R.R(a))
					}
				}
				continue
			}
			// module callee with a parameter that reaches a sink
			if callee := common.StaticCallee(); callee != nil {
				if s := ta.sums[callee]; s != nil {
					for i, a := range common.Args {
						if why, ok := s.paramToSink[i]; ok {
							if w, ok := isT(a); ok {
								ta.addHit(fn, in, FuncKey(callee)+" → "+why, w, "flow", fa.R.R(a))
							}
						}
					}
				}
			}
		}
	}
	return tainted
}

func isStructPtr(t types.Type) bool {
	p, ok := t.Underlying().(*types.Pointer)
	if !ok {
		return false
	}
	_, ok = p.Elem().Underlying().(*types.Struct)
	return ok
}

func isTuple(t types.Type) bool {
	_, ok := t.(*types.Tuple)
	return ok
}

func flattenVariadic(a ssa.Value) []ssa.Value {
	if sl, ok := a.(*ssa.Slice); ok {
		if al, ok := sl.X.(*ssa.Alloc); ok {
			if els, ok := arrayLiteralElems(al); ok {
				var out []ssa.Value
				for _, e := range els {
					if e != nil {
						out = append(out, e)
					}
				}
				return out
			}
		}
	}
	return []ssa.Value{a}
}

func (ta *taintAn) addHit(fn *ssa.Function, in ssa.Instruction, sink, why, kind, arg string) {
	k := FuncKey(fn) + "|" + sink + "|" + kind + "|" + trunc(arg, 80)
	if _, ok := ta.hits[k]; !ok {
		ta.hits[k] = taintHit{fn, in, sink, why, kind, arg}
	}
}

// callResultTaint: is result idx of the call tainted?
func (ta *taintAn) callResultTaint(fa *FuncAn, call *ssa.Call, idx int, tainted map[ssa.Value]string) (string, bool) {
	name := fa.CalleeName(call)
	if declassRe.Match(name) {
		return "", false
	}
	args := call.Call.Args
	if call.Call.IsInvoke() {
		args = append([]ssa.Value{call.Call.Value}, args...)
	}
	if callee := call.Call.StaticCallee(); callee != nil {
		if s := ta.sums[callee]; s != nil {
			if s.retIntrinsic {
				return s.retWhy, true
			}
			for i, a := range args {
				if s.paramToRet[i] {
					if w, ok := tainted[a]; ok {
						return w, true
					}
				}
			}
			return "", false
		}
	}
	if propRe.Match(name) {
		for _, a := range args {
			for _, e := range flattenVariadic(a) {
				if w, ok := tainted[e]; ok {
					return w, true
				}
			}
		}
	}
	return "", false
}

// solve iterates the summaries to a fixpoint, then reports.
func (ta *taintAn) solve() {
	for iter := 0; iter < 12; iter++ {
		changed := false
		for _, fn := range ta.fns {
			s := ta.sums[fn]
			// intrinsic
			t0 := ta.run(fn, nil, false)
			if ta.retTaint(fn, t0) && !s.retIntrinsic {
				s.retIntrinsic = true
				s.retWhy = ta.retWhy(fn, t0)
				changed = true
			}
			for i := range fn.Params {
				ti := ta.run(fn, map[int]string{i: "param"}, false)
				if !s.paramToRet[i] && ta.retTaintFrom(fn, ti, "param") {
					s.paramToRet[i] = true
					changed = true
				}
				if _, ok := s.paramToSink[i]; !ok {
					if sk := ta.paramSink(fn, ti); sk != "" {
						s.paramToSink[i] = sk
						changed = true
					}
				}
			}
		}
		if !changed {
			break
		}
	}
	for _, fn := range ta.fns {
		ta.run(fn, nil, true)
	}
}

func (ta *taintAn) retTaint(fn *ssa.Function, t map[ssa.Value]string) bool {
	for _, b := range fn.Blocks {
		if ret, ok := lastInstr(b).(*ssa.Return); ok {
			for _, r := range RetResults(ret) {
				if _, ok := t[r]; ok && bytesOrString(r.Type()) {
					return true
				}
			}
		}
	}
	return false
}

func (ta *taintAn) retWhy(fn *ssa.Function, t map[ssa.Value]string) string {
	for _, b := range fn.Blocks {
		if ret, ok := lastInstr(b).(*ssa.Return); ok {
			for _, r := range RetResults(ret) {
				if w, ok := t[r]; ok {
					return w + " via " + FuncKey(fn)
				}
			}
		}
	}
	return FuncKey(fn)
}

func (ta *taintAn) retTaintFrom(fn *ssa.Function, t map[ssa.Value]string, origin string) bool {
	for _, b := range fn.Blocks {
		if ret, ok := lastInstr(b).(*ssa.Return); ok {
			for _, r := range RetResults(ret) {
				if w, ok := t[r]; ok && w == origin && bytesOrString(r.Type()) {
					return true
				}
			}
		}
	}
	return false
}

// paramSink: does a value tainted with origin "param" reach a sink in fn?
func (ta *taintAn) paramSink(fn *ssa.Function, t map[ssa.Value]string) string {
	fk := FuncKey(fn)
	if _, ex := ta.cfg.exemptFn[fk]; ex {
		return ""
	}
	fa := NewFuncAn(ta.cfg.w, fn)
	for _, b := range fn.Blocks {
		for _, in := range b.Instrs {
			ci, ok := in.(ssa.CallInstruction)
			if !ok {
				continue
			}
			name := fa.CalleeName(ci)
			common := ci.Common()
			if sinkRe.Match(name) {
				for i, a := range common.Args {
					if i == 0 && !common.IsInvoke() && common.StaticCallee() != nil && common.StaticCallee().Signature.Recv() != nil {
						continue
					}
					for _, e := range flattenVariadic(a) {
						if w, ok := t[e]; ok && w == "param" {
							return name + " in " + fk
						}
					}
				}
			}
			if callee := common.StaticCallee(); callee != nil {
				if s := ta.sums[callee]; s != nil {
					for i, a := range common.Args {
						if why, ok := s.paramToSink[i]; ok {
							if w, ok := t[a]; ok && w == "param" {
								return why
							}
						}
					}
				}
			}
		}
	}
	return ""
}

// jsonReach: walking t as encoding/json (or gob) would, the paths of reachable source fields.
func (tc *taintCfg) jsonReach(t types.Type, path string, depth int, seen map[types.Type]bool, gob bool) []string {
	if depth > 8 || seen[t] {
		return nil
	}
	// a type with its own MarshalJSON/MarshalText/GobEncode decides for itself: audited separately
	seen[t] = true
	defer delete(seen, t)
	switch u := t.Underlying().(type) {
	case *types.Struct:
		var out []string
		for i := 0; i < u.NumFields(); i++ {
			f := u.Field(i)
			if !f.Exported() && !f.Embedded() {
				continue
			}
			if !gob {
				if tag := reflect.StructTag(u.Tag(i)).Get("json"); tag == "-" {
					continue
				}
			}
			p := path + "." + f.Name()
			if why, ok := tc.srcField[f]; ok {
				out = append(out, p+" ("+why+")")
				continue
			}
			out = append(out, tc.jsonReach(f.Type(), p, depth+1, seen, gob)...)
		}
		return out
	case *types.Pointer:
		return tc.jsonReach(u.Elem(), path, depth+1, seen, gob)
	case *types.Slice:
		return tc.jsonReach(u.Elem(), path+"[]", depth+1, seen, gob)
	case *types.Array:
		return tc.jsonReach(u.Elem(), path+"[]", depth+1, seen, gob)
	case *types.Map:
		return tc.jsonReach(u.Elem(), path+"[k]", depth+1, seen, gob)
	}
	return nil
}

func sortedHitKeys(m map[string]taintHit) []string {
	ks := make([]string, 0, len(m))
	for k := range m {
		ks = append(ks, k)
	}
	sort.Strings(ks)
	return ks
}

var _ = fmt.Sprint
