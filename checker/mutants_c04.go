package main

func init() {
	addMutants(
		Mutant{"C04", "wraptoken-no-length-check", "gssapi/wrapToken.go", "\tif len(b) < 16 {", "\tif len(b) < 4 {", "C04.bounds"},
		Mutant{"C04", "mictoken-short-header-check", "gssapi/MICToken.go", "\tif len(b) < micHdrLen {", "\tif len(b) < micHdrLen-4 {", "C04.bounds"},
		Mutant{"C04", "krb5token-no-length-check", "spnego/krb5Token.go", "\tif len(r) < 2 {", "\tif len(r) < 1 {", "C04.bounds"},
		Mutant{"C04", "spnegotoken-no-length-check", "spnego/spnego.go", "\tif len(b) < 1 {", "\tif len(b) < 0 {", "C04.bounds"},
		Mutant{"C04", "keytab-reader-off-by-one", "keytab/keytab.go", "\tif (*p + 4) > len(b) {", "\tif (*p + 3) > len(b) {", "C04.bounds"},
		Mutant{"C04", "decrypt-guard-forgets-confounder", "crypto/rfc3962/encryption.go", "\tif len(ciphertext) < e.GetConfounderByteSize()+e.GetHMACBitLength()/8 {", "\tif len(ciphertext) < e.GetHMACBitLength()/8 {", "C04.bounds"},
		Mutant{"C04", "des3-decrypt-guard-removed", "crypto/rfc3961/encryption.go", "\tif len(ciphertext) < e.GetConfounderByteSize()+e.GetHMACBitLength()/8 {", "\tif len(ciphertext) < 0 {", "C04.bounds"},
		Mutant{"C04", "rc4-verify-guard-removed", "crypto/rfc4757/encryption.go", "\tif len(data) < e.GetHMACBitLength()/8 {\n\t\treturn false\n\t}\n", "", "C04.bounds"},
		Mutant{"C04", "etype-info2-empty-not-checked", "crypto/crypto.go", "\t\t\tif len(et2) < 1 {", "\t\t\tif len(et2) < 0 {", "C04.bounds"},
		Mutant{"C04", "pac-count-times-16", "pac/pac_type.go", "\tif uint64(pac.CBuffers) > uint64(len(b))/16 {", "\tif uint64(pac.CBuffers)/16 > uint64(len(b)) {", "C04.alloc"},
		Mutant{"C04", "pac-offset-check-dropped", "pac/pac_type.go", "\t\tif buf.Offset > uint64(len(pac.Data)) || uint64(buf.CBBufferSize) > uint64(len(pac.Data))-buf.Offset {", "\t\tif buf.Offset > uint64(len(pac.Data)) {", "C04.bounds"},
		Mutant{"C04", "upn-dns-second-range-unchecked", "pac/upn_dns_info.go", "\tif int(k.UPNOffset)+int(k.UPNLength) > len(b) || int(k.DNSDomainNameOffset)+int(k.DNSDomainNameLength) > len(b) {", "\tif int(k.UPNOffset)+int(k.UPNLength) > len(b) {", "C04.bounds"},
		Mutant{"C04", "ccache-recover-removed", "credentials/ccache.go", "\tdefer func() {\n\t\tif r := recover(); r != nil {\n\t\t\terr = fmt.Errorf(\"invalid credential cache data: %v\", r)\n\t\t}\n\t}()\n", "\t_ = fmt.Sprint\n", "C04.bounds"},
		Mutant{"C04", "ccache-count-unchecked", "credentials/ccache.go", "\tif l < 0 || l > len(b) {\n\t\treturn cred, errors.New(\"invalid credential cache data: address count exceeds the size of the data\")\n\t}\n", "", "C04.alloc"},
		Mutant{"C04", "kadmin-reply-min-length-4", "kadmin/message.go", "\tif len(b) < 6 {", "\tif len(b) < 4 {", "C04.bounds"},
		Mutant{"C04", "kadmin-lengths-not-compared", "kadmin/message.go", "\tif m.MessageLength > len(b) || 6+m.APREPLength > m.MessageLength {", "\tif 6+m.APREPLength > m.MessageLength {", "C04.bounds"},
		Mutant{"C04", "isflagset-off-by-one", "types/KerberosFlags.go", "\tif i < 0 || b >= len(f.Bytes) {", "\tif i < 0 || b > len(f.Bytes) {", "C04.bounds"},
		Mutant{"C04", "getpactype-logger-unchecked", "messages/Ticket.go", "\t\t\t\tif l != nil {\n\t\t\t\t\tl.Printf(\"PAC authorization data could not be unmarshaled: %v\", err)\n\t\t\t\t}", "\t\t\t\tl.Printf(\"PAC authorization data could not be unmarshaled: %v\", err)", "C04.nil-logger"},
		Mutant{"C04", "adifrelevant-empty-unchecked", "messages/Ticket.go", "\t\t\tif len(ad2) < 1 {\n\t\t\t\tcontinue\n\t\t\t}\n", "", "C04.bounds"},
		Mutant{"C04", "tcp-reply-preallocated", "client/network.go", "\tvar buf bytes.Buffer\n\t_, err = io.CopyN(&buf, conn, int64(s))\n\tif err != nil {\n\t\treturn r, fmt.Errorf(\"error reading response: %v\", err)\n\t}\n\trb := buf.Bytes()", "\tvar buf bytes.Buffer\n\t_ = buf\n\trb := make([]byte, s, s)\n\t_, err = io.ReadFull(conn, rb)\n\tif err != nil {\n\t\treturn r, fmt.Errorf(\"error reading response: %v\", err)\n\t}", "C04.alloc"},
		Mutant{"C04", "realm-nested-block-guard-removed", "config/krb5conf.go", "\t\tif !strings.Contains(line, \"=\") {\n\t\t\t// The closing bracket of a nested block\n\t\t\tcontinue\n\t\t}\n", "", "C04.bounds"},
		Mutant{"C04", "mechtypes-empty-unchecked", "spnego/spnego.go", "\t\tif len(t.NegTokenInit.MechTypes) < 1 {", "\t\tif len(t.NegTokenInit.MechTypes) < 0 {", "C04.bounds"},
		Mutant{"C04", "asn1-length-header-min-1", "asn1tools/tools.go", "func GetNumberBytesInLengthHeader(b []byte) int {\n\tif len(b) < 2 {", "func GetNumberBytesInLengthHeader(b []byte) int {\n\tif len(b) < 1 {", "C04.bounds"},
		Mutant{"C04", "new-unguarded-index-in-decoder", "messages/KRBError.go", "func (k *KRBError) Unmarshal(b []byte) error {\n", "func (k *KRBError) Unmarshal(b []byte) error {\n\tif b[0] != 0x7e {\n\t\treturn krberror.NewErrorf(krberror.EncodingError, \"not a KRB_ERROR\")\n\t}\n", "C04.bounds"},
		Mutant{"C04", "basic-auth-colon-unchecked", "service/authenticator.go", "\tif len(vc) < 2 {", "\tif len(vc) < 1 {", "C04.bounds"},
		Mutant{"C04", "sname-empty-unchecked", "messages/APReq.go", "\tif len(pn.NameString) > 0 && pn.NameString[0] == \"krbtgt\" {", "\tif pn.NameString[0] == \"krbtgt\" {", "C04.bounds"},
		Mutant{"C04", "division-by-input-count", "pac/pac_type.go", "\tif uint64(pac.CBuffers) > uint64(len(b))/16 {", "\tif pac.CBuffers > 0 && uint64(len(b))/uint64(pac.Version) < 16 || uint64(pac.CBuffers) > uint64(len(b))/16 {", "C04.arith"},
		Mutant{"C04", "unchecked-type-assertion", "spnego/spnego.go", "\tt, ok := ct.(*SPNEGOToken)\n\tif !ok {", "\tt := ct.(*SPNEGOToken)\n\tok := t != nil\n\tif !ok {", "C04.assert"},
	)
}
