package main

// Who may write the bytes they were given.
//
// A ciphertext handed to a decryptor is the Cipher field of a decoded message; a payload handed to a
// checksum routine is the token's own buffer. A routine that writes into the backing array of a
// byte slice it received (decrypting in place, appending into spare capacity, scratch use) changes
// the caller's message: re-encoding it no longer reproduces what was decoded, a second
// verification sees other bytes. The summary computed here is, per module function (and the
// functions of github.com/jcmturner/aescts it calls), the set of parameters through whose bytes it
// may write:
//   - an element store, copy(dst,…), clear(dst) or a known writer (XORKeyStream, CryptBlocks,
//     Block.Encrypt/Decrypt, PutUintNN, io.ReadFull, rand.Read, Read) whose destination is derived
//     from the parameter — the parameter itself, a re-slicing of it, a φ of such values, a field of
//     a struct parameter, a field loaded through a pointer parameter;
//   - append(x, …) where x is derived from the parameter (it writes into x's spare capacity,
//     which is the caller's memory: for b[:n] of a longer b it always does);
//   - a call that passes a derived value to a callee position that callee writes through
//     (fixpoint over static callees and, for interface calls, the call graph's callees);
//   - a value returned by a callee that hands back (a slice of) its own argument is derived from
//     that argument.
// Calls into other packages are taken to read their arguments unless listed above.

import (
	"go/token"
	"go/types"
	"strings"

	"golang.org/x/tools/go/callgraph"
	"golang.org/x/tools/go/ssa"
)

type clobberWhy struct {
	at   ssa.Instruction
	what string
	via  *ssa.Function // callee through which the write happens (nil: direct)
	viaP int
}

type clobberSummary struct {
	writes  map[*ssa.Function]map[int]clobberWhy // param index -> why
	returns map[*ssa.Function]map[int]bool       // param index whose bytes (a slice of) a result may alias
}

var externWriters = map[string]int{ // callee name (suffix) -> index of the written argument (receiver included)
	"XORKeyStream":                   1,
	"CryptBlocks":                    1,
	"crypto/cipher.Block.Encrypt":    1,
	"crypto/cipher.Block.Decrypt":    1,
	"PutUint16":                      1,
	"PutUint32":                      1,
	"PutUint64":                      1,
	"io.ReadFull":                    1,
	"io.ReadAtLeast":                 1,
	"crypto/rand.Read":               0,
	"math/rand.Read":                 0,
	"io.Reader.Read":                 1,
	"encoding/hex.Decode":            0,
	"crypto/subtle.ConstantTimeCopy": 1,
	"crypto/subtle.XORBytes":         0,
}

func clobberScope(f *ssa.Function) bool {
	if f == nil || f.Pkg == nil || len(f.Blocks) == 0 {
		return false
	}
	p := f.Pkg.Pkg.Path()
	return inModule(p) || strings.HasPrefix(p, "github.com/jcmturner/aescts")
}

func isByteSliceish(t types.Type) bool {
	switch u := t.Underlying().(type) {
	case *types.Slice:
		return isByte(u.Elem())
	case *types.Struct:
		for i := 0; i < u.NumFields(); i++ {
			if isByteSliceish(u.Field(i).Type()) {
				return true
			}
		}
	case *types.Pointer:
		if st, ok := u.Elem().Underlying().(*types.Struct); ok {
			for i := 0; i < st.NumFields(); i++ {
				if sl, ok := st.Field(i).Type().Underlying().(*types.Slice); ok && isByte(sl.Elem()) {
					return true
				}
			}
		}
	}
	return false
}

// derivedFrom: the parameter index whose bytes v may share, or -1.
func (cs *clobberSummary) derivedFrom(fn *ssa.Function, v ssa.Value, depth int, seen map[ssa.Value]bool) int {
	if depth > 10 || v == nil || seen[v] {
		return -1
	}
	seen[v] = true
	switch x := v.(type) {
	case *ssa.Parameter:
		for i, p := range fn.Params {
			if p == x && isByteSliceish(p.Type()) {
				return i
			}
		}
	case *ssa.Slice:
		return cs.derivedFrom(fn, x.X, depth+1, seen)
	case *ssa.ChangeType:
		return cs.derivedFrom(fn, x.X, depth+1, seen)
	case *ssa.Convert:
		if _, ok := x.X.Type().Underlying().(*types.Slice); ok {
			if _, ok := x.Type().Underlying().(*types.Slice); ok {
				return cs.derivedFrom(fn, x.X, depth+1, seen)
			}
		}
	case *ssa.Phi:
		for _, e := range x.Edges {
			if i := cs.derivedFrom(fn, e, depth+1, seen); i >= 0 {
				return i
			}
		}
	case *ssa.Field:
		return cs.derivedFrom(fn, x.X, depth+1, seen)
	case *ssa.FieldAddr:
		return cs.derivedFrom(fn, x.X, depth+1, seen)
	case *ssa.IndexAddr:
		return cs.derivedFrom(fn, x.X, depth+1, seen)
	case *ssa.UnOp:
		if x.Op != token.MUL {
			return -1
		}
		switch a := x.X.(type) {
		case *ssa.FieldAddr:
			return cs.derivedFrom(fn, a, depth+1, seen)
		case *ssa.Alloc:
			// a local that holds a derived value (spilled parameter, address-taken variable)
			if a.Referrers() != nil {
				for _, ref := range *a.Referrers() {
					if st, ok := ref.(*ssa.Store); ok && st.Addr == a {
						if i := cs.derivedFrom(fn, st.Val, depth+1, seen); i >= 0 {
							return i
						}
					}
				}
			}
		}
	case *ssa.Alloc:
		if x.Referrers() != nil {
			for _, ref := range *x.Referrers() {
				if st, ok := ref.(*ssa.Store); ok && st.Addr == x {
					if i := cs.derivedFrom(fn, st.Val, depth+1, seen); i >= 0 {
						return i
					}
				}
			}
		}
	case *ssa.Extract:
		if call, ok := x.Tuple.(*ssa.Call); ok {
			return cs.callResultAlias(fn, call, depth, seen)
		}
	case *ssa.Call:
		return cs.callResultAlias(fn, x, depth, seen)
	}
	return -1
}

func (cs *clobberSummary) callResultAlias(fn *ssa.Function, call *ssa.Call, depth int, seen map[ssa.Value]bool) int {
	if bi, ok := call.Call.Value.(*ssa.Builtin); ok {
		if bi.Name() == "append" && len(call.Call.Args) > 0 {
			return cs.derivedFrom(fn, call.Call.Args[0], depth+1, seen)
		}
		return -1
	}
	g := call.Call.StaticCallee()
	if g == nil {
		return -1
	}
	for pi := range cs.returns[g] {
		args := call.Call.Args
		if pi < len(args) {
			if i := cs.derivedFrom(fn, args[pi], depth+1, seen); i >= 0 {
				return i
			}
		}
	}
	return -1
}

func computeClobber(w *World) *clobberSummary {
	if w.clobber != nil {
		return w.clobber
	}
	cs := &clobberSummary{writes: map[*ssa.Function]map[int]clobberWhy{}, returns: map[*ssa.Function]map[int]bool{}}
	w.clobber = cs
	var fns []*ssa.Function
	for fn := range w.allFunctionsSet() {
		if clobberScope(fn) {
			fns = append(fns, fn)
		}
	}
	mark := func(fn *ssa.Function, pi int, why clobberWhy) bool {
		if pi < 0 {
			return false
		}
		if cs.writes[fn] == nil {
			cs.writes[fn] = map[int]clobberWhy{}
		}
		if _, has := cs.writes[fn][pi]; has {
			return false
		}
		cs.writes[fn][pi] = why
		return true
	}
	d := func(fn *ssa.Function, v ssa.Value) int { return cs.derivedFrom(fn, v, 0, map[ssa.Value]bool{}) }
	for round := 0; round < 12; round++ {
		changed := false
		for _, fn := range fns {
			for _, b := range fn.Blocks {
				for _, in := range b.Instrs {
					switch x := in.(type) {
					case *ssa.Return:
						for _, r := range x.Results {
							if _, ok := r.Type().Underlying().(*types.Slice); !ok {
								continue
							}
							if pi := d(fn, r); pi >= 0 {
								if cs.returns[fn] == nil {
									cs.returns[fn] = map[int]bool{}
								}
								if !cs.returns[fn][pi] {
									cs.returns[fn][pi] = true
									changed = true
								}
							}
						}
					case *ssa.Store:
						if ia, ok := x.Addr.(*ssa.IndexAddr); ok {
							if _, isSl := ia.X.Type().Underlying().(*types.Slice); isSl {
								if mark(fn, d(fn, ia.X), clobberWhy{at: in, what: "element store"}) {
									changed = true
								}
							}
						}
					case ssa.CallInstruction:
						cm := x.Common()
						if bi, ok := cm.Value.(*ssa.Builtin); ok {
							switch bi.Name() {
							case "copy", "clear":
								if len(cm.Args) > 0 && mark(fn, d(fn, cm.Args[0]), clobberWhy{at: in, what: bi.Name() + "() into it"}) {
									changed = true
								}
							case "append":
								if len(cm.Args) > 0 {
									if _, isSl := cm.Args[0].Type().Underlying().(*types.Slice); isSl && isByte(cm.Args[0].Type().Underlying().(*types.Slice).Elem()) {
										if mark(fn, d(fn, cm.Args[0]), clobberWhy{at: in, what: "append() onto it (writes into its spare capacity)"}) {
											changed = true
										}
									}
								}
							}
							continue
						}
						// known writers outside the scope
						all := cm.Args
						name := ""
						if cm.IsInvoke() {
							all = append([]ssa.Value{cm.Value}, cm.Args...)
							name = shortType(cm.Value.Type()) + "." + cm.Method.Name()
						} else if g := cm.StaticCallee(); g != nil {
							name = calleeName(g)
						}
						for suf, ai := range externWriters {
							if name == suf || strings.HasSuffix(name, "."+suf) || strings.HasSuffix(name, ")."+suf) {
								if ai < len(all) && mark(fn, d(fn, all[ai]), clobberWhy{at: in, what: name + " writes its destination"}) {
									changed = true
								}
							}
						}
						// callees in scope
						var callees []*ssa.Function
						if g := cm.StaticCallee(); g != nil {
							callees = append(callees, g)
						} else {
							callees = w.Callees(x)
						}
						for _, g := range callees {
							if !clobberScope(g) {
								continue
							}
							args := cm.Args
							if cm.IsInvoke() {
								args = append([]ssa.Value{cm.Value}, cm.Args...)
							}
							for pi, why := range cs.writes[g] {
								_ = why
								if pi < len(args) {
									if mark(fn, d(fn, args[pi]), clobberWhy{at: in, what: "passed to " + FuncKey(g), via: g, viaP: pi}) {
										changed = true
									}
								}
							}
						}
					}
				}
			}
		}
		if !changed {
			break
		}
	}
	return cs
}

// explain renders the chain of a write through parameter pi of fn.
func (cs *clobberSummary) explain(w *World, fn *ssa.Function, pi int) string {
	var parts []string
	for i := 0; i < 8 && fn != nil; i++ {
		why, ok := cs.writes[fn][pi]
		if !ok {
			break
		}
		parts = append(parts, FuncKey(fn)+" at "+w.Pos(InstrPos(why.at))+": "+why.what)
		fn, pi = why.via, why.viaP
	}
	return strings.Join(parts, " → ")
}

// ruleNoClobber: the listed entry functions do not write through the bytes of their parameters.
// An entry is a function key (or an interface method name implemented by the etypes: "EType.<M>").
func ruleNoClobber(w *World, c *Check, rule string, entries []string, desc string) {
	cs := computeClobber(w)
	var fns []*ssa.Function
	for _, e := range entries {
		if strings.HasPrefix(e, "EType.") {
			impls, _ := etypeImpls(w)
			for _, tn := range sortedNames(impls) {
				if f := w.MethodOf(impls[tn], strings.TrimPrefix(e, "EType.")); f != nil {
					fns = append(fns, f)
				}
			}
			continue
		}
		f := w.Func(e)
		if f == nil {
			c.Missing(rule, e)
			continue
		}
		fns = append(fns, f)
	}
	for _, fn := range fns {
		fk := FuncKey(fn)
		for pi, p := range fn.Params {
			if !isByteSliceish(p.Type()) {
				continue
			}
			construct := "bytes of " + p.Name()
			if _, bad := cs.writes[fn][pi]; bad {
				c.Fail(rule, fk, construct, w.Pos(fn.Pos()), desc, "the bytes received as "+p.Name()+" may be written: "+cs.explain(w, fn, pi))
			} else {
				c.Ok(rule, fk, construct, w.Pos(fn.Pos()), desc)
			}
		}
	}
}

var _ = callgraph.Graph{}
