package main

// Loading of the program under analysis and anchor resolution.
//
// The analyser never imports gokrb5: it loads /repo/v8 (or -repo) with
// go/packages on every invocation, so what is analysed is always the current
// working tree.

import (
	"fmt"
	"go/ast"
	"go/token"
	"go/types"
	"os"
	"path/filepath"
	"sort"
	"strings"

	"golang.org/x/tools/go/callgraph"
	"golang.org/x/tools/go/callgraph/cha"
	"golang.org/x/tools/go/callgraph/vta"
	"golang.org/x/tools/go/packages"
	"golang.org/x/tools/go/ssa"
	"golang.org/x/tools/go/ssa/ssautil"
)

const modPath = "github.com/jcmturner/gokrb5/v8"

// World is one loaded configuration of the module.
type World struct {
	Repo    string
	GOOS    string
	GOARCH  string
	Tags    string
	Pkgs    []*packages.Package // module packages only (sorted by path)
	AllPkgs map[string]*packages.Package
	Fset    *token.FileSet
	Prog    *ssa.Program
	SSAPkgs map[string]*ssa.Package // by module-relative path ("messages", "crypto/rfc3961", "" for root)

	funcs   map[string]*ssa.Function // key: rel-pkg "." name  |  rel-pkg ".(*T).M" | rel-pkg ".(T).M"
	allFns  []*ssa.Function          // every module function incl. anonymous, sorted by key
	cg      *callgraph.Graph
	NFuncs  int
	srcFile map[string][]string // cached source lines
	// constLenNames: callee name → constant length of its slice result (see funcConstLen)
	constLenNames map[string]int64
	globals       map[*ssa.Global]*globalBytes // see constfold.go
	tWriters      map[*ssa.Global]string
	gWriters      map[*ssa.Global][]string // see stateless.go
	clobber       *clobberSummary          // see noclobber.go
	allSet        map[*ssa.Function]bool
}

func relPkg(path string) string {
	if path == modPath {
		return ""
	}
	return strings.TrimPrefix(path, modPath+"/")
}

func inModule(path string) bool {
	return path == modPath || strings.HasPrefix(path, modPath+"/")
}

// Load type-checks the module and builds SSA. Any load or type error is a
// machinery failure (exit 2), never a verdict.
func Load(repo, goos, goarch, tags string) (*World, error) {
	env := append(os.Environ(),
		"GOFLAGS=-mod=mod", "GOPROXY=off", "GOSUMDB=off", "GOTOOLCHAIN=local", "GOWORK=off",
		"CGO_ENABLED=0")
	if goos != "" {
		env = append(env, "GOOS="+goos)
	}
	if goarch != "" {
		env = append(env, "GOARCH="+goarch)
	}
	cfg := &packages.Config{
		Mode:  packages.LoadAllSyntax,
		Dir:   repo,
		Env:   env,
		Tests: false,
	}
	if tags != "" {
		cfg.BuildFlags = []string{"-tags=" + tags}
	}
	pkgs, err := packages.Load(cfg, "./...")
	if err != nil {
		return nil, fmt.Errorf("go/packages: %v", err)
	}
	w := &World{Repo: repo, GOOS: goos, GOARCH: goarch, Tags: tags,
		AllPkgs: map[string]*packages.Package{}, SSAPkgs: map[string]*ssa.Package{},
		funcs: map[string]*ssa.Function{}, srcFile: map[string][]string{}}
	var errs []string
	packages.Visit(pkgs, nil, func(p *packages.Package) {
		w.AllPkgs[p.PkgPath] = p
		if inModule(p.PkgPath) {
			for _, e := range p.Errors {
				errs = append(errs, e.Error())
			}
		}
	})
	if len(errs) > 0 {
		return nil, fmt.Errorf("module does not type-check: %s", strings.Join(errs, "; "))
	}
	for _, p := range pkgs {
		if inModule(p.PkgPath) {
			w.Pkgs = append(w.Pkgs, p)
		}
	}
	sort.Slice(w.Pkgs, func(i, j int) bool { return w.Pkgs[i].PkgPath < w.Pkgs[j].PkgPath })
	if len(w.Pkgs) < 30 {
		return nil, fmt.Errorf("only %d module packages loaded from %s (expected >= 30)", len(w.Pkgs), repo)
	}
	w.Fset = pkgs[0].Fset
	prog, _ := ssautil.AllPackages(pkgs, ssa.InstantiateGenerics)
	prog.Build()
	w.Prog = prog
	for _, p := range w.Pkgs {
		sp := prog.Package(p.Types)
		if sp == nil {
			return nil, fmt.Errorf("no SSA for %s", p.PkgPath)
		}
		w.SSAPkgs[relPkg(p.PkgPath)] = sp
	}
	for fn := range ssautil.AllFunctions(prog) {
		if fn.Pkg == nil || !inModule(fn.Pkg.Pkg.Path()) || fn.Synthetic != "" {
			continue
		}
		k := FuncKey(fn)
		w.funcs[k] = fn
		w.allFns = append(w.allFns, fn)
	}
	sort.Slice(w.allFns, func(i, j int) bool { return FuncKey(w.allFns[i]) < FuncKey(w.allFns[j]) })
	w.NFuncs = len(w.allFns)
	w.computeSignatures()
	return w, nil
}

// FuncKey is the stable, position-free name of a function:
// "messages.(*APReq).Verify", "service.VerifyAPREQ", "spnego.SPNEGOKRB5Authenticate$1".
func FuncKey(fn *ssa.Function) string {
	if fn == nil {
		return "<nil>"
	}
	if fn.Parent() != nil {
		return FuncKey(fn.Parent()) + strings.TrimPrefix(fn.Name(), fn.Parent().Name())
	}
	pkg := ""
	if fn.Pkg != nil {
		pkg = relPkg(fn.Pkg.Pkg.Path())
	} else if fn.Object() != nil && fn.Object().Pkg() != nil {
		pkg = relPkg(fn.Object().Pkg().Path())
	}
	if recv := fn.Signature.Recv(); recv != nil {
		t := recv.Type()
		ptr := false
		if p, ok := t.(*types.Pointer); ok {
			t = p.Elem()
			ptr = true
		}
		name := "?"
		if n, ok := t.(*types.Named); ok {
			name = n.Obj().Name()
			if n.Obj().Pkg() != nil {
				pkg = relPkg(n.Obj().Pkg().Path())
			}
		}
		if ptr {
			return fmt.Sprintf("%s.(*%s).%s", pkg, name, fn.Name())
		}
		return fmt.Sprintf("%s.(%s).%s", pkg, name, fn.Name())
	}
	return pkg + "." + fn.Name()
}

// Func returns the function with the given key or nil.
func (w *World) Func(key string) *ssa.Function { return w.funcs[key] }

// ModuleFuncs returns all source functions of the module, sorted by key.
func (w *World) ModuleFuncs() []*ssa.Function { return w.allFns }

// Pos renders a position relative to the repository root.
func (w *World) Pos(p token.Pos) string {
	if !p.IsValid() {
		return "-"
	}
	pos := w.Fset.Position(p)
	rel, err := filepath.Rel(w.Repo, pos.Filename)
	if err != nil || strings.HasPrefix(rel, "..") {
		rel = pos.Filename
	}
	return fmt.Sprintf("%s:%d", rel, pos.Line)
}

func (w *World) PosCol(p token.Pos) string {
	if !p.IsValid() {
		return "-"
	}
	pos := w.Fset.Position(p)
	rel, err := filepath.Rel(w.Repo, pos.Filename)
	if err != nil || strings.HasPrefix(rel, "..") {
		rel = pos.Filename
	}
	return fmt.Sprintf("%s:%d:%d", rel, pos.Line, pos.Column)
}

// InstrPos finds the best position for an instruction (some have NoPos).
func InstrPos(in ssa.Instruction) token.Pos {
	if in == nil {
		return token.NoPos
	}
	if p := in.Pos(); p.IsValid() {
		return p
	}
	if v, ok := in.(ssa.Value); ok {
		_ = v
	}
	// fall back to operands
	for _, op := range in.Operands(nil) {
		if op != nil && *op != nil {
			if p := (*op).Pos(); p.IsValid() {
				return p
			}
		}
	}
	// fall back to neighbouring instructions in the block
	b := in.Block()
	if b != nil {
		for _, x := range b.Instrs {
			if p := x.Pos(); p.IsValid() {
				return p
			}
		}
	}
	if in.Parent() != nil {
		return in.Parent().Pos()
	}
	return token.NoPos
}

// allFunctionsSet: every function of the program (module and dependencies).
func (w *World) allFunctionsSet() map[*ssa.Function]bool {
	if w.allSet == nil {
		w.allSet = ssautil.AllFunctions(w.Prog)
	}
	return w.allSet
}

// CallGraph builds (once) the VTA call graph refined from CHA.
func (w *World) CallGraph() *callgraph.Graph {
	if w.cg == nil {
		all := ssautil.AllFunctions(w.Prog)
		w.cg = vta.CallGraph(all, cha.CallGraph(w.Prog))
	}
	return w.cg
}

// Callees returns the module-or-other functions a call instruction may reach.
func (w *World) Callees(site ssa.CallInstruction) []*ssa.Function {
	if f := site.Common().StaticCallee(); f != nil {
		return []*ssa.Function{f}
	}
	cg := w.CallGraph()
	n := cg.Nodes[site.Parent()]
	if n == nil {
		return nil
	}
	var out []*ssa.Function
	seen := map[*ssa.Function]bool{}
	for _, e := range n.Out {
		if e.Site == site && !seen[e.Callee.Func] {
			seen[e.Callee.Func] = true
			out = append(out, e.Callee.Func)
		}
	}
	sort.Slice(out, func(i, j int) bool { return out[i].String() < out[j].String() })
	return out
}

// NamedType looks up a named type in a module package.
func (w *World) NamedType(rel, name string) *types.Named {
	sp := w.SSAPkgs[rel]
	if sp == nil {
		return nil
	}
	o := sp.Pkg.Scope().Lookup(name)
	if o == nil {
		return nil
	}
	n, _ := o.Type().(*types.Named)
	return n
}

// StructOf returns the struct underlying a named module type.
func (w *World) StructOf(rel, name string) *types.Struct {
	n := w.NamedType(rel, name)
	if n == nil {
		return nil
	}
	s, _ := n.Underlying().(*types.Struct)
	return s
}

// ConstInt returns the value of an integer constant declared in a module package.
func (w *World) ConstInt(rel, name string) (int64, bool) {
	sp := w.SSAPkgs[rel]
	if sp == nil {
		return 0, false
	}
	o := sp.Pkg.Scope().Lookup(name)
	c, ok := o.(*types.Const)
	if !ok {
		return 0, false
	}
	return constInt64(c.Val())
}

// PkgOf returns the go/packages package for a module-relative path.
func (w *World) PkgOf(rel string) *packages.Package {
	if rel == "" {
		return w.AllPkgs[modPath]
	}
	return w.AllPkgs[modPath+"/"+rel]
}

// FuncDecl returns the AST declaration of a source function.
func (w *World) FuncDecl(fn *ssa.Function) *ast.FuncDecl {
	if fn == nil {
		return nil
	}
	if d, ok := fn.Syntax().(*ast.FuncDecl); ok {
		return d
	}
	return nil
}

// Implementers returns the module's named types (as T or *T method-set owners)
// implementing the interface, sorted by name.
func (w *World) Implementers(iface *types.Interface) []types.Type {
	var out []types.Type
	for _, p := range w.Pkgs {
		sc := p.Types.Scope()
		for _, n := range sc.Names() {
			tn, ok := sc.Lookup(n).(*types.TypeName)
			if !ok || tn.IsAlias() {
				continue
			}
			t := tn.Type()
			if _, isI := t.Underlying().(*types.Interface); isI {
				continue
			}
			if types.Implements(t, iface) {
				out = append(out, t)
			} else if types.Implements(types.NewPointer(t), iface) {
				out = append(out, types.NewPointer(t))
			}
		}
	}
	sort.Slice(out, func(i, j int) bool { return out[i].String() < out[j].String() })
	return out
}

// MethodOf resolves a method of a (possibly pointer) type to its SSA function.
func (w *World) MethodOf(t types.Type, name string) *ssa.Function {
	ms := w.Prog.MethodSets.MethodSet(t)
	for i := 0; i < ms.Len(); i++ {
		if ms.At(i).Obj().Name() == name {
			return w.Prog.MethodValue(ms.At(i))
		}
	}
	return nil
}
