package main

// C05 — message encryption interoperates with the RFC definitions.
// Byte-for-byte interoperability is a value property and is not decided; the
// rules below decide the tables, constants, confounder freshness and the
// encrypt/decrypt sibling agreement that are its structural necessary
// conditions.

import (
	"fmt"
	"go/types"
	"strings"

	"golang.org/x/tools/go/ssa"
)

func init() {
	register(&Property{
		ID:      "C05",
		Run:     runC05,
		Explain: "Tables and call shapes evaluated from the source: (1) the per-etype parameter table (6 etypes × 10 constant-returning methods, folded from SSA) against RFC 3961 §6.3, 3962 §6, 8009 §5, 4757 and the IANA registry, and the GetEtype switch table; (2) the Ke/Ki/Kc usage octets 0xAA/0x55/0x99 appended to the 4-byte big-endian usage; (3) the RC4 message-type translation table {3→8, 9→8, 23→13} and its fixed-width 4-byte little-endian encoding; (4) in each of the four EncryptMessage implementations the confounder buffer of GetConfounderByteSize() bytes is filled by crypto/rand.Read with the error checked and is the prefix of what is encrypted; (5) per family, encryption and decryption derive the cipher key and compute the integrity hash with the same calls over the same operands and agree on the ciphertext‖MAC layout; (6) GetEncryptedData stamps etype and kvno. Necessary conditions of interoperability, not the ciphertext bytes. Added: the usage constant is read as byte placements (BE32(usage)@0:4 ‖ octet@4:5, whatever assembles it); des3 takes the MAC over the same zero-padded buffer it encrypts; the crypto packages keep no package-level state (or only a memo table keyed by every parameter itself).",
		NotDecided: []string{
			"ciphertext bytes equal to an independent implementation's for all inputs (AES-CTS, CBC, RC4, HMAC, n-fold arithmetic)",
			"aescts dependency",
		},
	})
}

// etypeRef is the reference row for one encryption type (see DESIGN.md A.3).
type etypeRef struct {
	Type   string // implementing type name
	ID     int
	Name   string
	Cells  map[string]string // method -> expected folded value
	Source string
}

var etypeRefs = []etypeRef{
	{"Des3CbcSha1Kd", 16, "des3-cbc-sha1-kd", map[string]string{
		"GetETypeID": "16", "GetHashID": "12", "GetKeyByteSize": "24", "GetKeySeedBitLength": "168", "GetMessageBlockByteSize": "8",
		"GetConfounderByteSize": "8", "GetHMACBitLength": "160", "GetCypherBlockBitLength": "64", "GetHashFunc": "func:crypto/sha1.New", "GetDefaultStringToKeyParams": `""`},
		"RFC 3961 §6.3; checksum hmac-sha1-des3-kd = 12"},
	{"Aes128CtsHmacSha96", 17, "aes128-cts-hmac-sha1-96", map[string]string{
		"GetETypeID": "17", "GetHashID": "15", "GetKeyByteSize": "16", "GetKeySeedBitLength": "128", "GetMessageBlockByteSize": "1",
		"GetConfounderByteSize": "16", "GetHMACBitLength": "96", "GetCypherBlockBitLength": "128", "GetHashFunc": "func:crypto/sha1.New", "GetDefaultStringToKeyParams": `"00001000"`},
		"RFC 3962 §6–7, §4 (default iteration count 4096 = 00001000)"},
	{"Aes256CtsHmacSha96", 18, "aes256-cts-hmac-sha1-96", map[string]string{
		"GetETypeID": "18", "GetHashID": "16", "GetKeyByteSize": "32", "GetKeySeedBitLength": "256", "GetMessageBlockByteSize": "1",
		"GetConfounderByteSize": "16", "GetHMACBitLength": "96", "GetCypherBlockBitLength": "128", "GetHashFunc": "func:crypto/sha1.New", "GetDefaultStringToKeyParams": `"00001000"`},
		"RFC 3962 §6–7"},
	{"Aes128CtsHmacSha256128", 19, "aes128-cts-hmac-sha256-128", map[string]string{
		"GetETypeID": "19", "GetHashID": "19", "GetKeyByteSize": "16", "GetKeySeedBitLength": "128", "GetMessageBlockByteSize": "1",
		"GetConfounderByteSize": "16", "GetHMACBitLength": "128", "GetCypherBlockBitLength": "128", "GetHashFunc": "func:crypto/sha256.New", "GetDefaultStringToKeyParams": `"00008000"`},
		"RFC 8009 §5–6, §4 (default iteration count 32768 = 00008000)"},
	{"Aes256CtsHmacSha384192", 20, "aes256-cts-hmac-sha384-192", map[string]string{
		// protocol key 256 bits (RFC 8009 §5). GetKeySeedBitLength is used by rfc8009.DeriveKey as the
		// Kc/Ki output length (192); Ke and string-to-key use 256 through its special case.
		"GetETypeID": "20", "GetHashID": "20", "GetKeyByteSize": "32", "GetKeySeedBitLength": "192", "GetMessageBlockByteSize": "1",
		"GetConfounderByteSize": "16", "GetHMACBitLength": "192", "GetCypherBlockBitLength": "128", "GetHashFunc": "func:crypto/sha512.New384", "GetDefaultStringToKeyParams": `"00008000"`},
		"RFC 8009 §5–6"},
	{"RC4HMAC", 23, "rc4-hmac", map[string]string{
		"GetETypeID": "23", "GetHashID": "-138", "GetKeyByteSize": "16", "GetKeySeedBitLength": "128", "GetMessageBlockByteSize": "1",
		"GetConfounderByteSize": "8", "GetHMACBitLength": "128", "GetHashFunc": "func:crypto/md5.New", "GetDefaultStringToKeyParams": `""`},
		"RFC 4757 §2–5; checksum KERB_CHECKSUM_HMAC_MD5 = -138"},
}

// ruleEtypeTable is shared by C05 (all cells) and C08 (sizes and defaults).
func ruleEtypeTable(w *World, c *Check, rule string, methods map[string]bool) {
	impls, _ := etypeImpls(w)
	if impls == nil {
		c.Missing(rule, "crypto/etype.EType")
		return
	}
	for _, ref := range etypeRefs {
		t, ok := impls[ref.Type]
		if !ok {
			c.Missing(rule, "crypto."+ref.Type)
			continue
		}
		for _, m := range sortedKeys(ref.Cells) {
			if methods != nil && !methods[m] {
				continue
			}
			want := ref.Cells[m]
			got, f, ok := etypeParam(w, t, m)
			fk := "crypto.(" + ref.Type + ")." + m
			where := "-"
			if f != nil {
				where = w.Pos(f.Pos())
			}
			desc := fmt.Sprintf("%s %s = %s (%s)", ref.Name, m, want, ref.Source)
			if f == nil {
				c.Missing(rule, fk)
				continue
			}
			if !ok {
				c.Fail(rule, fk, "value", where, desc, "method does not fold to a constant: its value cannot be established statically")
				continue
			}
			c.Decide(got == want, rule, fk, "value", where, desc, "source yields "+got)
		}
	}
	// any other implementer of EType is unknown to the table
	for _, n := range sortedNames(impls) {
		known := false
		for _, r := range etypeRefs {
			if r.Type == n {
				known = true
			}
		}
		if !known {
			c.Fail(rule, "crypto."+n, "unlisted-etype", "-", "every EType implementation has a reference row", "type "+n+" implements etype.EType but has no reference row in the checker")
		}
	}
}

func ruleGetEtype(w *World, c *Check, rule string) {
	fn := w.Func("crypto.GetEtype")
	if fn == nil {
		c.Missing(rule, "crypto.GetEtype")
		return
	}
	fa := NewFuncAn(w, fn)
	got, _ := fa.caseTable(substParams(fn, "id"))
	want := map[string]string{"default": "nil"}
	for _, r := range etypeRefs {
		want[fmt.Sprint(r.ID)] = "zero(crypto." + r.Type + ")"
	}
	compareTable(c, rule, FuncKey(fn), w.Pos(fn.Pos()), "GetEtype", got, want, true)
}

func runC05(w *World, c *Check) {
	c.Rule("C05.table", "per-etype constants equal the RFC/IANA reference table (DESIGN.md A.3); GetEtype maps each id to the type whose GetETypeID returns it", 66)
	c.Rule("C05.usage", "key-derivation usage = 4-byte big-endian usage number followed by 0xAA (Ke), 0x55 (Ki), 0x99 (Kc) — RFC 3961 §5.3", 4)
	c.Rule("C05.msgtype", "RC4 message type: usages 3→8, 9→8, 23→13, all others unchanged, encoded as a fixed-width 4-byte little-endian integer (RFC 4757 §3)", 5)
	c.Rule("C05.confounder", "each EncryptMessage fills a GetConfounderByteSize() buffer from crypto/rand, checks the error, and encrypts confounder‖message", 12)
	c.Rule("C05.sibling", "per family, encrypt and decrypt derive the cipher key and integrity hash with the same calls over the same operands and agree on the ciphertext‖MAC layout", 14)
	c.Rule("C05.minlen", "a length test that rejects a message in a decryptor does not reject the shortest message the encryptor produces (confounder plus checksum: the encryption of an empty plaintext), for any etype of the family", 4)
	c.Rule("C05.stamp", "GetEncryptedData stamps the key's etype and the caller's kvno and encrypts under the key's etype", 2)
	c.Rule("C05.stateless", "a crypto function touches package-level state only as a memo table keyed by all of its parameters themselves (on this tree: no package-level state at all): results do not depend on earlier calls", 6)
	ruleStateless(w, c, "C05.stateless")

	ruleEtypeTable(w, c, "C05.table", nil)
	ruleGetEtype(w, c, "C05.table")
	ruleUsageOctets(w, c, "C05.usage")
	ruleMsgType(w, c, "C05.msgtype")

	// ---- rule 4: fresh confounder ------------------------------------------------
	for _, fk := range []string{"crypto/rfc3961.DES3EncryptMessage", "crypto/rfc3962.EncryptMessage", "crypto/rfc8009.EncryptMessage", "crypto/rfc4757.EncryptMessage"} {
		fn := w.Func(fk)
		if fn == nil {
			c.Missing("C05.confounder", fk)
			continue
		}
		fa := NewFuncAn(w, fn)
		reads := fa.Calls(`crypto/rand\.Read`)
		where := w.Pos(fn.Pos())
		if len(reads) != 1 {
			var others []string
			for _, b := range fn.Blocks {
				for _, in := range b.Instrs {
					if ci, ok := in.(ssa.CallInstruction); ok {
						if n := fa.CalleeName(ci); strings.Contains(n, "rand") {
							others = append(others, n)
						}
					}
				}
			}
			c.Fail("C05.confounder", fk, "rand-read", where, "the confounder is filled by exactly one crypto/rand.Read", fmt.Sprintf("found %d calls of crypto/rand.Read (other random sources called: %v)", len(reads), others))
			continue
		}
		rd := reads[0]
		buf := stripSlice(rd.Common().Args[0])
		bufS := fa.R.R(buf)
		c.Decide(fa.M(`make\(\[\]byte, crypto/etype\.EType\.GetConfounderByteSize\(e\)\)`, bufS), "C05.confounder", fk, "size", w.Pos(InstrPos(rd)),
			"the confounder buffer has GetConfounderByteSize() bytes", "buffer is "+bufS)
		// error checked
		pass := fa.MatchGuard(EqPass("nil", `crypto/rand\.Read\(.*\)#1`))
		exits := fa.SuccessExits(BoolErrSuccess(-1, fn.Signature.Results().Len()-1))
		if len(pass) == 0 {
			c.Fail("C05.confounder", fk, "error-checked", w.Pos(InstrPos(rd)), "a failing random source aborts the encryption", "the error of crypto/rand.Read is not tested")
		} else {
			p := fa.PathAvoiding(pass, exits)
			c.Decide(p == nil, "C05.confounder", fk, "error-checked", w.Pos(InstrPos(rd)), "a failing random source aborts the encryption", "success exit reachable when rand.Read failed: "+fa.DescribePath(p))
		}
		// the buffer is the prefix of what is encrypted
		okPrefix := false
		var encArgs []string
		for _, b := range fn.Blocks {
			for _, in := range b.Instrs {
				ci, ok := in.(ssa.CallInstruction)
				if !ok {
					continue
				}
				n := fa.CalleeName(ci)
				if !(strings.HasSuffix(n, ".EncryptData") || strings.HasSuffix(n, "EncryptData")) {
					continue
				}
				args := ci.Common().Args
				data := args[len(args)-1]
				if strings.HasSuffix(n, "rfc4757.EncryptData") {
					data = args[1]
				}
				encArgs = append(encArgs, fa.R.R(data))
				if prefixIs(data, buf) {
					okPrefix = true
				}
			}
		}
		c.Decide(okPrefix, "C05.confounder", fk, "prefix-of-plaintext", w.Pos(InstrPos(rd)),
			"what is encrypted starts with that random buffer (append(confounder, message…))", fmt.Sprintf("EncryptData operands: %v", encArgs))
	}

	// des3: the MAC is taken over what is encrypted — confounder ‖ message ‖ zero padding (RFC 3961
	// §6.3: "checksum over conf | plaintext | pad"); the reference decryptor verifies over the padded
	// plaintext it recovers, so a MAC over the unpadded bytes fails for every unaligned length
	checkCalls(w, c, "C05.sibling", "crypto/rfc3961.DES3EncryptMessage", []CallSpec{
		{Name: "mac-over-padded-plaintext", Desc: "the integrity hash covers the zero-padded confounder‖message, the same bytes that are encrypted",
			Callee: `crypto/common\.GetIntegrityHash`, Want: `crypto/common\.GetIntegrityHash\(crypto/common\.ZeroPad\(append\(.*, message\), crypto/etype\.EType\.GetMessageBlockByteSize\(e\)\)#0, key, usage, e\)`},
		{Name: "encrypts-padded-plaintext", Desc: "the cipher input is that same padded buffer",
			Callee: `crypto/etype\.EType\.EncryptData`, Want: `crypto/etype\.EType\.EncryptData\(e, .*, crypto/common\.ZeroPad\(append\(.*, message\), crypto/etype\.EType\.GetMessageBlockByteSize\(e\)\)#0\)`},
	})

	// ---- rule 5: sibling agreement -------------------------------------------------
	derive := `crypto/etype\.EType\.DeriveKey\(e, key, crypto/common\.GetUsageKe\(usage\)\)`
	for _, fam := range []struct{ enc, dec, ih string }{
		{"crypto/rfc3961.DES3EncryptMessage", "crypto/rfc3961.DES3DecryptMessage", `crypto/common\.GetIntegrityHash\(.*, key, usage, e\)`},
		{"crypto/rfc3962.EncryptMessage", "crypto/rfc3962.DecryptMessage", `crypto/common\.GetIntegrityHash\(.*, key, usage, e\)`},
		{"crypto/rfc8009.EncryptMessage", "crypto/rfc8009.DecryptMessage", `crypto/rfc8009\.GetIntegityHash\(make\(\[\]byte, crypto/etype\.EType\.GetConfounderByteSize\(e\)\), crypto/etype\.EType\.EncryptData\(.*\)#1, key, usage, e\)`},
	} {
		checkCalls(w, c, "C05.sibling", fam.enc, []CallSpec{
			{Name: "encrypt-derive-ke", Desc: "cipher key = DeriveKey(protocol key, usage‖0xAA)", Callee: `crypto/etype\.EType\.DeriveKey`, Want: derive},
			{Name: "encrypt-with-derived-key", Desc: "the data is encrypted under the derived key", Callee: `crypto/etype\.EType\.EncryptData`, Want: `crypto/etype\.EType\.EncryptData\(e, φ\(` + derive + `#0\|nil\), .*\)`},
			{Name: "encrypt-integrity", Desc: "integrity hash keyed by the protocol key and usage (Ki) over the family's operand", Callee: `crypto/common\.GetIntegrityHash|crypto/rfc8009\.GetIntegityHash`, Want: fam.ih},
		})
		if fn := w.Func(fam.enc); fn != nil {
			fa := NewFuncAn(w, fn)
			// layout: ciphertext ‖ MAC
			ok := false
			for _, rs := range fa.returnsOf() {
				if len(rs) == 3 && rs[2] == "nil" && fullMatch(`append\(crypto/etype\.EType\.EncryptData\(.*\)#1, (crypto/common\.GetIntegrityHash|crypto/rfc8009\.GetIntegityHash)\(.*\)#0\)`, rs[1]) {
					ok = true
				}
			}
			c.Decide(ok, "C05.sibling", fam.enc, "layout", w.Pos(fn.Pos()), "the message is ciphertext ‖ integrity hash", "no success return of that shape")
		}
	}
	ruleDecryptShape(w, c, "C05.sibling")
	ruleMinLen(w, c, "C05.minlen")
	// the integrity verifiers: MAC position and operand
	ruleIntegrityOperands(w, c, "C05.sibling")
	// RFC 4757
	k2 := `crypto/rfc4757\.HMAC\(key, crypto/rfc4757\.UsageToMSMsgType\(usage\)\)`
	checkCalls(w, c, "C05.sibling", "crypto/rfc4757.EncryptMessage", []CallSpec{
		{Name: "rc4-k2", Desc: "K2 = HMAC(K1, message type)", Callee: `crypto/rfc4757\.HMAC`, Want: k2},
		{Name: "rc4-checksum", Desc: "checksum = HMAC(K2, confounder‖data)", Callee: `crypto/rfc4757\.HMAC`, Want: `crypto/rfc4757\.HMAC\(` + k2 + `, append\(.*, data\)\)`},
		{Name: "rc4-k3", Desc: "K3 = HMAC(K2, checksum)", Callee: `crypto/rfc4757\.HMAC`, Want: `crypto/rfc4757\.HMAC\(` + k2 + `, crypto/rfc4757\.HMAC\(` + k2 + `, append\(.*, data\)\)\)`},
		{Name: "rc4-encrypt-k3", Desc: "confounder‖data is encrypted under K3", Callee: `crypto/rfc4757\.EncryptData`, Want: `crypto/rfc4757\.EncryptData\(crypto/rfc4757\.HMAC\(` + k2 + `, crypto/rfc4757\.HMAC\(.*\)\), append\(.*, data\), e\)`},
	})
	if fn := w.Func("crypto/rfc4757.EncryptMessage"); fn != nil {
		fa := NewFuncAn(w, fn)
		ok := false
		for _, rs := range fa.returnsOf() {
			if len(rs) == 2 && rs[1] == "nil" && fullMatch(`append\(crypto/rfc4757\.HMAC\(.*\), crypto/rfc4757\.EncryptData\(.*\)#0\)`, rs[0]) {
				ok = true
			}
		}
		c.Decide(ok, "C05.sibling", FuncKey(fn), "layout", w.Pos(fn.Pos()), "the RC4 message is checksum ‖ ciphertext", "no success return of that shape")
	}
	hl := `\(crypto/etype\.EType\.GetHMACBitLength\(e\) / 8\)`
	// (deriveKeys, where it exists, is rendered in place: see inlineAlways)
	k3d := `crypto/rfc4757\.HMAC\(` + k2 + `, data\[:` + hl + `\]\)`
	checkCalls(w, c, "C05.sibling", "crypto/rfc4757.DecryptMessage", []CallSpec{
		{Name: "rc4-decrypt-k3", Desc: "the bytes after the checksum are decrypted under K3 = HMAC(K2, the message's leading checksum), K2 = HMAC(key, message type)", Callee: `crypto/rfc4757\.DecryptData`, Want: `crypto/rfc4757\.DecryptData\(` + k3d + `, data\[` + hl + `:\], e\)`},
		{Name: "rc4-verify-k2", Desc: "integrity verified with K2 over the decrypted bytes against the message", Callee: `crypto/rfc4757\.VerifyIntegrity`, Want: `crypto/rfc4757\.VerifyIntegrity\(` + k2 + `, crypto/rfc4757\.DecryptData\(.*\)#0, data, e\)`},
	})

	// ---- rule 6: GetEncryptedData ----------------------------------------------------
	if fn := w.Func("crypto.GetEncryptedData"); fn == nil {
		c.Missing("C05.stamp", "crypto.GetEncryptedData")
	} else {
		fa := NewFuncAn(w, fn)
		checkCallsFA(c, "C05.stamp", fa, []CallSpec{
			{Name: "encrypt-under-key-etype", Desc: "the message is encrypted by the etype of the key, with the key value, the plaintext and the usage",
				Callee: `crypto/etype\.EType\.EncryptMessage`, Want: `crypto/etype\.EType\.EncryptMessage\(crypto\.GetEtype\(key\.KeyType\)#0, key\.KeyValue, plainBytes, usage\)`},
		})
		var stores []string
		okE, okK, okC := false, false, false
		for _, st := range fa.storesTo(`local<types\.EncryptedData>.*\..*`) {
			a, v := fa.R.R(st.Addr), fa.R.R(st.Val)
			stores = append(stores, a+" <- "+trunc(v, 60))
			switch {
			case strings.HasSuffix(a, ".EType") && v == substParams(fn, "key.KeyType"):
				okE = true
			case strings.HasSuffix(a, ".KVNO") && v == substParams(fn, "kvno"):
				okK = true
			case strings.HasSuffix(a, ".Cipher") && fullMatch(`crypto/etype\.EType\.EncryptMessage\(.*\)#1`, v):
				okC = true
			}
		}
		c.Decide(okE && okK && okC, "C05.stamp", FuncKey(fn), "fields", w.Pos(fn.Pos()), "EncryptedData{EType: key.KeyType, KVNO: kvno, Cipher: ciphertext}", fmt.Sprintf("stores: %v", stores))
	}
}

// stripSlice removes full-slice and conversion wrappers.
func stripSlice(v ssa.Value) ssa.Value {
	for {
		switch x := v.(type) {
		case *ssa.Slice:
			if x.Low == nil && x.High == nil {
				v = x.X
				continue
			}
		case *ssa.ChangeType:
			v = x.X
			continue
		case *ssa.Convert:
			v = x.X
			continue
		}
		return v
	}
}

// prefixIs: data is append(buf, …) (possibly through further appends/pads whose first operand derives from it).
func prefixIs(data, buf ssa.Value) bool {
	for depth := 0; depth < 8; depth++ {
		data = stripSlice(data)
		if data == buf {
			return true
		}
		switch x := data.(type) {
		case *ssa.Call:
			if b, ok := x.Call.Value.(*ssa.Builtin); ok && b.Name() == "append" {
				data = x.Call.Args[0]
				continue
			}
			return false
		case *ssa.Extract:
			// common.ZeroPad(x, n)#0 keeps x as prefix
			if call, ok := x.Tuple.(*ssa.Call); ok && x.Index == 0 {
				if f := call.Call.StaticCallee(); f != nil && calleeName(f) == "crypto/common.ZeroPad" {
					data = call.Call.Args[0]
					continue
				}
			}
			return false
		case *ssa.Phi:
			for _, e := range x.Edges {
				if !prefixIs(e, buf) {
					return false
				}
			}
			return true
		}
		return false
	}
	return false
}

// ruleUsageOctets: RFC 3961 §5.3.
func ruleUsageOctets(w *World, c *Check, rule string) {
	want := map[string]string{"GetUsageKe": "170", "GetUsageKi": "85", "GetUsageKc": "153"}
	for _, n := range sortedKeys(want) {
		fk := "crypto/common." + n
		checkCalls(w, c, rule, fk, []CallSpec{
			{Name: "octet", Desc: fmt.Sprintf("%s appends octet %s to the usage number", n, want[n]), Callee: `crypto/common\.getUsage`, Want: `crypto/common\.getUsage\(un, ` + want[n] + `\)`},
		})
	}
	fn := w.Func("crypto/common.getUsage")
	if fn == nil {
		c.Missing(rule, "crypto/common.getUsage")
		return
	}
	fa := NewFuncAn(w, fn)
	// the returned bytes, however assembled (bytes.Buffer + binary.Write + append, make + PutUint32,
	// a literal of shifted bytes …), are BE32(usage) at 0:4 followed by the octet at 4:5
	ok := false
	var got []string
	for _, v := range returnedBytes(fa) {
		ps, total := fa.BufferPlaces(v)
		got = append(got, "len "+total+": "+placesString(ps))
		want := []string{"", ""}
		if len(fn.Params) == 2 {
			want = []string{"BE32(" + fa.R.R(fn.Params[0]) + ")@0:4", fa.R.R(fn.Params[1]) + "@4:5"}
		}
		ok = total == "5" && len(ps) == 2 && ps[0].String() == want[0] && ps[1].String() == want[1]
		if !ok {
			break
		}
	}
	isU32 := len(fn.Params) == 2 && fn.Params[0].Type().String() == "uint32"
	c.Decide(ok && isU32, rule, FuncKey(fn), "layout", w.Pos(fn.Pos()), "usage constant = uint32 usage number written big-endian (4 bytes) followed by the octet",
		fmt.Sprintf("returns %v; first parameter uint32: %v", got, isU32))
}

func renderCalls(fa *FuncAn, cs []ssa.CallInstruction) []string {
	var out []string
	for _, ci := range cs {
		out = append(out, fa.RenderCall(ci))
	}
	return out
}

// ruleMsgType: RFC 4757 §3 translation and fixed-width little-endian encoding.
func ruleMsgType(w *World, c *Check, rule string) {
	fn := w.Func("crypto/rfc4757.UsageToMSMsgType")
	if fn == nil {
		c.Missing(rule, "crypto/rfc4757.UsageToMSMsgType")
		return
	}
	fa := NewFuncAn(w, fn)
	got, _ := fa.caseTable(substParams(fn, "usage"))
	compareTable(c, rule, FuncKey(fn), w.Pos(fn.Pos()), "UsageToMSMsgType", got, map[string]string{"3": "8", "9": "8", "23": "13", "default": substParams(fn, "usage")}, true)
	// encoding: the result buffer is 4 bytes and is written only by a fixed-width LE store of the translated value
	var writers []string
	good := false
	bad := ""
	for _, b := range fn.Blocks {
		for _, in := range b.Instrs {
			ci, ok := in.(ssa.CallInstruction)
			if !ok {
				continue
			}
			n := fa.CalleeName(ci)
			if !strings.HasPrefix(n, "encoding/binary.") {
				continue
			}
			writers = append(writers, fa.RenderCall(ci))
			switch {
			case n == "encoding/binary.littleEndian.PutUint32" || n == "encoding/binary.(littleEndian).PutUint32":
				good = true
			case strings.Contains(n, "varint") || strings.Contains(n, "Varint"):
				bad = n + " is a variable-length encoding: it differs from 4-byte little-endian for every value ≥ 128 (and needs 5 bytes above 2^28)"
			case strings.Contains(n, "bigEndian") || strings.Contains(n, "BigEndian"):
				bad = n + " writes big-endian"
			}
		}
	}
	// constant-shift byte stores are the other accepted fixed-width form
	if !good && bad == "" {
		n := 0
		for _, st := range fa.storesTo(`local<\[4\]byte>\[[0-3]\]`) {
			_ = st
			n++
		}
		if n == 4 {
			good = true
		}
	}
	rets := fa.returnsOf()
	ret4 := len(rets) == 1 && len(rets[0]) == 1 && strings.HasPrefix(rets[0][0], "local<[4]byte>")
	detail := bad
	if detail == "" {
		detail = fmt.Sprintf("encoders called: %v; returns %v", writers, rets)
	}
	c.Decide(good && bad == "" && ret4, rule, FuncKey(fn), "encoding", w.Pos(fn.Pos()), "the message type is a 4-byte little-endian integer (fixed width)", detail)
}

// ruleIntegrityOperands: key, usage and message flow into the integrity hash of
// the verifiers, and the MAC is taken from the RFC's position (shared by C05/C06).
func ruleIntegrityOperands(w *World, c *Check, rule string) {
	macTail := `ct\[\(len\(ct\) - \(crypto/etype\.EType\.GetHMACBitLength\(etype\) / 8\)\):\]`
	checkCalls(w, c, rule, "crypto/rfc3961.VerifyIntegrity", []CallSpec{
		{Name: "mac-position", Desc: "the MAC is the last GetHMACBitLength()/8 bytes of the message", Callee: `copy`, Want: `copy\(make\(\[\]byte, \(crypto/etype\.EType\.GetHMACBitLength\(etype\) / 8\)\), ` + macTail + `\)`},
		{Name: "hash-operand", Desc: "expected MAC = GetIntegrityHash(plaintext, key, usage)", Callee: `crypto/common\.GetIntegrityHash`, Want: `crypto/common\.GetIntegrityHash\(pt, key, usage, etype\)`},
	})
	checkCalls(w, c, rule, "crypto/rfc8009.VerifyIntegrity", []CallSpec{
		{Name: "mac-position", Desc: "the MAC is the last GetHMACBitLength()/8 bytes of the message", Callee: `copy`, Want: `copy\(make\(\[\]byte, \(crypto/etype\.EType\.GetHMACBitLength\(etype\) / 8\)\), ` + macTail + `\)`},
		{Name: "hash-operand", Desc: "expected MAC = GetIntegrityHash(zero IV ‖ ciphertext body, key, usage) (RFC 8009 §5)", Callee: `crypto/common\.GetIntegrityHash`,
			Want: `crypto/common\.GetIntegrityHash\(append\(make\(\[\]byte, crypto/etype\.EType\.GetConfounderByteSize\(etype\)\), ct\[:\(len\(ct\) - \(crypto/etype\.EType\.GetHMACBitLength\(etype\) / 8\)\)\]\), key, usage, etype\)`},
	})
	checkCalls(w, c, rule, "crypto/rfc8009.GetIntegityHash", []CallSpec{
		{Name: "iv-then-ciphertext", Desc: "RFC 8009 integrity operand is IV ‖ ciphertext", Callee: `crypto/common\.GetIntegrityHash`, Want: `crypto/common\.GetIntegrityHash\(append\(iv, c\), key, usage, e\)`},
	})
	checkCalls(w, c, rule, "crypto/rfc4757.VerifyIntegrity", []CallSpec{
		{Name: "hash-operand", Desc: "expected checksum = HMAC(K2, decrypted confounder‖data)", Callee: `crypto/rfc4757\.HMAC`, Want: `crypto/rfc4757\.HMAC\(key, pt\)`},
	})
}

// ruleDecryptShape: the simplified-profile decryptors split the message into body ‖ MAC with no byte
// left out: the body handed to DecryptData is everything but the trailing GetHMACBitLength()/8 bytes,
// under the Ke-derived key, and VerifyIntegrity receives the whole message. Shared by C05 (sibling of
// the encryptor's layout) and C06 (a byte outside both parts would be accepted unauthenticated).
func ruleDecryptShape(w *World, c *Check, rule string) {
	derive := `crypto/etype\.EType\.DeriveKey\(e, key, crypto/common\.GetUsageKe\(usage\)\)`
	hm := `\(crypto/etype\.EType\.GetHMACBitLength\(e\) / 8\)`
	ctBody := `ciphertext\[:\(len\(ciphertext\) - ` + hm + `\)\]`
	for _, dec := range []string{"crypto/rfc3961.DES3DecryptMessage", "crypto/rfc3962.DecryptMessage", "crypto/rfc8009.DecryptMessage"} {
		checkCalls(w, c, rule, dec, []CallSpec{
			{Name: "decrypt-derive-ke", Desc: "cipher key = DeriveKey(protocol key, usage‖0xAA)", Callee: `crypto/etype\.EType\.DeriveKey`, Want: derive, AllMustMatch: true},
			{Name: "decrypt-body", Desc: "what is decrypted is the message without its trailing GetHMACBitLength()/8 bytes, under the derived key", Callee: `crypto/etype\.EType\.DecryptData`,
				Want: `crypto/etype\.EType\.DecryptData\(e, ` + derive + `#0, ` + ctBody + `\)`, AllMustMatch: true},
			{Name: "decrypt-verify", Desc: "integrity verified with the protocol key, the whole message, the decrypted bytes and the usage", Callee: `crypto/etype\.EType\.VerifyIntegrity`,
				Want: `crypto/etype\.EType\.VerifyIntegrity\(e, key, ciphertext, crypto/etype\.EType\.DecryptData\(.*\)#0, usage\)`, AllMustMatch: true},
		})
	}
}

// ruleMinLen: every branch of a DecryptMessage/VerifyIntegrity that only rejects (all paths end in
// an error / false return) and whose condition is linear in the length of the message must let the
// shortest genuine message through: len = GetConfounderByteSize() + GetHMACBitLength()/8, evaluated
// separately for every etype (the condition is instantiated with the etype's constants).
func ruleMinLen(w *World, c *Check, rule string) {
	impls, _ := etypeImpls(w)
	for _, spec := range []struct{ fk, msg string }{
		{"crypto/rfc3961.DES3DecryptMessage", "ciphertext"}, {"crypto/rfc3962.DecryptMessage", "ciphertext"},
		{"crypto/rfc8009.DecryptMessage", "ciphertext"}, {"crypto/rfc4757.DecryptMessage", "data"},
		{"crypto/rfc3961.VerifyIntegrity", "ct"}, {"crypto/rfc8009.VerifyIntegrity", "ct"}, {"crypto/rfc4757.VerifyIntegrity", "data"},
	} {
		fn := w.Func(spec.fk)
		if fn == nil {
			c.Missing(rule, spec.fk)
			continue
		}
		var msg, ep *ssa.Parameter
		for _, p := range fn.Params {
			if p.Name() == spec.msg {
				msg = p
			}
			if strings.HasSuffix(p.Type().String(), "crypto/etype.EType") {
				ep = p
			}
		}
		if msg == nil || ep == nil {
			// parameter names are not part of the property: fall back to the last []byte / the EType parameter
			for _, p := range fn.Params {
				if _, ok := p.Type().Underlying().(*types.Slice); ok && msg == nil {
					msg = p
				}
			}
		}
		if msg == nil || ep == nil {
			c.Fail(rule, spec.fk, "params", w.Pos(fn.Pos()), "the decryptor has a message and an etype parameter", "not found")
			continue
		}
		bc := newBoundsCtx(w, fn)
		fa := NewFuncAn(w, fn)
		lenAtom := atom{kind: 'l', v: bc.canon(msg)}
		n := 0
		for _, b := range fn.Blocks {
			iff, ok := lastInstr(b).(*ssa.If)
			if !ok {
				continue
			}
			for k := 0; k < 2; k++ {
				if !rejectsOnlyOrFalse(fa, b.Succs[k], b.Succs[1-k]) {
					continue
				}
				facts := bc.condFacts(iff.Cond, k == 0)
				if len(facts) == 0 {
					continue
				}
				mentions := false
				for _, f := range facts {
					if _, ok := f.t[lenAtom]; ok {
						mentions = true
					}
				}
				if !mentions {
					continue
				}
				n++
				where := w.Pos(InstrPos(iff))
				construct := "reject@" + fa.CondOf(iff).String()
				bad, undec := "", ""
				for _, tn := range sortedNames(impls) {
					t := impls[tn]
					cs, _, ok1 := etypeParam(w, t, "GetConfounderByteSize")
					hs, _, ok2 := etypeParam(w, t, "GetHMACBitLength")
					var conf, hm int64
					if !ok1 || !ok2 {
						undec = "etype constants of " + tn + " do not fold"
						continue
					}
					fmt.Sscan(cs, &conf)
					fmt.Sscan(hs, &hm)
					minLen := conf + hm/8
					rejects := true
					for _, f := range facts {
						fi, ok := bc.instantiate(f, bc.canon(ep), t)
						if !ok {
							undec = "condition does not instantiate for " + tn
							rejects = false
							break
						}
						// substitute the length
						v := fi.k
						rest := 0
						for a, cf := range fi.t {
							if a == lenAtom {
								v += cf * minLen
							} else {
								rest++
							}
						}
						if rest > 0 {
							undec = "condition depends on more than the length and the etype"
							rejects = false
							break
						}
						if v > 0 {
							rejects = false
						}
					}
					if rejects {
						bad += fmt.Sprintf(" %s(len %d)", tn, minLen)
					}
				}
				switch {
				case bad != "":
					c.Fail(rule, spec.fk, construct, where, "the rejection lets the encryption of an empty plaintext (confounder plus checksum) through", "rejects the shortest genuine message of:"+bad)
				case undec != "":
					c.Note(rule, spec.fk, construct, where, "rejection not evaluated: "+undec)
				default:
					c.Ok(rule, spec.fk, construct, where, "the rejection lets the shortest genuine message of every etype through")
				}
			}
		}
		_ = n
	}
}

// rejectsOnlyOrFalse: like rejectsOnly, and also accepts functions whose result is a bool: every
// path returns the constant false.
func rejectsOnlyOrFalse(fa *FuncAn, from, avoid *ssa.BasicBlock) bool {
	if rejectsOnly(fa, from, avoid) {
		return true
	}
	seen := map[*ssa.BasicBlock]bool{from: true}
	stack := []*ssa.BasicBlock{from}
	rets := 0
	for len(stack) > 0 {
		b := stack[len(stack)-1]
		stack = stack[:len(stack)-1]
		if b == avoid {
			return false
		}
		if ret, ok := lastInstr(b).(*ssa.Return); ok {
			rs := RetResults(ret)
			if len(rs) != 1 {
				return false
			}
			cst, ok := rs[0].(*ssa.Const)
			if !ok || cst.Value == nil || cst.Value.String() != "false" {
				return false
			}
			rets++
			continue
		}
		for _, n := range b.Succs {
			if !seen[n] {
				seen[n] = true
				stack = append(stack, n)
			}
		}
	}
	return rets > 0
}
