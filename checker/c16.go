package main

// C16 — krb5.conf parsing, realm resolution and KDC selection follow MIT semantics.
//
// The property as a whole is a parser-semantics property over an unbounded
// text space and is not decided. Decided are structural necessary conditions:
// the key tables of the [libdefaults] and [realms] parsers agree with the
// documented key ↔ field ↔ value-type table; parser errors are turned into
// errors; the derived enctype ids are recomputed; section errors propagate;
// parseBoolean's spelling table; realm selection in GetKDCs; the order in
// which ResolveRealm tries suffixes; and the draw-and-remove shape of
// randServOrder (each configured server exactly once).

import (
	"fmt"
	"go/token"
	"go/types"
	"sort"
	"strings"

	"golang.org/x/tools/go/ssa"
)

func init() {
	register(&Property{ID: "C16", Run: runC16,
		Explain: "Structural necessary conditions of the krb5.conf property, from the SSA of the config package: (1) each documented [libdefaults] key has exactly one case that stores the value side of the line, parsed by the parser of the field's type, into the field of that name, and a parser error returns an Invalid error; same for the five [realms] keys with their own final-value flags and the :88 default; (2) derived enctype ids are recomputed on the success path; (3) section-parser errors other than UnsupportedDirective abort the load, unpaired braces are errors; (4) parseBoolean's spelling table; (5) GetKDCs/GetKpasswdServers select the realm by equality and report len of the list; (6) ResolveRealm tries the exact name then suffixes from longest to shortest, returning the first hit; (7) randServOrder draws uniformly among the remaining servers and removes exactly the drawn one. Nothing is executed.",
		NotDecided: []string{
			"comment, whitespace and blank-line handling as text-level behaviour; nested-brace semantics beyond 'closing bracket lines are skipped' (their panic freedom is C04's)",
			"the values of durations and booleans for concrete spellings beyond the extracted tables (parseDuration's arithmetic is not evaluated)",
			"that randServOrder's result is a permutation as a runtime value: only the draw-and-remove shape of each step is checked",
			"DNS SRV lookups (dnsutils is a dependency)",
		}})
}

type c16Key struct {
	field string
	kind  string // bool dur str fields uint int hex ips ints
}

// MIT krb5.conf [libdefaults] relations implemented by gokrb5, with the LibDefaults field and the
// type-directed parser (krb5.conf(5); config.LibDefaults).
var c16LibDefaults = map[string]c16Key{
	"allow_weak_crypto":          {"AllowWeakCrypto", "bool"},
	"canonicalize":               {"Canonicalize", "bool"},
	"ccache_type":                {"CCacheType", "uint"},
	"clockskew":                  {"Clockskew", "dur"},
	"default_client_keytab_name": {"DefaultClientKeytabName", "str"},
	"default_keytab_name":        {"DefaultKeytabName", "str"},
	"default_realm":              {"DefaultRealm", "str"},
	"default_tgs_enctypes":       {"DefaultTGSEnctypes", "fields"},
	"default_tkt_enctypes":       {"DefaultTktEnctypes", "fields"},
	"dns_canonicalize_hostname":  {"DNSCanonicalizeHostname", "bool"},
	"dns_lookup_kdc":             {"DNSLookupKDC", "bool"},
	"dns_lookup_realm":           {"DNSLookupRealm", "bool"},
	"extra_addresses":            {"ExtraAddresses", "ips"},
	"forwardable":                {"Forwardable", "bool"},
	"ignore_acceptor_hostname":   {"IgnoreAcceptorHostname", "bool"},
	"k5login_authoritative":      {"K5LoginAuthoritative", "bool"},
	"k5login_directory":          {"K5LoginDirectory", "str"},
	"kdc_default_options":        {"KDCDefaultOptions", "hex"},
	"kdc_timesync":               {"KDCTimeSync", "int"},
	"noaddresses":                {"NoAddresses", "bool"},
	"permitted_enctypes":         {"PermittedEnctypes", "fields"},
	"preferred_preauth_types":    {"PreferredPreauthTypes", "ints"},
	"proxiable":                  {"Proxiable", "bool"},
	"rdns":                       {"RDNS", "bool"},
	"realm_try_domains":          {"RealmTryDomains", "int"},
	"renew_lifetime":             {"RenewLifetime", "dur"},
	"ticket_lifetime":            {"TicketLifetime", "dur"},
	"udp_preference_limit":       {"UDPPreferenceLimit", "int"},
	"verify_ap_req_nofail":       {"VerifyAPReqNofail", "bool"},
}

var c16RealmKeys = map[string]string{
	"admin_server": "AdminServer", "default_domain": "DefaultDomain", "kdc": "KDC", "kpasswd_server": "KPasswdServer", "master_kdc": "MasterKDC",
}

// caseRegions: for a switch over the lower-cased, trimmed left side of "key = value", the block
// each case constant leads to, and the LINE term the key was cut from.
type c16Case struct {
	key   string
	blk   *ssa.BasicBlock
	line  string
	vals  []string // renderings of the value side of the same line
	where token.Pos
}

// c16KeyTerm: term is TrimSpace/ToLower (any nesting, any order) over the left side of LINE cut at
// the first "=": returns LINE and the acceptable renderings of the right side.
func c16KeyTerm(term string) (line string, vals []string, ok bool) {
	lower := false
	for {
		switch {
		case strings.HasPrefix(term, "strings.TrimSpace(") && strings.HasSuffix(term, ")"):
			term = term[len("strings.TrimSpace(") : len(term)-1]
			continue
		case strings.HasPrefix(term, "strings.ToLower(") && strings.HasSuffix(term, ")"):
			term = term[len("strings.ToLower(") : len(term)-1]
			lower = true
			continue
		}
		break
	}
	if !lower {
		return "", nil, false
	}
	switch {
	case strings.HasPrefix(term, "strings.Split(") && strings.HasSuffix(term, `, "=")[0]`):
		line = term[len("strings.Split(") : len(term)-len(`, "=")[0]`)]
	case strings.HasPrefix(term, "strings.SplitN(") && strings.HasSuffix(term, `, "=", 2)[0]`):
		line = term[len("strings.SplitN(") : len(term)-len(`, "=", 2)[0]`)]
	case strings.HasPrefix(term, "strings.Cut(") && strings.HasSuffix(term, `, "=")#0`):
		line = term[len("strings.Cut(") : len(term)-len(`, "=")#0`)]
	default:
		return "", nil, false
	}
	vals = []string{`strings.Split(` + line + `, "=")[1]`, `strings.SplitN(` + line + `, "=", 2)[1]`, `strings.Cut(` + line + `, "=")#1`}
	return line, vals, true
}

func containsAny(s string, subs []string) bool {
	for _, x := range subs {
		if strings.Contains(s, x) {
			return true
		}
	}
	return false
}

// wrapsAny: s == pre + v + suf for one of the value renderings v.
func wrapsAny(s, pre string, vals []string, suf string) (string, bool) {
	for _, v := range vals {
		if s == pre+v+suf {
			return v, true
		}
	}
	return "", false
}

func c16Cases(fa *FuncAn) []c16Case {
	var out []c16Case
	for _, cd := range fa.Conds {
		if cd.Kind != "eq" {
			continue
		}
		var k, term string
		switch {
		case isConstTerm(cd.L) && strings.HasPrefix(cd.L, `"`):
			k, term = cd.L, cd.R
		case isConstTerm(cd.R) && strings.HasPrefix(cd.R, `"`):
			k, term = cd.R, cd.L
		default:
			continue
		}
		line, vals, ok := c16KeyTerm(term)
		if !ok {
			continue
		}
		out = append(out, c16Case{strings.Trim(k, `"`), cd.If.Block().Succs[cd.HoldsSucc], line, vals, InstrPos(cd.If)})
	}
	return out
}

func regionOf(b *ssa.BasicBlock) []*ssa.BasicBlock {
	var out []*ssa.BasicBlock
	for _, x := range b.Parent().Blocks {
		if b == x || b.Dominates(x) {
			out = append(out, x)
		}
	}
	return out
}

func runC16(w *World, c *Check) {
	c.Rule("C16.libdefaults", "each documented [libdefaults] key has one case that stores the parsed value side of the line into the field of that name, with the parser of the field's type, and a parser error returns an Invalid error", 29*3)
	c.Rule("C16.realmkeys", "the five [realms] keys append to / store into their own field through their own final-value flag; kdc gets the :88 default", 11)
	c.Rule("C16.derived", "the enctype id lists are recomputed from the name lists and allow_weak_crypto on the success path", 3)
	c.Rule("C16.errors", "a section parser's error other than UnsupportedDirective aborts the load; unpaired braces are errors; a line without '=' is an error", 8)
	c.Rule("C16.boolean", "parseBoolean accepts strconv.ParseBool's spellings and, case-folded, yes/y → true, no/n → false, and rejects everything else", 6)
	c.Rule("C16.trim", "the value parsers strip surrounding whitespace (spaces and tabs around '=' are layout): whatever parseBoolean and parseDuration hand to a parsing routine derives from strings.TrimSpace of their argument", 2)
	c.Rule("C16.select", "GetKDCs and GetKpasswdServers take the servers of the realm equal to the argument (the default realm for an empty argument) and report their number", 6)
	c.Rule("C16.resolve", "ResolveRealm tries the whole name, then its suffixes from the longest to the shortest, and returns the first mapping found", 4)
	c.Rule("C16.once", "randServOrder draws among the servers that remain and removes exactly the drawn one in each step", 5)

	// ---- 1. libdefaults key table ----------------------------------------------------------
	if fn := w.Func("config.(*LibDefaults).parseLines"); fn == nil {
		c.Missing("C16.libdefaults", "config.(*LibDefaults).parseLines")
	} else {
		fa := NewFuncAn(w, fn)
		fk := FuncKey(fn)
		cases := c16Cases(fa)
		seen := map[string]int{}
		// the struct's fields by name
		ftypes := map[string]types.Type{}
		if st := w.StructOf("config", "LibDefaults"); st != nil {
			for i := 0; i < st.NumFields(); i++ {
				ftypes[st.Field(i).Name()] = st.Field(i).Type()
			}
		}
		for _, cs := range cases {
			seen[cs.key]++
			want, known := c16LibDefaults[cs.key]
			where := w.Pos(cs.where)
			if !known {
				c.Note("C16.libdefaults", fk, "extra-key "+cs.key, where, "a key outside the reference table is handled (not judged)")
				continue
			}
			vals := cs.vals
			// stores of the case, including those a setter helper introduced later makes through a
			// pointer to the field (rendered in this function's terms)
			type rst struct{ addr, val string }
			var stores []rst
			var walkStores func(a *FuncAn, blocks []*ssa.BasicBlock, depth int)
			walkStores = func(a *FuncAn, blocks []*ssa.BasicBlock, depth int) {
				for _, b := range blocks {
					for _, in := range b.Instrs {
						if st, ok := in.(*ssa.Store); ok && strings.HasPrefix(a.R.R(st.Addr), "recv.") {
							stores = append(stores, rst{a.R.R(st.Addr), a.R.R(st.Val)})
						}
						if call, ok := in.(*ssa.Call); ok && depth < 2 {
							if g := call.Call.StaticCallee(); g != nil && newHelper(g) {
								sub := NewFuncAnCtx(a.W, g, a.CallArgs(call))
								sub.R.inlineDepth = a.R.inlineDepth + 1
								walkStores(sub, g.Blocks, depth+1)
							}
						}
					}
				}
			}
			walkStores(fa, regionOf(cs.blk), 0)
			// (a) only the designated field is written
			okField, hit := true, false
			var others []string
			for _, st := range stores {
				a := st.addr
				if a == "recv."+want.field || strings.HasPrefix(a, "recv."+want.field+".") {
					hit = true
				} else {
					okField = false
					others = append(others, a)
				}
			}
			c.Decide(okField && hit, "C16.libdefaults", fk, cs.key+":field", where,
				fmt.Sprintf("%s is stored into LibDefaults.%s and nowhere else", cs.key, want.field),
				fmt.Sprintf("stores to %s=%v, others=%v", want.field, hit, others))
			if _, ok := ftypes[want.field]; !ok {
				c.Fail("C16.libdefaults", fk, cs.key+":field-exists", where, "LibDefaults has a field "+want.field, "no such field")
			}
			// (b) the value stored is the value side of this line through the parser of the type
			okVal, detail := false, ""
			var parserCall string
			for _, st := range stores {
				a := st.addr
				if !(a == "recv."+want.field || strings.HasPrefix(a, "recv."+want.field+".")) {
					continue
				}
				v := st.val
				detail = trunc(v, 160)
				// the value side with its surrounding whitespace already removed is the same value
				// (the parsers trim: rule C16.trim)
				tvals := append([]string{}, vals...)
				for _, x := range vals {
					tvals = append(tvals, "strings.TrimSpace("+x+")")
				}
				switch want.kind {
				case "bool":
					if hit, ok := wrapsAny(v, "config.parseBoolean(", tvals, ")#0"); ok {
						okVal, parserCall = true, "config.parseBoolean("+hit+")"
					}
				case "dur":
					if hit, ok := wrapsAny(v, "config.parseDuration(", tvals, ")#0"); ok {
						okVal, parserCall = true, "config.parseDuration("+hit+")"
					}
				case "str":
					_, okVal = wrapsAny(v, "strings.TrimSpace(", vals, ")")
				case "fields":
					_, okVal = wrapsAny(v, "strings.Fields(", tvals, ")")
				default:
					okVal = containsAny(v, vals) || okVal
				}
				if okVal {
					break
				}
			}
			if !okVal && (want.kind == "ints" || want.kind == "ips") {
				// the list is built in a loop: a parser in the case takes pieces of the value side
				for _, b := range regionOf(cs.blk) {
					for _, in := range b.Instrs {
						if call, isCall := in.(*ssa.Call); isCall {
							n := fa.CalleeName(call)
							if (n == "strconv.ParseInt" || n == "strconv.Atoi" || n == "net.ParseIP") && containsAny(strings.Join(fa.CallArgs(call), ","), vals) {
								okVal = true
							}
						}
					}
				}
			}
			c.Decide(okVal, "C16.libdefaults", fk, cs.key+":value", where,
				fmt.Sprintf("what is stored is the value side of the line, parsed as %s", want.kind), "stores "+detail)
			// (c) parser errors become Invalid errors
			switch want.kind {
			case "str", "fields", "ips":
				c.Ok("C16.libdefaults", fk, cs.key+":error", where, "no parser error to report (addresses that do not parse are skipped)")
			default:
				okErr, why := false, "no test of the parser's error (or of a setter's verdict) with a rejecting branch found in the case"
				for _, b := range regionOf(cs.blk) {
					iff, ok := lastInstr(b).(*ssa.If)
					if !ok {
						continue
					}
					cd := fa.CondOf(iff)
					// what the branch is about: the rendered condition (helpers introduced later are
					// rendered as their bodies) plus, for a call, its arguments
					about := cd.L + " " + cd.R
					if call, isCall := stripNot(iff.Cond).(*ssa.Call); isCall {
						about += " " + strings.Join(fa.CallArgs(call), " ")
					}
					if !containsAny(about, vals) && !strings.Contains(about, cs.line) {
						continue
					}
					if parserCall != "" && !strings.Contains(about, parserCall) {
						// the setter form: the parser runs inside the helper whose verdict is tested
						if call, isCall := stripNot(iff.Cond).(*ssa.Call); !isCall || !newHelper(call.Call.StaticCallee()) {
							if bo, isBo := stripNot(iff.Cond).(*ssa.BinOp); !isBo || !strings.Contains(fa.R.R(bo.X)+fa.R.R(bo.Y), strings.SplitN(parserCall, "(", 2)[0]) {
								continue
							}
						}
					}
					for k := 0; k < 2; k++ {
						if rejectsWith(fa, b.Succs[k], b.Succs[1-k], `^config\.InvalidErrorf\(`) {
							okErr = true
						}
					}
					if !okErr {
						why = "no branch of " + trunc(cd.String(), 80) + " only returns config.InvalidErrorf(…)"
					}
				}
				if !okErr {
					// the merged form: the case only records the parser's (or setter's) verdict in a
					// variable and one test after the switch rejects — follow the verdict into the phi
					// that test branches on
					flow := map[ssa.Value]bool{}
					for _, b := range regionOf(cs.blk) {
						for _, in := range b.Instrs {
							call, isCall := in.(*ssa.Call)
							if !isCall || !containsAny(strings.Join(fa.CallArgs(call), " "), vals) {
								continue
							}
							flow[call] = true
							if call.Referrers() != nil {
								for _, ref := range *call.Referrers() {
									if ex, isEx := ref.(*ssa.Extract); isEx {
										flow[ex] = true
									}
								}
							}
						}
					}
					for round := 0; round < 3; round++ {
						for v := range flow {
							if v.Referrers() == nil {
								continue
							}
							for _, ref := range *v.Referrers() {
								switch x := ref.(type) {
								case *ssa.Phi:
									flow[x] = true
								case *ssa.MakeInterface:
									flow[x] = true
								case *ssa.UnOp:
									if x.Op == token.NOT {
										flow[x] = true
									}
								}
							}
						}
					}
					for _, b := range fn.Blocks {
						iff, isIf := lastInstr(b).(*ssa.If)
						if !isIf {
							continue
						}
						cv := stripNot(iff.Cond)
						tested := flow[cv]
						if bo, isBo := cv.(*ssa.BinOp); isBo && (flow[bo.X] || flow[bo.Y]) {
							tested = true
						}
						if !tested {
							continue
						}
						for k := 0; k < 2; k++ {
							if rejectsWith(fa, b.Succs[k], b.Succs[1-k], `^config\.InvalidErrorf\(`) {
								okErr = true
							}
						}
					}
				}
				c.Decide(okErr, "C16.libdefaults", fk, cs.key+":error", where, "a value that does not parse returns an Invalid configuration error", why)
			}
		}
		for _, k := range sortedKeys(c16LibDefaults) {
			switch seen[k] {
			case 1:
			case 0:
				c.Fail("C16.libdefaults", fk, k+":case", w.Pos(fn.Pos()), "the documented key "+k+" has a case", "no case compares the key with \""+k+"\"")
			default:
				c.Fail("C16.libdefaults", fk, k+":case", w.Pos(fn.Pos()), "the documented key "+k+" has exactly one case", fmt.Sprintf("%d cases", seen[k]))
			}
		}
		// ---- 2. derived ids --------------------------------------------------------------------
		for _, d := range [][2]string{{"DefaultTGSEnctypeIDs", "DefaultTGSEnctypes"}, {"DefaultTktEnctypeIDs", "DefaultTktEnctypes"}, {"PermittedEnctypeIDs", "PermittedEnctypes"}} {
			ok := false
			for _, x := range fa.SuccessExits(ConstNilErrSuccess(0)) {
				for _, st := range fa.storesTo(q("recv." + d[0])) {
					if fa.R.R(st.Val) == "config.parseETypes(recv."+d[1]+", recv.AllowWeakCrypto)" && (st.Block() == x.Ret.Block() || st.Block().Dominates(x.Ret.Block())) {
						ok = true
					}
				}
			}
			c.Decide(ok, "C16.derived", fk, d[0], w.Pos(fn.Pos()), d[0]+" = parseETypes("+d[1]+", AllowWeakCrypto) is stored before the nil-error return", "no such store dominates the success return")
		}
		// a line without '=' is an error
		fas, _ := checkGuards(w, c, "C16.errors", fk, ConstNilErrSuccess(0), []GuardSpec{})
		_ = fas
	}

	// ---- 1b. realm keys --------------------------------------------------------------------------
	if fn := w.Func("config.(*Realm).parseLines"); fn == nil {
		c.Missing("C16.realmkeys", "config.(*Realm).parseLines")
	} else {
		fa := NewFuncAn(w, fn)
		fk := FuncKey(fn)
		seen := map[string]bool{}
		flags := map[string]string{}
		for _, cs := range c16Cases(fa) {
			field, known := c16RealmKeys[cs.key]
			where := w.Pos(cs.where)
			if !known {
				c.Note("C16.realmkeys", fk, "extra-key "+cs.key, where, "a key outside the reference table is handled (not judged)")
				continue
			}
			seen[cs.key] = true
			var tvals []string
			for _, v := range cs.vals {
				tvals = append(tvals, "strings.TrimSpace("+v+")")
			}
			if cs.key == "default_domain" {
				ok := false
				for _, b := range regionOf(cs.blk) {
					for _, in := range b.Instrs {
						if st, isSt := in.(*ssa.Store); isSt && fa.R.R(st.Addr) == "recv.DefaultDomain" && contains(tvals, fa.R.R(st.Val)) {
							ok = true
						}
					}
				}
				c.Decide(ok, "C16.realmkeys", fk, cs.key+":store", where, "default_domain stores the trimmed value side into Realm.DefaultDomain", "no such store")
				continue
			}
			var calls []string
			okCall := false
			for _, b := range regionOf(cs.blk) {
				for _, in := range b.Instrs {
					call, isCall := in.(*ssa.Call)
					if !isCall || fa.CalleeName(call) != "config.appendUntilFinal" {
						continue
					}
					args := fa.CallArgs(call)
					calls = append(calls, strings.Join(args, ", "))
					if len(args) == 3 && args[0] == "recv."+field && containsAny(args[1], cs.vals) {
						okCall = true
						flags[cs.key] = args[2]
						if cs.key == "kdc" {
							okPort := strings.Contains(args[1], `":88"`) && strings.Contains(args[1], `":88*"`) && containsAny(args[1], tvals)
							c.Decide(okPort, "C16.realmkeys", fk, "kdc:port-default", where, "a kdc value without a port gets :88 (before a final-value marker), one with a port is kept", "value appended: "+trunc(args[1], 200))
						}
					}
				}
			}
			c.Decide(okCall, "C16.realmkeys", fk, cs.key+":append", where, cs.key+" appends the value side of the line to Realm."+field+" through appendUntilFinal", fmt.Sprintf("appendUntilFinal calls in the case: %v", calls))
		}
		for _, k := range sortedKeys(c16RealmKeys) {
			if !seen[k] {
				c.Fail("C16.realmkeys", fk, k+":case", w.Pos(fn.Pos()), "the realm key "+k+" has a case", "no case compares the key with \""+k+"\"")
			}
		}
		// distinct final flags
		rev := map[string][]string{}
		for k, f := range flags {
			rev[f] = append(rev[f], k)
		}
		for f, ks := range rev {
			sort.Strings(ks)
			c.Decide(len(ks) == 1, "C16.realmkeys", fk, "final-flag:"+strings.Join(ks, "+"), w.Pos(fn.Pos()), "each list key has its own final-value flag", "flag "+f+" is shared by "+strings.Join(ks, ", "))
		}
		// appendUntilFinal itself
		if af := w.Func("config.appendUntilFinal"); af == nil {
			c.Missing("C16.realmkeys", "config.appendUntilFinal")
		} else {
			afa := NewFuncAn(w, af)
			okA := false
			for _, st := range afa.storesTo(`s`) {
				v := afa.R.R(st.Val)
				if v == "append(*s, [φ(value|value[:(len(value) - 1)])])" || v == "append(*s, [φ(value[:(len(value) - 1)]|value)])" {
					okA = true
				}
			}
			guard := afa.MatchGuard(FalsePass(`\*final`))
			if !okA {
				// the value-returning form: (list, final) handed back instead of written through pointers
				for _, rs := range afa.returnsOf() {
					if len(rs) >= 1 && (rs[0] == substParams(af, "append(s, [φ(value|value[:(len(value) - 1)])])") || rs[0] == substParams(af, "append(s, [φ(value[:(len(value) - 1)]|value)])")) {
						okA = true
					}
				}
				if okA {
					guard = afa.MatchGuard(FalsePass(`final`))
				}
			}
			c.Decide(okA && len(guard) == 1, "C16.realmkeys", FuncKey(af), "append-until-final", w.Pos(af.Pos()), "nothing is appended once the final flag is set; a trailing * sets it and is cut off", fmt.Sprintf("append form ok=%v, final guards=%d", okA, len(guard)))
		}
	}

	// ---- 3. errors propagate ------------------------------------------------------------------------
	if fn := w.Func("config.NewFromScanner"); fn == nil {
		c.Missing("C16.errors", "config.NewFromScanner")
	} else {
		notNilCfg := func(fa *FuncAn, ret *ssa.Return, in *Edge) bool {
			rs := RetResults(ret)
			if len(rs) != 2 {
				return false
			}
			cst, isC := rs[0].(*ssa.Const)
			return !(isC && cst.Value == nil)
		}
		_ = notNilCfg
		fa := NewFuncAn(w, fn)
		for _, p := range []struct{ name, call string }{
			{"libdefaults", `config.(*LibDefaults).parseLines(`},
			{"realms", `config.parseRealms(`},
			{"domain_realm", `config.(*DomainRealm).parseLines(`},
		} {
			ok, n := true, 0
			for _, cd := range fa.Conds {
				// the test of this parser's error, possibly merged with the other sections' (a phi)
				if cd.Kind != "bool" || !strings.Contains(cd.L, p.call) || !strings.HasSuffix(cd.L, ".(config.UnsupportedDirective,ok)#1") {
					continue
				}
				n++
				blk := cd.If.Block()
				fail := blk.Succs[1-cd.HoldsSucc]
				if !rejectsOnly(fa, fail, nil) {
					ok = false
				}
				// … and what is returned there is no Config
				seen := map[*ssa.BasicBlock]bool{fail: true}
				stack := []*ssa.BasicBlock{fail}
				for len(stack) > 0 {
					b := stack[len(stack)-1]
					stack = stack[:len(stack)-1]
					if ret, isRet := lastInstr(b).(*ssa.Return); isRet {
						rs := RetResults(ret)
						if cst, isC := rs[0].(*ssa.Const); !isC || cst.Value != nil {
							ok = false
						}
						continue
					}
					for _, nb := range b.Succs {
						if !seen[nb] {
							seen[nb] = true
							stack = append(stack, nb)
						}
					}
				}
			}
			c.Decide(ok && n == 1, "C16.errors", "config.NewFromScanner", "section-error:"+p.name, w.Pos(fn.Pos()),
				"an error of the "+p.name+" parser that is not an UnsupportedDirective returns (nil, error)", fmt.Sprintf("%d UnsupportedDirective tests on that parser's error; rejecting: %v", n, ok))
		}
	}
	if fn := w.Func("config.parseRealms"); fn == nil {
		c.Missing("C16.errors", "config.parseRealms")
	} else {
		fa := NewFuncAn(w, fn)
		fk := FuncKey(fn)
		// an error of Realm.parseLines that is not UnsupportedDirective is what is returned
		okProp, n := true, 0
		for _, x := range fa.Exits() {
			fs := fa.factsOn(x.In)
			if len(fs) == 0 {
				continue
			}
			f0 := fs[0]
			if f0.c.Kind == "bool" && !f0.holds && strings.Contains(f0.c.L, "config.(*Realm).parseLines(") && strings.HasSuffix(f0.c.L, ".(config.UnsupportedDirective,ok)#1") {
				n++
				rs := RetResults(x.Ret)
				ev := fa.R.R(rs[len(rs)-1])
				if !strings.HasPrefix(ev, "config.(*Realm).parseLines(") {
					okProp = false
				}
			}
		}
		c.Decide(okProp && n >= 1, "C16.errors", fk, "realm-error-returned", w.Pos(fn.Pos()), "an error of Realm.parseLines that is not an UnsupportedDirective is returned as the error", fmt.Sprintf("%d such returns, all returning it: %v", n, okProp))
		// closing an unopened block is an error
		okClose := false
		for _, b := range fn.Blocks {
			iff, ok := lastInstr(b).(*ssa.If)
			if !ok {
				continue
			}
			cd := fa.CondOf(iff)
			if cd.Kind == "gt" && cd.L == "1" && rejectsOnly(fa, b.Succs[cd.HoldsSucc], b.Succs[1-cd.HoldsSucc]) {
				okClose = true
			}
		}
		c.Decide(okClose, "C16.errors", fk, "unopened-close", w.Pos(fn.Pos()), "a closing bracket without an open block is an error", "no `depth < 1 ⇒ error` rejection found: "+fa.condSummary())
		// an opening line without '=' is an error
		g := fa.MatchGuard(TruePass(`strings\.Contains\(.*, "="\)`))
		okOpen := false
		for _, e := range g {
			if rejectsOnly(fa, e.From.Succs[1-e.Succ], e.To()) {
				okOpen = true
			}
		}
		c.Decide(okOpen, "C16.errors", fk, "open-without-name", w.Pos(fn.Pos()), "a block opened on a line without '=' is an error", "no such rejection")
	}
	for _, fk := range []string{"config.(*LibDefaults).parseLines", "config.(*DomainRealm).parseLines"} {
		fn := w.Func(fk)
		if fn == nil {
			continue
		}
		fa := NewFuncAn(w, fn)
		ok := false
		for _, e := range fa.MatchGuard(TruePass(`strings\.Contains\(.*, "="\)`)) {
			if rejectsWith(fa, e.From.Succs[1-e.Succ], e.To(), `^config\.InvalidErrorf\(`) {
				ok = true
			}
		}
		c.Decide(ok, "C16.errors", fk, "line-without-equals", w.Pos(fn.Pos()), "a non-empty line without '=' returns an Invalid configuration error", "no such rejection")
	}
	if fn := w.Func("config.(*Realm).parseLines"); fn != nil {
		fa := NewFuncAn(w, fn)
		ok := false
		for _, b := range fn.Blocks {
			iff, isIf := lastInstr(b).(*ssa.If)
			if !isIf {
				continue
			}
			cd := fa.CondOf(iff)
			if cd.Kind == "gt" && cd.L == "0" && rejectsWith(fa, b.Succs[cd.HoldsSucc], b.Succs[1-cd.HoldsSucc], `^config\.InvalidErrorf\(`) {
				ok = true
			}
		}
		c.Decide(ok, "C16.errors", FuncKey(fn), "unpaired-brackets", w.Pos(fn.Pos()), "more closing than opening brackets inside a realm is an Invalid configuration error", "no `depth < 0 ⇒ error` rejection found")
	}

	// ---- 4. parseBoolean ---------------------------------------------------------------------------------
	if fn := w.Func("config.parseBoolean"); fn == nil {
		c.Missing("C16.boolean", "config.parseBoolean")
	} else {
		fa := NewFuncAn(w, fn)
		fk := FuncKey(fn)
		tab, _ := fa.caseTable(`strings\.ToLower\(strings\.TrimSpace\(s\)\)`)
		want := map[string]string{`"yes"`: "true", `"y"`: "true", `"no"`: "false", `"n"`: "false", "default": "false"}
		compareTable(c, "C16.boolean", fk, w.Pos(fn.Pos()), "spelling", tab, want, true)
		// strconv.ParseBool of the trimmed value first; its result is returned when it succeeds
		okPB := false
		for _, x := range fa.SuccessExits(ConstNilErrSuccess(1)) {
			rs := RetResults(x.Ret)
			if fa.R.R(rs[0]) == "strconv.ParseBool(strings.TrimSpace(s))#0" {
				okPB = true
			}
		}
		c.Decide(okPB, "C16.boolean", fk, "parsebool-first", w.Pos(fn.Pos()), "strconv.ParseBool of the trimmed value is accepted as it is", "no nil-error return of strconv.ParseBool(strings.TrimSpace(s))#0")
		// the default outcome is an error
		okErr := false
		for _, x := range fa.Exits() {
			rs := RetResults(x.Ret)
			if len(rs) == 2 && fa.R.R(rs[0]) == "false" && errCtorRe.MatchString(fa.R.R(rs[1])) {
				okErr = true
			}
		}
		c.Decide(okErr, "C16.boolean", fk, "reject-others", w.Pos(fn.Pos()), "any other spelling is an error", "no (false, error) return")
	}

	// ---- 4b. the value parsers trim --------------------------------------------------------------------------
	for _, fk := range []string{"config.parseBoolean", "config.parseDuration"} {
		fn := w.Func(fk)
		if fn == nil {
			c.Missing("C16.trim", fk)
			continue
		}
		fa := NewFuncAn(w, fn)
		var bad []string
		n := 0
		for _, dc := range fa.CallsDeep(`strconv\.Parse\w+|strconv\.Atoi|time\.ParseDuration|strings\.Split\w*|strings\.ToLower|strings\.Contains`) {
			a := dc.fa.CallArgs(dc.ci)
			if len(a) == 0 || !strings.Contains(a[0], substParams(fn, "s")) && !strings.Contains(a[0], "strings.") {
				continue // not about the argument
			}
			n++
			if !strings.Contains(a[0], "strings.TrimSpace("+substParams(fn, "s")+")") {
				bad = append(bad, trunc(dc.fa.RenderCall(dc.ci), 100))
			}
		}
		c.Decide(n > 0 && len(bad) == 0, "C16.trim", fk, "trimmed", w.Pos(fn.Pos()), "every parsing step works on strings.TrimSpace of the argument", fmt.Sprintf("%d parsing calls, not on the trimmed value: %v", n, bad))
	}

	// ---- 5. realm selection -----------------------------------------------------------------------------------
	if fn := w.Func("config.(*Config).GetKDCs"); fn == nil {
		c.Missing("C16.select", "config.(*Config).GetKDCs")
	} else {
		fa := NewFuncAn(w, fn)
		fk := FuncKey(fn)
		realm := `φ\(realm\|recv\.LibDefaults\.DefaultRealm\)|φ\(recv\.LibDefaults\.DefaultRealm\|realm\)`
		ng := 0
		for _, sub := range fa.withNewHelpers() {
			ng += len(sub.MatchGuard(EqPass(`recv\.Realms\[\$i\d+\]\.Realm`, realm)))
		}
		c.Decide(ng == 1, "C16.select", fk, "realm-equality", w.Pos(fn.Pos()), "the realm entry is selected by equality of its name with the argument (the default realm for \"\")", "equality test not found: "+fa.condSummary())
		dflt := fa.MatchGuard(EqPass(`""`, `realm`))
		c.Decide(len(dflt) == 1, "C16.select", fk, "default-realm", w.Pos(fn.Pos()), "an empty realm argument means libdefaults default_realm", "test not found")
		okCnt := false
		for _, x := range fa.SuccessExits(ConstNilErrSuccess(2)) {
			rs := RetResults(x.Ret)
			if len(rs) != 3 {
				continue
			}
			call, isCall := rs[1].(*ssa.Call)
			if !isCall || fa.CalleeName(call) != "config.randServOrder" {
				continue
			}
			list := call.Call.Args[0]
			ln, isLen := rs[0].(*ssa.Call)
			if !isLen || len(ln.Call.Args) != 1 || ln.Call.Args[0] != list {
				continue
			}
			if bi, isB := ln.Call.Value.(*ssa.Builtin); !isB || bi.Name() != "len" {
				continue
			}
			// the list is the KDC field of the selected realm entry (through the loop's phi, or the
			// result of a helper that holds the loop)
			leaves := fa.LeafTerms(list)
			fromKDC := false
			for _, l := range leaves {
				if strings.HasSuffix(l, ".KDC") && strings.HasPrefix(l, "recv.Realms[") {
					fromKDC = true
				} else if l != "nil" {
					fromKDC = false
					break
				}
			}
			okCnt = fromKDC
		}
		c.Decide(okCnt, "C16.select", fk, "count-and-order", w.Pos(fn.Pos()), "the configured case returns len(KDC list) and randServOrder of that same list", fmt.Sprintf("returns: %v", fa.returnsOf()))
	}
	if fn := w.Func("config.(*Config).GetKpasswdServers"); fn == nil {
		c.Missing("C16.select", "config.(*Config).GetKpasswdServers")
	} else {
		fa := NewFuncAn(w, fn)
		fk := FuncKey(fn)
		ng := 0
		for _, sub := range fa.withNewHelpers() {
			ng += len(sub.MatchGuard(EqPass(`recv\.Realms\[\$i\d+\]\.Realm`, `realm`)))
		}
		c.Decide(ng == 1, "C16.select", fk, "realm-equality", w.Pos(fn.Pos()), "the realm entry is selected by equality of its name with the argument", "equality test not found: "+fa.condSummary())
		okSrc := false
		for _, ci := range fa.Calls(`config\.randServOrder`) {
			a := fa.CallArgs(ci)
			if len(a) == 1 && strings.Contains(a[0], ".KPasswdServer") {
				okSrc = true
			}
		}
		c.Decide(okSrc, "C16.select", fk, "kpasswd-list", w.Pos(fn.Pos()), "the servers ordered are the realm's kpasswd_server list (or admin servers on port 464 when it is empty)", "randServOrder is not applied to a value derived from KPasswdServer")
		okAdm := false
		for _, dc := range fa.CallsDeep(`net\.SplitHostPort`) {
			a := dc.fa.CallArgs(dc.ci)
			if len(a) == 1 && strings.Contains(a[0], ".AdminServer") || (len(a) == 1 && strings.Contains(a[0], "$L")) {
				okAdm = true
			}
		}
		c.Decide(okAdm, "C16.select", fk, "admin-fallback", w.Pos(fn.Pos()), "without kpasswd servers the admin servers' hosts are used", "no SplitHostPort over the admin server list")
	}

	// ---- 6. ResolveRealm ------------------------------------------------------------------------------------------
	if fn := w.Func("config.(*Config).ResolveRealm"); fn == nil {
		c.Missing("C16.resolve", "config.(*Config).ResolveRealm")
	} else {
		fa := NewFuncAn(w, fn)
		fk := FuncKey(fn)
		var lookups []*ssa.Lookup
		for _, b := range rpo(fn) {
			for _, in := range b.Instrs {
				if lk, ok := in.(*ssa.Lookup); ok && lk.CommaOk {
					lookups = append(lookups, lk)
				}
			}
		}
		dn := `strings.TrimSuffix(domainName, ".")`
		ok1 := len(lookups) >= 1 && fa.R.R(lookups[0].Index) == dn
		c.Decide(ok1, "C16.resolve", fk, "exact-first", w.Pos(fn.Pos()), "the whole name (without a trailing dot) is looked up first", fmt.Sprintf("%d comma-ok lookups; first key %s", len(lookups), func() string {
			if len(lookups) > 0 {
				return fa.R.R(lookups[0].Index)
			}
			return "-"
		}()))
		ok2, ok3, det := false, false, ""
		if len(lookups) >= 2 {
			key := fa.R.R(lookups[1].Index)
			det = key
			// "." + last piece of SplitN(name, ".", i)
			if strings.HasPrefix(key, `("." + strings.SplitN(`+dn+`, ".", `) && strings.Contains(key, ")[(len(strings.SplitN(") {
				ok2 = true
			}
			// i ascends from 2: the phi feeding SplitN's count
			for _, ci := range fa.Calls(`strings\.SplitN`) {
				cnt := ci.Common().Args[2]
				if phi, isPhi := cnt.(*ssa.Phi); isPhi {
					asc, init := false, false
					for _, e := range phi.Edges {
						if cv, isC := constInt(e); isC && cv == 2 {
							init = true
						}
						if bo, isB := e.(*ssa.BinOp); isB && bo.Op == token.ADD && bo.X == phi {
							if cv, isC := constInt(bo.Y); isC && cv == 1 {
								asc = true
							}
						}
					}
					ok3 = asc && init && len(phi.Edges) == 2
				}
			}
		}
		if !ok2 && !ok3 && len(lookups) >= 2 {
			// the other spelling: a loop-carried remainder that loses its leading label each turn —
			// rest = rest[Index(rest, ".")+1:], starting from the name, stopping when no dot is left —
			// and the key "." + rest. Longest-first holds by construction (the remainder only shrinks).
			if bo, isB := lookups[1].Index.(*ssa.BinOp); isB && bo.Op == token.ADD && fa.R.R(bo.X) == `"."` {
				if sl, isSl := bo.Y.(*ssa.Slice); isSl && sl.High == nil && sl.Low != nil {
					if phi, isPhi := sl.X.(*ssa.Phi); isPhi && len(phi.Edges) == 2 {
						init, step := false, false
						for _, e := range phi.Edges {
							if e == ssa.Value(sl) {
								step = true
							} else if fa.R.R(e) == dn {
								init = true
							}
						}
						lo := fa.R.R(sl.Low)
						idx := `strings.Index(` + fa.R.R(phi) + `, ".")`
						if init && step && (lo == "(1 + "+idx+")" || lo == "("+idx+" + 1)") {
							// the loop is left when no dot remains
							if g := fa.MatchGuard(GuardPat{Kind: "gt", X: "0", Y: q(idx), PassWhen: false}); len(g) > 0 && fa.PathToInstrAvoiding(g, lookups[1]) == nil {
								ok2, ok3 = true, true
							}
						}
					}
				}
			}
		}
		c.Decide(ok2, "C16.resolve", fk, "suffix-key", w.Pos(fn.Pos()), "inside the loop the key is \".\" + the last piece of SplitN(name, \".\", i)", "key: "+det)
		c.Decide(ok3, "C16.resolve", fk, "longest-first", w.Pos(fn.Pos()), "i starts at 2 and increases by one: suffixes are tried from the longest to the shortest", "the SplitN count is not such a loop variable")
		// the first hit is returned
		okRet := 0
		for _, lk := range lookups {
			var okV, valV ssa.Value
			for _, ref := range *lk.Referrers() {
				if ex, isEx := ref.(*ssa.Extract); isEx {
					if ex.Index == 1 {
						okV = ex
					} else {
						valV = ex
					}
				}
			}
			if okV == nil || valV == nil {
				continue
			}
			for _, x := range fa.Exits() {
				rs := RetResults(x.Ret)
				if len(rs) == 1 && rs[0] == valV && x.In != nil {
					if iff, isIf := lastInstr(x.In.From).(*ssa.If); isIf && iff.Cond == okV && x.In.Succ == 0 {
						okRet++
					}
				}
			}
		}
		c.Decide(okRet == len(lookups) && okRet >= 2, "C16.resolve", fk, "first-hit-returned", w.Pos(fn.Pos()), "each lookup that hits returns its value at once", fmt.Sprintf("%d of %d lookups return their value on the ok edge", okRet, len(lookups)))
	}

	// ---- 7. randServOrder -----------------------------------------------------------------------------------------------
	ruleDrawRemove(w, c, "C16.once")
}

// rejectsWith: rejectsOnly, and every error returned renders with the given constructor.
func rejectsWith(fa *FuncAn, from, avoid *ssa.BasicBlock, ctor string) bool {
	if !rejectsOnly(fa, from, avoid) {
		return false
	}
	seen := map[*ssa.BasicBlock]bool{from: true}
	stack := []*ssa.BasicBlock{from}
	for len(stack) > 0 {
		b := stack[len(stack)-1]
		stack = stack[:len(stack)-1]
		if ret, ok := lastInstr(b).(*ssa.Return); ok {
			rs := RetResults(ret)
			if !compileRe(ctor).MatchString(fa.R.R(rs[len(rs)-1])) {
				// a verdict carried in a variable: on this (error) branch it is one of its non-nil
				// alternatives, each of which must be of the constructor
				n := 0
				for _, l := range fa.LeafTerms(rs[len(rs)-1]) {
					if l == "nil" {
						continue
					}
					if !compileRe(ctor).MatchString(l) {
						return false
					}
					n++
				}
				if n == 0 {
					return false
				}
			}
			continue
		}
		for _, n := range b.Succs {
			if !seen[n] {
				seen[n] = true
				stack = append(stack, n)
			}
		}
	}
	return true
}

// ruleDrawRemove: the shape of one step of randServOrder's loop. With B the argument of
// rand.Intn (the number of servers that remain) and ks the slice drawn from:
//   - the server emitted is ks[Intn(B)];
//   - the element moved into the drawn position is ks[B-1] — written either as B-1 or as
//     len(ks)-1 where B and ks are loop-carried in parallel (B's inputs are the lengths of ks's
//     inputs, or a constant that ends the loop);
//   - ks is cut by exactly one element and B follows it.
//
// A rewrite that keeps this (or uses rand.Perm) passes; a draw bound and a fill index that do
// not denote the same "last remaining" position are reported. Shared by C16 (each server once)
// and C12 (every configured KDC is tried).
func ruleDrawRemove(w *World, c *Check, rule string) {
	fn := w.Func("config.randServOrder")
	if fn == nil {
		c.Missing(rule, "config.randServOrder")
		return
	}
	fa := NewFuncAn(w, fn)
	fk := FuncKey(fn)
	where := w.Pos(fn.Pos())
	bc := newBoundsCtx(w, fn)
	if perm := fa.Calls(`math/rand\.Perm`); len(perm) == 1 {
		a := fa.CallArgs(perm[0])
		c.Decide(len(a) == 1 && strings.HasPrefix(a[0], "len("), rule, fk, "perm", where, "a permutation of all indices is drawn with rand.Perm(len(list))", "rand.Perm argument: "+strings.Join(a, ","))
		return
	}
	intn := fa.Calls(`math/rand\.Intn`)
	if len(intn) != 1 {
		c.Fail(rule, fk, "draw", where, "one rand.Intn (or rand.Perm) draw per step", fmt.Sprintf("%d rand.Intn calls", len(intn)))
		return
	}
	draw := intn[0].Value()
	bound := intn[0].Common().Args[0]
	// the copy: the configuration's own list is not reordered (C11's rule checks it too)
	// emitted element: a map update / append whose value is X[draw]
	var src ssa.Value // the slice indexed by the draw
	emitted := false
	for _, b := range fn.Blocks {
		for _, in := range b.Instrs {
			var val ssa.Value
			switch x := in.(type) {
			case *ssa.MapUpdate:
				val = x.Value
			default:
				continue
			}
			if ld, ok := val.(*ssa.UnOp); ok && ld.Op == token.MUL {
				if ia, ok := ld.X.(*ssa.IndexAddr); ok && ia.Index == draw {
					emitted = true
					src = ia.X
				}
			}
		}
	}
	c.Decide(emitted, rule, fk, "emit-drawn", where, "the server emitted in a step is list[rand.Intn(remaining)]", "no map update stores list[draw]")
	if src == nil {
		return
	}
	// bound == len(src) in parallel?
	parallel := func() bool {
		bp, ok1 := bound.(*ssa.Phi)
		sp, ok2 := src.(*ssa.Phi)
		if !ok1 || !ok2 {
			return bc.linString(bc.lin(bound)) == bc.linString(bc.lenLin(src, 0))
		}
		var rec func(b, s ssa.Value, depth int) bool
		rec = func(b, s ssa.Value, depth int) bool {
			if depth > 4 {
				return false
			}
			if cv, isC := constInt(b); isC && cv <= 0 {
				return true // ends the loop
			}
			bp, ok1 := b.(*ssa.Phi)
			sp, ok2 := s.(*ssa.Phi)
			if ok1 && ok2 && bp.Block() == sp.Block() {
				for i := range bp.Edges {
					if bp.Edges[i] == bp && sp.Edges[i] == sp {
						continue
					}
					if !rec(bp.Edges[i], sp.Edges[i], depth+1) {
						return false
					}
				}
				return true
			}
			return bc.linString(bc.lin(b)) == bc.linString(bc.lenLin(s, 0))
		}
		return bp.Block() == sp.Block() && rec(bp, sp, 0)
	}()
	// stores into the list inside the loop: position draw gets list[last]
	fillOK, fillDesc := false, "no store into list[draw]"
	for _, b := range fn.Blocks {
		for _, in := range b.Instrs {
			st, ok := in.(*ssa.Store)
			if !ok {
				continue
			}
			ia, ok := st.Addr.(*ssa.IndexAddr)
			if !ok || ia.Index != draw {
				continue
			}
			ld, ok := st.Val.(*ssa.UnOp)
			if !ok || ld.Op != token.MUL {
				continue
			}
			from, ok := ld.X.(*ssa.IndexAddr)
			if !ok {
				continue
			}
			idx := bc.lin(from.Index)
			lastByBound := bc.linString(idx) == bc.linString(bc.lin(bound).plus(-1))
			lastByLen := bc.linString(idx) == bc.linString(bc.lenLin(from.X, 0).plus(-1)) && from.X == src && parallel
			fillDesc = "list[draw] = list[" + fa.R.R(from.Index) + "] with draw bound " + fa.R.R(bound)
			if lastByBound || lastByLen {
				fillOK = true
			}
		}
	}
	c.Decide(fillOK, rule, fk, "fill-with-last-remaining", where, "the drawn position is refilled with the last server that remains (index = draw bound − 1)", fillDesc+fmt.Sprintf(" (bound tracks len(list): %v)", parallel))
	// the list (or the bound) shrinks by exactly one per step
	shrink := false
	for _, b := range fn.Blocks {
		for _, in := range b.Instrs {
			if sl, ok := in.(*ssa.Slice); ok && sl.Low == nil && sl.High != nil {
				if bc.linString(bc.lin(sl.High)) == bc.linString(bc.lenLin(sl.X, 0).plus(-1)) {
					shrink = true
				}
			}
			if bo, ok := in.(*ssa.BinOp); ok && bo.Op == token.SUB && bo.X == bound {
				if cv, isC := constInt(bo.Y); isC && cv == 1 {
					shrink = true
				}
			}
		}
	}
	c.Decide(shrink, rule, fk, "shrink-by-one", where, "the remaining set shrinks by exactly one per step", "neither list = list[:len(list)-1] nor remaining-1 found")
	// the loop runs while servers remain
	run := false
	for _, cd := range fa.Conds {
		if cd.Kind == "gt" && cd.R == "0" && cd.L == fa.R.R(bound) {
			run = true
		}
	}
	c.Decide(run, rule, fk, "while-remaining", where, "the loop runs while the number remaining is positive", "no `remaining > 0` loop condition over the draw bound: "+fa.condSummary())
	// a single server is returned as it is
	single := false
	for _, b := range fn.Blocks {
		for _, in := range b.Instrs {
			if mu, ok := in.(*ssa.MapUpdate); ok {
				if strings.HasSuffix(fa.R.R(mu.Value), "[0]") {
					single = true
				}
			}
		}
	}
	c.Decide(single, rule, fk, "single-server", where, "a list of one server yields that server", "no map update of list[0]")
}
