package main

// C14 — keytab round trip and key lookup. (The lookup filter rule is shared
// with C01 rule 5.)

import (
	"fmt"
	"go/types"
	"strings"

	"golang.org/x/tools/go/ssa"
)

// loopHeaderOf returns the header of the innermost loop containing b, or nil.
func loopHeaderOf(b *ssa.BasicBlock) *ssa.BasicBlock {
	// b is in the natural loop of header d iff d dominates b and b reaches
	// the source of a back edge p→d without passing through d.
	reachAvoid := func(from, to, avoid *ssa.BasicBlock) bool {
		if from == to {
			return true
		}
		seen := map[*ssa.BasicBlock]bool{from: true}
		st := []*ssa.BasicBlock{from}
		for len(st) > 0 {
			x := st[len(st)-1]
			st = st[:len(st)-1]
			for _, s := range x.Succs {
				if s == avoid || seen[s] {
					continue
				}
				if s == to {
					return true
				}
				seen[s] = true
				st = append(st, s)
			}
		}
		return false
	}
	for d := b; d != nil; d = d.Idom() {
		for _, p := range d.Preds {
			if d.Dominates(p) && (b == d || reachAvoid(b, p, d)) {
				return d
			}
		}
	}
	return nil
}

// keytabFilterRule: in (*Keytab).GetEncryptionKey, the assignment that selects
// an entry's key is reachable, within one iteration over the entries, only
// through the accepting edge of every filter condition.
func keytabFilterRule(w *World, c *Check, rule string) {
	c.Rule(rule, "in Keytab.GetEncryptionKey the key of an entry is selected only if realm, component count, every component, key type and kvno (or kvno 0) match and the entry is newer than the best so far; no match returns an error", 9)
	const fnKey = "keytab.(*Keytab).GetEncryptionKey"
	fn := w.Func(fnKey)
	if fn == nil {
		c.Missing(rule, fnKey)
		return
	}
	fa := NewFuncAn(w, fn)
	where := w.Pos(fn.Pos())
	// the selecting assignment: a store (or phi operand) of <entry>.Key
	ent := `recv\.Entries\[\$i0\]`
	var events []ssa.Instruction
	for _, b := range fn.Blocks {
		for _, in := range b.Instrs {
			switch x := in.(type) {
			case *ssa.Store:
				if fullMatch(ent+`\.Key`, fa.R.R(x.Val)) {
					events = append(events, x)
				}
			}
		}
	}
	if len(events) == 0 {
		// lifted form: the value flows into a phi; use the load
		for _, b := range fn.Blocks {
			for _, in := range b.Instrs {
				if u, ok := in.(*ssa.UnOp); ok && fullMatch(ent+`\.Key`, fa.R.R(u)) && u.Referrers() != nil {
					for _, ref := range *u.Referrers() {
						if _, isPhi := ref.(*ssa.Phi); isPhi {
							events = append(events, u)
						}
					}
				}
			}
		}
	}
	if len(events) == 0 {
		c.Fail(rule, fnKey, "selection", where, "the function selects an entry's Key while ranging over recv.Entries", "no assignment of <entry>.Key found: the filter cannot be anchored")
		return
	}
	type g struct {
		name, desc string
		pats       []GuardPat
		rejectForm bool // use the reject-edge formulation (guards inside an inner loop)
	}
	guards := []g{
		{"realm", "entry realm equals the requested realm", []GuardPat{EqPass("@1", ent+`\.Principal\.Realm`)}, false},
		{"component-count", "entry has as many components as the requested name", []GuardPat{EqPass(P("len(@0.NameString)"), `len\(`+ent+`\.Principal\.Components\)`)}, false},
		{"etype", "entry key type equals the requested etype", []GuardPat{EqPass("@3", ent+`\.Key\.KeyType`)}, false},
		{"kvno", "entry kvno equals the requested kvno, unless kvno 0 (any) was requested", []GuardPat{EqPass(`(?:uint32\()?@2\)?`, ent+`\.KVNO`), EqPass("0", "@2")}, false},
		{"newest", "entry is newer than the best match so far", []GuardPat{TruePass(`time\.\(Time\)\.After\(` + ent + `\.Timestamp, .*\)`)}, false},
		{"components", "every component equals the requested one", []GuardPat{EqPass(P("@0.NameString[", re(`\$i\d+`), "]"), ent+`\.Principal\.Components\[\$i\d+\]`)}, true},
	}
	for _, ev := range events {
		hdr := loopHeaderOf(ev.Block())
		evw := w.Pos(InstrPos(ev))
		if hdr == nil {
			c.Fail(rule, fnKey, "selection-loop", evw, "the selection happens inside the loop over the entries", "selecting assignment is not inside a loop")
			continue
		}
		for _, gd := range guards {
			var pass []Edge
			var first []Edge
			for i, p := range gd.pats {
				m := fa.MatchGuard(p)
				if i == 0 {
					first = m
				}
				pass = append(pass, m...)
			}
			if len(first) == 0 {
				c.Fail(rule, fnKey, gd.name, evw, gd.desc, "no branch tests this condition; conditions present: "+fa.condSummary())
				continue
			}
			gw := w.Pos(InstrPos(lastInstr(first[0].From)))
			if !gd.rejectForm {
				rm := map[Edge]bool{}
				for _, e := range pass {
					rm[e] = true
				}
				path := pathTo(hdr, rm, nil, map[*ssa.BasicBlock]bool{ev.Block(): true})
				c.Decide(path == nil, rule, fnKey, gd.name, gw, gd.desc, "within one iteration the selecting assignment is reachable without the accepting edge of this test: "+fa.DescribePath(path))
			} else {
				// from the rejecting edge the selection must be unreachable within this iteration
				ok := true
				detail := ""
				for _, e := range pass {
					rej := Edge{e.From, 1 - e.Succ}
					rm := map[Edge]bool{}
					for _, p := range hdr.Preds {
						for k, s := range p.Succs {
							if s == hdr {
								rm[Edge{p, k}] = true
							}
						}
					}
					// start from the reject successor, arriving from e.From
					start := rej.To()
					if path := pathFromEdge(rej, rm, ev.Block()); path != nil {
						ok = false
						detail = "after a component mismatch the selecting assignment is still reachable in the same iteration: " + fa.DescribePath(path)
					}
					_ = start
				}
				c.Decide(ok, rule, fnKey, gd.name, gw, gd.desc, detail)
			}
		}
		// the kvno==0 wildcard must exist (any version when 0 is requested)
		wild := fa.MatchGuard(EqPass("0", "@2"))
		eqk := fa.MatchGuard(EqPass(`(?:uint32\()?@2\)?`, ent+`\.KVNO`))
		if len(eqk) > 0 {
			rm := map[Edge]bool{}
			for _, e := range eqk {
				rm[e] = true
			}
			path := pathTo(hdr, rm, nil, map[*ssa.BasicBlock]bool{ev.Block(): true})
			c.Decide(len(wild) > 0 && path != nil, rule, fnKey, "kvno-wildcard", evw, "a requested kvno of 0 selects any key version", "no path selects an entry through the kvno == 0 alternative")
		}
	}
	// no match ⇒ error; the kvno returned belongs to the selected entry
	exits := fa.SuccessExits(BoolErrSuccess(-1, 2))
	okPair := len(exits) > 0
	for _, x := range exits {
		if len(x.Ret.Results) != 3 {
			okPair = false
			continue
		}
		kv := fa.R.ExpandLoopSyms(fa.R.R(RetResults(x.Ret)[1]))
		if !fullMatch(`.*`+ent+`\.KVNO.*`, kv) {
			okPair = false
		}
	}
	c.Decide(okPair, rule, fnKey, "kvno-of-selected-entry", where, "the key version returned is the KVNO of the entry whose key is returned", "success return does not carry <entry>.KVNO of the selected entry")
	emptyLen := `len\(local<types\.EncryptionKey>\.KeyValue\)`
	pass := append(fa.MatchGuard(GuardPat{Kind: "gt", X: "1", Y: emptyLen}), fa.MatchGuard(NePass(emptyLen, "0"))...)
	pass = append(pass, fa.MatchGuard(GuardPat{Kind: "gt", X: emptyLen, Y: "0", PassWhen: true})...)
	if len(pass) == 0 {
		c.Fail(rule, fnKey, "no-match-error", where, "when no entry matched (empty key) an error is returned", "no emptiness test of the selected key before the success return; conditions: "+fa.condSummary())
	} else {
		path := fa.PathAvoiding(pass, exits)
		c.Decide(path == nil, rule, fnKey, "no-match-error", w.Pos(InstrPos(lastInstr(pass[0].From))), "when no entry matched (empty key) an error is returned", "success exit reachable with an empty key: "+fa.DescribePath(path))
	}
}

// pathFromEdge: path starting by traversing edge e (so that phi-constant
// pruning applies to e.To()), to the target block, avoiding removed edges.
func pathFromEdge(e Edge, removed map[Edge]bool, target *ssa.BasicBlock) []*ssa.BasicBlock {
	// emulate by removing every other out-edge of e.From and starting there
	rm := map[Edge]bool{}
	for k, v := range removed {
		rm[k] = v
	}
	for k := range e.From.Succs {
		if k != e.Succ {
			rm[Edge{e.From, k}] = true
		}
	}
	delete(rm, e)
	if e.From == target {
		// the target is the block of the guard itself; it was already executed
		return nil
	}
	return pathTo(e.From, rm, nil, map[*ssa.BasicBlock]bool{target: true})
}

func init() {
	register(&Property{
		ID:      "C14",
		Run:     runC14,
		Explain: "(1) layout traces: the field operations of the keytab reader (Keytab.Unmarshal → parsePrincipal → readIntN/readBytes) and writer (Keytab.Marshal → entry.marshal → principal.marshal → marshalString), extracted from the SSA in control-flow order with their format-version conditions and loop context, each equal the sequence of the MIT keytab format (record length, principal with the version-1 component-count adjustment on both sides and the name type omitted in version 1, 32-bit timestamp, 8-bit kvno, 16-bit enctype, 16-bit length + key, optional trailing 32-bit kvno), same widths and the same byte-order selector on both sides; negative record lengths are skipped, not parsed; (2) the look-up filter of Keytab.GetEncryptionKey (realm, component count, every component, key type, kvno or wildcard 0, newest entry; no match ⇒ error; returned kvno belongs to the returned key) on every path; the 32-bit kvno defaults to the 8-bit one only when absent or zero; (3) no reader error is dropped in Unmarshal's call tree. Equality of parsed values with an independent reader for every file is not decided.",
		NotDecided: []string{
			"parsed values equal an independent reader's for every file (value property)",
			"binary.Read errors on exactly-sized buffers in the readers (cannot fail; listed as notes)",
		},
	})
}

// ruleErrDropped: in the given functions no call to a module function that
// returns an error discards it.
func ruleErrDropped(w *World, c *Check, rule string, fks []string) {
	for _, fk := range fks {
		fn := w.Func(fk)
		if fn == nil {
			c.Missing(rule, fk)
			continue
		}
		fa := NewFuncAn(w, fn)
		n := 0
		for _, b := range fn.Blocks {
			for _, in := range b.Instrs {
				call, ok := in.(*ssa.Call)
				if !ok {
					continue
				}
				callee := call.Call.StaticCallee()
				if callee == nil {
					continue
				}
				res := callee.Signature.Results()
				if res.Len() == 0 || res.At(res.Len()-1).Type().String() != "error" {
					continue
				}
				name := fa.CalleeName(call)
				isModule := callee.Pkg != nil && inModule(callee.Pkg.Pkg.Path())
				used := false
				if res.Len() == 1 {
					used = hasRealReferrers(call)
				} else if e := errExtract(call, res.Len()-1); e != nil {
					used = hasRealReferrers(e)
				}
				where := w.Pos(InstrPos(call))
				if !isModule {
					if !used && name == "encoding/binary.Read" {
						c.Note(rule, fk, "binary.Read unchecked", where, "the error of binary.Read on an exactly-sized buffer is not checked (cannot fail for fixed-size targets)")
					}
					continue
				}
				n++
				c.Decide(used, rule, fk, "error of "+name, where, "the error returned by "+name+" is checked or propagated", "the error result is discarded: a failing read leaves garbage in the entry instead of failing the parse")
			}
		}
		_ = n
	}
}

func hasRealReferrers(v ssa.Value) bool {
	if v.Referrers() == nil {
		return false
	}
	for _, r := range *v.Referrers() {
		if _, dbg := r.(*ssa.DebugRef); !dbg {
			return true
		}
	}
	return false
}

func runC14(w *World, c *Check) {
	c.Rule("C14.stateless", "parsing, writing and searching a keytab touch no package-level state (on this tree: the package keeps none): byte order and cursor of one call cannot be changed by another", 2)
	ruleStatelessIn(w, c, "C14.stateless", "keytab", "a keytab function")
	c.Rule("C14.layout", "reader and writer follow the MIT keytab format field by field (widths, order, version conditions, loops) and agree with each other", 28)
	c.Rule("C14.endian", "integers are big-endian except in version 1 on a little-endian host, selected identically by reader and writer", 4)
	c.Rule("C14.holes", "records with a negative length are skipped, not parsed; parsing stops at a zero length; a hole may be the last record", 3)
	c.Rule("C14.kvno", "the 32-bit key version overrides the 8-bit one only when present and non-zero", 2)
	c.Rule("C14.errors", "no reader error is dropped in Keytab.Unmarshal's call tree", 8)
	keytabFilterRule(w, c, "C14.filter")

	src := "MIT keytab file format"
	ver := `(?i)(.*\.)?(v|ver|version)`
	type tr struct {
		fk     string
		writer bool
		want   []string
	}
	for _, t := range []tr{
		{"keytab.(*Keytab).Unmarshal", false, []string{"U32→tmp", "PRINC *", "TS→Timestamp *", "U8→KVNO8 *", "U16→KeyType *", "U16→tmp *", "BYTES(tmp)→KeyValue *", "U32→KVNO [remaining>=4] *", "U32→tmp *"}},
		{"keytab.parsePrincipal", false, []string{"U16→NumComponents", "DEC→NumComponents [v==1]", "U16→tmp", "BYTES(tmp)→Realm", "U16→tmp *", "BYTES(tmp)→Components *", "U32→NameType [v!=1]"}},
		{"keytab.readTimestamp", false, []string{"U32→ret"}},
		{"keytab.(*Keytab).Marshal", true, []string{"W8(1)→version", "WENTRY→Entries[$i0] *"}},
		{"keytab.(entry).marshal", true, []string{"WPRINC→Principal", "W32(0:4)→Timestamp", "W8(4)→KVNO8", "W16(5:7)→KeyType", "W16(7:9)→len(KeyValue)", "WBYTES→KeyValue", "W32→KVNO", "W32→len(buffer)"}},
		{"keytab.(principal).marshal", true, []string{"INC→tmp [v==1]", "W16(0:)→count(Components)", "WSTR→Realm", "WSTR→Components[$i0] *", "W32→NameType [v!=1]"}},
		{"keytab.marshalString", true, []string{"W16(0:)→len(s)", "WBYTES→s"}},
	} {
		fn := w.Func(t.fk)
		if fn == nil {
			c.Missing("C14.layout", t.fk)
			continue
		}
		fa := NewFuncAn(w, fn)
		var got []layTok
		what := "reader"
		if t.writer {
			got = writerTrace(fa, ver, writerOps("keytab"))
			what = "writer"
		} else {
			got = readerTrace(fa, readerOps("keytab"), ver)
		}
		compareTrace(c, "C14.layout", t.fk, w.Pos(fn.Pos()), what, got, t.want, src)
	}
	// the record length written is the length of what follows and is prepended
	if fn := w.Func("keytab.(entry).marshal"); fn != nil {
		fa := NewFuncAn(w, fn)
		ok := false
		for _, rs := range fa.returnsOf() {
			if len(rs) == 2 && rs[1] == "nil" && strings.HasPrefix(rs[0], "append(local<[4]byte>") {
				ok = true
			}
		}
		c.Decide(ok, "C14.layout", "keytab.(entry).marshal", "length-prefix-first", w.Pos(fn.Pos()), "the 32-bit record length precedes the record (append(length, record…))", "the success return is not append(<4-byte length>, record…)")
	}

	// ---- endianness selector -------------------------------------------------------
	for _, fk := range []string{"keytab.(*Keytab).Unmarshal", "keytab.(entry).marshal", "keytab.(principal).marshal", "keytab.marshalString"} {
		fn := w.Func(fk)
		if fn == nil {
			c.Missing("C14.endian", fk)
			continue
		}
		fa := NewFuncAn(w, fn)
		// the selection, here or in a helper introduced later that this function calls (with the
		// helper's parameters rendered as this function's arguments)
		var endianSel func(a *FuncAn, depth int) (found, ok bool)
		endianSel = func(a *FuncAn, depth int) (bool, bool) {
			v1, _ := a.matchGuardsRaw([]rawPat{{"1", ver, EqPass("1", ver), true}}, 1)
			nat, _ := a.matchGuardsRaw([]rawPat{{`keytab\.isNativeEndianLittle\(\)`, "", TruePass(`keytab\.isNativeEndianLittle\(\)`), true}}, 1)
			var le []ssa.Instruction
			for _, b := range a.Fn.Blocks {
				for _, in := range b.Instrs {
					if v, isVal := in.(ssa.Value); isVal && strings.Contains(a.R.R(v), "encoding/binary.LittleEndian") {
						if _, isLoad := in.(*ssa.UnOp); isLoad {
							le = append(le, in)
						}
					}
				}
			}
			if len(le) > 0 {
				ok := len(v1) > 0 && len(nat) > 0
				for _, in := range le {
					if a.PathToInstrAvoiding(v1, in) != nil || a.PathToInstrAvoiding(nat, in) != nil {
						ok = false
					}
				}
				return true, ok
			}
			if depth < 2 {
				for _, b := range a.Fn.Blocks {
					for _, in := range b.Instrs {
						if call, isCall := in.(*ssa.Call); isCall {
							if g := call.Call.StaticCallee(); g != nil && newHelper(g) {
								sub := NewFuncAnCtx(a.W, g, a.CallArgs(call))
								sub.R.inlineDepth = a.R.inlineDepth + 1
								if f, ok := endianSel(sub, depth+1); f {
									return true, ok
								}
							}
						}
					}
				}
			}
			return false, false
		}
		found, okSel := endianSel(fa, 0)
		le := []int{}
		if found {
			le = append(le, 1)
		}
		c.Decide(okSel && len(le) > 0, "C14.endian", fk, "byte-order", w.Pos(fn.Pos()), "little-endian is used only for version 1 on a little-endian host, big-endian otherwise", "LittleEndian is selected outside `version == 1 && isNativeEndianLittle()`")
	}

	// ---- holes -------------------------------------------------------------------------
	if fn := w.Func("keytab.(*Keytab).Unmarshal"); fn != nil {
		fa := NewFuncAn(w, fn)
		neg := fa.MatchGuard(GuardPat{Kind: "gt", X: "0", Y: `\$L\d+|keytab\.readInt32\(b, [^\[]*\)#0`, PassWhen: true}) // edge on which l < 0
		var princ []ssa.CallInstruction                                                                                  // the entry parser, or the call of the helper that holds it
		for _, dc := range fa.CallsDeep(`keytab\.parsePrincipal`) {
			princ = append(princ, dc.site)
		}
		okHole := len(neg) > 0 && len(princ) == 1
		if okHole {
			hdr := loopHeaderOf(princ[0].Block())
			rm := map[Edge]bool{}
			if hdr != nil {
				for _, p := range hdr.Preds {
					for k, s := range p.Succs {
						if s == hdr {
							rm[Edge{p, k}] = true
						}
					}
				}
			}
			for _, e := range neg {
				if p := pathTo(e.To(), rm, nil, map[*ssa.BasicBlock]bool{princ[0].Block(): true}); p != nil {
					okHole = false
				}
			}
		}
		// a hole may end exactly at the end of the file (ktutil leaves that after deleting the last key):
		// a length test inside the hole branch that only rejects must let position == len(b) through
		{
			bc := newBoundsCtx(w, fn)
			okEnd, detail := true, ""
			var bparam ssa.Value
			for _, p := range fn.Params {
				if _, isSl := p.Type().Underlying().(*types.Slice); isSl {
					bparam = p
				}
			}
			lenAtom := atom{kind: 'l', v: bparam}
			for _, e := range neg {
				for _, rb := range regionOf(e.To()) {
					iff, isIf := lastInstr(rb).(*ssa.If)
					if !isIf {
						continue
					}
					for k := 0; k < 2; k++ {
						if !rejectsOnly(fa, rb.Succs[k], rb.Succs[1-k]) {
							continue
						}
						for _, f := range bc.condFacts(iff.Cond, k == 0) {
							cl, has := f.t[lenAtom]
							if !has {
								continue
							}
							// f = cl·len(b) − (position terms) + k ≤ 0 rejects large positions when cl > 0;
							// at position == cl·len(b) it reads k ≤ 0
							if cl > 0 && len(f.t) > 1 && f.k <= 0 {
								okEnd = false
								detail = "the rejection `" + fa.CondOf(iff).String() + "` fires when the hole ends exactly at the end of the data"
							}
						}
					}
				}
			}
			c.Decide(okEnd, "C14.holes", FuncKey(fn), "hole-may-end-the-file", w.Pos(fn.Pos()), "skipping a deleted entry is not an error when it is the last record", detail)
		}
		c.Decide(okHole, "C14.holes", FuncKey(fn), "negative-length-skipped", w.Pos(fn.Pos()), "a record with a negative length (deleted entry) is skipped over, not parsed", "the entry parser is reachable with a negative record length")
		zero := fa.MatchGuard(EqPass("0", `\$L\d+|keytab\.readInt32\(b, [^\[]*\)#0`))
		c.Decide(len(zero) > 0, "C14.holes", FuncKey(fn), "zero-length-stops", w.Pos(fn.Pos()), "a zero record length ends the file", "no test for a zero record length")
		// kvno defaulting (in this function or in the helper that now parses an entry)
		kfa := fa
		for _, a := range fa.withNewHelpers() {
			if len(a.storesTo(`.*\.KVNO`)) > 0 {
				kfa = a
				break
			}
		}
		st := kfa.storesTo(`.*\.KVNO`)
		var from8 *ssa.Store
		for _, s := range st {
			if strings.HasSuffix(kfa.R.R(s.Val), ".KVNO8") {
				from8 = s
			}
		}
		z := kfa.MatchGuard(EqPass("0", `.*\.KVNO`))
		okK := from8 != nil && len(z) > 0 && kfa.PathToInstrAvoiding(z, from8) == nil
		c.Decide(okK, "C14.kvno", FuncKey(fn), "kvno8-fallback", w.Pos(fn.Pos()), "KVNO is set from the 8-bit field only when the 32-bit field is absent or zero", "the fallback store is not guarded by KVNO == 0")
		c.Decide(len(st) >= 2, "C14.kvno", FuncKey(fn), "kvno32-read", w.Pos(fn.Pos()), "the trailing 32-bit kvno, when present, is stored into KVNO", fmt.Sprintf("%d stores to KVNO", len(st)))
	}

	ruleErrDropped(w, c, "C14.errors", []string{"keytab.(*Keytab).Unmarshal", "keytab.parsePrincipal", "keytab.readTimestamp", "keytab.(*Keytab).Marshal", "keytab.(entry).marshal", "keytab.(principal).marshal"})
}
