package main

// C14 — keytab round trip and key lookup. (The lookup filter rule is shared
// with C01 rule 5.)

import (
	"golang.org/x/tools/go/ssa"
)

// loopHeaderOf returns the header of the innermost loop containing b, or nil.
func loopHeaderOf(b *ssa.BasicBlock) *ssa.BasicBlock {
	// b is in the natural loop of header d iff d dominates b and b reaches
	// the source of a back edge p→d without passing through d.
	reachAvoid := func(from, to, avoid *ssa.BasicBlock) bool {
		if from == to {
			return true
		}
		seen := map[*ssa.BasicBlock]bool{from: true}
		st := []*ssa.BasicBlock{from}
		for len(st) > 0 {
			x := st[len(st)-1]
			st = st[:len(st)-1]
			for _, s := range x.Succs {
				if s == avoid || seen[s] {
					continue
				}
				if s == to {
					return true
				}
				seen[s] = true
				st = append(st, s)
			}
		}
		return false
	}
	for d := b; d != nil; d = d.Idom() {
		for _, p := range d.Preds {
			if d.Dominates(p) && (b == d || reachAvoid(b, p, d)) {
				return d
			}
		}
	}
	return nil
}

// keytabFilterRule: in (*Keytab).GetEncryptionKey, the assignment that selects
// an entry's key is reachable, within one iteration over the entries, only
// through the accepting edge of every filter condition.
func keytabFilterRule(w *World, c *Check, rule string) {
	c.Rule(rule, "in Keytab.GetEncryptionKey the key of an entry is selected only if realm, component count, every component, key type and kvno (or kvno 0) match and the entry is newer than the best so far; no match returns an error", 9)
	const fnKey = "keytab.(*Keytab).GetEncryptionKey"
	fn := w.Func(fnKey)
	if fn == nil {
		c.Missing(rule, fnKey)
		return
	}
	fa := NewFuncAn(w, fn)
	where := w.Pos(fn.Pos())
	// the selecting assignment: a store (or phi operand) of <entry>.Key
	ent := `recv\.Entries\[\$i0\]`
	var events []ssa.Instruction
	for _, b := range fn.Blocks {
		for _, in := range b.Instrs {
			switch x := in.(type) {
			case *ssa.Store:
				if fullMatch(ent+`\.Key`, fa.R.R(x.Val)) {
					events = append(events, x)
				}
			}
		}
	}
	if len(events) == 0 {
		// lifted form: the value flows into a phi; use the load
		for _, b := range fn.Blocks {
			for _, in := range b.Instrs {
				if u, ok := in.(*ssa.UnOp); ok && fullMatch(ent+`\.Key`, fa.R.R(u)) && u.Referrers() != nil {
					for _, ref := range *u.Referrers() {
						if _, isPhi := ref.(*ssa.Phi); isPhi {
							events = append(events, u)
						}
					}
				}
			}
		}
	}
	if len(events) == 0 {
		c.Fail(rule, fnKey, "selection", where, "the function selects an entry's Key while ranging over recv.Entries", "no assignment of <entry>.Key found: the filter cannot be anchored")
		return
	}
	type g struct {
		name, desc string
		pats       []GuardPat
		rejectForm bool // use the reject-edge formulation (guards inside an inner loop)
	}
	guards := []g{
		{"realm", "entry realm equals the requested realm", []GuardPat{EqPass("@1", ent+`\.Principal\.Realm`)}, false},
		{"component-count", "entry has as many components as the requested name", []GuardPat{EqPass(P("len(@0.NameString)"), `len\(`+ent+`\.Principal\.Components\)`)}, false},
		{"etype", "entry key type equals the requested etype", []GuardPat{EqPass("@3", ent+`\.Key\.KeyType`)}, false},
		{"kvno", "entry kvno equals the requested kvno, unless kvno 0 (any) was requested", []GuardPat{EqPass("@2", ent+`\.KVNO`), EqPass("0", "@2")}, false},
		{"newest", "entry is newer than the best match so far", []GuardPat{TruePass(`time\.\(Time\)\.After\(` + ent + `\.Timestamp, .*\)`)}, false},
		{"components", "every component equals the requested one", []GuardPat{EqPass(P("@0.NameString[$i1]"), ent+`\.Principal\.Components\[\$i1\]`)}, true},
	}
	for _, ev := range events {
		hdr := loopHeaderOf(ev.Block())
		evw := w.Pos(InstrPos(ev))
		if hdr == nil {
			c.Fail(rule, fnKey, "selection-loop", evw, "the selection happens inside the loop over the entries", "selecting assignment is not inside a loop")
			continue
		}
		for _, gd := range guards {
			var pass []Edge
			var first []Edge
			for i, p := range gd.pats {
				m := fa.MatchGuard(p)
				if i == 0 {
					first = m
				}
				pass = append(pass, m...)
			}
			if len(first) == 0 {
				c.Fail(rule, fnKey, gd.name, evw, gd.desc, "no branch tests this condition; conditions present: "+fa.condSummary())
				continue
			}
			gw := w.Pos(InstrPos(lastInstr(first[0].From)))
			if !gd.rejectForm {
				rm := map[Edge]bool{}
				for _, e := range pass {
					rm[e] = true
				}
				path := pathTo(hdr, rm, nil, map[*ssa.BasicBlock]bool{ev.Block(): true})
				c.Decide(path == nil, rule, fnKey, gd.name, gw, gd.desc, "within one iteration the selecting assignment is reachable without the accepting edge of this test: "+fa.DescribePath(path))
			} else {
				// from the rejecting edge the selection must be unreachable within this iteration
				ok := true
				detail := ""
				for _, e := range pass {
					rej := Edge{e.From, 1 - e.Succ}
					rm := map[Edge]bool{}
					for _, p := range hdr.Preds {
						for k, s := range p.Succs {
							if s == hdr {
								rm[Edge{p, k}] = true
							}
						}
					}
					// start from the reject successor, arriving from e.From
					start := rej.To()
					if path := pathFromEdge(rej, rm, ev.Block()); path != nil {
						ok = false
						detail = "after a component mismatch the selecting assignment is still reachable in the same iteration: " + fa.DescribePath(path)
					}
					_ = start
				}
				c.Decide(ok, rule, fnKey, gd.name, gw, gd.desc, detail)
			}
		}
		// the kvno==0 wildcard must exist (any version when 0 is requested)
		wild := fa.MatchGuard(EqPass("0", "@2"))
		eqk := fa.MatchGuard(EqPass("@2", ent+`\.KVNO`))
		if len(eqk) > 0 {
			rm := map[Edge]bool{}
			for _, e := range eqk {
				rm[e] = true
			}
			path := pathTo(hdr, rm, nil, map[*ssa.BasicBlock]bool{ev.Block(): true})
			c.Decide(len(wild) > 0 && path != nil, rule, fnKey, "kvno-wildcard", evw, "a requested kvno of 0 selects any key version", "no path selects an entry through the kvno == 0 alternative")
		}
	}
	// no match ⇒ error; the kvno returned belongs to the selected entry
	exits := fa.SuccessExits(BoolErrSuccess(-1, 2))
	okPair := len(exits) > 0
	for _, x := range exits {
		if len(x.Ret.Results) != 3 {
			okPair = false
			continue
		}
		kv := fa.R.ExpandLoopSyms(fa.R.R(RetResults(x.Ret)[1]))
		if !fullMatch(`.*`+ent+`\.KVNO.*`, kv) {
			okPair = false
		}
	}
	c.Decide(okPair, rule, fnKey, "kvno-of-selected-entry", where, "the key version returned is the KVNO of the entry whose key is returned", "success return does not carry <entry>.KVNO of the selected entry")
	emptyLen := `len\(local<types\.EncryptionKey>\.KeyValue\)`
	pass := append(fa.MatchGuard(GuardPat{Kind: "gt", X: "1", Y: emptyLen}), fa.MatchGuard(NePass(emptyLen, "0"))...)
	pass = append(pass, fa.MatchGuard(GuardPat{Kind: "gt", X: emptyLen, Y: "0", PassWhen: true})...)
	if len(pass) == 0 {
		c.Fail(rule, fnKey, "no-match-error", where, "when no entry matched (empty key) an error is returned", "no emptiness test of the selected key before the success return; conditions: "+fa.condSummary())
	} else {
		path := fa.PathAvoiding(pass, exits)
		c.Decide(path == nil, rule, fnKey, "no-match-error", w.Pos(InstrPos(lastInstr(pass[0].From))), "when no entry matched (empty key) an error is returned", "success exit reachable with an empty key: "+fa.DescribePath(path))
	}
}

// pathFromEdge: path starting by traversing edge e (so that phi-constant
// pruning applies to e.To()), to the target block, avoiding removed edges.
func pathFromEdge(e Edge, removed map[Edge]bool, target *ssa.BasicBlock) []*ssa.BasicBlock {
	// emulate by removing every other out-edge of e.From and starting there
	rm := map[Edge]bool{}
	for k, v := range removed {
		rm[k] = v
	}
	for k := range e.From.Succs {
		if k != e.Succ {
			rm[Edge{e.From, k}] = true
		}
	}
	delete(rm, e)
	if e.From == target {
		// the target is the block of the guard itself; it was already executed
		return nil
	}
	return pathTo(e.From, rm, nil, map[*ssa.BasicBlock]bool{target: true})
}
