package main

// Buffer contents, independent of how the buffer is put together.
//
// A byte string can be assembled functionally (append(append(a, b...), c...)), imperatively
// (make + copy(buf[o:], x) / buf[i] = v / PutUint16(buf[o:o+2], v)), from a literal, in a loop
// that accumulates, or by a mix of these. Rules about wire layouts ask "which content sits at
// which offset", so they read the buffer through BufferPlaces, which reduces all of these spellings
// to one list of placements with canonical offsets (constant + sorted symbolic lengths).

import (
	"fmt"
	"go/constant"
	"go/token"
	"go/types"
	"regexp"
	"sort"
	"strconv"
	"strings"

	"golang.org/x/tools/go/ssa"
)

// Off is a canonical offset: K + Σ syms.
type Off struct {
	K    int64
	Syms []string
}

func (o Off) add(p Off) Off {
	s := append(append([]string{}, o.Syms...), p.Syms...)
	sort.Strings(s)
	return Off{o.K + p.K, s}
}

func (o Off) addK(k int64) Off { return Off{o.K + k, o.Syms} }

func (o Off) String() string {
	if len(o.Syms) == 0 {
		return strconv.FormatInt(o.K, 10)
	}
	s := strings.Join(o.Syms, "+")
	if o.K != 0 {
		return strconv.FormatInt(o.K, 10) + "+" + s
	}
	return s
}

// Place: the bytes [Off, End) of a buffer hold What. End is "" when the extent is not known.
type Place struct {
	Off  string
	End  string
	What string
	At   ssa.Instruction
	o, e Off // Off and End as values (e is meaningless when End == "")
}

func mkPlace(o, e Off, what string, at ssa.Instruction) Place {
	return Place{o.String(), e.String(), what, at, o, e}
}

func mkOpenPlace(o Off, what string, at ssa.Instruction) Place {
	return Place{o.String(), "", what, at, o, Off{}}
}

func (p Place) String() string { return p.What + "@" + p.Off + ":" + p.End }

// offOf reads an integer SSA value as a canonical offset.
func (fa *FuncAn) offOf(v ssa.Value) Off {
	switch x := v.(type) {
	case nil:
		return Off{}
	case *ssa.Const:
		if x.Value != nil && x.Value.Kind() == constant.Int {
			if k, ok := constant.Int64Val(x.Value); ok {
				return Off{K: k}
			}
		}
	case *ssa.BinOp:
		if x.Op == token.ADD {
			return fa.offOf(x.X).add(fa.offOf(x.Y))
		}
		if x.Op == token.SUB {
			if c, ok := x.Y.(*ssa.Const); ok && c.Value != nil {
				if k, ok := constant.Int64Val(c.Value); ok {
					return fa.offOf(x.X).addK(-k)
				}
			}
		}
	case *ssa.Convert:
		if _, ok := x.X.Type().Underlying().(*types.Basic); ok {
			if b, ok := x.Type().Underlying().(*types.Basic); ok && b.Info()&types.IsInteger != 0 {
				if xb := x.X.Type().Underlying().(*types.Basic); xb.Info()&types.IsInteger != 0 {
					return fa.offOf(x.X)
				}
			}
		}
	case *ssa.Call:
		if bi, ok := x.Call.Value.(*ssa.Builtin); ok && bi.Name() == "len" && len(x.Call.Args) == 1 {
			return fa.lenOff(x.Call.Args[0])
		}
	}
	s := fa.R.R(v)
	if k, err := strconv.ParseInt(s, 10, 64); err == nil {
		return Off{K: k}
	}
	return Off{Syms: []string{s}}
}

// lenOff: the length of a slice (or string) value as a canonical offset.
func (fa *FuncAn) lenOff(v ssa.Value) Off {
	switch x := v.(type) {
	case *ssa.Slice:
		if a, ok := x.X.(*ssa.Alloc); ok && x.Low == nil && x.High == nil {
			if els, ok := arrayLiteralElems(a); ok {
				return Off{K: int64(len(els))}
			}
		}
		var base Off
		known := false
		if x.High != nil {
			base, known = fa.offOf(x.High), true
		} else if pt, ok := x.X.Type().Underlying().(*types.Pointer); ok {
			if at, ok := pt.Elem().Underlying().(*types.Array); ok {
				base, known = Off{K: at.Len()}, true
			}
		}
		if !known && x.High == nil {
			if _, isSl := x.X.Type().Underlying().(*types.Slice); isSl {
				base, known = fa.lenOff(x.X), true
			}
		}
		if known {
			lo := fa.offOf(x.Low)
			if len(lo.Syms) == 0 {
				return base.addK(-lo.K)
			}
		}
	case *ssa.MakeSlice:
		return fa.offOf(x.Len)
	case *ssa.Const:
		if x.Value != nil && x.Value.Kind() == constant.String {
			return Off{K: int64(len(constant.StringVal(x.Value)))}
		}
		if x.Value == nil {
			return Off{}
		}
	case *ssa.Call:
		if f := x.Call.StaticCallee(); f != nil {
			if n, ok := funcConstLen(f, 0); ok {
				return Off{K: n}
			}
		}
		if bi, ok := x.Call.Value.(*ssa.Builtin); ok && bi.Name() == "append" && len(x.Call.Args) == 2 {
			return fa.lenOff(x.Call.Args[0]).add(fa.lenOff(x.Call.Args[1]))
		}
	case *ssa.ChangeType:
		return fa.lenOff(x.X)
	case *ssa.Convert:
		if isByteSeq(x.X.Type()) && isByteSeq(x.Type()) {
			return fa.lenOff(x.X)
		}
	}
	s := "len(" + fa.R.R(v) + ")"
	s = fa.R.foldConstLens(s)
	if k, err := strconv.ParseInt(s, 10, 64); err == nil {
		return Off{K: k}
	}
	return Off{Syms: []string{s}}
}

// literalElems: the elements of a slice that is a composite literal / variadic packaging.
func literalElems(v ssa.Value) ([]ssa.Value, bool) {
	if sl, ok := v.(*ssa.Slice); ok && sl.Low == nil && sl.High == nil {
		if a, ok := sl.X.(*ssa.Alloc); ok {
			return arrayLiteralElems(a)
		}
	}
	return nil, false
}

// relOffset: x denotes base[off:...] (a chain of slicings of base, or base itself).
func (fa *FuncAn) relOffset(x ssa.Value, base ssa.Value) (Off, ssa.Value, bool) {
	var off Off
	var high ssa.Value
	for i := 0; i < 6; i++ {
		if x == base {
			return off, high, true
		}
		switch y := x.(type) {
		case *ssa.Slice:
			off = off.add(fa.offOf(y.Low))
			if high == nil && y.High != nil {
				high = y.High
			} else if y.High != nil {
				high = nil // nested bounds: extent unknown, offset still exact
			}
			x = y.X
			continue
		case *ssa.ChangeType:
			x = y.X
			continue
		case *ssa.UnOp:
			// a re-load of the place the buffer was stored to (p.buf = make(…); copy(p.buf, …))
			if y.Op == token.MUL && base.Referrers() != nil {
				hit := false
				for _, ref := range *base.Referrers() {
					if st, ok := ref.(*ssa.Store); ok && st.Val == base && instrDominates(st, y) && fa.R.R(st.Addr) == fa.R.R(y.X) {
						hit = true
					}
				}
				if hit {
					x = base
					continue
				}
			}
		}
		break
	}
	return off, nil, false
}

func (fa *FuncAn) placeContent(out *[]Place, at ssa.Instruction, off Off, src ssa.Value) Off {
	if els, ok := literalElems(src); ok {
		for i, e := range els {
			what := "0"
			if e != nil {
				what = fa.R.R(e)
			}
			*out = append(*out, mkPlace(off.addK(int64(i)), off.addK(int64(i+1)), what, at))
		}
		return off.addK(int64(len(els)))
	}
	if c, ok := src.(*ssa.Const); ok && c.Value != nil && c.Value.Kind() == constant.String {
		s := constant.StringVal(c.Value)
		if len(s) <= 8 {
			// a short constant: byte by byte, as a literal []byte{…} would be
			for i := 0; i < len(s); i++ {
				*out = append(*out, mkPlace(off.addK(int64(i)), off.addK(int64(i+1)), strconv.Itoa(int(s[i])), at))
			}
			return off.addK(int64(len(s)))
		}
		*out = append(*out, mkPlace(off, off.addK(int64(len(s))), strconv.Quote(s), at))
		return off.addK(int64(len(s)))
	}
	// string <-> []byte conversions carry the same bytes
	if cv, ok := src.(*ssa.Convert); ok && isByteSeq(cv.X.Type()) && isByteSeq(cv.Type()) {
		return fa.placeContent(out, at, off, cv.X)
	}
	// strings.Join(xs, "") / bytes.Join(xs, nil) is the concatenation of the elements in order
	if call, ok := src.(*ssa.Call); ok && len(call.Call.Args) == 2 {
		if f := call.Call.StaticCallee(); f != nil && (calleeName(f) == "strings.Join" || calleeName(f) == "bytes.Join") {
			emptySep := false
			if k, isK := call.Call.Args[1].(*ssa.Const); isK && (k.Value == nil || (k.Value.Kind() == constant.String && constant.StringVal(k.Value) == "")) {
				emptySep = true
			}
			if emptySep {
				*out = append(*out, mkOpenPlace(off, "Σ("+fa.R.R(call.Call.Args[0])+"[$i0])", at))
				return off.add(fa.lenOff(src))
			}
		}
	}
	end := off.add(fa.lenOff(src))
	*out = append(*out, mkPlace(off, end, fa.R.R(src), at))
	return end
}

// imperativeWrites: element stores, copy() and PutUintNN into base (a make([]byte, n) or a local array).
func (fa *FuncAn) imperativeWrites(base ssa.Value) []Place {
	var out []Place
	for _, b := range fa.Fn.Blocks {
		for _, in := range b.Instrs {
			switch x := in.(type) {
			case *ssa.Store:
				ia, ok := x.Addr.(*ssa.IndexAddr)
				if !ok {
					continue
				}
				if off, _, ok := fa.relOffset(ia.X, base); ok {
					o := off.add(fa.offOf(ia.Index))
					out = append(out, mkPlace(o, o.addK(1), fa.R.R(x.Val), in))
				}
			case *ssa.Call:
				args := x.Call.Args
				if bi, ok := x.Call.Value.(*ssa.Builtin); ok {
					if bi.Name() == "copy" && len(args) == 2 {
						if off, _, ok := fa.relOffset(args[0], base); ok {
							fa.placeContent(&out, in, off, args[1])
						}
					}
					continue
				}
				name := fa.CalleeName(x)
				var width int64
				switch {
				case strings.HasSuffix(name, "PutUint16"):
					width = 2
				case strings.HasSuffix(name, "PutUint32"):
					width = 4
				case strings.HasSuffix(name, "PutUint64"):
					width = 8
				}
				if width == 0 || !strings.Contains(name, "encoding/binary") {
					continue
				}
				all := args
				if x.Call.IsInvoke() {
					all = append([]ssa.Value{x.Call.Value}, args...)
				}
				if len(all) != 3 {
					continue
				}
				off, _, ok := fa.relOffset(all[1], base)
				if !ok {
					continue
				}
				order := "BE"
				if strings.Contains(strings.ToLower(name), "littleendian") {
					order = "LE"
				} else if !strings.Contains(strings.ToLower(name), "bigendian") {
					order = "ORDER(" + fa.R.R(all[0]) + ")"
				}
				out = append(out, mkPlace(off, off.addK(width), fmt.Sprintf("%s%d(%s)", order, width*8, fa.R.R(all[2])), in))
			}
		}
	}
	return out
}

// BufferPlaces reduces the construction of the byte slice v to placements. total is the length of
// the buffer when it is known.
func (fa *FuncAn) BufferPlaces(v ssa.Value) ([]Place, string) {
	ps, l := fa.bufPlaces(v, 0, map[ssa.Value]bool{})
	sort.SliceStable(ps, func(i, j int) bool { return offBefore(ps[i].o, ps[j].o) })
	ps = mergeShiftedBytes(ps)
	return ps, l.String()
}

// offBefore: a precedes b — the difference b - a is a positive constant, or a sum of lengths (which
// are not negative) plus a non-negative constant; otherwise constants first, then by text.
func offBefore(a, b Off) bool {
	sub := func(x, y []string) ([]string, bool) { // y minus x as multisets, if x ⊆ y
		rest := append([]string{}, y...)
		for _, s := range x {
			found := false
			for i, r := range rest {
				if r == s {
					rest = append(rest[:i], rest[i+1:]...)
					found = true
					break
				}
			}
			if !found {
				return nil, false
			}
		}
		return rest, true
	}
	if rest, ok := sub(a.Syms, b.Syms); ok {
		if len(rest) == 0 {
			return a.K < b.K
		}
		return b.K >= a.K
	}
	if _, ok := sub(b.Syms, a.Syms); ok {
		return false
	}
	return offLess(a.String(), b.String())
}

func offLess(a, b string) bool {
	ka, ea := strconv.ParseInt(a, 10, 64)
	kb, eb := strconv.ParseInt(b, 10, 64)
	if ea == nil && eb == nil {
		return ka < kb
	}
	if (ea == nil) != (eb == nil) {
		return ea == nil
	}
	return a < b
}

func (fa *FuncAn) bufPlaces(v ssa.Value, depth int, seen map[ssa.Value]bool) ([]Place, Off) {
	opaque := func() ([]Place, Off) {
		var out []Place
		end := fa.placeContent(&out, nil, Off{}, v)
		return out, end
	}
	if depth > 12 || seen[v] {
		return opaque()
	}
	seen[v] = true
	defer delete(seen, v)
	switch x := v.(type) {
	case *ssa.ChangeType:
		return fa.bufPlaces(x.X, depth+1, seen)
	case *ssa.Convert:
		if isByteSeq(x.X.Type()) && isByteSeq(x.Type()) {
			return fa.bufPlaces(x.X, depth+1, seen)
		}
	case *ssa.BinOp:
		// string concatenation
		if bt, ok := x.Type().Underlying().(*types.Basic); ok && bt.Info()&types.IsString != 0 && x.Op == token.ADD {
			ps, l := fa.bufPlaces(x.X, depth+1, seen)
			out := append([]Place{}, ps...)
			switch x.Y.(type) {
			case *ssa.BinOp:
				sub, sl := fa.bufPlaces(x.Y, depth+1, seen)
				for _, p := range sub {
					if p.End == "" {
						out = append(out, mkOpenPlace(l.add(p.o), p.What, p.At))
					} else {
						out = append(out, mkPlace(l.add(p.o), l.add(p.e), p.What, p.At))
					}
				}
				return out, l.add(sl)
			}
			end := fa.placeContent(&out, x, l, x.Y)
			return out, end
		}
	case *ssa.Const:
		if x.Value == nil {
			return nil, Off{}
		}
		if x.Value.Kind() == constant.String {
			var out []Place
			end := fa.placeContent(&out, nil, Off{}, x)
			return out, end
		}
	case *ssa.MakeSlice:
		return fa.imperativeWrites(x), fa.offOf(x.Len)
	case *ssa.Slice:
		if _, ok := literalElems(x); ok {
			return opaque()
		}
		if a, ok := x.X.(*ssa.Alloc); ok && x.Low == nil {
			if pt, ok := a.Type().Underlying().(*types.Pointer); ok {
				if at, ok := pt.Elem().Underlying().(*types.Array); ok {
					l := Off{K: at.Len()}
					if x.High != nil {
						l = fa.offOf(x.High)
					}
					return fa.imperativeWrites(a), l
				}
			}
		}
		// buf[:0] of an existing buffer: an empty prefix to append to
		if x.Low == nil && x.High != nil {
			if h := fa.offOf(x.High); len(h.Syms) == 0 && h.K == 0 {
				return nil, Off{}
			}
		}
	case *ssa.Call:
		if ps, l, ok := fa.bytesBufferPlaces(x); ok {
			return ps, l
		}
		// a buffer assembled by a helper extracted from this function
		if g := x.Call.StaticCallee(); g != nil && newHelper(g) && g != fa.Fn && fa.R.inlineDepth < 3 && g.Signature.Results().Len() == 1 {
			sub := NewFuncAnCtx(fa.W, g, fa.CallArgs(x))
			sub.R.inlineDepth = fa.R.inlineDepth + 1
			if vals := returnedBytes(sub); len(vals) == 1 {
				return sub.bufPlaces(vals[0], depth+1, map[ssa.Value]bool{})
			}
		}
		if bi, ok := x.Call.Value.(*ssa.Builtin); ok && bi.Name() == "append" && len(x.Call.Args) == 2 {
			ps, l := fa.bufPlaces(x.Call.Args[0], depth+1, seen)
			out := append([]Place{}, ps...)
			src := x.Call.Args[1]
			// append(a, f(...)...) where the appended part is itself an assembled buffer
			switch src.(type) {
			case *ssa.Call, *ssa.MakeSlice, *ssa.Phi:
				if _, isLit := literalElems(src); !isLit {
					if sub, sl := fa.bufPlaces(src, depth+1, seen); len(sub) > 1 || (len(sub) == 1 && strings.HasPrefix(sub[0].What, "Σ")) {
						for _, p := range sub {
							if p.End == "" {
								out = append(out, mkOpenPlace(l.add(p.o), p.What, p.At))
							} else {
								out = append(out, mkPlace(l.add(p.o), l.add(p.e), p.What, p.At))
							}
						}
						return out, l.add(sl)
					}
				}
			}
			end := fa.placeContent(&out, x, l, src)
			return out, end
		}
	case *ssa.Phi:
		// an accumulator: φ(init, append(φ, X...)) ⇒ init ‖ Σ X ; append(X, φ...) ⇒ Σrev X ‖ init
		var init ssa.Value
		var step *ssa.Call
		for _, e := range x.Edges {
			if c, ok := e.(*ssa.Call); ok {
				if bi, ok := c.Call.Value.(*ssa.Builtin); ok && bi.Name() == "append" && len(c.Call.Args) == 2 && (c.Call.Args[0] == x || c.Call.Args[1] == x) {
					step = c
					continue
				}
			}
			if e != x {
				if init != nil && init != e {
					return opaque()
				}
				init = e
			}
		}
		if step == nil || init == nil {
			return opaque()
		}
		ps, l := fa.bufPlaces(init, depth+1, seen)
		out := append([]Place{}, ps...)
		sym := "len(" + fa.R.R(v) + ")"
		if step.Call.Args[0] == x {
			out = append(out, mkOpenPlace(l, "Σ("+fa.R.R(step.Call.Args[1])+")", step))
		} else {
			out = append(out, mkOpenPlace(l, "Σreversed("+fa.R.R(step.Call.Args[0])+")", step))
		}
		return out, Off{Syms: []string{sym}}
	}
	return opaque()
}

// placesString renders placements for reports.
func placesString(ps []Place) string {
	parts := make([]string, len(ps))
	for i, p := range ps {
		parts[i] = p.String()
	}
	return strings.Join(parts, " ‖ ")
}

// bytesBufferPlaces: call is (*bytes.Buffer).Bytes() of a local buffer that is filled by a
// dominance-ordered sequence of Write / WriteByte / WriteString / binary.Write calls.
func (fa *FuncAn) bytesBufferPlaces(call *ssa.Call) ([]Place, Off, bool) {
	f := call.Call.StaticCallee()
	if f == nil || f.Pkg == nil || f.Pkg.Pkg.Path() != "bytes" || f.Name() != "Bytes" || len(call.Call.Args) != 1 {
		return nil, Off{}, false
	}
	a, ok := call.Call.Args[0].(*ssa.Alloc)
	if !ok || a.Referrers() == nil {
		return nil, Off{}, false
	}
	type wr struct {
		in   ssa.Instruction
		what ssa.Value
		enc  string
		size int64
	}
	var ws []wr
	addCall := func(c *ssa.Call, viaIface bool) bool {
		g := c.Call.StaticCallee()
		if g == nil || g.Pkg == nil {
			return false
		}
		switch g.Pkg.Pkg.Path() + "." + g.Name() {
		case "bytes.Write", "bytes.WriteString":
			if !viaIface && len(c.Call.Args) == 2 {
				ws = append(ws, wr{in: c, what: c.Call.Args[1]})
				return true
			}
		case "bytes.WriteByte":
			if !viaIface && len(c.Call.Args) == 2 {
				ws = append(ws, wr{in: c, what: c.Call.Args[1], size: 1})
				return true
			}
		case "bytes.Bytes", "bytes.Len":
			return !viaIface
		case "encoding/binary.Write":
			if viaIface && len(c.Call.Args) == 3 {
				data := c.Call.Args[2]
				if mi, ok := data.(*ssa.MakeInterface); ok {
					data = mi.X
				}
				bt, ok := data.Type().Underlying().(*types.Basic)
				if !ok {
					return false
				}
				var size int64
				switch bt.Kind() {
				case types.Uint8, types.Int8:
					size = 1
				case types.Uint16, types.Int16:
					size = 2
				case types.Uint32, types.Int32:
					size = 4
				case types.Uint64, types.Int64:
					size = 8
				default:
					return false
				}
				order := fa.R.R(c.Call.Args[1])
				enc := "ORDER(" + order + ")"
				switch {
				case strings.Contains(order, "BigEndian"):
					enc = "BE"
				case strings.Contains(order, "LittleEndian"):
					enc = "LE"
				}
				ws = append(ws, wr{in: c, what: data, enc: enc, size: size})
				return true
			}
		}
		return false
	}
	for _, ref := range *a.Referrers() {
		switch x := ref.(type) {
		case *ssa.Call:
			if !addCall(x, false) {
				return nil, Off{}, false
			}
		case *ssa.MakeInterface:
			for _, r2 := range derefRefs(x) {
				c2, ok := r2.(*ssa.Call)
				if !ok || !addCall(c2, true) {
					return nil, Off{}, false
				}
			}
		case *ssa.DebugRef:
		default:
			return nil, Off{}, false
		}
	}
	// program order: every write dominates the Bytes() call and the writes are totally ordered
	sort.SliceStable(ws, func(i, j int) bool { return instrDominates(ws[i].in, ws[j].in) })
	for i := range ws {
		if !instrDominates(ws[i].in, call) {
			return nil, Off{}, false
		}
		if i > 0 && !instrDominates(ws[i-1].in, ws[i].in) {
			return nil, Off{}, false
		}
		if loopHeaderOf(ws[i].in.Block()) != loopHeaderOf(call.Block()) {
			return nil, Off{}, false
		}
	}
	var out []Place
	var off Off
	for _, w := range ws {
		switch {
		case w.enc != "":
			out = append(out, mkPlace(off, off.addK(w.size), fmt.Sprintf("%s%d(%s)", w.enc, w.size*8, fa.R.R(w.what)), w.in))
			off = off.addK(w.size)
		case w.size == 1:
			out = append(out, mkPlace(off, off.addK(1), fa.R.R(w.what), w.in))
			off = off.addK(1)
		default:
			off = fa.placeContent(&out, w.in, off, w.what)
		}
	}
	return out, off, true
}

var shiftedRe = regexp.MustCompile(`^\((.+) >> (\d+)\)$`)

// mergeShiftedBytes: n consecutive single bytes holding x>>8(n-1), …, x>>8, x are the big-endian
// encoding of x (the hand-written form of binary.BigEndian.PutUintNN); ascending shifts are the
// little-endian one.
func mergeShiftedBytes(ps []Place) []Place {
	var out []Place
	for i := 0; i < len(ps); {
		merged := false
		for _, n := range []int{8, 4, 2} {
			if i+n > len(ps) {
				continue
			}
			ok := true
			var shifts []int
			x := ""
			for k := 0; k < n && ok; k++ {
				p := ps[i+k]
				if p.End == "" || p.e.String() != p.o.addK(1).String() || (k > 0 && p.o.String() != ps[i+k-1].e.String()) {
					ok = false
					break
				}
				what, sh := p.What, 0
				// the truncation to a byte is what stores one octet of x
				for _, pre := range []string{"uint8(", "byte("} {
					if strings.HasPrefix(what, pre) && strings.HasSuffix(what, ")") {
						what = what[len(pre) : len(what)-1]
					}
				}
				if m := shiftedRe.FindStringSubmatch(what); m != nil {
					what = m[1]
					sh, _ = strconv.Atoi(m[2])
				}
				if k == 0 {
					x = what
				} else if what != x {
					ok = false
				}
				shifts = append(shifts, sh)
			}
			if !ok || isConstTerm(x) {
				continue
			}
			be, le := true, true
			for k, sh := range shifts {
				if sh != 8*(n-1-k) {
					be = false
				}
				if sh != 8*k {
					le = false
				}
			}
			if !be && !le {
				continue
			}
			order := "BE"
			if le && !be {
				order = "LE"
			}
			out = append(out, mkPlace(ps[i].o, ps[i+n-1].e, fmt.Sprintf("%s%d(%s)", order, 8*n, x), ps[i].At))
			i += n
			merged = true
			break
		}
		if !merged {
			out = append(out, ps[i])
			i++
		}
	}
	return out
}
