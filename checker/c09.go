package main

// C09 — the client accepts a KDC reply only if it answers the request it sent.

import (
	"fmt"
	"strings"

	"golang.org/x/tools/go/ssa"
)

func init() {
	register(&Property{
		ID:      "C09",
		Run:     runC09,
		Explain: "Check-list analysis of messages.(*ASRep).Verify and (*TGSRep).Verify (every comparison of a reply field with the request field RFC 4120 §3.1.5/§3.3.4 names, by access path, on every path to `true, nil`); key provenance of ASRep.DecryptEncPart (keytab key for the reply's cname/crealm/kvno/etype or the password key with the reply's PA-data, key usage 3) and TGSRep.DecryptEncPart (key usage 8, the session key that also keyed the request); dominance in Client.ASExchange/TGSExchange: a reply is returned, cached or used for a referral only after Unmarshal, DecryptEncPart and Verify succeeded against the request that was marshalled and sent; KRB-ERROR replies reach the caller as errors wrapping that KRBError; message-type guards 11/13.",
		NotDecided: []string{
			"rejection of each concrete perturbed reply (needs decryption of concrete replies); authenticity of decryption is C06",
			"TGS sname comparison (the statement requires it for AS replies only; the code has it commented out)",
		},
	})
}

// forwardsSelf: the return forwards the result tuple of a recursive call.
func forwardsSelf(fa *FuncAn, ret *ssa.Return) bool {
	for _, r := range RetResults(ret) {
		ex, ok := r.(*ssa.Extract)
		if !ok {
			return false
		}
		call, ok := ex.Tuple.(*ssa.Call)
		if !ok || call.Call.StaticCallee() != fa.Fn {
			return false
		}
	}
	return len(ret.Results) > 0
}

func exceptSelfForward(cls ExitClass) ExitClass {
	return func(fa *FuncAn, ret *ssa.Return, in *Edge) bool {
		if forwardsSelf(fa, ret) {
			return false
		}
		return cls(fa, ret, in)
	}
}

func runC09(w *World, c *Check) {
	c.Rule("C09.asrep", "every path of ASRep.Verify to `true, nil` passes the cname, crealm, decrypt, nonce, sname, srealm, address and auth-time-skew checks against the request's fields", 9)
	c.Rule("C09.tgsrep", "every path of TGSRep.Verify to `true, nil` passes the cname, ticket-realm, nonce, srealm, address-subset and time-skew checks", 7)
	c.Rule("C09.faithful", "ASRep.Verify and TGSRep.Verify never return (false, nil)", 10)
	c.Rule("C09.key", "AS reply decrypted with the client's own key for the reply's name/realm/kvno/etype (keytab) or derived from the password with the reply's PA-data, usage 3; TGS reply with the session key that keyed the request, usage 8", 8)
	c.Rule("C09.exchange", "a reply is returned/cached/followed only after Unmarshal, DecryptEncPart and Verify succeeded against the request that was sent", 12)
	c.Rule("C09.krberror", "a KRB-ERROR reply surfaces as an error wrapping that KRBError; reply message types are checked (11, 13)", 9)

	req := `asReq\.KDCReqFields\.ReqBody`
	rep := `recv\.KDCRepFields`
	dep := rep + `\.DecryptedEncPart`
	skew := `cfg\.LibDefaults\.Clockskew`
	eqName := func(a, b string) []GuardPat {
		return []GuardPat{TruePass(`types\.\(PrincipalName\)\.Equal\(` + a + `, ` + b + `\)`), TruePass(`types\.\(PrincipalName\)\.Equal\(` + b + `, ` + a + `\)`)}
	}
	afa, _ := checkGuards(w, c, "C09.asrep", "messages.(*ASRep).Verify", BoolErrSuccess(0, 1), []GuardSpec{
		{Name: "cname", Desc: "reply cname equals the request's cname", Main: eqName(rep+`\.CName`, req+`\.CName`)},
		{Name: "crealm", Desc: "reply crealm equals the request's realm", Main: []GuardPat{EqPass(rep+`\.CRealm`, req+`\.Realm`)}},
		{Name: "decrypts", Desc: "the encrypted part decrypts under the client's credentials", Main: []GuardPat{EqPass("nil", `messages\.\(\*ASRep\)\.DecryptEncPart\(recv, creds\)#1`)}},
		{Name: "nonce", Desc: "decrypted nonce equals the request's nonce", Main: []GuardPat{EqPass(dep+`\.Nonce`, req+`\.Nonce`)}},
		{Name: "sname", Desc: "decrypted sname equals the request's sname", Main: eqName(dep+`\.SName`, req+`\.SName`)},
		{Name: "srealm", Desc: "decrypted srealm equals the request's realm", Main: []GuardPat{EqPass(dep+`\.SRealm`, req+`\.Realm`)}},
		{Name: "addresses", Desc: "when the request listed addresses the reply's list equals it",
			Main:   []GuardPat{TruePass(`types\.HostAddressesEqual\(` + dep + `\.CAddr, ` + req + `\.Addresses\)`), TruePass(`types\.HostAddressesEqual\(` + req + `\.Addresses, ` + dep + `\.CAddr\)`)},
			Unless: []GuardPat{{Kind: "gt", X: `len\(` + req + `\.Addresses\)`, Y: "0", PassWhen: false}, EqPass(`len\(`+req+`\.Addresses\)`, "0")}},
		{Name: "authtime-past", Desc: "now − authtime exceeding the clock skew ⇒ reject", Main: []GuardPat{NotExceeds(P("time.(Time).Sub(", reNow, ", ", re(dep), ".AuthTime)"), skew)}},
		{Name: "authtime-future", Desc: "authtime − now exceeding the clock skew ⇒ reject", Main: []GuardPat{NotExceeds(P("time.(Time).Sub(", re(dep), ".AuthTime, ", reNow, ")"), skew)}},
	})
	if afa != nil {
		noteStrictness(c, afa, "C09.asrep")
	}

	treq := `tgsReq\.KDCReqFields\.ReqBody`
	since := func(f string) string {
		return `(?:time\.Since\(` + dep + `\.` + f + `\)|time\.\(Time\)\.Sub\(` + string(reNow) + `, ` + dep + `\.` + f + `\))`
	}
	future := func(f string) string { return `time\.\(Time\)\.Sub\(` + dep + `\.` + f + `, ` + string(reNow) + `\)` }
	startOK := []GuardPat{NotExceeds(future("StartTime"), skew)} // the edge on which the start time is not in the future beyond skew
	checkGuards(w, c, "C09.tgsrep", "messages.(*TGSRep).Verify", BoolErrSuccess(0, 1), []GuardSpec{
		{Name: "cname", Desc: "reply cname equals the request's cname", Main: eqName(rep+`\.CName`, treq+`\.CName`)},
		{Name: "ticket-realm", Desc: "the ticket's realm equals the request's realm", Main: []GuardPat{EqPass(rep+`\.Ticket\.Realm`, treq+`\.Realm`)}},
		{Name: "nonce", Desc: "decrypted nonce equals the request's nonce", Main: []GuardPat{EqPass(dep+`\.Nonce`, treq+`\.Nonce`)}},
		{Name: "srealm", Desc: "decrypted srealm equals the request's realm", Main: []GuardPat{EqPass(dep+`\.SRealm`, treq+`\.Realm`)}},
		{Name: "addresses-subset", Desc: "every address in the reply is one the request listed",
			Main: []GuardPat{TruePass(`types\.HostAddressesContains\(` + treq + `\.Addresses, ` + dep + `\.CAddr\[\$i0\]\)`)}, RejectForm: true},
		{Name: "time-past", Desc: "auth time older than the skew (with a start time outside the skew) ⇒ reject", Main: []GuardPat{NotExceeds(since("AuthTime"), skew)}, Unless: startOK},
		{Name: "time-future", Desc: "auth time further in the future than the skew (with a start time outside the skew) ⇒ reject", Main: []GuardPat{NotExceeds(future("AuthTime"), skew)}, Unless: startOK},
	})

	// ---- key provenance -------------------------------------------------------
	kfa, _ := checkCalls(w, c, "C09.key", "messages.(*ASRep).DecryptEncPart", []CallSpec{
		{Name: "keytab-key", Desc: "keytab key looked up for the reply's (cname, crealm, kvno, etype)", Callee: `keytab\.\(\*Keytab\)\.GetEncryptionKey`,
			Want: `keytab\.\(\*Keytab\)\.GetEncryptionKey\(credentials\.\(\*Credentials\)\.Keytab\(c\), ` + rep + `\.CName, ` + rep + `\.CRealm, ` + rep + `\.EncPart\.KVNO, ` + rep + `\.EncPart\.EType\)`},
		{Name: "password-key", Desc: "password key derived for the reply's (cname, crealm, etype) with the reply's PA-data", Callee: `crypto\.GetKeyFromPassword`,
			Want: `crypto\.GetKeyFromPassword\(credentials\.\(\*Credentials\)\.Password\(c\), ` + rep + `\.CName, ` + rep + `\.CRealm, ` + rep + `\.EncPart\.EType, ` + rep + `\.PAData\)`},
		{Name: "usage-3", Desc: "the AS-REP encrypted part is decrypted with key usage 3 (and no other)", Callee: `crypto\.DecryptEncPart`,
			Want: `crypto\.DecryptEncPart\(` + rep + `\.EncPart, .*, 3\)`, AllMustMatch: true},
	})
	if kfa != nil {
		// the key operand may only come from the two look-ups above
		for _, ci := range kfa.Calls(`crypto\.DecryptEncPart`) {
			k := kfa.CallArgs(ci)[1]
			rest := k
			for _, pat := range []string{`crypto\.GetKeyFromPassword\([^φ]*?\)#0`, `keytab\.\(\*Keytab\)\.GetEncryptionKey\([^φ]*?\)#0`, `zero\(types\.EncryptionKey\)`, `local<types\.EncryptionKey>`, `φ\(`, `\)`, `\|`} {
				rest = compileRe(pat).ReplaceAllString(rest, "")
			}
			c.Decide(rest == "" && strings.Contains(k, "GetKeyFromPassword") && strings.Contains(k, "GetEncryptionKey"), "C09.key", FuncKey(kfa.Fn), "key-sources", w.Pos(InstrPos(ci)),
				"the decryption key is the keytab key or the password-derived key and nothing else", "key operand is "+trunc(k, 300))
		}
		checkGuards(w, c, "C09.key", "messages.(*ASRep).DecryptEncPart", BoolErrSuccess(-1, 1), []GuardSpec{
			{Name: "decrypt-error", Desc: "decryption failure ⇒ error", Main: []GuardPat{EqPass("nil", `crypto\.DecryptEncPart\(.*\)#1`)}},
			{Name: "a-secret-exists", Desc: "credentials without keytab and password ⇒ error",
				Main: []GuardPat{TruePass(`credentials\.\(\*Credentials\)\.HasKeytab\(c\)`), TruePass(`credentials\.\(\*Credentials\)\.HasPassword\(c\)`)}},
		})
	}
	checkCalls(w, c, "C09.key", "messages.(*TGSRep).DecryptEncPart", []CallSpec{
		{Name: "usage-8", Desc: "the TGS-REP encrypted part is decrypted with the key parameter and key usage 8 (and no other)", Callee: `crypto\.DecryptEncPart|crypto\.DecryptMessage`, Want: `crypto\.DecryptEncPart\(` + rep + `\.EncPart, key, 8\)`, AllMustMatch: true},
	})
	checkCalls(w, c, "C09.key", "client.(*Client).TGSREQGenerateAndExchange", []CallSpec{
		{Name: "request-keyed-by-session-key", Desc: "the TGS-REQ is built with the TGT and its session key", Callee: `messages\.NewTGSReq`, Want: `messages\.NewTGSReq\(.*, kdcRealm, recv\.Config, tgt, sessionKey, spn, renewal\)`},
		{Name: "reply-decrypted-with-same-key", Desc: "the exchange decrypts the reply with that same session key", Callee: `client\.\(\*Client\)\.TGSExchange`, Want: `client\.\(\*Client\)\.TGSExchange\(recv, .*, kdcRealm, .*, sessionKey, 0\)`},
	})

	// ---- exchange dominance ----------------------------------------------------
	asrepL := `local<messages\.ASRep>`
	xfa, xg := checkGuards(w, c, "C09.exchange", "client.(*Client).ASExchange", exceptSelfForward(BoolErrSuccess(-1, 1)), []GuardSpec{
		{Name: "reply-decodes", Desc: "ASRep.Unmarshal of the KDC's bytes error ⇒ error", Main: []GuardPat{EqPass("nil", `messages\.\(\*ASRep\)\.Unmarshal\(`+asrepL+`, .*sendToKDC\(.*\)#0.*\)`)}},
		{Name: "reply-verifies", Desc: "ASRep.Verify(config, credentials, the request) not ok ⇒ error", Main: []GuardPat{TruePass(`messages\.\(\*ASRep\)\.Verify\(` + asrepL + `, recv\.Config, recv\.Credentials, ASReq\)#0`)}},
	})
	if xfa != nil {
		// every send marshals the same request object that Verify later receives
		for _, ci := range xfa.Calls(`client\.\(\*Client\)\.sendToKDC`) {
			s := xfa.RenderCall(ci)
			c.Decide(xfa.M(`client\.\(\*Client\)\.sendToKDC\(recv, messages\.\(\*ASReq\)\.Marshal\(ASReq\)#0, realm\)`, s), "C09.exchange", FuncKey(xfa.Fn), "sent-request-is-verified-request", w.Pos(InstrPos(ci)),
				"the bytes sent are the marshalled request that Verify compares the reply with", "sends "+trunc(s, 200))
		}
		for _, x := range xfa.SuccessExits(exceptSelfForward(BoolErrSuccess(-1, 1))) {
			r := xfa.R.R(RetResults(x.Ret)[0])
			c.Decide(fullMatch(asrepL, r), "C09.exchange", FuncKey(xfa.Fn), "returns-verified-reply", w.Pos(InstrPos(x.Ret)), "the reply returned is the one that was decoded and verified", "returns "+trunc(r, 120))
		}
	}
	_ = xg
	tgsrepL := `local<messages\.TGSRep>`
	tgsreqL := `local<messages\.TGSReq>`
	tfa, tg := checkGuards(w, c, "C09.exchange", "client.(*Client).TGSExchange", exceptSelfForward(BoolErrSuccess(-1, 2)), []GuardSpec{
		{Name: "reply-decodes", Desc: "TGSRep.Unmarshal error ⇒ error", Main: []GuardPat{EqPass("nil", `messages\.\(\*TGSRep\)\.Unmarshal\(`+tgsrepL+`, .*sendToKDC\(.*\)#0\)`)}},
		{Name: "reply-decrypts", Desc: "TGSRep.DecryptEncPart(session key) error ⇒ error", Main: []GuardPat{EqPass("nil", `messages\.\(\*TGSRep\)\.DecryptEncPart\(`+tgsrepL+`, sessionKey\)`)}},
		{Name: "reply-verifies", Desc: "TGSRep.Verify(config, the request) not ok ⇒ error", Main: []GuardPat{TruePass(`messages\.\(\*TGSRep\)\.Verify\(` + tgsrepL + `, recv\.Config, ` + tgsreqL + `\)#0`)}},
	})
	if tfa != nil {
		fk := FuncKey(tfa.Fn)
		events := map[string]string{
			`client\.\(\*Cache\)\.addEntry`:          "the ticket is cached",
			`client\.\(\*Client\)\.addSession`:       "a referral TGT becomes a session",
			`client\.\(\*Client\)\.TGSExchange`:      "a referral is followed",
			`messages\.\(\*TGSRep\)\.Verify`:         "Verify runs on a decrypted reply",
			`messages\.\(\*TGSRep\)\.DecryptEncPart`: "DecryptEncPart runs on a decoded reply",
		}
		need := map[string][]string{
			`client\.\(\*Cache\)\.addEntry`:          {"reply-decodes", "reply-decrypts", "reply-verifies"},
			`client\.\(\*Client\)\.addSession`:       {"reply-decodes", "reply-decrypts", "reply-verifies"},
			`client\.\(\*Client\)\.TGSExchange`:      {"reply-decodes", "reply-decrypts", "reply-verifies"},
			`messages\.\(\*TGSRep\)\.Verify`:         {"reply-decodes", "reply-decrypts"},
			`messages\.\(\*TGSRep\)\.DecryptEncPart`: {"reply-decodes"},
		}
		for _, pat := range sortedKeys(events) {
			sites := tfa.Calls(pat)
			if len(sites) == 0 {
				c.Fail("C09.exchange", fk, "event:"+strings.ReplaceAll(pat, `\`, ""), w.Pos(tfa.Fn.Pos()), events[pat]+" only after the reply was checked", "no such call: the exchange's structure changed, obligations cannot be established")
			}
			for _, ci := range sites {
				requireDominated(c, "C09.exchange", tfa, "event:"+strings.ReplaceAll(pat, `\`, ""), events[pat]+" only after the reply was decoded, decrypted and verified", ci, tg, need[pat]...)
			}
		}
		for _, ci := range tfa.Calls(`client\.\(\*Client\)\.sendToKDC`) {
			s := tfa.RenderCall(ci)
			c.Decide(tfa.M(`client\.\(\*Client\)\.sendToKDC\(recv, messages\.\(\*TGSReq\)\.Marshal\(`+tgsreqL+`\)#0, kdcRealm\)`, s), "C09.exchange", fk, "sent-request-is-verified-request", w.Pos(InstrPos(ci)),
				"the bytes sent are the marshalled request that Verify compares the reply with", "sends "+trunc(s, 200))
		}
	}

	// ---- KRB-ERROR surfaces ---------------------------------------------------------
	if fn := w.Func("client.checkForKRBError"); fn == nil {
		c.Missing("C09.krberror", "client.checkForKRBError")
	} else {
		fa := NewFuncAn(w, fn)
		ok := fa.MatchGuard(EqPass("nil", `messages\.\(\*KRBError\)\.Unmarshal\(local<messages\.KRBError>, b\)`))
		good := len(ok) == 1
		detail := "no test of KRBError.Unmarshal(b)"
		if good {
			for _, x := range fa.Exits() {
				rs := RetResults(x.Ret)
				errS := fa.R.R(rs[1])
				onDecoded := x.In != nil && *x.In == ok[0]
				if onDecoded && errS != "local<messages.KRBError>" {
					good, detail = false, "when the bytes decode as a KRB-ERROR the function returns error "+errS
				}
				if !onDecoded && errS != "nil" {
					good, detail = false, "when the bytes are not a KRB-ERROR the function returns error "+errS
				}
			}
		}
		c.Decide(good, "C09.krberror", FuncKey(fn), "decoded-error-is-returned", w.Pos(fn.Pos()), "bytes that decode as a KRB-ERROR are returned as that KRBError (as the error), anything else with a nil error", detail)
	}
	for _, fk := range []string{"client.(*Client).sendKDCTCP", "client.(*Client).sendKDCUDP"} {
		fn := w.Func(fk)
		if fn == nil {
			c.Missing("C09.krberror", fk)
			continue
		}
		fa := NewFuncAn(w, fn)
		n := 0
		for _, x := range fa.SuccessExits(BoolErrSuccess(-1, 1)) {
			rs := RetResults(x.Ret)
			n++
			a, b := fa.R.R(rs[0]), fa.R.R(rs[1])
			c.Decide(strings.HasPrefix(a, "client.checkForKRBError(") && strings.HasSuffix(a, "#0") && strings.HasSuffix(b, "#1"), "C09.krberror", fk, "forwards-check", w.Pos(InstrPos(x.Ret)),
				"a received reply is returned through checkForKRBError (bytes and error forwarded)", "returns "+trunc(a, 80)+" , "+trunc(b, 80))
		}
		if n == 0 {
			c.Fail("C09.krberror", fk, "forwards-check", w.Pos(fn.Pos()), "a received reply is returned through checkForKRBError", "no success exit")
		}
	}
	// arms of the exchanges: the error returned wraps the KRBError received
	for _, fk := range []string{"client.(*Client).ASExchange", "client.(*Client).TGSExchange"} {
		fn := w.Func(fk)
		if fn == nil {
			continue
		}
		fa := NewFuncAn(w, fn)
		arms := 0
		for _, x := range fa.Exits() {
			// exits reached on the `ok` edge of a KRBError type assertion of a sendToKDC error: the
			// nearest such assertion decides (identity, the two sends render identically)
			isArm := false
			var ta *ssa.TypeAssert
			fs := fa.factsOn(x.In)
			for _, f := range fs {
				if f.c.Kind != "bool" {
					continue
				}
				ex, ok := stripNot(f.c.If.Cond).(*ssa.Extract)
				if !ok || ex.Index != 1 {
					continue
				}
				t, ok := ex.Tuple.(*ssa.TypeAssert)
				if !ok || !strings.HasSuffix(t.AssertedType.String(), "messages.KRBError") || !strings.HasPrefix(fa.R.R(t.X), "client.(*Client).sendToKDC(") {
					continue
				}
				if f.holds {
					isArm, ta = true, t
				}
				break
			}
			// only returns decided by the KRB-ERROR itself (its presence, its code, the referral
			// count), not returns caused by another operation failing while handling it
			if isArm && len(fs) > 0 {
				first := fs[0].c
				about := condAbout(first.If.Cond, ta)
				if !about && !strings.Contains(first.L+first.R, "referral") {
					isArm = false
				}
			}
			if !isArm || forwardsSelf(fa, x.Ret) {
				continue
			}
			rs := RetResults(x.Ret)
			es := fa.R.R(rs[len(rs)-1])
			if es == "nil" || !strings.HasPrefix(es, "krberror.Errorf(") && !strings.Contains(es, "KRBError") {
				// a success exit after a pre-auth retry is not an arm return
				if !fa.knownNonNilErr(rs[len(rs)-1], x.In) {
					continue
				}
			}
			arms++
			// identity, not spelling: the error wrapped must be the one whose assertion selected this arm
			// (two sends of one function render identically)
			good := false
			if ta != nil {
				errV := rs[len(rs)-1]
				if mi, ok := errV.(*ssa.MakeInterface); ok {
					errV = mi.X
				}
				var cause ssa.Value
				if call, ok := errV.(*ssa.Call); ok && strings.HasPrefix(fa.CalleeName(call), "krberror.Errorf") && len(call.Call.Args) > 0 {
					cause = call.Call.Args[0]
				} else if call, ok := errV.(*ssa.Call); ok && wrappedCause(call, 0) != nil {
					cause = wrappedCause(call, 0) // wrapped inside a helper introduced later
				} else {
					cause = errV // returned as itself
				}
				if mi, ok := cause.(*ssa.MakeInterface); ok {
					cause = mi.X
				}
				good = cause == ta.X || derivesFrom(cause, errExtractTA(ta, 0))
			}
			c.Decide(good, "C09.krberror", fk, "arm:"+fa.exitLabel(x), w.Pos(InstrPos(x.Ret)), "the KRB-ERROR that selected this branch is what is returned to the caller, wrapped as the cause (first argument of krberror.Errorf) or as itself", "returns "+trunc(es, 200)+" — the wrapped cause is not the error value this branch asserted (an earlier reply's error?)")
		}
		if arms == 0 {
			c.Fail("C09.krberror", fk, "arms", w.Pos(fn.Pos()), "the exchange has a branch for KRB-ERROR replies", "none found")
		}
	}
	for fk, mt := range map[string]string{"messages.(*ASRep).Unmarshal": "11", "messages.(*TGSRep).Unmarshal": "13"} {
		checkGuards(w, c, "C09.krberror", fk, BoolErrSuccess(-1, 0), []GuardSpec{
			{Name: "msg-type", Desc: "a reply whose message type is not " + mt + " is rejected", Main: []GuardPat{EqPass(mt, `.*\.MsgType`)}},
		})
	}
	ruleEqualityHelpers(w, c, "C09.equal")
	_ = fmt.Sprint
	ruleFalseHasError(w, c, "C09.faithful", "messages.(*ASRep).Verify", "messages.(*TGSRep).Verify")
}

// condAbout: the branch condition tests the asserted KRBError itself — the assertion's ok, or a
// comparison one of whose operands reads the asserted value.
func condAbout(cond ssa.Value, ta *ssa.TypeAssert) bool {
	cond = stripNot(cond)
	if ex, ok := cond.(*ssa.Extract); ok {
		return ex.Tuple == ta
	}
	if b, ok := cond.(*ssa.BinOp); ok {
		e0 := errExtractTA(ta, 0)
		return e0 != nil && (derivesFrom(b.X, e0) || derivesFrom(b.Y, e0))
	}
	return false
}

// wrappedCause: call is a call of a new helper (see newHelper) every return of which is
// krberror.Errorf(p, …) (or p itself) for one and the same parameter p: returns the argument passed
// for p. nil otherwise.
func wrappedCause(call *ssa.Call, depth int) ssa.Value {
	g := call.Call.StaticCallee()
	if g == nil || !newHelper(g) || depth > 2 || g.Signature.Results().Len() != 1 {
		return nil
	}
	var param *ssa.Parameter
	n := 0
	for _, b := range g.Blocks {
		ret, ok := lastInstr(b).(*ssa.Return)
		if !ok || b == g.Recover {
			continue
		}
		v := RetResults(ret)[0]
		if mi, isMI := v.(*ssa.MakeInterface); isMI {
			v = mi.X
		}
		var c ssa.Value
		if inner, isCall := v.(*ssa.Call); isCall {
			if f := inner.Call.StaticCallee(); f != nil && strings.HasPrefix(calleeName(f), "krberror.Errorf") && len(inner.Call.Args) > 0 {
				c = inner.Call.Args[0]
			} else if w := wrappedCause(inner, depth+1); w != nil {
				c = w
			}
		} else {
			c = v
		}
		if mi, isMI := c.(*ssa.MakeInterface); isMI {
			c = mi.X
		}
		p, isP := c.(*ssa.Parameter)
		if !isP || (param != nil && param != p) {
			return nil
		}
		param = p
		n++
	}
	if param == nil || n == 0 {
		return nil
	}
	for i, p := range g.Params {
		if p == param && i < len(call.Call.Args) {
			return call.Call.Args[i]
		}
	}
	return nil
}
