package main

func init() {
	addMutants(
		Mutant{"C17", "checksum-without-header", "gssapi/wrapToken.go",
			"copy(checksumMe[len(wt.Payload):], getChecksumHeader(wt.Flags, wt.SndSeqNum))", "_ = getChecksumHeader(wt.Flags, wt.SndSeqNum)", "C17.input"},
		Mutant{"C17", "header-without-seqnum", "gssapi/wrapToken.go",
			"copy(checksumMe[len(wt.Payload):], getChecksumHeader(wt.Flags, wt.SndSeqNum))", "copy(checksumMe[len(wt.Payload):], getChecksumHeader(wt.Flags, 0))", "C17.input"},
		Mutant{"C17", "mic-header-flags-zero", "gssapi/MICToken.go",
			"\theader[2] = mt.Flags\n", "\theader[2] = 0\n", "C17.layout"},
		Mutant{"C17", "accept-either-direction", "gssapi/wrapToken.go",
			"\tif !isFromAcceptor && expectFromAcceptor {\n\t\treturn errors.New(\"expected acceptor flag is not set: expecting a token from the acceptor, not the initiator\")\n\t}", "", "C17.reject"},
		Mutant{"C17", "seq-little-endian", "gssapi/wrapToken.go",
			"binary.BigEndian.PutUint64(bytes[8:16], wt.SndSeqNum)", "binary.LittleEndian.PutUint64(bytes[8:16], wt.SndSeqNum)", "C17.layout"},
		Mutant{"C17", "ec-rrc-swapped-on-read", "gssapi/wrapToken.go",
			"wt.RRC = binary.BigEndian.Uint16(b[6:8])", "wt.RRC = binary.BigEndian.Uint16(b[4:6])", "C17.layout"},
		Mutant{"C17", "usage-24-25-swapped", "gssapi/wrapToken.go",
			"if err := token.SetCheckSum(key, keyusage.GSSAPI_INITIATOR_SEAL); err != nil {", "if err := token.SetCheckSum(key, keyusage.GSSAPI_INITIATOR_SIGN); err != nil {", "C17.consts"},
		Mutant{"C17", "ec-check-removed", "gssapi/wrapToken.go",
			"if int(checksumL) > len(b)-HdrLen {", "if int(checksumL) > len(b) {", "C17.reject"},
		Mutant{"C17", "filler-unchecked-mic", "gssapi/MICToken.go",
			"if !bytes.Equal(b[3:8], fillerBytes()[:]) {", "if !bytes.Equal(b[3:4], fillerBytes()[:1]) {", "C17.reject"},
		Mutant{"C17", "verify-compares-prefix", "gssapi/MICToken.go",
			"if !hmac.Equal(computed, mt.Checksum) {", "if len(mt.Checksum) == 0 || !hmac.Equal(computed[:len(mt.Checksum)], mt.Checksum) {", "C17.verify"},
		Mutant{"C17", "verify-ignores-usage", "gssapi/wrapToken.go",
			"computed, cErr := wt.computeCheckSum(key, keyUsage)\n\tif cErr != nil {\n\t\treturn false, cErr\n\t}\n\tif !hmac.Equal", "computed, cErr := wt.computeCheckSum(key, keyusage.GSSAPI_INITIATOR_SEAL)\n\tif cErr != nil {\n\t\treturn false, cErr\n\t}\n\tif !hmac.Equal", "C17.verify"},
		Mutant{"C17", "payload-offset-off-by-filler", "gssapi/wrapToken.go",
			"wt.Payload = b[16 : len(b)-int(checksumL)]", "wt.Payload = b[15 : len(b)-int(checksumL)]", "C17.layout"},
		Mutant{"C17", "wrap-checksum-header-carries-ec", "gssapi/wrapToken.go",
			"copy(header[0:], []byte{0x05, 0x04, flags, 0xFF, 0x00, 0x00, 0x00, 0x00})", "copy(header[0:], []byte{0x05, 0x04, flags, 0xFF, 0x00, 0x0c, 0x00, 0x00})", "C17.layout"},
		Mutant{"C17", "token-id-wrap-0405", "gssapi/wrapToken.go",
			"return &[2]byte{0x05, 0x04}", "return &[2]byte{0x04, 0x05}", "C17.layout"},
	)
}
