package main

// E6d: binary layout traces. A reader or writer of a hand-rolled format is
// abstracted to the sequence of its field operations in control-flow order
// (reverse post-order, so a block precedes its non-back-edge successors),
// each annotated with the format-version conditions that dominate it and with
// whether it sits in a loop. The trace is compared with a reference sequence
// transcribed from the format description.

import (
	"fmt"
	"regexp"
	"sort"
	"strings"

	"golang.org/x/tools/go/ssa"
)

type layTok struct {
	Op    string // U8 U16 U32 BYTES DATA TS PRINC … / W8 W16 W32 WBYTES WSTR WPRINC / DEC INC
	Arg   string // size operand for BYTES ("4", "tmp"), offset for writes
	Dst   string // destination field (reader) or source field (writer); "tmp" for locals
	Guard string // version conditions dominating the op, e.g. "v!=1"
	Loop  bool
	Pos   string
}

func (t layTok) String() string {
	s := t.Op
	if t.Arg != "" {
		s += "(" + t.Arg + ")"
	}
	if t.Dst != "" {
		s += "→" + t.Dst
	}
	if t.Guard != "" {
		s += " [" + t.Guard + "]"
	}
	if t.Loop {
		s += " *"
	}
	return s
}

func rpo(fn *ssa.Function) []*ssa.BasicBlock {
	seen := map[*ssa.BasicBlock]bool{}
	var post []*ssa.BasicBlock
	var dfs func(b *ssa.BasicBlock)
	dfs = func(b *ssa.BasicBlock) {
		seen[b] = true
		// visit successors in reverse so that the first successor (then-branch / loop body) comes first in RPO
		for i := len(b.Succs) - 1; i >= 0; i-- {
			if !seen[b.Succs[i]] {
				dfs(b.Succs[i])
			}
		}
		post = append(post, b)
	}
	if len(fn.Blocks) > 0 {
		dfs(fn.Blocks[0])
	}
	for i, j := 0, len(post)-1; i < j; i, j = i+1, j-1 {
		post[i], post[j] = post[j], post[i]
	}
	return post
}

// versionGuard summarises the dominating facts that mention the version term.
func versionGuard(fa *FuncAn, b *ssa.BasicBlock, verPat string) string {
	var parts []string
	// facts from dominating single-outcome branches
	for cur := b; cur != nil; cur = cur.Idom() {
		d := cur.Idom()
		if d == nil {
			break
		}
		iff, ok := lastInstr(d).(*ssa.If)
		if !ok {
			continue
		}
		for k, s := range d.Succs {
			if len(s.Preds) == 1 && (s == cur || s.Dominates(cur)) && d.Succs[1-k] != s {
				c := fa.CondOf(iff)
				holds := k == c.HoldsSucc
				var other string
				switch {
				case c.Kind == "eq" && fullMatch(verPat, c.L):
					other = c.R
				case c.Kind == "eq" && fullMatch(verPat, c.R):
					other = c.L
				default:
					if c.Kind == "gt" && (strings.Contains(c.L, "(len(") || strings.Contains(c.R, "(len(")) && strings.Contains(c.L+c.R, " - ") && !strings.Contains(c.L+c.R, "$") && !rejectsOnly(fa, d.Succs[1-k], s) {
						// a remaining-length test (optional trailing field)
						parts = append(parts, "remaining"+normaliseLenTest(c, holds))
					}
					continue
				}
				if holds {
					parts = append(parts, "v=="+other)
				} else {
					parts = append(parts, "v!="+other)
				}
			}
		}
	}
	sort.Strings(parts)
	return strings.Join(parts, ",")
}

// normaliseLenTest renders a "bytes remaining vs K" test on the edge taken.
func normaliseLenTest(c Cond, holds bool) string {
	// c is L > R (non-strictness is not distinguished by Cond, so the
	// complementary edge of "K > rem" is rendered as rem>=K)
	switch {
	case isConstTerm(c.L): // K > rem
		if holds {
			return "<" + c.L
		}
		return ">=" + c.L
	case isConstTerm(c.R): // rem > K
		if holds {
			return ">" + c.R
		}
		return "<=" + c.R
	}
	return "?"
}

// storeTargetOf finds the field a value is (eventually) stored into.
func storeTargetOf(fa *FuncAn, v ssa.Value, depth int) string {
	if depth > 5 || v == nil || v.Referrers() == nil {
		return ""
	}
	for _, ref := range *v.Referrers() {
		switch x := ref.(type) {
		case *ssa.Store:
			if x.Val == v {
				// an element of a variadic array: follow the array into the call it feeds (append)
				if ia, ok := x.Addr.(*ssa.IndexAddr); ok {
					if al, ok := ia.X.(*ssa.Alloc); ok && al.Referrers() != nil {
						for _, r2 := range *al.Referrers() {
							if sl, ok := r2.(*ssa.Slice); ok {
								if s := storeTargetOf(fa, sl, depth+1); s != "" {
									return s
								}
							}
						}
					}
				}
				a := fa.R.R(x.Addr)
				if strings.HasPrefix(a, "local<") && !strings.Contains(a, ".") {
					continue
				}
				// an element of a slice made here: the value lands where that slice goes
				if ia, ok := x.Addr.(*ssa.IndexAddr); ok {
					if mk, ok := ia.X.(*ssa.MakeSlice); ok {
						if s := storeTargetOf(fa, mk, depth+1); s != "" {
							return s
						}
						continue
					}
				}
				if i := strings.LastIndex(a, "."); i >= 0 {
					a = a[i+1:]
				}
				if i := strings.IndexAny(a, "[>"); i >= 0 {
					a = a[:i]
				}
				return a
			}
		case *ssa.Convert, *ssa.ChangeType, *ssa.Extract, *ssa.MakeInterface, *ssa.Phi:
			// (a phi: the value was kept in a local that is assigned on more than one path)
			if s := storeTargetOf(fa, x.(ssa.Value), depth+1); s != "" {
				return s
			}
		case *ssa.Call:
			// string(x), time.Unix(x,0), append(field, string(x))
			name := fa.CalleeName(x)
			if name == "append" && len(x.Call.Args) > 0 {
				if s := storeTargetOf(fa, x, depth+1); s != "" {
					return s
				}
			}
			if name == "time.Unix" || name == "string" {
				if s := storeTargetOf(fa, x, depth+1); s != "" {
					return s
				}
			}
		case *ssa.Slice:
			if s := storeTargetOf(fa, x, depth+1); s != "" {
				return s
			}
		case *ssa.Return:
			return "ret"
		}
	}
	return ""
}

// readerTrace extracts the reader tokens of fn. ops maps a callee regexp to a token op.
func readerTrace(fa *FuncAn, ops map[string]string, verPat string) []layTok {
	var out []layTok
	fn := fa.Fn
	for _, b := range rpo(fn) {
		inLoop := loopHeaderOf(b) != nil
		for _, in := range b.Instrs {
			switch x := in.(type) {
			case *ssa.Call:
				name := fa.CalleeName(x)
				var op string
				for pat, o := range ops {
					if fullMatch(pat, name) {
						op = o
					}
				}
				if op == "" {
					// a helper introduced later that holds part of the reader: its tokens, in place
					if g := x.Call.StaticCallee(); g != nil && newHelper(g) && fa.R.inlineDepth < 2 {
						sub := NewFuncAnCtx(fa.W, g, fa.CallArgs(x))
						sub.R.inlineDepth = fa.R.inlineDepth + 1
						outer := versionGuard(fa, b, verPat)
						// what the helper returns lands where the caller puts the helper's result
						var res ssa.Value = x
						if _, isTuple := x.Type().(interface{ Len() int }); isTuple {
							res = errExtract(x, 0)
						}
						retDst := storeTargetOf(fa, res, 0)
						if retDst == "" {
							retDst = "tmp"
						}
						for _, st := range readerTrace(sub, ops, verPat) {
							if st.Dst == "ret" {
								st.Dst = retDst
							}
							st.Loop = st.Loop || inLoop
							switch {
							case st.Guard == "":
								st.Guard = outer
							case outer != "" && !strings.Contains(st.Guard, outer):
								st.Guard = outer + "," + st.Guard
							}
							out = append(out, st)
						}
					}
					continue
				}
				t := layTok{Op: op, Guard: versionGuard(fa, b, verPat), Loop: inLoop, Pos: fa.W.Pos(InstrPos(in))}
				if op == "BYTES" && len(x.Call.Args) >= 3 {
					sz := fa.R.R(x.Call.Args[2])
					if isConstTerm(sz) {
						t.Arg = sz
					} else {
						t.Arg = "tmp"
					}
				}
				// destination
				var res ssa.Value = x
				if _, isTuple := x.Type().(interface{ Len() int }); isTuple {
					res = errExtract(x, 0)
				}
				t.Dst = storeTargetOf(fa, res, 0)
				if t.Dst == "" {
					t.Dst = "tmp"
				}
				if x.Type().String() == "error" {
					t.Dst = "" // parses into an out-parameter
				}
				out = append(out, t)
			case *ssa.BinOp:
				// lifted local counters: nc-- renders as a BinOp feeding a phi; detect (call#0 - 1) under a version guard
				if k, ok := x.Y.(*ssa.Const); ok && k.Value != nil && k.Value.ExactString() == "1" && (x.Op.String() == "-" || x.Op.String() == "+") {
					if g := versionGuard(fa, b, verPat); strings.Contains(g, "v") && !inLoop {
						dst := storeTargetOf(fa, x, 0)
						if dst == "" {
							dst = "tmp"
						}
						// the adjustment depends on the version alone: the block is entered straight from
						// the version test (a further condition — "only if the count is > 1" — is not the format)
						direct := false
						if len(b.Preds) == 1 {
							if iff, isIf := lastInstr(b.Preds[0]).(*ssa.If); isIf {
								cd := fa.CondOf(iff)
								if cd.Kind == "eq" && (fullMatch(verPat, cd.L) || fullMatch(verPat, cd.R)) {
									direct = true
								}
							}
						}
						if !direct {
							dst += "?further-condition"
						}
						out = append(out, layTok{Op: map[string]string{"-": "DEC", "+": "INC"}[x.Op.String()], Dst: dst, Guard: g, Pos: fa.W.Pos(InstrPos(in))})
					}
				}
			}
		}
	}
	return out
}

// sourceFieldOf names the field a written value comes from.
var intConvRe = regexp.MustCompile(`^u?int(?:8|16|32|64)?\((.*)\)$`)

func sourceFieldOf(s string) string {
	s = strings.TrimSpace(s)
	// a narrowing conversion on the way to the wire is not part of the field's name
	for {
		m := intConvRe.FindStringSubmatch(s)
		if m == nil {
			break
		}
		s = m[1]
	}
	if strings.HasPrefix(s, "φ(") && strings.Contains(s, "len(") && strings.Contains(s, ".Components)") {
		return "count(Components)"
	}
	isLen := strings.HasPrefix(s, "len(")
	if isLen && strings.Contains(s, "append(") {
		return "len(buffer)"
	}
	// strip wrappers
	for _, pre := range []string{"len(", "time.(Time).Unix("} {
		if strings.HasPrefix(s, pre) && strings.HasSuffix(s, ")") {
			s = s[len(pre) : len(s)-1]
		}
	}
	if i := strings.LastIndex(s, "."); i >= 0 {
		s = s[i+1:]
	}
	if isLen {
		return "len(" + s + ")"
	}
	return s
}

// writerTrace extracts the writer tokens of fn.
func writerTrace(fa *FuncAn, verPat string, extra map[string]string) []layTok {
	var out []layTok
	fn := fa.Fn
	for _, b := range rpo(fn) {
		inLoop := loopHeaderOf(b) != nil
		g := versionGuard(fa, b, verPat)
		for _, in := range b.Instrs {
			pos := fa.W.Pos(InstrPos(in))
			switch x := in.(type) {
			case *ssa.Call:
				name := fa.CalleeName(x)
				args := fa.CallArgs(x)
				switch {
				case strings.HasSuffix(name, "ByteOrder.PutUint16") && len(args) == 3:
					out = append(out, layTok{Op: "W16", Arg: sliceOffsets(args[1]), Dst: sourceFieldOf(args[2]), Guard: g, Loop: inLoop, Pos: pos})
				case strings.HasSuffix(name, "ByteOrder.PutUint32") && len(args) == 3:
					out = append(out, layTok{Op: "W32", Arg: sliceOffsets(args[1]), Dst: sourceFieldOf(args[2]), Guard: g, Loop: inLoop, Pos: pos})
				case name == "encoding/binary.Write" && len(args) == 3:
					out = append(out, layTok{Op: "WBYTES", Dst: sourceFieldOf(args[2]), Guard: g, Loop: inLoop, Pos: pos})
				default:
					for pat, op := range extra {
						if fullMatch(pat, name) {
							src := ""
							if len(args) > 0 {
								src = sourceFieldOf(args[0])
							}
							out = append(out, layTok{Op: op, Dst: src, Guard: g, Loop: inLoop, Pos: pos})
						}
					}
				}
			case *ssa.BinOp:
				if k, ok := x.Y.(*ssa.Const); ok && k.Value != nil && k.Value.ExactString() == "1" && (x.Op.String() == "-" || x.Op.String() == "+") {
					if strings.Contains(g, "v") && !inLoop {
						out = append(out, layTok{Op: map[string]string{"-": "DEC", "+": "INC"}[x.Op.String()], Dst: "tmp", Guard: g, Pos: pos})
					}
				}
			case *ssa.Store:
				// single byte store into a local buffer: t[4] = e.KVNO8
				if ia, ok := x.Addr.(*ssa.IndexAddr); ok {
					if bt, ok := x.Val.Type().Underlying().(interface{ Kind() interface{} }); ok {
						_ = bt
					}
					if x.Val.Type().String() == "uint8" || x.Val.Type().String() == "byte" {
						base := fa.R.R(ia.X)
						if strings.HasPrefix(base, "make(") || strings.HasPrefix(base, "local<") {
							v := fa.R.R(x.Val)
							if !isConstTerm(v) {
								out = append(out, layTok{Op: "W8", Arg: fa.R.R(ia.Index), Dst: sourceFieldOf(v), Guard: g, Loop: inLoop, Pos: pos})
							}
						}
					}
				}
			}
		}
	}
	return out
}

// sliceOffsets renders the [lo:hi] part of a slice operand.
func sliceOffsets(s string) string {
	i := strings.LastIndex(s, "[")
	if i < 0 || !strings.HasSuffix(s, "]") {
		return ""
	}
	off := s[i+1 : len(s)-1]
	if off == ":" || (strings.HasPrefix(off, ":") && strings.HasPrefix(s, "local<[")) {
		return "" // the whole of a fresh buffer
	}
	return off
}

func traceString(ts []layTok) string {
	var s []string
	for _, t := range ts {
		s = append(s, t.String())
	}
	return strings.Join(s, "; ")
}

// compareTrace checks a trace against the reference token strings.
// expandData: DATA→X (a counted octet string read by one helper) is U32→tmp; BYTES(tmp)→X read by
// two: the same bytes in the same order.
func expandData(ts []string) []string {
	var out []string
	for _, t := range ts {
		if strings.HasPrefix(t, "DATA→") {
			rest := strings.TrimPrefix(t, "DATA→")
			suffix := ""
			dst := rest
			if i := strings.Index(rest, " "); i >= 0 {
				dst, suffix = rest[:i], rest[i:]
			}
			out = append(out, "U32→tmp"+suffix, "BYTES(tmp)→"+dst+suffix)
			continue
		}
		out = append(out, t)
	}
	return out
}

func compareTrace(c *Check, rule, fk, where, what string, got []layTok, want []string, source string) {
	{
		var gs []string
		for _, t := range got {
			gs = append(gs, t.String())
		}
		if strings.Join(expandData(gs), "; ") == strings.Join(expandData(want), "; ") && strings.Join(gs, "; ") != strings.Join(want, "; ") {
			// same bytes, grouped differently: every reference row holds
			for i, wv := range want {
				c.Ok(rule, fk, fmt.Sprintf("%s #%d %s", what, i+1, wv), where, fmt.Sprintf("%s step %d is %s (%s)", what, i+1, wv, source))
			}
			return
		}
	}
	g := make([]string, len(got))
	for i, t := range got {
		g[i] = t.String()
	}
	n := len(want)
	if len(g) > n {
		n = len(g)
	}
	for i := 0; i < n; i++ {
		var a, b, pos string
		if i < len(g) {
			a, pos = g[i], got[i].Pos
		}
		if i < len(want) {
			b = want[i]
		}
		if pos == "" {
			pos = where
		}
		name := fmt.Sprintf("%s #%d %s", what, i+1, b)
		// a composite step named without a destination (PRINC, HEADER …) is the same step whether its
		// result is stored by the callee through a pointer or returned and stored by the caller
		if a != b && !strings.Contains(b, "→") && strings.Contains(a, "→") {
			if k := strings.Index(a, "→"); k > 0 {
				rest := a[k:]
				if sp := strings.Index(rest, " "); sp >= 0 {
					rest = rest[sp:]
				} else {
					rest = ""
				}
				if a[:k]+rest == b {
					a = b
				}
			}
		}
		if a == b {
			c.Ok(rule, fk, name, pos, fmt.Sprintf("%s step %d is %s (%s)", what, i+1, b, source))
		} else {
			c.Fail(rule, fk, name, pos, fmt.Sprintf("%s step %d is %s (%s)", what, i+1, b, source),
				fmt.Sprintf("the code does `%s` at this point; full trace: %s", a, strings.Join(g, "; ")))
			return // later steps are shifted; one report is enough
		}
	}
}

func readerOps(pkg string) map[string]string {
	p := q(pkg) + `\.`
	return map[string]string{
		p + `readInt8`: "U8", p + `readInt16`: "U16", p + `readInt32`: "U32", p + `readBytes`: "BYTES", p + `readTimestamp`: "TS",
		p + `readData`: "DATA", p + `readAddress`: "ADDR", p + `readAuthDataEntry`: "AUTHDATA", p + `parsePrincipal`: "PRINC", p + `parseHeader`: "HEADER", p + `parseCredential`: "CRED",
	}
}

func writerOps(pkg string) map[string]string {
	p := q(pkg) + `\.`
	return map[string]string{p + `marshalString`: "WSTR", p + `\(principal\)\.marshal`: "WPRINC", p + `\(entry\)\.marshal`: "WENTRY"}
}

// rejectsOnly: every path from block from (not entering block avoid) ends in a return whose last
// result is a constructed error — the branch is a rejection of malformed input, not an optional field.
func rejectsOnly(fa *FuncAn, from, avoid *ssa.BasicBlock) bool {
	seen := map[*ssa.BasicBlock]bool{from: true}
	stack := []*ssa.BasicBlock{from}
	rets := 0
	for len(stack) > 0 {
		b := stack[len(stack)-1]
		stack = stack[:len(stack)-1]
		if b == avoid {
			return false
		}
		if ret, ok := lastInstr(b).(*ssa.Return); ok {
			rs := RetResults(ret)
			if len(rs) == 0 {
				return false
			}
			last := rs[len(rs)-1]
			if c, isConst := last.(*ssa.Const); isConst && c.Value == nil {
				return false
			}
			if !errCtorRe.MatchString(fa.R.R(last)) {
				if _, isMI := last.(*ssa.MakeInterface); !isMI {
					// `if err != nil { return err }`: non-nil by the test that leads here
					nonNil := false
					if len(b.Preds) == 1 {
						for k, sx := range b.Preds[0].Succs {
							if sx == b && fa.knownNonNilErr(last, &Edge{b.Preds[0], k}) {
								nonNil = true
							}
						}
					}
					if !nonNil {
						return false
					}
				}
			}
			rets++
			continue
		}
		for _, n := range b.Succs {
			if !seen[n] {
				seen[n] = true
				stack = append(stack, n)
			}
		}
	}
	return rets > 0
}
