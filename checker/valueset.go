package main

// Value-set facts for one designated term along branch edges (E1 refinement):
// which constants the term may still equal when a block is reached. The
// universe is the set of constants the term is compared with in the function
// plus the symbol "other".

import (
	"sort"

	"golang.org/x/tools/go/ssa"
)

const vsOther = "<other>"

type valueSets struct {
	In       map[*ssa.BasicBlock]map[string]bool
	Universe []string
}

// ValueSets computes, for every block, the set of values (constants compared
// against, or "<other>") that the term matching termPat may have on entry.
// The term must not be stored to between the comparisons (callers pass terms
// that render a uniquely-assigned variable).
func (fa *FuncAn) ValueSets(termPat string) *valueSets {
	type cmp struct {
		c     Cond
		konst string
	}
	cmps := map[*ssa.BasicBlock]cmp{}
	uni := map[string]bool{vsOther: true}
	for _, c := range fa.Conds {
		if c.Kind != "eq" {
			continue
		}
		var k string
		switch {
		case fullMatch(termPat, c.L) && isConstTerm(c.R):
			k = c.R
		case fullMatch(termPat, c.R) && isConstTerm(c.L):
			k = c.L
		default:
			continue
		}
		cmps[c.If.Block()] = cmp{c, k}
		uni[k] = true
	}
	vs := &valueSets{In: map[*ssa.BasicBlock]map[string]bool{}}
	for k := range uni {
		vs.Universe = append(vs.Universe, k)
	}
	sort.Strings(vs.Universe)
	if len(fa.Fn.Blocks) == 0 {
		return vs
	}
	full := map[string]bool{}
	for k := range uni {
		full[k] = true
	}
	entry := fa.Fn.Blocks[0]
	vs.In[entry] = full
	work := []*ssa.BasicBlock{entry}
	for len(work) > 0 {
		b := work[0]
		work = work[1:]
		cur := vs.In[b]
		for k, s := range b.Succs {
			out := map[string]bool{}
			for v := range cur {
				out[v] = true
			}
			if cm, ok := cmps[b]; ok {
				if k == cm.c.HoldsSucc {
					out = map[string]bool{}
					if cur[cm.konst] {
						out[cm.konst] = true
					}
				} else {
					delete(out, cm.konst)
				}
			}
			if len(out) == 0 {
				continue // infeasible edge
			}
			old, seen := vs.In[s]
			changed := false
			if !seen {
				old = map[string]bool{}
				vs.In[s] = old
				changed = true
			}
			for v := range out {
				if !old[v] {
					old[v] = true
					changed = true
				}
			}
			if changed {
				work = append(work, s)
			}
		}
	}
	return vs
}

func isConstTerm(s string) bool {
	if s == "" {
		return false
	}
	if s == "nil" || s == "true" || s == "false" {
		return true
	}
	c := s[0]
	return c == '"' || c == '-' || (c >= '0' && c <= '9')
}

// At returns the sorted possible values at a block (nil: unreachable).
func (vs *valueSets) At(b *ssa.BasicBlock) []string {
	m, ok := vs.In[b]
	if !ok {
		return nil
	}
	var out []string
	for k := range m {
		out = append(out, k)
	}
	sort.Strings(out)
	return out
}
