package main

// C02 — replay cache: locking discipline, atomic check-then-insert, retention
// by client time, singleton, look-up key material.

import (
	"fmt"
	"go/types"
	"sort"
	"strings"

	"golang.org/x/tools/go/ssa"
)

func init() {
	register(&Property{
		ID:  "C02",
		Run: runC02,
		Explain: "Static lockset analysis (flow-sensitive must-held locks, context-sensitive through static callees) of service.Cache:  Added in the build phase: every 'not a replay' return of IsReplay has passed the insert; a client's record is deleted only under the emptiness test of its replay map." +
			"every access to the replay maps is under Cache.mux in the required mode; in the transitive body of Cache.IsReplay the membership test and every insert happen under ONE acquisition of the write lock (atomic check-then-insert — the necessary condition for rejecting concurrent presentations); " +
			"entries are evicted only by a comparison of the entry's client time with the skew (so an authenticator that would still pass the skew check is still remembered); " +
			"the cache is a once-initialised singleton reached only through GetReplayCache; the look-up key is built from client name, ctime and cusec and the verdict compares the stored service name. " +
			"Decides the locking/retention shape on all paths, not the behaviour of concrete schedules or histories.",
		NotDecided: []string{
			"the interleavings and histories themselves (runtime)",
			"two services sharing one client timestamp overwrite each other's entry (map keyed by time only): no rule that is not a frozen data-structure choice",
			"timing of the clean-up goroutine; first-caller-wins skew captured by the singleton",
		},
	})
}

type mapAccess struct {
	kind  string // read | write
	which string // entries | replayMap
	what  string
}

// replayMapTypes finds, structurally, the two map types of the replay cache.
func replayMapTypes(w *World) (cache *types.Named, entries, replay types.Type, muxName string) {
	cache = w.NamedType("service", "Cache")
	if cache == nil {
		return
	}
	st, ok := cache.Underlying().(*types.Struct)
	if !ok {
		return
	}
	for i := 0; i < st.NumFields(); i++ {
		f := st.Field(i)
		if m, ok := f.Type().Underlying().(*types.Map); ok {
			if es, ok := m.Elem().Underlying().(*types.Struct); ok {
				for j := 0; j < es.NumFields(); j++ {
					if m2, ok := es.Field(j).Type().Underlying().(*types.Map); ok {
						entries, replay = m, m2
					}
				}
			}
		}
		if strings.HasSuffix(f.Type().String(), "sync.RWMutex") || strings.HasSuffix(f.Type().String(), "sync.Mutex") {
			muxName = "service.Cache." + f.Name()
		}
	}
	return
}

func classifyMapAccess(in ssa.Instruction, entries, replay types.Type) (mapAccess, bool) {
	which := func(t types.Type) string {
		if t == nil {
			return ""
		}
		if types.Identical(t.Underlying(), entries.Underlying()) {
			return "entries"
		}
		if types.Identical(t.Underlying(), replay.Underlying()) {
			return "replayMap"
		}
		return ""
	}
	switch x := in.(type) {
	case *ssa.Lookup:
		if w := which(x.X.Type()); w != "" {
			return mapAccess{"read", w, "lookup"}, true
		}
	case *ssa.MapUpdate:
		if w := which(x.Map.Type()); w != "" {
			if _, fresh := x.Map.(*ssa.MakeMap); fresh {
				return mapAccess{}, false // building a map that is not yet published
			}
			return mapAccess{"write", w, "insert"}, true
		}
	case *ssa.Range:
		if w := which(x.X.Type()); w != "" {
			return mapAccess{"read", w, "range"}, true
		}
	case *ssa.Call:
		if b, ok := x.Call.Value.(*ssa.Builtin); ok && len(x.Call.Args) > 0 {
			if w := which(x.Call.Args[0].Type()); w != "" {
				switch b.Name() {
				case "delete":
					return mapAccess{"write", w, "delete"}, true
				case "len":
					return mapAccess{"read", w, "len"}, true
				}
			}
		}
	}
	return mapAccess{}, false
}

func runC02(w *World, c *Check) {
	c.Rule("C02.guarded", "every read of Cache.entries / a replayMap is under Cache.mux (R or W) and every insert/delete under W, in every calling context", 6)
	c.Rule("C02.atomic", "in the transitive body of Cache.IsReplay the membership look-up and every insert lie in one acquisition of Cache.mux in write mode", 2)
	c.Rule("C02.retention", "a replay entry is deleted only under a comparison of the entry's client time (cTime / map key) with the skew parameter", 1)
	c.Rule("C02.singleton", "the cache singleton is initialised only inside once.Do and IsReplay is reached only on GetReplayCache's result", 2)
	c.Rule("C02.key", "the look-up key derives from the authenticator's CName, CTime and Cusec; 'replay' is reported only when the stored service name equals the presented one", 3)

	cache, entries, replay, muxName := replayMapTypes(w)
	if cache == nil || entries == nil || replay == nil || muxName == "" {
		c.Missing("C02.guarded", "service.Cache{map of client entries with a replay map; mutex}")
		return
	}
	svc := w.SSAPkgs["service"]

	// roots: every function of package service that can be entered from
	// outside with no lock held: exported functions/methods, closures started
	// as goroutines, and functions with no static caller in the module
	called := map[*ssa.Function]bool{}
	var svcFns []*ssa.Function
	for _, fn := range w.ModuleFuncs() {
		for _, b := range fn.Blocks {
			for _, in := range b.Instrs {
				if ci, ok := in.(*ssa.Call); ok {
					if f := ci.Call.StaticCallee(); f != nil {
						called[f] = true
					}
				}
			}
		}
		if fn.Pkg == svc {
			svcFns = append(svcFns, fn)
		}
	}
	var roots []*ssa.Function
	for _, fn := range svcFns {
		exported := fn.Object() != nil && fn.Object().Exported()
		if exported || !called[fn] || fn.Parent() != nil {
			roots = append(roots, fn)
		}
	}

	// ---- rule 1: guarded-by ---------------------------------------------------
	lw := NewLockWalker(w)
	lw.Scope = func(fn *ssa.Function) bool { return fn.Pkg == svc }
	type seenKey struct {
		in  ssa.Instruction
		ctx string
	}
	reported := map[string]bool{}
	lw.Visit = func(ctx *LockCtx, in ssa.Instruction, held []Held) {
		acc, ok := classifyMapAccess(in, entries, replay)
		if !ok {
			return
		}
		mode := byte('R')
		if acc.kind == "write" {
			mode = 'W'
		}
		good := heldHas(held, muxName, mode, "")
		construct := fmt.Sprintf("%s %s in %s", acc.what, acc.which, FuncKey(ctx.Fn))
		// one obligation per (access, root context)
		k := construct + "@" + FuncKey(ctx.Root) + fmt.Sprint(good)
		if reported[k] {
			return
		}
		reported[k] = true
		need := "R or W"
		if mode == 'W' {
			need = "W"
		}
		c.Decide(good, "C02.guarded", FuncKey(ctx.Fn), construct+" via "+FuncKey(ctx.Root), w.Pos(InstrPos(in)),
			fmt.Sprintf("%s of %s must hold %s (%s)", acc.what, acc.which, muxName, need),
			fmt.Sprintf("locks held: %s; call chain: %s", heldString(held), ctx.ChainString()))
	}
	for _, r := range roots {
		lw.Walk(r)
	}
	for fn, why := range lw.Unbalanced {
		c.Note("C02.guarded", fn, "unbalanced", "-", "function returns with a different lock set than it was entered with: "+why)
	}

	// ---- rule 2: atomic check-then-insert ------------------------------------
	isReplay := w.Func("service.(*Cache).IsReplay")
	if isReplay == nil {
		c.Missing("C02.atomic", "service.(*Cache).IsReplay")
	} else {
		type ev struct {
			acc  mapAccess
			in   ssa.Instruction
			held []Held
			ctx  string
			fn   string
		}
		var evs []ev
		lw2 := NewLockWalker(w)
		lw2.Scope = lw.Scope
		lw2.Visit = func(ctx *LockCtx, in ssa.Instruction, held []Held) {
			if acc, ok := classifyMapAccess(in, entries, replay); ok {
				if (acc.what == "lookup" && acc.which == "replayMap") || acc.what == "insert" {
					evs = append(evs, ev{acc, in, append([]Held{}, held...), ctx.ChainString(), FuncKey(ctx.Fn)})
				}
			}
		}
		lw2.Walk(isReplay)
		nLookup, nInsert := 0, 0
		common := map[ssa.Instruction]bool{}
		first := true
		for _, e := range evs {
			if e.acc.what == "lookup" {
				nLookup++
			} else {
				nInsert++
			}
			sites := map[ssa.Instruction]bool{}
			for _, h := range e.held {
				if h.Name == muxName && h.Mode == 'W' {
					sites[h.Site] = true
				}
			}
			if first {
				common, first = sites, false
			} else {
				for s := range common {
					if !sites[s] {
						delete(common, s)
					}
				}
			}
		}
		where := w.Pos(isReplay.Pos())
		if nLookup == 0 || nInsert == 0 {
			c.Fail("C02.atomic", FuncKey(isReplay), "events", where, "IsReplay's transitive body contains the replay-map look-up and the insert", fmt.Sprintf("found %d look-ups and %d inserts: the atomic region cannot be anchored", nLookup, nInsert))
		} else {
			var desc []string
			for _, e := range evs {
				desc = append(desc, fmt.Sprintf("%s %s in %s at %s holding %s", e.acc.what, e.acc.which, e.fn, w.Pos(InstrPos(e.in)), heldString(e.held)))
			}
			c.Decide(len(common) > 0, "C02.atomic", FuncKey(isReplay), "check-then-insert", where,
				"look-up and insert happen under one acquisition of "+muxName+":W",
				"no single write-lock acquisition covers all of: "+strings.Join(desc, "; ")+" — two goroutines presenting the same authenticator can both pass the look-up before either inserts")
			c.Ok("C02.atomic", FuncKey(isReplay), "events", where, fmt.Sprintf("anchored on %d look-up and %d insert events", nLookup, nInsert))
		}
	}

	// ---- rule 3: retention ------------------------------------------------------
	nDel := 0
	for _, fn := range svcFns {
		fa := NewFuncAn(w, fn)
		for _, b := range fn.Blocks {
			for _, in := range b.Instrs {
				acc, ok := classifyMapAccess(in, entries, replay)
				if !ok || acc.what != "delete" || acc.which != "replayMap" {
					continue
				}
				nDel++
				call := in.(*ssa.Call)
				keyTerm := fa.R.R(call.Call.Args[1])
				// the delete must be reachable only through the "older than skew" edge
				// of a comparison  now − <entry client time> > d
				var seen []string
				for _, cd := range fa.Conds {
					seen = append(seen, cd.String())
				}
				// the comparison may be spelled in the function or in a boolean helper it calls
				// (MatchGuardSet follows helpers with their parameters as the caller's terms)
				var durs []string
				for _, p := range fa.Fn.Params {
					if p.Type().String() == "time.Duration" {
						durs = append(durs, q(fa.R.R(p)))
					}
				}
				var pass []Edge
				if len(durs) > 0 {
					pass, _ = fa.MatchGuardSet([]GuardPat{{Kind: "gt", X: P("time.(Time).Sub(", reNow, ", ", re(`(?:.*\.cTime|`+q(keyTerm)+`)`), ")"), Y: `(?:` + strings.Join(durs, "|") + `)`, PassWhen: true}}, nil)
				}
				where := w.Pos(InstrPos(in))
				if len(pass) == 0 {
					c.Fail("C02.retention", FuncKey(fn), "delete replayMap", where, "eviction compares now − entry client time with the skew parameter",
						"no such comparison guards the delete; comparisons present: "+strings.Join(seen, " ; ")+" — an entry evicted by another clock (e.g. presentation time) can be forgotten while its authenticator still passes the skew check")
					continue
				}
				path := fa.PathToInstrAvoiding(pass, in)
				c.Decide(path == nil, "C02.retention", FuncKey(fn), "delete replayMap", where, "eviction compares now − entry client time with the skew parameter",
					"delete reachable without the 'older than skew' edge: "+fa.DescribePath(path))
			}
		}
	}
	_ = nDel
	// a whole client is forgotten only once none of its entries is left: dropping it on any other
	// ground (a summary time, a size limit) forgets entries that are still inside the skew window
	for _, fn := range svcFns {
		fa := NewFuncAn(w, fn)
		for _, b := range fn.Blocks {
			for _, in := range b.Instrs {
				acc, ok := classifyMapAccess(in, entries, replay)
				if !ok || acc.what != "delete" || acc.which != "entries" {
					continue
				}
				pass, _ := fa.MatchGuardSet([]GuardPat{EqPass("0", `len\(.*\.replayMap\)`), {Kind: "gt", X: "1", Y: `len\(.*\.replayMap\)`, PassWhen: true}}, nil)
				where := w.Pos(InstrPos(in))
				if len(pass) == 0 {
					c.Fail("C02.retention", FuncKey(fn), "delete entries", where, "a client's record is deleted only when its replay map is empty", "no emptiness test of the client's replay map guards the delete")
					continue
				}
				path := fa.PathToInstrAvoiding(pass, in)
				c.Decide(path == nil, "C02.retention", FuncKey(fn), "delete entries", where, "a client's record is deleted only when its replay map is empty", "delete reachable without the 'replay map is empty' edge: "+fa.DescribePath(path))
			}
		}
	}
	// look-up and insert address the same slot: across the functions of the cache, every look-up and
	// every insert on the client map (and on the per-client replay map) computes its key from the
	// authenticator in one and the same way — a look-up under a normalised name next to an insert
	// under the raw one never finds what was recorded
	{
		keysOf := map[string]map[string]string{"entries": {}, "replayMap": {}}
		for _, fn := range svcFns {
			fa := NewFuncAn(w, fn)
			norm := func(t string) string {
				for _, p := range fn.Params {
					if strings.HasSuffix(p.Type().String(), "types.Authenticator") {
						t = renameIdents(t, map[string]string{fa.R.R(p): "A"})
					}
				}
				return t
			}
			for _, b := range fn.Blocks {
				for _, in := range b.Instrs {
					acc, ok := classifyMapAccess(in, entries, replay)
					if !ok {
						continue
					}
					var key ssa.Value
					switch x := in.(type) {
					case *ssa.Lookup:
						key = x.Index
					case *ssa.MapUpdate:
						key = x.Key
					}
					if key == nil {
						continue
					}
					t := norm(fa.R.R(key))
					if !strings.Contains(t, "A.") {
						continue // keyed by a loop variable / a value passed in: not computed from the authenticator here
					}
					keysOf[acc.which][t] = FuncKey(fn) + " at " + w.Pos(InstrPos(in))
				}
			}
		}
		for _, which := range []string{"entries", "replayMap"} {
			var forms []string
			for t, at := range keysOf[which] {
				forms = append(forms, t+" ("+at+")")
			}
			sort.Strings(forms)
			c.Decide(len(forms) == 1, "C02.atomic", "service", "one-key:"+which, "-", "every look-up and insert on the "+which+" map derives its key from the authenticator in the same way", fmt.Sprintf("%d different key computations: %s", len(forms), strings.Join(forms, " ; ")))
		}
	}
	// the janitor ages entries by the skew it was created with: ClearOldEntries receives the duration
	// parameter itself, not a quantity derived from it (a sweep period is not a maximum age)
	for _, fn := range w.ModuleFuncs() {
		if fn.Pkg == nil || relPkg(fn.Pkg.Pkg.Path()) != "service" {
			continue
		}
		fa := NewFuncAn(w, fn)
		for _, ci := range fa.Calls(`service\.\(\*Cache\)\.ClearOldEntries`) {
			args := ci.Common().Args
			if len(args) != 2 {
				continue
			}
			v := args[1]
			okArg := false
			switch x := v.(type) {
			case *ssa.Parameter:
				okArg = x.Type().String() == "time.Duration"
			case *ssa.FreeVar:
				okArg = true // captured variable: checked at the closure's creation below
				_ = x
			case *ssa.UnOp:
				if fv, isFV := x.X.(*ssa.FreeVar); isFV {
					okArg = strings.HasSuffix(fv.Type().String(), "time.Duration")
				}
			}
			if okArg && fn.Parent() != nil {
				// the captured duration is a parameter of an enclosing function
				okArg = false
				name := strings.TrimLeft(fa.R.R(v), "^")
				for anc := fn.Parent(); anc != nil; anc = anc.Parent() {
					for _, p := range anc.Params {
						if p.Type().String() == "time.Duration" && name == p.Name() {
							okArg = true
						}
					}
				}
			}
			c.Decide(okArg, "C02.retention", FuncKey(fn), "janitor-age", w.Pos(InstrPos(ci)), "clean-up is asked to drop entries older than the skew duration the cache was created for", "ClearOldEntries is called with "+fa.R.R(v)+", not the duration parameter")
		}
	}
	// accepting is recording: every path of IsReplay that answers "not a replay" has stored the
	// authenticator (otherwise the same authenticator is accepted again)
	if isReplay != nil {
		fa := NewFuncAn(w, isReplay)
		rec := map[*ssa.BasicBlock]bool{}
		for _, dc := range fa.CallsDeep(`service\.\(\*Cache\)\.addEntry`) {
			rec[dc.site.Block()] = true
		}
		for _, b := range isReplay.Blocks {
			for _, in := range b.Instrs {
				if acc, ok := classifyMapAccess(in, entries, replay); ok && acc.what == "insert" {
					rec[b] = true
				}
			}
		}
		var falseExits []Exit
		for _, x := range fa.Exits() {
			rs := RetResults(x.Ret)
			if len(rs) != 1 {
				continue
			}
			if v, known := fa.knownBool(rs[0], x.In); !known || !v {
				falseExits = append(falseExits, x)
			}
		}
		bad := ""
		for _, x := range falseExits {
			// a path from the entry to this exit that avoids every recording block
			tb := map[*ssa.BasicBlock]bool{}
			te := map[Edge]bool{}
			if x.In != nil {
				te[*x.In] = true
			} else {
				tb[x.Ret.Block()] = true
			}
			if rec[x.Ret.Block()] {
				continue // the insert precedes the return in its own block
			}
			removed := map[Edge]bool{}
			for _, b := range isReplay.Blocks {
				for k, sb := range b.Succs {
					if rec[sb] {
						removed[Edge{b, k}] = true
					}
				}
			}
			if !rec[isReplay.Blocks[0]] {
				if p := pathTo(isReplay.Blocks[0], removed, te, tb); p != nil {
					bad = fa.DescribePath(p)
				}
			}
		}
		c.Decide(len(rec) > 0 && len(falseExits) > 0 && bad == "", "C02.atomic", FuncKey(isReplay), "accept-records", w.Pos(isReplay.Pos()), "every 'not a replay' answer has recorded the authenticator", "an accepting return is reachable without the insert: "+bad)
	}

	// ---- rule 4: singleton ------------------------------------------------------
	var glob *ssa.Global
	for _, m := range svc.Members {
		if g, ok := m.(*ssa.Global); ok {
			if p, ok := g.Type().(*types.Pointer); ok && types.Identical(p.Elem(), cache) {
				glob = g
			}
		}
	}
	if glob == nil {
		c.Fail("C02.singleton", "service", "global", "-", "the replay cache is a package-level singleton", "no package-level variable of type Cache")
	} else {
		nStore := 0
		for _, fn := range svcFns {
			for _, b := range fn.Blocks {
				for _, in := range b.Instrs {
					st, ok := in.(*ssa.Store)
					if !ok {
						continue
					}
					root := st.Addr
					for {
						if fa, ok := root.(*ssa.FieldAddr); ok {
							root = fa.X
							continue
						}
						break
					}
					if root != glob {
						continue
					}
					nStore++
					// must be in a closure passed to (*sync.Once).Do
					inOnce := false
					if p := fn.Parent(); p != nil {
						for _, pb := range p.Blocks {
							for _, pin := range pb.Instrs {
								if call, ok := pin.(*ssa.Call); ok {
									if f := call.Call.StaticCallee(); f != nil && calleeName(f) == "sync.(*Once).Do" && len(call.Call.Args) == 2 {
										if mc, ok := call.Call.Args[1].(*ssa.MakeClosure); ok && mc.Fn == fn {
											inOnce = true
										}
									}
								}
							}
						}
					}
					c.Decide(inOnce, "C02.singleton", FuncKey(fn), "store "+glob.Name(), w.Pos(InstrPos(in)),
						"the singleton is (re)initialised only inside once.Do", "store to the singleton outside a once.Do closure: a second initialisation forgets every remembered authenticator")
				}
			}
		}
		if nStore == 0 {
			c.Note("C02.singleton", "service", "no-store", "-", "singleton is never assigned (zero value used)")
		}
	}
	nCalls := 0
	for _, fn := range w.ModuleFuncs() {
		if strings.HasSuffix(fn.Pkg.Pkg.Path(), "/examples") {
			continue
		}
		fa := NewFuncAn(w, fn)
		for _, ci := range fa.Calls(P("service.(*Cache).IsReplay")) {
			nCalls++
			args := fa.CallArgs(ci)
			ok := len(args) > 0 && strings.HasPrefix(args[0], "service.GetReplayCache(")
			c.Decide(ok, "C02.singleton", FuncKey(fn), "IsReplay receiver", w.Pos(InstrPos(ci)), "IsReplay is called on the GetReplayCache singleton", "receiver is "+args[0])
		}
	}

	// ---- rule 5: key material ---------------------------------------------------
	if isReplay != nil {
		lw3 := NewLockWalker(w)
		lw3.Scope = lw.Scope
		sawKey, sawName := false, false
		aP := substParams(isReplay, "@1") // the authenticator parameter
		keyTerms := map[string]string{}   // rendered key -> where
		nCT := 0
		lw3.Visit = func(ctx *LockCtx, in ssa.Instruction, held []Held) {
			where := w.Pos(InstrPos(in))
			// what is remembered in an entry: cTime must be the authenticator's client time (the map key),
			// presentedTime the service's clock
			if st, ok := in.(*ssa.Store); ok {
				if fad, ok := st.Addr.(*ssa.FieldAddr); ok {
					stt := fad.X.Type().Underlying().(*types.Pointer).Elem()
					if strings.HasSuffix(stt.String(), "service.replayCacheEntry") {
						f := stt.Underlying().(*types.Struct).Field(fad.Field).Name()
						v := ctx.FA.R.R(st.Val)
						switch f {
						case "cTime":
							nCT++
							good := strings.Contains(v, aP+".CTime") && strings.Contains(v, aP+".Cusec")
							c.Decide(good, "C02.key", FuncKey(ctx.Fn), "entry.cTime", where, "the client time remembered in an entry (by which it is later evicted) is the authenticator's CTime+Cusec", "cTime is set to "+trunc(v, 160))
						case "presentedTime":
							c.Decide(strings.Contains(v, "time.Now()"), "C02.key", FuncKey(ctx.Fn), "entry.presentedTime", where, "presentedTime is the service's clock at presentation", "presentedTime is set to "+trunc(v, 160))
						case "sName":
							c.Decide(v == substParams(isReplay, "@0"), "C02.key", FuncKey(ctx.Fn), "entry.sName", where, "the service name remembered is the one presented", "sName is set to "+trunc(v, 120))
						}
					}
				}
			}
			if mu, ok := in.(*ssa.MapUpdate); ok {
				if types.Identical(mu.Map.Type().Underlying(), replay.Underlying()) {
					k := ctx.FA.R.R(mu.Key)
					keyTerms[k] = "insert at " + where
					good := strings.Contains(k, aP+".CTime") && strings.Contains(k, aP+".Cusec")
					c.Decide(good, "C02.key", FuncKey(ctx.Fn), "replayMap insert key", where, "the key an authenticator is remembered under combines its CTime and Cusec", "key is "+k)
				}
				if types.Identical(mu.Map.Type().Underlying(), entries.Underlying()) {
					k := ctx.FA.R.R(mu.Key)
					c.Decide(strings.Contains(k, aP+".CName"), "C02.key", FuncKey(ctx.Fn), "entries insert key", where, "the per-client map is keyed by the authenticator's CName", "key is "+k)
				}
				return
			}
			lk, ok := in.(*ssa.Lookup)
			if !ok {
				return
			}
			acc, ok := classifyMapAccess(in, entries, replay)
			if !ok {
				return
			}
			idx := ctx.FA.R.R(lk.Index)
			switch acc.which {
			case "replayMap":
				sawKey = true
				keyTerms[idx] = "look-up at " + where
				good := strings.Contains(idx, aP+".CTime") && strings.Contains(idx, aP+".Cusec")
				c.Decide(good, "C02.key", FuncKey(ctx.Fn), "replayMap key", where, "the replay-map key combines the authenticator's CTime and Cusec", "key is "+idx)
			case "entries":
				sawName = true
				good := strings.Contains(idx, aP+".CName")
				c.Decide(good, "C02.key", FuncKey(ctx.Fn), "entries key", where, "the per-client map is keyed by the authenticator's CName", "key is "+idx)
			}
		}
		lw3.Walk(isReplay)
		if nCT == 0 {
			c.Fail("C02.key", FuncKey(isReplay), "entry.cTime", w.Pos(isReplay.Pos()), "an entry records the authenticator's client time", "no store to replayCacheEntry.cTime found in IsReplay's transitive body")
		}
		if len(keyTerms) > 0 {
			var ks []string
			for k, wh := range keyTerms {
				ks = append(ks, k+" ("+wh+")")
			}
			c.Decide(len(keyTerms) == 1, "C02.key", FuncKey(isReplay), "same key for look-up and insert", w.Pos(isReplay.Pos()),
				"the look-up and the insert use the same key expression (otherwise a remembered authenticator is never found)", "different key terms: "+strings.Join(ks, " vs "))
		}
		if !sawKey || !sawName {
			c.Fail("C02.key", FuncKey(isReplay), "lookups", w.Pos(isReplay.Pos()), "IsReplay looks the authenticator up by client name and client time", "look-ups not found in its transitive body")
		}
		// verdict: return true only through sName.Equal(sname)
		fa := NewFuncAn(w, isReplay)
		var trueExits []Exit
		for _, x := range fa.Exits() {
			if res := RetResults(x.Ret); len(res) == 1 {
				if v, known := fa.knownBool(res[0], x.In); !known || v {
					trueExits = append(trueExits, x)
				}
			}
		}
		pass := fa.MatchGuard(TruePass(`types\.\(PrincipalName\)\.Equal\((.*\.sName, @0|@0, .*\.sName)\)`))
		if len(pass) == 0 {
			c.Fail("C02.key", FuncKey(isReplay), "sname-compare", w.Pos(isReplay.Pos()), "'replay' is reported only when the stored service name equals the presented one", "no such comparison; conditions: "+fa.condSummary())
		} else {
			path := fa.PathAvoiding(pass, trueExits)
			c.Decide(path == nil, "C02.key", FuncKey(isReplay), "sname-compare", w.Pos(InstrPos(lastInstr(pass[0].From))),
				"'replay' is reported only when the stored service name equals the presented one", "true is returned without that comparison: "+fa.DescribePath(path))
		}
	}
}

// isDurationParam: the term is a parameter of type time.Duration of the function.
func isDurationParam(fa *FuncAn, term string) bool {
	for _, p := range fa.Fn.Params {
		if fa.R.R(p) == term && p.Type().String() == "time.Duration" {
			return true
		}
	}
	return false
}
