package main

// C19 — a PAC is accepted only with a valid server signature and is reported faithfully.

import (
	"fmt"
	"go/token"
	"strings"

	"golang.org/x/tools/go/ssa"
)

func init() {
	register(&Property{
		ID:      "C19",
		Run:     runC19,
		Explain: "(1) signature before acceptance: ProcessPACInfoBuffers returns nil only through verify's ok edge; verify returns true only after KerbValidationInfo, ServerChecksum, KDCChecksum and ClientInfo are present and VerifyChecksum(service key value, ZeroSigData, ServerChecksum.Signature, usage 17) is true on the etype GetChksumEtype selects for the declared signature type; Ticket.GetPACType looks the key up with the same (sname|override, realm, kvno, etype) as the ticket's own decryption and returns the processing error, which VerifyAPREQ rejects on (C01); (2) zeroing: ZeroSigData starts as a copy of the PAC and both the server- and the KDC-signature case overwrite exactly [Offset, Offset+Size) with the SignatureData copy whose bytes [4, 4+c) are zero (sibling agreement); (3) the signature-size table of SignatureData.Unmarshal gives, for every checksum type it lists, GetHMACBitLength()/8 of the etype GetChksumEtype maps that type to (cross-table check against the crypto reference table); (4) faithful reporting: at both sites that build ADCredentials every field is taken from the same-named member of the verified PAC's KerbValidationInfo, only on the path where PAC processing succeeded.",
		NotDecided: []string{
			"bit-level sensitivity of the HMAC (cryptographic); NDR decoding of the buffers (dependency)",
			"the KDC signature (the service holds no key for it — by design); bounds of the buffer table (C04)",
		},
	})
}

var adCredRows = map[string]string{
	"GroupMembershipSIDs": `pac\.\(\*KerbValidationInfo\)\.GetGroupMembershipSIDs\(PAC\.KerbValidationInfo\)`,
	"LogOnTime":           `github\.com/jcmturner/rpc/v2/mstypes\.\(FileTime\)\.Time\(PAC\.KerbValidationInfo\.LogOnTime\)`,
	"LogOffTime":          `github\.com/jcmturner/rpc/v2/mstypes\.\(FileTime\)\.Time\(PAC\.KerbValidationInfo\.LogOffTime\)`,
	"PasswordLastSet":     `github\.com/jcmturner/rpc/v2/mstypes\.\(FileTime\)\.Time\(PAC\.KerbValidationInfo\.PasswordLastSet\)`,
	"EffectiveName":       `PAC\.KerbValidationInfo\.EffectiveName\.Value`,
	"FullName":            `PAC\.KerbValidationInfo\.FullName\.Value`,
	"UserID":              `PAC\.KerbValidationInfo\.UserID`,
	"PrimaryGroupID":      `PAC\.KerbValidationInfo\.PrimaryGroupID`,
	"LogonServer":         `PAC\.KerbValidationInfo\.LogonServer\.Value`,
	"LogonDomainName":     `PAC\.KerbValidationInfo\.LogonDomainName\.Value`,
	"LogonDomainID":       `github\.com/jcmturner/rpc/v2/mstypes\.\(\*RPCSID\)\.String\(PAC\.KerbValidationInfo\.LogonDomainID\)`,
}

func runC19(w *World, c *Check) {
	c.Rule("C19.signature", "PAC processing succeeds only after the mandatory buffers are present and the server signature verifies over the zeroed PAC with the service's key and usage 17", 10)
	c.Rule("C19.zeroing", "the verified data is the PAC with both signature fields zeroed: exactly [Offset, Offset+Size) replaced by a copy with bytes [4, 4+c) zero, in both signature cases", 6)
	c.Rule("C19.sizes", "signature length per checksum type equals GetHMACBitLength()/8 of the etype that type selects", 5)
	c.Rule("C19.faithful", "PACType.verify never returns (false, nil): ProcessPACInfoBuffers reports verify's error when it fails", 3)
	c.Rule("C19.decode-error", "a PAC buffer that does not decode is an error: every buffer decoder returns nil only on the path on which ndr's Decode returned nil", 7)
	ruleDecodeError(w, c, "C19.decode-error")
	c.Rule("C19.dedup", "in GetGroupMembershipSIDs the already-present flag that guards an append is decided afresh for every SID: it is not carried from one SID of the list to the next", 2)
	c.Rule("C19.report", "ADCredentials fields come from the same-named members of the verified KerbValidationInfo, only when processing succeeded", 22)

	// ---- rule 1 ---------------------------------------------------------------------
	checkGuards(w, c, "C19.signature", "pac.(*PACType).ProcessPACInfoBuffers", ConstNilErrSuccess(0), []GuardSpec{
		{Name: "verified", Desc: "processing returns nil only when verify(key) is ok", Main: []GuardPat{TruePass(`pac\.\(\*PACType\)\.verify\(recv, key\)#0`)}},
	})
	present := func(f string) GuardSpec {
		return GuardSpec{Name: "has-" + f, Desc: "a PAC without " + f + " is refused", Main: []GuardPat{NePass("nil", `recv\.`+f)}}
	}
	etypeT := `crypto\.GetChksumEtype\(recv\.ServerChecksum\.SignatureType\)`
	checkGuards(w, c, "C19.signature", "pac.(*PACType).verify", BoolErrSuccess(0, 1), []GuardSpec{
		present("KerbValidationInfo"), present("ServerChecksum"), present("KDCChecksum"), present("ClientInfo"),
		{Name: "checksum-type-known", Desc: "an unknown declared checksum type is refused", Main: []GuardPat{EqPass("nil", etypeT+`#1`)}},
		{Name: "server-signature", Desc: "VerifyChecksum(key value, zeroed PAC, server signature, usage 17) on the declared type's etype must be true",
			Main: []GuardPat{TruePass(`crypto/etype\.EType\.VerifyChecksum\(` + etypeT + `#0, key\.KeyValue, recv\.ZeroSigData, recv\.ServerChecksum\.Signature, 17\)`)}},
	})
	if v, ok := w.ConstInt("iana/keyusage", "KERB_NON_KERB_CKSUM_SALT"); !ok || v != 17 {
		c.Fail("C19.signature", "iana/keyusage", "const KERB_NON_KERB_CKSUM_SALT", "-", "the PAC signature key usage is 17 (MS-PAC §2.8)", fmt.Sprintf("constant is %d", v))
	} else {
		c.Ok("C19.signature", "iana/keyusage", "const KERB_NON_KERB_CKSUM_SALT", "-", "the PAC signature key usage is 17 (MS-PAC §2.8)")
	}
	gfa, _ := checkCalls(w, c, "C19.signature", "messages.(*Ticket).GetPACType", []CallSpec{
		{Name: "service-key", Desc: "the PAC is verified with the keytab key for (sname|override, ticket realm, ticket kvno, ticket etype) — the key that decrypted the ticket", Callee: `keytab\.\(\*Keytab\)\.GetEncryptionKey`,
			Want: `keytab\.\(\*Keytab\)\.GetEncryptionKey\(keytab, \*φ\(recv\.SName\|sname\)|\*?\$L\d+, recv\.Realm, recv\.EncPart\.KVNO, recv\.EncPart\.EType\)|keytab\.\(\*Keytab\)\.GetEncryptionKey\(keytab, .*, recv\.Realm, recv\.EncPart\.KVNO, recv\.EncPart\.EType\)`},
		{Name: "process-with-that-key", Desc: "ProcessPACInfoBuffers receives that key", Callee: `pac\.\(\*PACType\)\.ProcessPACInfoBuffers`, Want: `pac\.\(\*PACType\)\.ProcessPACInfoBuffers\(.*, keytab\.\(\*Keytab\)\.GetEncryptionKey\(.*\)#0, l\)`},
	})
	if gfa != nil {
		// the processing error is what is returned together with isPAC = true
		ok := false
		for _, rs := range gfa.returnsOf() {
			if len(rs) == 3 && strings.HasPrefix(rs[2], "pac.(*PACType).ProcessPACInfoBuffers(") && (rs[0] == "true" || strings.Contains(rs[0], "true")) {
				ok = true
			}
		}
		c.Decide(ok, "C19.signature", FuncKey(gfa.Fn), "returns-processing-error", w.Pos(gfa.Fn.Pos()), "GetPACType returns (true, pac, the error of ProcessPACInfoBuffers)", "no return forwards the processing error with isPAC = true")
	}

	// ---- rule 2: zeroing -----------------------------------------------------------------
	if fn := w.Func("pac.(*PACType).Unmarshal"); fn == nil {
		c.Missing("C19.zeroing", "pac.(*PACType).Unmarshal")
	} else {
		fa := NewFuncAn(w, fn)
		// the value stored is a fresh buffer (not b itself: the zeroing must not touch Data) whose
		// placements are exactly the PAC bytes — make+copy, append to an empty slice, bytes.Clone …
		cp, st := false, false
		bname := substParams(fn, "b")
		for _, s := range fa.storesTo(`recv\.ZeroSigData`) {
			switch s.Val.(type) {
			case *ssa.MakeSlice, *ssa.Call:
			default:
				continue
			}
			ps, total := fa.BufferPlaces(s.Val)
			if fa.R.R(s.Val) != bname && len(ps) == 1 && ps[0].What == bname && ps[0].Off == "0" && total == "len("+bname+")" {
				cp, st = true, true
			}
		}
		c.Decide(cp && st, "C19.zeroing", FuncKey(fn), "starts-as-copy", w.Pos(fn.Pos()), "ZeroSigData starts as a full copy of the PAC bytes", "ZeroSigData is not make(len(b)) filled by copy(…, b)")
	}
	if fn := w.Func("pac.(*PACType).ProcessPACInfoBuffers"); fn != nil {
		fa := NewFuncAn(w, fn)
		span := `recv\.ZeroSigData\[recv\.Buffers\[\$i0\]\.Offset:\(recv\.Buffers\[\$i0\]\.Offset \+ recv\.Buffers\[\$i0\]\.CBBufferSize\)\]|recv\.ZeroSigData\[.*\.Offset:\(.*\.CBBufferSize \+ .*\.Offset\)\]|recv\.ZeroSigData\[.*\.Offset:\(.*\.Offset \+ .*\.CBBufferSize\)\]`
		n := 0
		type zc struct {
			a    []string
			site ssa.CallInstruction
			ci   ssa.CallInstruction
			in   *FuncAn
		}
		var zcs []zc
		for _, dc := range fa.CallsDeep(`copy`) {
			a := dc.fa.CallArgs(dc.ci)
			if strings.HasPrefix(a[0], "recv.ZeroSigData[") {
				zcs = append(zcs, zc{a, dc.site, dc.ci, dc.fa})
			}
		}
		for _, z := range zcs {
			a, ci := z.a, z.ci
			n++
			good := fullMatch(span, a[0]) && fullMatch(`pac\.\(\*SignatureData\)\.Unmarshal\(.*\)#0`, a[1])
			c.Decide(good, "C19.zeroing", FuncKey(fn), fmt.Sprintf("zeroed-span#%d", n), w.Pos(InstrPos(ci)), "the signature buffer's span [Offset, Offset+Size) of ZeroSigData is replaced by the zeroed copy returned by SignatureData.Unmarshal", "copy("+trunc(a[0], 120)+", "+trunc(a[1], 80)+")")
		}
		c.Decide(n == 2, "C19.zeroing", FuncKey(fn), "both-signatures-zeroed", w.Pos(fn.Pos()), "the server and the KDC signature are both zeroed in the verified data", fmt.Sprintf("%d zeroing copies found", n))
		// which case zeroes: types 6 (server) and 7 (KDC)
		tab := map[string]bool{}
		first := 0
		// facts at the place of the zeroing in this function (the call of the helper that holds the
		// copy, when it was extracted)
		for _, z := range zcs {
			seenFirst := false
			// the facts at the zeroing: at the call in this function through which it is reached and,
			// when the copy lives in a helper, at the copy inside the helper (its parameters read
			// as this function's arguments)
			type place struct {
				a   *FuncAn
				blk *ssa.BasicBlock
			}
			places := []place{{fa, z.site.Block()}}
			if z.in != nil && z.in.Fn != fa.Fn {
				places = append(places, place{z.in, z.ci.Block()})
			}
			for _, pl := range places {
				blk := pl.blk
				if len(blk.Preds) == 0 {
					continue
				}
				for _, f := range pl.a.factsOn(&Edge{blk.Preds[0], succIndex(blk.Preds[0], blk)}) {
					if f.c.Kind == "eq" && f.holds && strings.HasSuffix(f.c.R, ".ULType") {
						tab[f.c.L] = true
					}
					// only the first buffer of each signature type is zeroed (and used): a repeated buffer is
					// skipped before anything is blanked, otherwise its bytes drop out of the signed data
					if !seenFirst && f.c.Kind == "eq" && f.holds && ((f.c.L == "nil" && (f.c.R == "recv.ServerChecksum" || f.c.R == "recv.KDCChecksum")) || (f.c.R == "nil" && (f.c.L == "recv.ServerChecksum" || f.c.L == "recv.KDCChecksum"))) {
						first++
						seenFirst = true
					}
				}
			}
		}
		c.Decide(first == 2, "C19.zeroing", FuncKey(fn), "first-of-type-only", w.Pos(fn.Pos()), "each zeroing is reached only while no signature of that type has been taken yet (subsequent buffers of the type are ignored untouched)", fmt.Sprintf("%d of the zeroing copies are dominated by `recv.<Server|KDC>Checksum == nil`", first))
		c.Decide(tab["6"] && tab["7"], "C19.zeroing", FuncKey(fn), "cases-6-and-7", w.Pos(fn.Pos()), "the zeroing happens for buffer types 6 (server signature) and 7 (KDC signature) — MS-PAC §2.4", fmt.Sprintf("zeroing under buffer types %v", sortedKeys(tab)))
	}
	if fn := w.Func("pac.(*SignatureData).Unmarshal"); fn == nil {
		c.Missing("C19.zeroing", "pac.(*SignatureData).Unmarshal")
	} else {
		fa := NewFuncAn(w, fn)
		okCopy, okZero := false, false
		// the loop form of the zeroing: rb[i] = 0 for i from 4 while i < 4+c
		loopBound := ""
		{
			bc := newBoundsCtx(w, fn)
			for _, b := range fn.Blocks {
				for _, in := range b.Instrs {
					st, isSt := in.(*ssa.Store)
					if !isSt {
						continue
					}
					cst, isC := st.Val.(*ssa.Const)
					ia, isIA := st.Addr.(*ssa.IndexAddr)
					if !isC || !isIA || cst.Value == nil || cst.Value.String() != "0" {
						continue
					}
					// the range form: sig := rb[4:4+c]; for i := range sig { sig[i] = 0 }
					if m := compileRe(`^` + substParams(fn, `make\(\[\]byte, len\(b\)\)\[4:\(4 \+ (.*)\)\]`) + `$`).FindStringSubmatch(fa.R.R(ia.X)); m != nil {
						if bo, isBo := ia.Index.(*ssa.BinOp); isBo && bo.Op == token.ADD {
							phi, isPhi := bo.X.(*ssa.Phi)
							one, isOne := constInt(bo.Y)
							if isPhi && phi.Comment == "rangeindex" && isOne && one == 1 {
								if iff, isIf := lastInstr(phi.Block()).(*ssa.If); isIf {
									if cmp, isCmp := iff.Cond.(*ssa.BinOp); isCmp && cmp.Op == token.LSS && cmp.X == ssa.Value(bo) && fa.R.R(cmp.Y) == "len("+fa.R.R(ia.X)+")" && iff.Block().Succs[0] == b {
										okZero = true
										loopBound = m[1]
									}
								}
							}
						}
						continue
					}
					if !fa.M(`make\(\[\]byte, len\(b\)\)`, fa.R.R(ia.X)) {
						continue
					}
					phi, isPhi := ia.Index.(*ssa.Phi)
					if !isPhi {
						continue
					}
					startsAt4, stepsBy1 := false, false
					for _, e := range phi.Edges {
						if v, ok := constInt(e); ok && v == 4 {
							startsAt4 = true
						}
						if bo, ok := e.(*ssa.BinOp); ok && bo.Op == token.ADD && bo.X == phi {
							if v, ok := constInt(bo.Y); ok && v == 1 {
								stepsBy1 = true
							}
						}
					}
					// bounded by 4 + (signature length)
					bounded := false
					for _, f := range bc.blockFacts(b) {
						if cf, has := f.t[atom{kind: 'v', v: phi}]; has && cf == 1 && f.k == -3 && len(f.t) == 2 {
							bounded = true // i - c - 3 ≤ 0, i.e. i < 4 + c
							for a2, c2 := range f.t {
								if a2.v != ssa.Value(phi) && c2 == -1 {
									loopBound = bc.atomName(a2)
								}
							}
						}
					}
					if startsAt4 && stepsBy1 && bounded {
						okZero = true
					}
				}
			}
		}
		for _, ci := range fa.Calls(`copy`) {
			s := fa.RenderCall(ci)
			if fa.M(`copy\(make\(\[\]byte, len\(b\)\), b\)`, s) {
				okCopy = true
			}
			if fa.M(`copy\(make\(\[\]byte, len\(b\)\)\[4:\(4 \+ (\$L\d+|φ\(.*\)|.*)\)\], make\(\[\]byte, len\(b\)\)\)`, s) {
				okZero = true
			}
		}
		c.Decide(okCopy && okZero, "C19.zeroing", FuncKey(fn), "signature-bytes-zeroed", w.Pos(fn.Pos()), "the returned copy equals the buffer with bytes [4, 4+signature length) zero", "no copy(rb, b) followed by copy(rb[4:4+c], zeros)")
		// the span zeroed has the length that was read as the signature
		rd := fa.Calls(`github\.com/jcmturner/rpc/v2/mstypes\.\(\*Reader\)\.ReadBytes`)
		same := false
		if len(rd) == 1 {
			cT := fa.CallArgs(rd[0])[1]
			for _, ci := range fa.Calls(`copy`) {
				if strings.Contains(fa.RenderCall(ci), "[4:(4 + "+cT+")]") {
					same = true
				}
			}
			if loopBound != "" && loopBound == cT {
				same = true
			}
		}
		c.Decide(same, "C19.zeroing", FuncKey(fn), "zeroed-length-is-signature-length", w.Pos(fn.Pos()), "the zeroed span has the length that was read as the signature", "the zeroed span's length is not the signature length operand")

		// ---- rule 3: sizes -------------------------------------------------------------
		tab, _ := fa.caseTable(`recv\.SignatureType`)
		want := map[string]string{}
		for _, r := range etypeRefs {
			if r.Type == "Des3CbcSha1Kd" {
				continue // not a PAC signature type (MS-PAC §2.8.1)
			}
			id := r.Cells["GetHashID"]
			if id == "-138" {
				id = "4294967158" // KERB_CHECKSUM_HMAC_MD5 as the unsigned 32-bit field value
			}
			bits := 0
			fmt.Sscan(r.Cells["GetHMACBitLength"], &bits)
			want[id] = fmt.Sprint(bits / 8)
		}
		got := map[string]string{}
		for k, v := range tab {
			if k != "default" {
				got[k] = v
			}
		}
		compareTable(c, "C19.sizes", FuncKey(fn), w.Pos(fn.Pos()), "signature size", got, want, true)
	}

	// ---- rule 4: reporting ------------------------------------------------------------------
	for _, site := range []struct{ fk, pacT, okPat, errPat string }{
		{"service.VerifyAPREQ", `messages\.\(\*Ticket\)\.GetPACType\(.*\)#1`, `messages\.\(\*Ticket\)\.GetPACType\(.*\)#0`, `messages\.\(\*Ticket\)\.GetPACType\(.*\)#2`},
		{"service.(KRB5BasicAuthenticator).Authenticate", `messages\.\(\*Ticket\)\.GetPACType\(.*\)#1`, `messages\.\(\*Ticket\)\.GetPACType\(.*\)#0`, `messages\.\(\*Ticket\)\.GetPACType\(.*\)#2`},
	} {
		fn := w.Func(site.fk)
		if fn == nil {
			c.Missing("C19.report", site.fk)
			continue
		}
		fa := NewFuncAn(w, fn)
		// the structure may be filled in the function or in a helper extracted from it: the helper's
		// stores are read with its parameters as the caller's arguments, and the path conditions
		// apply to the call through which the helper is reached
		type adStore struct {
			st *ssa.Store
			in *FuncAn
		}
		got := map[string]adStore{}
		for _, sub := range fa.withNewHelpers() {
			for _, st := range sub.storesTo(`local<credentials\.ADCredentials>(#\d+)?\.\w+`) {
				a := sub.R.R(st.Addr)
				got[a[strings.LastIndex(a, ".")+1:]] = adStore{st, sub}
			}
		}
		isPAC := fa.MatchGuard(TruePass(site.okPat))
		noErr := fa.MatchGuard(EqPass("nil", site.errPat))
		for _, f := range sortedKeys(adCredRows) {
			g, has := got[f]
			where := w.Pos(fn.Pos())
			if !has {
				c.Fail("C19.report", site.fk, "ADCredentials."+f, where, "ADCredentials."+f+" is populated from the PAC", "no store to that field")
				continue
			}
			st := g.st
			where = w.Pos(InstrPos(st))
			pat := strings.ReplaceAll(adCredRows[f], "PAC", site.pacT)
			v := g.in.R.R(st.Val)
			good := fullMatch(pat, v)
			detail := "value is " + trunc(v, 160)
			var at ssa.Instruction = st
			if g.in.Via != nil {
				at = g.in.Via
			}
			if good {
				if len(isPAC) == 0 || fa.PathToInstrAvoiding(isPAC, at) != nil {
					good, detail = false, "populated on a path where no PAC was found"
				} else if len(noErr) > 0 && fa.PathToInstrAvoiding(append(append([]Edge{}, noErr...), edgesComplement(fa, isPAC)...), at) != nil {
					good, detail = false, "populated on a path where PAC processing failed"
				}
			}
			c.Decide(good, "C19.report", site.fk, "ADCredentials."+f, where, "ADCredentials."+f+" is the same-named attribute of the verified PAC's KerbValidationInfo", detail)
		}
		for f := range got {
			if _, ok := adCredRows[f]; !ok {
				c.Fail("C19.report", site.fk, "ADCredentials."+f, w.Pos(InstrPos(got[f].st)), "every populated ADCredentials field has a reference row", "field "+f+" is populated but unknown to the table")
			}
		}
	}
	ruleFalseHasError(w, c, "C19.faithful", "pac.(*PACType).verify")
	rulePerItemFlag(w, c, "C19.dedup", "pac.(*KerbValidationInfo).GetGroupMembershipSIDs")
}

func succIndex(from, to *ssa.BasicBlock) int {
	for k, s := range from.Succs {
		if s == to {
			return k
		}
	}
	return 0
}

// edgesComplement returns the other out-edge of each edge's branch.
func edgesComplement(fa *FuncAn, es []Edge) []Edge {
	var out []Edge
	for _, e := range es {
		out = append(out, Edge{e.From, 1 - e.Succ})
	}
	return out
}

// rulePerItemFlag: in a loop that appends an item unless a flag says it is already present, the
// flag belongs to the item: no phi of the flag's web may sit at the header of the loop that
// contains the append (that would carry the previous item's verdict into the next one — every
// item after the first duplicate is dropped).
func rulePerItemFlag(w *World, c *Check, rule, fk string) {
	fn := w.Func(fk)
	if fn == nil {
		c.Missing(rule, fk)
		return
	}
	fa := NewFuncAn(w, fn)
	n := 0
	for _, b := range fn.Blocks {
		iff, ok := lastInstr(b).(*ssa.If)
		if !ok {
			continue
		}
		cond := stripNot(iff.Cond)
		if _, isPhi := cond.(*ssa.Phi); !isPhi {
			continue
		}
		// one successor appends to a slice
		appends := false
		var ap ssa.Instruction
		for _, sb := range b.Succs {
			if len(sb.Preds) != 1 {
				continue
			}
			for _, in := range sb.Instrs {
				if call, isCall := in.(*ssa.Call); isCall {
					if bi, isB := call.Call.Value.(*ssa.Builtin); isB && bi.Name() == "append" {
						appends = true
						ap = in
					}
				}
			}
		}
		if !appends {
			continue
		}
		outer := loopHeaderOf(ap.Block())
		if outer == nil {
			continue
		}
		n++
		seen := map[ssa.Value]bool{}
		carried := false
		var walk func(v ssa.Value)
		walk = func(v ssa.Value) {
			if seen[v] {
				return
			}
			seen[v] = true
			if phi, isPhi := v.(*ssa.Phi); isPhi {
				if phi.Block() == outer {
					carried = true
				}
				for _, e := range phi.Edges {
					walk(e)
				}
			}
		}
		walk(cond)
		c.Decide(!carried, rule, fk, fmt.Sprintf("flag#%d", n), w.Pos(InstrPos(iff)), "the flag guarding the append is decided afresh for every item of the loop", "the flag "+fa.R.R(cond)+" is carried around the loop that contains the append: after the first item found present, every later item is dropped")
	}
	if n == 0 {
		c.Ok(rule, fk, "no-flag", w.Pos(fn.Pos()), "no append is guarded by a loop-carried flag (membership is decided per item, e.g. by a predicate)")
	}
}

// ruleDecodeError: every function of package pac that runs the NDR decoder hands its failure on —
// no exit with a possibly-nil error is reachable from the edge on which Decode's error is non-nil.
func ruleDecodeError(w *World, c *Check, rule string) {
	const dec = `github\.com/jcmturner/rpc/v2/ndr\.\(\*Decoder\)\.Decode\(.*\)`
	for _, fn := range w.ModuleFuncs() {
		if fn.Pkg == nil || !strings.HasSuffix(fn.Pkg.Pkg.Path(), "/pac") {
			continue
		}
		fa := NewFuncAnRaw(w, fn)
		if len(fa.Calls(`github\.com/jcmturner/rpc/v2/ndr\.\(\*Decoder\)\.Decode`)) == 0 {
			continue
		}
		n := fn.Signature.Results().Len()
		if n == 0 || fn.Signature.Results().At(n-1).Type().String() != "error" {
			c.Fail(rule, FuncKey(fn), "decode-checked", w.Pos(fn.Pos()), "the decoder's error is returned", "the function has no error result")
			continue
		}
		checkGuards(w, c, rule, FuncKey(fn), BoolErrSuccess(-1, n-1), []GuardSpec{
			{Name: "decode-checked", Desc: "ndr Decode error ⇒ the function returns an error", Main: []GuardPat{EqPass("nil", dec), EqPass(dec, "nil")}},
		})
	}
}
