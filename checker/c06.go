package main

// C06 — decryption returns plaintext only for authentic ciphertexts.
// C07 — keyed checksums: type table, construction, exact-match verification.

import (
	"fmt"
	"strings"

	"golang.org/x/tools/go/ssa"
)

func init() {
	register(&Property{
		ID:      "C06",
		Run:     runC06,
		Explain: "For the four family DecryptMessage functions, crypto.DecryptMessage/DecryptEncPart, the three VerifyIntegrity functions and the 42 etype wrapper methods: every return with a nil error is dominated by the accepting edge of the etype's VerifyIntegrity and returns bytes derived from the DecryptData result of the same call, error returns carry no plaintext; VerifyIntegrity's result is a whole-slice equality (hmac.Equal / bytes.Equal / subtle) between the unsliced integrity hash and the MAC bytes of the message; key, usage and message each flow into the integrity computation; every wrapper forwards its parameters in the callee's roles; the usage octets Ke/Ki/Kc are pairwise distinct and the RC4 aliases are exactly {3→8, 9→8, 23→13}. Decides the all-paths 'integrity before plaintext' shape, not HMAC bit sensitivity. Added: the crypto packages keep no package-level state (or only a memo table whose key carries every parameter itself): results do not depend on earlier calls.",
		NotDecided: []string{
			"that a flipped bit changes an HMAC (cryptographic assumption); CTS/CBC correctness",
			"panics on truncated inputs (C04)",
		},
	})
	register(&Property{
		ID:      "C07",
		Run:     runC07,
		Explain: "The GetChksumEtype switch table against the IANA checksum registry / RFC 4757 and its agreement with each etype's GetHashID; the construction of the keyed checksum (DeriveKey with usage‖0x99, HMAC with the etype's hash, truncation to GetHMACBitLength()/8; RC4: HMAC-MD5(HMAC-MD5(key,\"signaturekey\\0\"), MD5(msgtype‖data))) as a call-sequence pattern; every VerifyChecksum implementation returns a whole-slice equality between the whole presented checksum and the whole computed value from the same key, data and usage, and false on a compute error. Equality with the RFC values is not decided. Added: the crypto packages keep no package-level state (or only a memo table whose key carries every parameter itself): results do not depend on earlier calls.",
		NotDecided: []string{
			"checksum values equal to an independent implementation's (cryptographic/numerical)",
		},
	})
}

var famOfEtype = map[string]string{
	"Des3CbcSha1Kd": "des3", "Aes128CtsHmacSha96": "sha1", "Aes256CtsHmacSha96": "sha1",
	"Aes128CtsHmacSha256128": "sha2", "Aes256CtsHmacSha384192": "sha2", "RC4HMAC": "rc4",
}

// wrapperRef: method -> expected forwarded call per family ("recv" is the etype value).
var wrapperRef = map[string]map[string]string{
	"sha1": {
		"EncryptData":     `crypto/rfc3962\.EncryptData\(key, data, recv\)`,
		"EncryptMessage":  `crypto/rfc3962\.EncryptMessage\(key, message, usage, recv\)`,
		"DecryptData":     `crypto/rfc3962\.DecryptData\(key, data, recv\)`,
		"DecryptMessage":  `crypto/rfc3962\.DecryptMessage\(key, ciphertext, usage, recv\)`,
		"DeriveKey":       `crypto/rfc3961\.DeriveKey\(protocolKey, usage, recv\)`,
		"DeriveRandom":    `crypto/rfc3961\.DeriveRandom\(protocolKey, usage, recv\)`,
		"VerifyIntegrity": `crypto/rfc3961\.VerifyIntegrity\(protocolKey, ct, pt, usage, recv\)`,
	},
	"sha2": {
		"EncryptData":     `crypto/rfc8009\.EncryptData\(key, data, recv\)`,
		"EncryptMessage":  `crypto/rfc8009\.EncryptMessage\(key, message, usage, recv\)`,
		"DecryptData":     `crypto/rfc8009\.DecryptData\(key, data, recv\)`,
		"DecryptMessage":  `crypto/rfc8009\.DecryptMessage\(key, ciphertext, usage, recv\)`,
		"DeriveKey":       `crypto/rfc8009\.DeriveKey\(protocolKey, usage, recv\)`,
		"DeriveRandom":    `crypto/rfc8009\.DeriveRandom\(protocolKey, usage, recv\)`,
		"VerifyIntegrity": `crypto/rfc8009\.VerifyIntegrity\(protocolKey, ct, usage, recv\)`,
	},
	"des3": {
		"EncryptData":     `crypto/rfc3961\.DES3EncryptData\(key, data, recv\)`,
		"EncryptMessage":  `crypto/rfc3961\.DES3EncryptMessage\(key, message, usage, recv\)`,
		"DecryptData":     `crypto/rfc3961\.DES3DecryptData\(key, data, recv\)`,
		"DecryptMessage":  `crypto/rfc3961\.DES3DecryptMessage\(key, ciphertext, usage, recv\)`,
		"DeriveKey":       `crypto\.\(Des3CbcSha1Kd\)\.DeriveRandom\(recv, protocolKey, usage\)|crypto/rfc3961\.DeriveKey\(protocolKey, usage, recv\)`,
		"DeriveRandom":    `crypto/rfc3961\.DeriveRandom\(protocolKey, usage, recv\)`,
		"VerifyIntegrity": `crypto/rfc3961\.VerifyIntegrity\(protocolKey, ct, pt, usage, recv\)`,
	},
	"rc4": {
		"EncryptData":     `crypto/rfc4757\.EncryptData\(key, data, recv\)`,
		"EncryptMessage":  `crypto/rfc4757\.EncryptMessage\(key, message, usage, false, recv\)`,
		"DecryptData":     `crypto/rfc4757\.DecryptData\(key, data, recv\)`,
		"DecryptMessage":  `crypto/rfc4757\.DecryptMessage\(key, ciphertext, usage, false, recv\)`,
		"DeriveKey":       `crypto/rfc4757\.HMAC\(protocolKey, usage\)`,
		"DeriveRandom":    `crypto/rfc3961\.DeriveRandom\(protocolKey, usage, recv\)`,
		"VerifyIntegrity": `crypto/rfc4757\.VerifyIntegrity\(protocolKey, pt, ct, recv\)`,
	},
}

func ruleWrappers(w *World, c *Check, rule string, methods []string, ref map[string]map[string]string) {
	impls, _ := etypeImpls(w)
	if impls == nil {
		c.Missing(rule, "crypto/etype.EType")
		return
	}
	for _, tn := range sortedNames(impls) {
		fam, ok := famOfEtype[tn]
		if !ok {
			c.Fail(rule, "crypto."+tn, "family", "-", "every EType implementation belongs to a known family", "unknown etype type "+tn)
			continue
		}
		for _, m := range methods {
			want, ok := ref[fam][m]
			if !ok {
				continue
			}
			f := w.MethodOf(impls[tn], m)
			fk := "crypto.(" + tn + ")." + m
			if f == nil || len(f.Blocks) == 0 {
				c.Missing(rule, fk)
				continue
			}
			fa := NewFuncAn(w, f)
			found := false
			var calls []string
			for _, b := range f.Blocks {
				for _, in := range b.Instrs {
					if ci, ok := in.(ssa.CallInstruction); ok {
						s := fa.RenderCall(ci)
						calls = append(calls, s)
						if fa.M(want, s) {
							found = true
						}
					}
				}
			}
			if !found {
				// forwarding through another module function that itself makes the expected call: its
				// body is read with its parameters as this method's arguments
				for _, b := range f.Blocks {
					for _, in := range b.Instrs {
						call, isCall := in.(*ssa.Call)
						if !isCall {
							continue
						}
						g := call.Call.StaticCallee()
						if g == nil || len(g.Blocks) == 0 || g.Pkg == nil || !inModule(g.Pkg.Pkg.Path()) || g == f {
							continue
						}
						sub := NewFuncAnCtx(w, g, fa.CallArgs(call))
						sub.R.inlineDepth = 1
						for _, gb := range g.Blocks {
							for _, gin := range gb.Instrs {
								if gci, ok := gin.(ssa.CallInstruction); ok && fa.M(want, sub.RenderCall(gci)) {
									found = true
								}
							}
						}
					}
				}
			}
			c.Decide(found, rule, fk, "forwards", w.Pos(f.Pos()), "the method forwards its parameters in the callee's roles: "+strings.ReplaceAll(want, `\`, ""), fmt.Sprintf("calls made: %v", calls))
		}
	}
}

func runC06(w *World, c *Check) {
	c.Rule("C06.verify-first", "every nil-error return of a DecryptMessage is dominated by VerifyIntegrity's accepting edge and returns bytes of the same call's DecryptData; error returns carry no plaintext", 16)
	c.Rule("C06.compare", "VerifyIntegrity returns a whole-slice equality between the unsliced computed hash and the message's MAC bytes", 3)
	c.Rule("C06.wrappers", "each etype method forwards key, data, usage and itself to the family function in the callee's roles", 42)
	c.Rule("C06.usage", "Ke/Ki/Kc octets are pairwise distinct and follow the usage number", 4)
	c.Rule("C06.flow", "the protocol key, the usage and the message bytes each flow into the integrity-hash computation of every verifier; the MAC is read from the RFC's position", 6)
	c.Rule("C06.coverage", "each decryptor splits the message into body ‖ MAC with no byte outside both: DecryptData gets everything but the trailing MAC, VerifyIntegrity the whole message", 9)
	c.Rule("C06.aliases", "the only colliding RC4 usages are 3→8, 9→8, 23→13", 5)
	c.Rule("C06.stateless", "a crypto function touches package-level state only as a memo table keyed by all of its parameters themselves (on this tree: no package-level state at all): results do not depend on earlier calls", 6)
	ruleStateless(w, c, "C06.stateless")

	type dm struct {
		fk, verify, decData string
	}
	for _, d := range []dm{
		{"crypto/rfc3961.DES3DecryptMessage", `crypto/etype\.EType\.VerifyIntegrity\(e, key, ciphertext, .*, usage\)`, `crypto/etype\.EType\.DecryptData\(.*\)`},
		{"crypto/rfc3962.DecryptMessage", `crypto/etype\.EType\.VerifyIntegrity\(e, key, ciphertext, .*, usage\)`, `crypto/etype\.EType\.DecryptData\(.*\)`},
		{"crypto/rfc8009.DecryptMessage", `crypto/etype\.EType\.VerifyIntegrity\(e, key, ciphertext, .*, usage\)`, `crypto/etype\.EType\.DecryptData\(.*\)`},
		{"crypto/rfc4757.DecryptMessage", `crypto/rfc4757\.VerifyIntegrity\(crypto/rfc4757\.HMAC\(key, crypto/rfc4757\.UsageToMSMsgType\(usage\)\), .*, data, e\)`, `crypto/rfc4757\.DecryptData\(.*\)`},
	} {
		fa, _ := checkGuards(w, c, "C06.verify-first", d.fk, BoolErrSuccess(-1, 1), []GuardSpec{
			{Name: "integrity-verified", Desc: "integrity verification failing ⇒ error, no plaintext", Main: []GuardPat{TruePass(d.verify)}},
			{Name: "decrypt-error", Desc: "DecryptData error ⇒ error", Main: []GuardPat{EqPass("nil", d.decData+`#1`)}},
		})
		if fa == nil {
			continue
		}
		for _, x := range fa.Exits() {
			rs := RetResults(x.Ret)
			if len(rs) != 2 {
				continue
			}
			pt := fa.R.R(rs[0])
			where := w.Pos(InstrPos(x.Ret))
			if BoolErrSuccess(-1, 1)(fa, x.Ret, x.In) {
				ok := fa.M(d.decData+`#0\[crypto/etype\.EType\.GetConfounderByteSize\(e\):\]`, pt)
				c.Decide(ok, "C06.verify-first", d.fk, "plaintext-provenance", where, "the plaintext returned is the DecryptData output of this call minus the confounder", "returns "+trunc(pt, 200))
			} else {
				ok := pt == "nil" || pt == "[]"
				c.Decide(ok, "C06.verify-first", d.fk, "no-plaintext-on-error@"+fa.exitLabel(x), where, "an error return carries no plaintext", "error return also returns "+trunc(pt, 200))
			}
		}
	}
	// crypto.DecryptMessage / DecryptEncPart
	fa, _ := checkGuards(w, c, "C06.verify-first", "crypto.DecryptMessage", BoolErrSuccess(-1, 1), []GuardSpec{
		{Name: "etype-known", Desc: "unknown etype ⇒ error", Main: []GuardPat{EqPass("nil", `crypto\.GetEtype\(key\.KeyType\)#1`)}},
		{Name: "decrypt-ok", Desc: "the etype's DecryptMessage(key value, ciphertext, usage) error ⇒ error",
			Main: []GuardPat{EqPass("nil", `crypto/etype\.EType\.DecryptMessage\(crypto\.GetEtype\(key\.KeyType\)#0, key\.KeyValue, ciphertext, usage\)#1`)}},
	})
	if fa != nil {
		for _, x := range fa.SuccessExits(BoolErrSuccess(-1, 1)) {
			pt := fa.R.R(RetResults(x.Ret)[0])
			c.Decide(fullMatch(`crypto/etype\.EType\.DecryptMessage\(.*\)#0`, pt), "C06.verify-first", "crypto.DecryptMessage", "plaintext-provenance", w.Pos(InstrPos(x.Ret)), "returns the etype's DecryptMessage output", "returns "+trunc(pt, 160))
		}
	}
	checkCalls(w, c, "C06.verify-first", "crypto.DecryptEncPart", []CallSpec{
		{Name: "forwards", Desc: "DecryptEncPart decrypts the Cipher field with the given key and usage", Callee: `crypto\.DecryptMessage`, Want: `crypto\.DecryptMessage\(ed\.Cipher, key, usage\)`},
	})

	ruleDecryptShape(w, c, "C06.coverage")

	// ---- rule 2: what VerifyIntegrity compares -------------------------------
	ruleWholeCompare(w, c, "C06.compare", "crypto/rfc3961.VerifyIntegrity",
		`crypto/common\.GetIntegrityHash\(.*\)#0`, `make\(\[\]byte, \(crypto/etype\.EType\.GetHMACBitLength\(etype\) / 8\)\)`)
	ruleWholeCompare(w, c, "C06.compare", "crypto/rfc8009.VerifyIntegrity",
		`crypto/common\.GetIntegrityHash\(.*\)#0`, `make\(\[\]byte, \(crypto/etype\.EType\.GetHMACBitLength\(etype\) / 8\)\)`)
	ruleWholeCompare(w, c, "C06.compare", "crypto/rfc4757.VerifyIntegrity",
		`crypto/rfc4757\.HMAC\(key, pt\)`, `data\[:\(crypto/etype\.EType\.GetHMACBitLength\(e\) / 8\)\]`)

	// ---- rule 3: wrappers --------------------------------------------------------
	ruleWrappers(w, c, "C06.wrappers", []string{"EncryptData", "EncryptMessage", "DecryptData", "DecryptMessage", "DeriveKey", "DeriveRandom", "VerifyIntegrity"}, wrapperRef)

	ruleUsageOctets(w, c, "C06.usage")
	ruleMsgType(w, c, "C06.aliases")
	ruleIntegrityOperands(w, c, "C06.flow")
}

// ruleWholeCompare: the function's boolean result is a whole-slice equality of
// the computed value (pattern a) and the presented value (pattern b).
func ruleWholeCompare(w *World, c *Check, rule, fk, aPat, bPat string) {
	fn := w.Func(fk)
	if fn == nil {
		c.Missing(rule, fk)
		return
	}
	fa := NewFuncAn(w, fn)
	eqRe := `(crypto/hmac\.Equal|bytes\.Equal|crypto/subtle\.ConstantTimeCompare)`
	n := 0
	for _, x := range fa.Exits() {
		rs := RetResults(x.Ret)
		if len(rs) != 1 {
			continue
		}
		if v, known := fa.knownBool(rs[0], x.In); known && !v {
			continue // a constant-false return is always safe
		}
		n++
		s := fa.R.R(rs[0])
		where := w.Pos(InstrPos(x.Ret))
		// the value may come back through a helper the body was moved into: every way it can be
		// true (every leaf that is not the constant false) is the whole-slice comparison
		good := true
		nLeaf := 0
		for _, leaf := range fa.LeafTerms(rs[0]) {
			if leaf == "false" {
				continue
			}
			nLeaf++
			if !(fa.M(eqRe+`\(`+aPat+`, `+bPat+`\)`, leaf) || fa.M(eqRe+`\(`+bPat+`, `+aPat+`\)`, leaf) ||
				fa.M(`\(1 == crypto/subtle\.ConstantTimeCompare\((`+aPat+`, `+bPat+`|`+bPat+`, `+aPat+`)\)\)`, leaf)) {
				good = false
			}
		}
		good = good && nLeaf > 0
		c.Decide(good, rule, fk, "result", where, "the result is hmac.Equal/bytes.Equal/subtle over the whole computed value and the whole presented value (lengths included)", "returns "+trunc(s, 300))
		if good && !strings.Contains(s, "crypto/hmac.Equal") && !strings.Contains(s, "subtle") {
			c.Note(rule, fk, "timing", where, "comparison is not constant-time (the property is about what is accepted, not timing)")
		}
	}
	if n == 0 {
		c.Fail(rule, fk, "result", w.Pos(fn.Pos()), "the function can report a match", "no return that may be true")
	}
}

// ---------------------------------------------------------------------------

var chksumWrapperRef = map[string]map[string]string{
	"sha1": {"GetChecksumHash": `crypto/common\.GetHash\(data, protocolKey, crypto/common\.GetUsageKc\(usage\), recv\)`},
	"sha2": {"GetChecksumHash": `crypto/common\.GetHash\(data, protocolKey, crypto/common\.GetUsageKc\(usage\), recv\)`},
	"des3": {"GetChecksumHash": `crypto/common\.GetHash\(data, protocolKey, crypto/common\.GetUsageKc\(usage\), recv\)`},
	"rc4":  {"GetChecksumHash": `crypto/rfc4757\.Checksum\(protocolKey, usage, data\)`},
}

func runC07(w *World, c *Check) {
	c.Rule("C07.table", "GetChksumEtype maps {12→des3, 15→aes128-sha1, 16→aes256-sha1, 19→aes128-sha2, 20→aes256-sha2, −138→rc4} and nothing else; GetChksumEtype(e.GetHashID()) is e", 13)
	c.Rule("C07.construct", "checksum = HMAC(DeriveKey(key, usage‖0x99), data) truncated to GetHMACBitLength()/8; RC4: HMAC-MD5(HMAC-MD5(key,\"signaturekey\\0\"), MD5(msgtype‖data))", 14)
	c.Rule("C07.verify", "every VerifyChecksum returns a whole-slice equality of the whole presented checksum and the whole value computed from the same key, data, usage; compute error ⇒ false", 13)
	c.Rule("C07.stateless", "a crypto function touches package-level state only as a memo table keyed by all of its parameters themselves (on this tree: no package-level state at all): results do not depend on earlier calls", 6)
	ruleStateless(w, c, "C07.stateless")

	// ---- table -------------------------------------------------------------------
	if fn := w.Func("crypto.GetChksumEtype"); fn == nil {
		c.Missing("C07.table", "crypto.GetChksumEtype")
	} else {
		fa := NewFuncAn(w, fn)
		got, _ := fa.caseTable(substParams(fn, "id"))
		want := map[string]string{"default": "nil"}
		for _, r := range etypeRefs {
			want[r.Cells["GetHashID"]] = "zero(crypto." + r.Type + ")"
		}
		compareTable(c, "C07.table", FuncKey(fn), w.Pos(fn.Pos()), "GetChksumEtype", got, want, true)
		// round trip with the code's own GetHashID
		impls, _ := etypeImpls(w)
		for _, tn := range sortedNames(impls) {
			id, f, ok := etypeParam(w, impls[tn], "GetHashID")
			if !ok || f == nil {
				c.Fail("C07.table", "crypto.("+tn+").GetHashID", "folds", "-", "GetHashID is a constant", "cannot be folded")
				continue
			}
			c.Decide(got[id] == "zero(crypto."+tn+")", "C07.table", "crypto.("+tn+").GetHashID", "round-trip", w.Pos(f.Pos()),
				fmt.Sprintf("GetChksumEtype(%s.GetHashID()=%s) is %s", tn, id, tn), "GetChksumEtype maps it to "+got[id])
		}
	}
	ruleMsgType(w, c, "C07.construct")
	ruleUsageOctets(w, c, "C07.construct")
	ruleWrappers(w, c, "C07.construct", []string{"GetChecksumHash"}, chksumWrapperRef)
	checkCalls(w, c, "C07.construct", "crypto/common.GetHash", []CallSpec{
		{Name: "derive", Desc: "the HMAC key is DeriveKey(key, usage constant) of the etype", Callee: `crypto/etype\.EType\.DeriveKey`, Want: `crypto/etype\.EType\.DeriveKey\(etype, key, usage\)`},
		{Name: "hmac-keyed", Desc: "HMAC with the etype's hash, keyed by the derived key", Callee: `crypto/hmac\.New`, Want: `crypto/hmac\.New\(crypto/etype\.EType\.GetHashFunc\(etype\), crypto/etype\.EType\.DeriveKey\(etype, key, usage\)#0\)`},
	})
	if fn := w.Func("crypto/common.GetHash"); fn != nil {
		fa := NewFuncAn(w, fn)
		// what is hashed is pt and nothing else — handed over directly or through a copy
		writes := fa.CallsDeep(`hash\.Hash\.Write`)
		okData := len(writes) == 1
		detail := fmt.Sprintf("%d Write calls", len(writes))
		for _, dc := range writes {
			args := dc.ci.Common().Args
			if len(args) != 1 {
				okData = false
				continue
			}
			ps, total := dc.fa.BufferPlaces(args[0])
			pt := substParams(fn, "pt")
			detail = "hashes " + placesString(ps) + " (length " + total + ")"
			if !(len(ps) == 1 && ps[0].What == pt && ps[0].Off == "0" && total == "len("+pt+")" && fullMatch(`crypto/hmac\.New\(.*\)`, dc.fa.R.R(dc.ci.Common().Value))) {
				okData = false
			}
		}
		c.Decide(okData, "C07.construct", FuncKey(fn), "data-written", w.Pos(fn.Pos()), "the data (pt, directly or as a copy) is what is hashed, by the keyed HMAC", detail)
		ok := false
		var got []string
		for _, rs := range fa.returnsOf() {
			got = append(got, rs[0])
			if rs[1] == "nil" && fa.M(`hash\.Hash\.Sum\(crypto/hmac\.New\(.*\), nil\)\[:\(crypto/etype\.EType\.GetHMACBitLength\(etype\) / 8\)\]`, rs[0]) {
				ok = true
			}
		}
		c.Decide(ok, "C07.construct", FuncKey(fn), "truncate", w.Pos(fn.Pos()), "the HMAC output is truncated to its first GetHMACBitLength()/8 bytes", fmt.Sprintf("returns %v", got))
	}
	checkCalls(w, c, "C07.construct", "crypto/common.GetChecksumHash", []CallSpec{
		{Name: "kc", Desc: "checksum key usage is usage‖0x99 (Kc)", Callee: `crypto/common\.GetHash`, Want: `crypto/common\.GetHash\(b, key, crypto/common\.GetUsageKc\(usage\), etype\)`},
	})
	checkCalls(w, c, "C07.construct", "crypto/common.GetIntegrityHash", []CallSpec{
		{Name: "ki", Desc: "integrity key usage is usage‖0x55 (Ki)", Callee: `crypto/common\.GetHash`, Want: `crypto/common\.GetHash\(b, key, crypto/common\.GetUsageKi\(usage\), etype\)`},
	})
	// RC4 checksum shape
	ksign := `hash\.Hash\.Sum\(crypto/hmac\.New\(func:crypto/md5\.New, key\), nil\)`
	checkCalls(w, c, "C07.construct", "crypto/rfc4757.Checksum", []CallSpec{
		{Name: "ksign-key", Desc: "Ksign = HMAC-MD5(key, …)", Callee: `crypto/hmac\.New`, Want: `crypto/hmac\.New\(func:crypto/md5\.New, key\)`},
		{Name: "ksign-label", Desc: "Ksign label is \"signaturekey\" followed by a zero octet", Callee: `hash\.Hash\.Write`, Want: `hash\.Hash\.Write\(crypto/hmac\.New\(func:crypto/md5\.New, key\), append\("signaturekey", \[0\]\)\)`},
		{Name: "msgtype", Desc: "the message type of the usage prefixes the data", Callee: `crypto/rfc4757\.UsageToMSMsgType`, Want: `crypto/rfc4757\.UsageToMSMsgType\(usage\)`},
		{Name: "md5-of-type-and-data", Desc: "MD5 is taken over msgtype‖data", Callee: `bytes\.NewReader`, Want: `bytes\.NewReader\(append\(crypto/rfc4757\.UsageToMSMsgType\(usage\), data\)\)`},
		{Name: "final-hmac-key", Desc: "the final HMAC-MD5 is keyed with Ksign", Callee: `crypto/hmac\.New`, Want: `crypto/hmac\.New\(func:crypto/md5\.New, ` + ksign + `\)`},
		{Name: "final-hmac-data", Desc: "the final HMAC-MD5 is over the MD5 digest", Callee: `hash\.Hash\.Write`, Want: `hash\.Hash\.Write\(crypto/hmac\.New\(func:crypto/md5\.New, ` + ksign + `\), hash\.Hash\.Sum\(crypto/md5\.New\(\), nil\)\)`},
	})

	// ---- exact-match verification -------------------------------------------------
	impls, _ := etypeImpls(w)
	for _, tn := range sortedNames(impls) {
		fk := "crypto.(" + tn + ").VerifyChecksum"
		f := w.MethodOf(impls[tn], "VerifyChecksum")
		if f == nil {
			c.Missing("C07.verify", fk)
			continue
		}
		// (an interface call on the receiver itself dispatches to the receiver's own method)
		computed := `(?:crypto\.\(` + tn + `\)\.GetChecksumHash\(recv, protocolKey, data, usage\)|crypto/etype\.EType\.GetChecksumHash\(recv, protocolKey, data, usage\))`
		if famOfEtype[tn] == "rc4" {
			computed = `(crypto\.\(RC4HMAC\)\.GetChecksumHash\(recv, protocolKey, data, usage\)|crypto/rfc4757\.Checksum\(protocolKey, usage, data\))`
		}
		ruleWholeCompare(w, c, "C07.verify", fk, computed+`#0`, `chksum`)
		// compute error ⇒ false (in the method, or in the helper its body was moved into)
		checkGuards(w, c, "C07.verify", fk, trueExitClass(0), []GuardSpec{
			{Name: "error-false", Desc: "a failing checksum computation yields false", Main: []GuardPat{EqPass("nil", computed+`#1`)}},
		})
	}
	ruleWholeCompare(w, c, "C07.verify", "crypto/common.VerifyChecksum", `crypto/common\.GetChecksumHash\(msg, key, usage, etype\)#0`, `chksum`)
}
