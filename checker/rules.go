package main

// Generic rule runners shared by the property files.

import (
	"fmt"
	"go/token"
	"strings"

	"golang.org/x/tools/go/ssa"
)

// re marks a raw regexp fragment in P(); plain strings are quoted.
type re string

// P builds a pattern from literal strings and re fragments.
func P(parts ...any) string {
	var sb strings.Builder
	for _, p := range parts {
		switch x := p.(type) {
		case re:
			sb.WriteString(string(x))
		case string:
			sb.WriteString(q(x))
		default:
			sb.WriteString(q(fmt.Sprint(x)))
		}
	}
	return sb.String()
}

// common fragments
const (
	reNow re = `(?:time\.\(Time\)\.UTC\(time\.Now\(\)\)|time\.Now\(\))`
	reAny re = `.*`
)

// GuardSpec is one required guard of a check-list.
type GuardSpec struct {
	Name   string
	Desc   string
	Main   []GuardPat // alternative spellings; at least one If must match
	Unless []GuardPat // edges on which the guard is legitimately not required (enabling condition false)
	// RejectForm: the guard sits in a loop body (checked once per element), so
	// instead of must-pass the rule is: from the rejecting edge no success exit
	// is reachable.
	RejectForm bool
}

// checkGuards verifies that every success exit of fn is reachable only through
// a pass edge of each guard (or through one of its Unless edges).
// It returns the FuncAn and the pass edges found per guard name.
func checkGuards(w *World, c *Check, rule, fnKey string, cls ExitClass, specs []GuardSpec) (*FuncAn, map[string][]Edge) {
	fn := w.Func(fnKey)
	if fn == nil || len(fn.Blocks) == 0 {
		c.Missing(rule, fnKey)
		return nil, nil
	}
	fa := NewFuncAn(w, fn)
	exits := fa.SuccessExits(cls)
	where := w.Pos(fn.Pos())
	if len(exits) == 0 {
		c.Fail(rule, fnKey, "success-exit", where, "function has a success exit to guard", "no exit classified as success: the check-list cannot be anchored")
		return fa, nil
	}
	res := map[string][]Edge{}
	for _, g := range specs {
		pass, all := fa.MatchGuardSet(g.Main, g.Unless)
		// exits that hand back the results of a helper introduced later (a tail call): the guard may
		// live there — such an exit is guarded if every success exit of the helper is
		exits := exits
		if !g.RejectForm {
			var rest []Exit
			delegated := 0
			for _, x := range exits {
				if delegatedGuard(fa, x, cls, g) {
					delegated++
					continue
				}
				rest = append(rest, x)
			}
			if delegated > 0 {
				exits = rest
				if len(rest) == 0 {
					c.Ok(rule, fnKey, g.Name, where, g.Desc)
					if len(pass) > 0 {
						res[g.Name] = pass
					}
					continue
				}
			}
		}
		if len(pass) == 0 {
			if !g.RejectForm {
				if ok, _ := fa.GuardHoldsByScenario(cls, g); ok {
					c.Ok(rule, fnKey, g.Name, where, g.Desc)
					continue
				}
			}
			c.Fail(rule, fnKey, g.Name, where, g.Desc,
				"no branch in the function tests this condition (guard deleted, or it compares other operands); conditions present: "+fa.condSummary())
			continue
		}
		res[g.Name] = pass
		gw := w.Pos(InstrPos(lastInstr(pass[0].From)))
		if g.RejectForm {
			bad := ""
			for _, e := range pass {
				rej := Edge{e.From, 1 - e.Succ}
				te := map[Edge]bool{}
				tb := map[*ssa.BasicBlock]bool{}
				for _, x := range exits {
					if x.In == nil {
						tb[x.Ret.Block()] = true
					} else {
						te[*x.In] = true
					}
				}
				rm := map[Edge]bool{e: true}
				if te[rej] {
					bad = "the rejecting edge is itself a success exit"
				} else if p := pathTo(rej.To(), rm, te, tb); p != nil {
					bad = "from the rejecting edge a success exit is still reachable: " + fa.DescribePath(p)
				}
			}
			c.Decide(bad == "", rule, fnKey, g.Name, gw, g.Desc, bad)
			continue
		}
		if path := fa.PathAvoiding(all, exits); path != nil {
			if ok, _ := fa.GuardHoldsByScenario(cls, g); ok {
				c.Ok(rule, fnKey, g.Name, gw, g.Desc)
				continue
			}
			c.Fail(rule, fnKey, g.Name, gw, g.Desc,
				"a path reaches a success exit without passing the accepting edge of this guard: "+fa.DescribePath(path))
		} else {
			c.Ok(rule, fnKey, g.Name, gw, g.Desc)
		}
	}
	return fa, res
}

func (fa *FuncAn) condSummary() string {
	var s []string
	for _, c := range fa.Conds {
		s = append(s, trunc(c.String(), 160))
	}
	return strings.Join(s, " ; ")
}

// CallSpec requires that calls to Callee inside a function have a given shape.
type CallSpec struct {
	Name         string
	Desc         string
	Callee       string // regexp on callee name
	Want         string // regexp on the full rendered call
	Min          int    // minimum number of matching call sites (default 1)
	AllMustMatch bool   // every call to Callee must match Want (default: at least Min do)
}

// checkCalls verifies the shape (argument provenance) of call sites in fn.
// Returns matching call instructions per spec name.
func checkCalls(w *World, c *Check, rule, fnKey string, specs []CallSpec) (*FuncAn, map[string][]ssa.CallInstruction) {
	fn := w.Func(fnKey)
	if fn == nil || len(fn.Blocks) == 0 {
		c.Missing(rule, fnKey)
		return nil, nil
	}
	fa := NewFuncAn(w, fn)
	return fa, checkCallsFA(c, rule, fa, specs)
}

func checkCallsFA(c *Check, rule string, fa *FuncAn, specs []CallSpec) map[string][]ssa.CallInstruction {
	w := fa.W
	fnKey := FuncKey(fa.Fn)
	res := map[string][]ssa.CallInstruction{}
	for _, s := range specs {
		min := s.Min
		if min == 0 {
			min = 1
		}
		deep := fa.CallsDeep(substParams(fa.Fn, s.Callee))
		want := substParams(fa.Fn, s.Want)
		var good, sites []ssa.CallInstruction
		var bad []string
		for _, dc := range deep {
			ci := dc.ci
			sites = append(sites, ci)
			full := dc.fa.RenderCall(ci)
			if fullMatch(want, full) {
				good = append(good, ci)
				continue
			}
			// a call hoisted below the branches that used to make it separately: its arguments are
			// phis of one merge block. Each incoming edge is one of the former calls: the site
			// satisfies this spec if one edge's variant matches it, provided every variant matches
			// some spec of the same callee in this list (no edge makes an unspecified call).
			if vars := callVariants(dc.fa, ci); len(vars) > 1 {
				mine, all := false, true
				for _, v := range vars {
					if fullMatch(want, v) {
						mine = true
					}
					explained := false
					for _, s2 := range specs {
						if s2.Callee == s.Callee && fullMatch(substParams(fa.Fn, s2.Want), v) {
							explained = true
						}
					}
					if !explained {
						all = false
					}
				}
				if mine && all {
					good = append(good, ci)
					continue
				}
			}
			bad = append(bad, fmt.Sprintf("%s: %s", w.Pos(InstrPos(ci)), full))
		}
		res[s.Name] = good
		where := w.Pos(fa.Fn.Pos())
		if len(good) > 0 {
			where = w.Pos(InstrPos(good[0]))
		} else if len(sites) > 0 {
			where = w.Pos(InstrPos(sites[0]))
		}
		switch {
		case len(sites) == 0:
			c.Fail(rule, fnKey, s.Name, where, s.Desc, "no call to "+s.Callee+" in the function")
		case len(good) < min:
			c.Fail(rule, fnKey, s.Name, where, s.Desc, fmt.Sprintf("call does not have the required operands; found %s; wanted /%s/", strings.Join(bad, " | "), want))
		case s.AllMustMatch && len(bad) > 0:
			c.Fail(rule, fnKey, s.Name, where, s.Desc, fmt.Sprintf("a call site deviates: %s; wanted /%s/", strings.Join(bad, " | "), want))
		default:
			c.Ok(rule, fnKey, s.Name, where, s.Desc)
		}
	}
	return res
}

// RenderCall renders a call instruction as callee(args).
func (fa *FuncAn) RenderCall(ci ssa.CallInstruction) string {
	return fa.CalleeName(ci) + "(" + strings.Join(fa.CallArgs(ci), ", ") + ")"
}

// requireDominated: the instruction must only be reachable through one of the
// given pass-edge sets (each set is one guard; all guards are required).
func requireDominated(c *Check, rule string, fa *FuncAn, name, desc string, in ssa.Instruction, guards map[string][]Edge, needed ...string) {
	fnKey := FuncKey(fa.Fn)
	where := fa.W.Pos(InstrPos(in))
	for _, g := range needed {
		pass, ok := guards[g]
		if !ok {
			c.Fail(rule, fnKey, name+"<-"+g, where, desc, "guard "+g+" not present, so it cannot precede this event")
			continue
		}
		if path := fa.PathToInstrAvoiding(pass, in); path != nil {
			c.Fail(rule, fnKey, name+"<-"+g, where, desc, "event is reachable without passing guard "+g+": "+fa.DescribePath(path))
		} else {
			c.Ok(rule, fnKey, name+"<-"+g, where, desc)
		}
	}
}

// returnsOf lists, per return instruction, the rendered results.
func (fa *FuncAn) returnsOf() [][]string {
	var out [][]string
	for _, b := range fa.Fn.Blocks {
		if ret, ok := lastInstr(b).(*ssa.Return); ok {
			var rs []string
			for _, r := range RetResults(ret) {
				rs = append(rs, fa.R.R(r))
			}
			out = append(out, rs)
		}
	}
	return out
}

// storesTo lists stores in fn whose rendered address matches the pattern.
func (fa *FuncAn) storesTo(addrPat string) []*ssa.Store {
	var out []*ssa.Store
	pat := substParams(fa.Fn, addrPat)
	for _, b := range fa.Fn.Blocks {
		for _, in := range b.Instrs {
			if st, ok := in.(*ssa.Store); ok {
				if fullMatch(pat, fa.R.R(st.Addr)) {
					out = append(out, st)
				}
			}
		}
	}
	return out
}

var _ = token.NoPos

// trueExits: exits whose (single or indexed) boolean result may be true.
func trueExits(fa *FuncAn, idx int) []Exit {
	var out []Exit
	for _, x := range fa.Exits() {
		rs := RetResults(x.Ret)
		if idx >= len(rs) {
			continue
		}
		if v, known := fa.knownBool(rs[idx], x.In); !known || v {
			out = append(out, x)
		}
	}
	return out
}

func trueExitClass(idx int) ExitClass {
	return func(fa *FuncAn, ret *ssa.Return, in *Edge) bool {
		rs := RetResults(ret)
		if idx >= len(rs) {
			return false
		}
		v, known := fa.knownBool(rs[idx], in)
		return !known || v
	}
}

// ruleEqualityHelpers: the comparison helpers the check-lists rely on compare
// what their names say (whole names, whole address lists), on every path to true.
func ruleEqualityHelpers(w *World, c *Check, rule string) {
	c.Rule(rule, "PrincipalName.Equal, HostAddress.Equal, HostAddressesContains and HostAddressesEqual return true only for equal lengths and element-wise equal contents", 7)
	checkGuards(w, c, rule, "types.(PrincipalName).Equal", trueExitClass(0), []GuardSpec{
		{Name: "same-component-count", Desc: "names with a different number of components are not equal (no prefix matches)", Main: []GuardPat{EqPass(`len\(recv\.NameString\)`, `len\(n\.NameString\)`)}},
		{Name: "every-component", Desc: "a differing component ⇒ false", Main: []GuardPat{EqPass(`recv\.NameString\[\$i0\]`, `n\.NameString\[\$i0\]`)}, RejectForm: true},
	})
	if fn := w.Func("types.(PrincipalName).Equal"); fn != nil {
		// the loop runs over all of the receiver's components
		fa := NewFuncAn(w, fn)
		all := false
		for _, cd := range fa.Conds {
			if cd.Kind == "gt" && cd.R == "$i0" && (fa.M(`len\(recv\.NameString\)`, cd.L) || fa.M(`len\(n\.NameString\)`, cd.L)) {
				all = true
			}
		}
		c.Decide(all, rule, FuncKey(fn), "all-components", w.Pos(fn.Pos()), "the comparison loop covers every component", "the loop bound is not the component count")
	}
	hfa, _ := checkGuards(w, c, rule, "types.(*HostAddress).Equal", trueExitClass(0), []GuardSpec{
		{Name: "same-type", Desc: "addresses of different types are not equal", Main: []GuardPat{EqPass(`recv\.AddrType`, `a\.AddrType`)}},
	})
	if hfa != nil {
		ok := false
		bad := false
		for _, x := range trueExits(hfa, 0) {
			// every way the result can be true (a leaf of `t && bytes.Equal(…)` that is not false)
			for _, s := range hfa.LeafTerms(RetResults(x.Ret)[0]) {
				switch {
				case s == "false":
				case hfa.M(`bytes\.Equal\((recv\.Address, a\.Address|a\.Address, recv\.Address)\)`, s):
					ok = true
				case s != "true":
					bad = true
				}
			}
		}
		ok = ok && !bad
		c.Decide(ok, rule, FuncKey(hfa.Fn), "whole-address", w.Pos(hfa.Fn.Pos()), "equal addresses have byte-wise equal address fields (whole slices)", "the positive result is not bytes.Equal(h.Address, a.Address)")
	}
	checkGuards(w, c, rule, "types.HostAddressesContains", trueExitClass(0), []GuardSpec{
		{Name: "an-element-equals", Desc: "true only when some element equals the address", Main: []GuardPat{TruePass(`types\.\(\*HostAddress\)\.Equal\(\*?h\[\$i0\], a\)`)}},
	})
	checkGuards(w, c, rule, "types.HostAddressesEqual", trueExitClass(0), []GuardSpec{
		{Name: "same-length", Desc: "lists of different length are not equal", Main: []GuardPat{EqPass(`len\(h\)`, `len\(a\)`)}},
		{Name: "every-element-found", Desc: "an element of one list missing from the other ⇒ false", Main: []GuardPat{TruePass(`φ\(false\|true\)`), TruePass(`types\.HostAddressesContains\(h, a\[\$i0\]\)`), TruePass(`types\.HostAddressesContains\(a, h\[\$i0\]\)`)}, RejectForm: true},
	})
}

// ruleFalseHasError: a verifier returning (bool, error) whose callers report `err` when the bool is
// false (`if ok, err := v(); !ok { return err }`) must never return (false, nil): that turns a
// failed verification into success one level up. Every exit whose bool result is not known to be
// true must carry an error that is known to be non-nil on that path (a constructed error, or a
// value a dominating test found non-nil — a stale variable that a dominating test found nil is
// reported).
func ruleFalseHasError(w *World, c *Check, rule string, fnKeys ...string) {
	for _, fk := range fnKeys {
		fn := w.Func(fk)
		if fn == nil {
			c.Missing(rule, fk)
			continue
		}
		fa := NewFuncAn(w, fn)
		n := 0
		for _, x := range fa.Exits() {
			rs := RetResults(x.Ret)
			if len(rs) < 2 {
				continue
			}
			if v, known := fa.knownBool(rs[0], x.In); known && v {
				continue
			}
			n++
			ev := rs[len(rs)-1]
			ok := fa.knownNonNilErr(ev, x.In)
			if !ok {
				// returning the pair of a helper introduced later: the helper must keep the discipline
				if ex, isEx := ev.(*ssa.Extract); isEx {
					if ex0, isEx0 := rs[0].(*ssa.Extract); isEx0 && ex0.Tuple == ex.Tuple {
						if call, isCall := ex.Tuple.(*ssa.Call); isCall {
							if g := call.Call.StaticCallee(); g != nil && newHelper(g) && falseHasErrorIn(w, g, 0) {
								ok = true
							}
						}
					}
				}
			}
			if !ok {
				// returning the callee's own (bool, error) pair unchanged keeps the callee's discipline
				if ex, isEx := ev.(*ssa.Extract); isEx {
					if call, isCall := ex.Tuple.(*ssa.Call); isCall {
						if f := call.Call.StaticCallee(); f != nil && contains(fnKeys, FuncKey(f)) {
							if ex0, isEx0 := rs[0].(*ssa.Extract); isEx0 && ex0.Tuple == ex.Tuple {
								ok = true
							}
							// … or this path knows the callee said false: by the callee's own discipline
							// (checked by this rule) its error is then non-nil
							for _, ref := range *call.Referrers() {
								if b0, isB := ref.(*ssa.Extract); isB && b0.Index == 0 {
									if v, known := fa.knownBool(b0, x.In); known && !v {
										ok = true
									}
								}
							}
						}
					}
				}
			}
			c.Decide(ok, rule, fk, "false-has-error@"+fa.exitLabel(x), w.Pos(InstrPos(x.Ret)), "a return that does not report success carries a non-nil error",
				"returns ("+trunc(fa.R.R(rs[0]), 60)+", "+trunc(fa.R.R(ev), 100)+"): the error is not known to be non-nil here (a stale nil variable?) — callers that report err when !ok turn this failure into success")
		}
		if n == 0 {
			c.Fail(rule, fk, "false-has-error", w.Pos(fn.Pos()), "the verifier has failing exits", "none found")
		}
	}
}

// callVariants: when arguments of the call are (or contain, up to depth 3) phis of one merge block,
// the renderings of the call with those phis replaced by their operand on each incoming edge.
func callVariants(fa *FuncAn, ci ssa.CallInstruction) []string {
	byBlock := map[*ssa.BasicBlock][]*ssa.Phi{}
	seen := map[ssa.Value]bool{}
	var walk func(v ssa.Value, depth int)
	walk = func(v ssa.Value, depth int) {
		if v == nil || seen[v] || depth > 3 {
			return
		}
		seen[v] = true
		if phi, ok := v.(*ssa.Phi); ok {
			if phi.Comment != "rangeindex" {
				byBlock[phi.Block()] = append(byBlock[phi.Block()], phi)
			}
			return
		}
		in, ok := v.(ssa.Instruction)
		if !ok {
			return
		}
		for _, op := range in.Operands(nil) {
			if op != nil && *op != nil {
				walk(*op, depth+1)
			}
		}
	}
	c := ci.Common()
	for _, a := range c.Args {
		walk(a, 0)
	}
	var blk *ssa.BasicBlock
	for b, ps := range byBlock {
		if blk == nil || len(ps) > len(byBlock[blk]) || (len(ps) == len(byBlock[blk]) && b.Index < blk.Index) {
			blk = b
		}
	}
	if blk == nil || len(blk.Preds) < 2 || len(blk.Preds) > 6 {
		return nil
	}
	if loopHeaderOf(blk) == blk {
		return nil // loop-carried values are not alternatives of one call
	}
	var out []string
	for k := range blk.Preds {
		r := NewRenderer(fa.W, fa.Fn)
		r.subst = fa.R.subst
		r.inlineDepth = fa.R.inlineDepth
		r.phiPick = map[*ssa.Phi]int{}
		for _, p := range byBlock[blk] {
			r.phiPick[p] = k
		}
		// what the edge knows: a parameter found nil on the way is nil in this variant
		pred := blk.Preds[k]
		for _, f := range fa.factsOn(&Edge{pred, succIndex(pred, blk)}) {
			if f.c.Kind != "eq" || !f.holds || !(f.c.L == "nil" || f.c.R == "nil") {
				continue
			}
			other := f.c.L
			if other == "nil" {
				other = f.c.R
			}
			for _, p := range fa.Fn.Params {
				if fa.R.R(p) == other {
					if r.subst == nil || len(r.subst) == len(fa.R.subst) {
						ns := map[*ssa.Parameter]string{}
						for k2, v2 := range fa.R.subst {
							ns[k2] = v2
						}
						r.subst = ns
					}
					r.subst[p] = "nil"
				}
			}
		}
		sub := &FuncAn{W: fa.W, Fn: fa.Fn, R: r}
		out = append(out, sub.RenderCall(ci))
	}
	return out
}

// falseHasErrorIn: every exit of g (first result bool, last result error) that does not report
// true carries an error known to be non-nil.
func falseHasErrorIn(w *World, g *ssa.Function, depth int) bool {
	if depth > 2 || len(g.Blocks) == 0 {
		return false
	}
	ga := NewFuncAn(w, g)
	n := 0
	for _, x := range ga.Exits() {
		rs := RetResults(x.Ret)
		if len(rs) < 2 {
			return false
		}
		if v, known := ga.knownBool(rs[0], x.In); known && v {
			continue
		}
		n++
		if !ga.knownNonNilErr(rs[len(rs)-1], x.In) {
			return false
		}
	}
	return n > 0
}

// delegatedGuard: exit x returns, unchanged, the result tuple of a call of a new helper, and in that
// helper (parameters rendered as this function's arguments) the guard is present and every success
// exit passes it.
func delegatedGuard(fa *FuncAn, x Exit, cls ExitClass, g GuardSpec) bool {
	rs := RetResults(x.Ret)
	if len(rs) == 0 {
		return false
	}
	var call *ssa.Call
	for i, r := range rs {
		ex, ok := r.(*ssa.Extract)
		if !ok || ex.Index != i {
			if c0, isCall := r.(*ssa.Call); isCall && len(rs) == 1 {
				call = c0
				break
			}
			return false
		}
		cc, ok := ex.Tuple.(*ssa.Call)
		if !ok || (call != nil && cc != call) {
			return false
		}
		call = cc
	}
	if call == nil {
		return false
	}
	h := call.Call.StaticCallee()
	if h == nil || !newHelper(h) || fa.R.inlineDepth >= 2 {
		return false
	}
	ha := NewFuncAnCtx(fa.W, h, fa.CallArgs(call))
	ha.R.inlineDepth = fa.R.inlineDepth + 1
	var pats []rawPat
	for _, p := range g.Main {
		pats = append(pats, rawPat{substParams(fa.Fn, p.X), substParams(fa.Fn, p.Y), p, true})
	}
	for _, p := range g.Unless {
		pats = append(pats, rawPat{substParams(fa.Fn, p.X), substParams(fa.Fn, p.Y), p, false})
	}
	hpass, hall := ha.matchGuardsRaw(pats, 1)
	hexits := ha.SuccessExits(cls)
	if len(hpass) == 0 || len(hexits) == 0 {
		return false
	}
	return ha.PathAvoiding(hall, hexits) == nil
}
