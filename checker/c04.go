package main

// C04 — no input makes a decoder or verifier panic, hang or allocate without bound.
//
// Decided part: every instruction that can raise a run-time panic from a value
// (index, slice, make, integer division, shift by a signed count, unchecked
// type assertion, method call on a possibly nil *log.Logger) in every module
// function reachable from the frozen list of input entry points is an
// obligation, discharged by (in this order)
//   1. the Go compiler's prove pass (compile only: the bounds checks it could
//      not eliminate are listed by -d=ssa/check_bce; a site absent from the
//      list is proved by the compiler),
//   2. the linear prover of bounds.go over dominating branch facts,
//   3. the same prover at every call site of an unexported function
//      (caller-established precondition),
//   4. a frozen invariant table: arithmetic kernels whose indices depend only
//      on lengths fixed by etype constants, one line of argument each,
//   5. the known-findings file.
// Anything left is a violation naming the instruction and a call path from
// an entry point. Termination and allocation inside dependencies are declined.

import (
	"bytes"
	"fmt"
	"go/constant"
	"go/token"
	"go/types"
	"os"
	"os/exec"
	"regexp"
	"sort"
	"strconv"
	"strings"

	"golang.org/x/tools/go/callgraph"
	"golang.org/x/tools/go/ssa"
)

func init() {
	register(&Property{ID: "C04", Run: runC04,
		Explain: "Static panic-freedom obligations over the SSA of every module function reachable from the input entry points (decoders, verifiers, decryptors, parsers, reply handlers): " +
			"one obligation per index, slice, make, integer division, signed shift, unchecked type assertion and *log.Logger method call; discharged by the Go compiler's prove pass (compile only), " +
			"a linear-inequality prover over dominating branch conditions with value-numbered loads, caller-established preconditions, a frozen table of kernel invariants, or the known-findings file. " +
			"Nothing is executed.",
		NotDecided: []string{
			"termination of arbitrary loops (only the advance-or-exit shape of decoder loops is checked); halting is undecidable",
			"panics, non-termination and allocation inside dependencies (gofork asn1, rpc/v2 ndr and mstypes, aescts, the standard library): trusted boundary",
			"nil dereferences other than *log.Logger method calls (nilaway is run as a cross-reference only)",
			"stack exhaustion by recursion (C18 covers the HTTP client; the decoders do not recurse on input depth themselves — the ASN.1 decoder does and is a dependency)",
			"peak allocation as a number: only that every make() size is bounded by a constant or by a multiple of an input length",
		}})
}

// c04Entries: functions handed bytes or text from outside the process. Resolved against the
// type-checked program; the matched set is printed in the evidence and has a floor.
var c04Entries = []string{
	`\.\(\*\w+\)\.Unmarshal$`, // every decoder method
	`^spnego\.UnmarshalNegToken$`, `^spnego\.\(\*\w+\)\.Verify$`, `^spnego\.\(\*SPNEGO\)\.AcceptSecContext$`, `^spnego\.SPNEGOKRB5Authenticate`,
	`^spnego\.\(\*Client\)\.`, `^spnego\.respUnauthorizedNegotiate`, `^spnego\.setRequestSPN`,
	`^gssapi\.\(\*\w+\)\.Verify$`,
	`^messages\.\(\*\w+\)\.(Verify|DecryptEncPart|DecryptAuthenticator|Decrypt|GetPACType|Valid)$`, `^messages\.unmarshalTicket`, `^messages\.processUnmarshalReplyError$`,
	`^crypto\.(DecryptEncPart|DecryptMessage|GetKeyFromPassword|GetChksumEtype|GetEtype)$`, `^crypto\.\(\w+\)\.(DecryptMessage|DecryptData|VerifyIntegrity|VerifyChecksum|StringToKey)$`,
	`^crypto/rfc\d+\.\w*(DecryptMessage|DecryptData|VerifyIntegrity)$`, `^crypto/common\.(VerifyChecksum|PKCS7Unpad)$`,
	`^pac\.\(\*PACType\)\.(ProcessPACInfoBuffers|verify)$`, `^pac\.\(\*CredentialsInfo\)\.DecryptEncPart$`, `^pac\.\(\*KerbValidationInfo\)\.GetGroupMembershipSIDs$`,
	`^keytab\.(Load|Parse)`, `^credentials\.LoadCCache$`,
	`^config\.(Load|NewFromReader|NewFromScanner|NewFromString)$`, `^config\.\(\*Config\)\.(GetKDCs|GetKpasswdServers|ResolveRealm)$`,
	`^kadmin\.\(\*Reply\)\.(Unmarshal|Decrypt)$`,
	`^client\.checkForKRBError$`, `^client\.\(\*Client\)\.(sendToKDC|ASExchange|TGSExchange|Login|GetServiceTicket|ChangePasswd|Key|sendToKPasswd|AffirmLogin)$`, `^client\.NewFromCCache$`,
	`^service\.(VerifyAPREQ|parseBasicHeaderValue)$`, `^service\.\(\*?\w+\)\.(Authenticate|DecodePAC)$`,
	`^asn1tools\.`, `^types\.(IsFlagSet|ParseSPNString|NewPrincipalName)$`, `^types\.\(\*?\w+\)\.(GetSalt|Equal|PrincipalNameString)$`,
}

// c04Waivers: obligations that do not depend on bytes from outside the process, each one named
// construct with its argument. A waiver applies to the obligations of one function whose construct
// matches the pattern; it must match at least one obligation (a stale waiver is reported) and at
// most max (new unproven indexing in the same function is not waived).
type c04Waiver struct {
	fn      string
	pattern string // regexp over "<kind> <construct>"
	max     int
	reason  string
}

var c04Waivers = []c04Waiver{
	// --- RFC 3961 arithmetic kernels: operand lengths are fixed by etype constants -----------------
	{"crypto/rfc3961.Nfold", `^div crypto/rfc3961\.lcm\(n, .*\) / n$`, 1, "n is an etype constant (GetKeySeedBitLength/GetCypherBlockBitLength: 64, 128, 168), never 0"},
	{"crypto/rfc3961.Nfold", `^(index|slice) \$L0\[`, 1, "sumBytes holds lcm/8 bytes (lcm/k copies of the len(m)-byte rotation) and j+i*len(sum) < (lcm/n)*(n/8) = lcm/8"},
	{"crypto/rfc3961.lcm", `^div \(x \* y\) / crypto/rfc3961\.gcd\(x, y\)$`, 1, "x is the etype constant n > 0, so gcd(x, y) ≥ 1 (gcd returns x when y is 0)"},
	{"crypto/rfc3961.getBit", `^index \*?b\[\(p / 8\)\](#\d+)?$`, 1, "callers iterate p over 0 … 8·len(*b)-1 (onesComplementAddition over slices of equal length n/8, rotateRight over len(b)·8)"},
	{"crypto/rfc3961.setBit", `^index \*?b\[\(p / 8\)\](#\d+)?$`, 2, "callers pass p in 0 … 8·len(*b)-1: the loop index, or (i+step) mod bitLen"},
	{"crypto/rfc3961.onesComplementAddition", `^index make\(\[\]byte, len\(n1\)\)\[`, 1, "n1 has n/8 ≥ 8 bytes (etype constant), so the carry array is not empty"},
	{"crypto/rfc3961.DES3RandomToKey", `^slice b\[(:7|7:14|14:21)\]$`, 3, "b is the 21 byte (168 bit key seed) output of DeriveRandom or Nfold(…, 168)"},
	{"crypto/rfc3961.fixWeakKey", `^index b\[7\]`, 2, "b is the 8 byte output of stretch56Bits"},
	{"crypto/rfc3961.DES3EncryptData", `^slice make\(\[\]byte, len\(crypto/common\.ZeroPad`, 1, "data is a confounder plus message, an n-folded usage or a previous cipher block — never empty — so the zero padded copy holds at least one 8 byte block"},
	{"crypto/rfc4757.StringToKey", `^index encoding/hex\.DecodeString\(fmt\.Sprintf\("%04x"`, 1, "%04x prints at least 4 hex digits; DecodeString without error of 4 digits gives 2 bytes (5 or more digits, for runes above 0xFFFF, is an odd or longer string: error return or more bytes)"},
	{"crypto/rfc8009.DeriveKey", `^index label\[\(len\(label\) - 1\)\]$`, 1, "label is a key usage constant from common.GetUsageKe/Ki/Kc (5 bytes) or the literal \"kerberos\"/\"prf\""},
	{"crypto/rfc8009.KDF_HMAC_SHA2", `^slice hash\.Hash\.Sum\(.*\)\[:\(kl / 8\)\]$`, 1, "kl is 128, 192 or 256 chosen by DeriveKey/StringToKey from etype constants; the SHA-256/384 sum has 32/48 bytes ≥ kl/8 for the etype that uses it (checked per etype by C05's table)"},
	// --- encoders working on the library's own values ------------------------------------------------
	{"asn1tools.MarshalLengthBytes", `^div `, 3, "p is 256^k with k ≤ 7 for any l < 2^56 (l is the length of an encoded ticket sequence), never 0"},
	{"types.SetFlag", `^index f\.Bytes\[\(i / 8\)\]`, 1, "the bit string is first padded to 4 bytes and every caller passes a flag constant 0 … 31 (iana/flags)"},
	{"spnego.newAuthenticatorChksum", `^(alloc make\(\[\]byte, \(28 - len|slice \$L1\[20:24\])`, 2, "a starts with 24 bytes and only grows to 28: flags are the client's own GSS context flags"},
	{"client.setPAData", `^(index ASReq\.KDCReqFields\.PAData\[|slice ASReq\.KDCReqFields\.PAData\[:)`, 3, "the AS-REQ is the client's own request: it holds at most one PA-ENC-TIMESTAMP (this loop removes it before the new one is appended), so the shrinking slice is indexed once"},
	{"client.setPAData", `^index cl\.Config\.LibDefaults\.PreferredPreauthTypes\[0\]$`, 1, "the krb5.conf parser only stores a non-empty list (strings.Split gives ≥ 1 element, each must parse) and config.New() sets a non-empty default; only a hand-built Config can be empty"},
	{"client.(*Client).spnRealm", `^index spn\.NameString\[`, 1, "spn is built by types.NewPrincipalName from the caller's SPN string: strings.Split gives at least one component"},
	{"config.randServOrder", `^index \$L0\[`, 2, "l is kept equal to len(ks) (both are decremented together) and the loop runs while l > 0, so Intn(l) < len(ks) and len(ks) ≥ 1"},
	{"config.NewFromScanner", `^slice \$L1\[\$L0\[\$i0\]:`, 3, "sectionLineNum holds values of len(lines) recorded in increasing order while lines only grows: each start ≤ the next ≤ len(lines)"},
	{"config.parseDuration", `^index \$L0\[[01]\]$`, 2, "i gets one element per element of t (an error returns early) and len(t) is checked to be 2 or 3"},
	{"keytab.readBytes", `^slice b\[\*p:\(\*p \+ s\)\]$`, 1, "only the lower bound *p ≥ 0 is open: p starts at 0 in Unmarshal and is only advanced by non-negative amounts (the sibling readers test it, this one does not)"},
	{"pac.(*SignatureData).Unmarshal", `^(slice|index) make\(\[\]byte, len\(b\)\)\[`, 1, "mstypes.Reader.ReadBytes(c) has returned without error after Uint32(): b holds at least 4+c bytes (dependency contract: it fails unless exactly c bytes were read)"},
	{"spnego.SPNEGOKRB5Authenticate$1", `^assert context\.Context\.Value\(`, 1, "reached only when AcceptSecContext reported authed == true, in which case KRB5Token.Verify stored *credentials.Credentials under ctxCredentials in that context"},
}

// c04Assumes: documented preconditions of internal functions, stated on their parameters. Unlike a
// construct waiver, a precondition is independent of how the body spells its indexing: whatever
// the prover can derive from it is discharged. Forms: "len(@i) >= k", "@i >= k" (@i: i-th
// parameter, receiver included).
var c04Assumes = map[string]struct {
	facts  []string
	reason string
}{
	"crypto/rfc3961.DES3RandomToKey": {[]string{"len(@0) >= 21"}, "b is the 21 byte (168 bit key seed) output of DeriveRandom or Nfold(…, 168)"},
	"crypto/rfc3961.fixWeakKey":      {[]string{"len(@0) >= 8"}, "b is the 8 byte output of stretch56Bits"},
}

var assumeRe = regexp.MustCompile(`^(len\()?@(\d+)\)? >= (\d+)$`)

func c04Assumed(bc *boundsCtx, fn *ssa.Function, facts []string) []lin {
	var out []lin
	for _, f := range facts {
		m := assumeRe.FindStringSubmatch(f)
		if m == nil {
			continue
		}
		i, _ := strconv.Atoi(m[2])
		k, _ := strconv.ParseInt(m[3], 10, 64)
		if i >= len(fn.Params) {
			continue
		}
		var l lin
		if m[1] != "" {
			l = bc.lenLin(fn.Params[i], 0)
		} else {
			l = bc.lin(fn.Params[i])
		}
		out = append(out, linConst(k).add(l, -1))
	}
	return out
}

type bceSite struct {
	file      string
	line, col int
}

// runBCE compiles the module (nothing is run) with the prove pass's residue listed.
func runBCE(w *World) (map[string]bool, error) {
	env := append(os.Environ(), "GOFLAGS=-mod=mod", "GOPROXY=off", "GOSUMDB=off", "GOTOOLCHAIN=local", "GOWORK=off", "CGO_ENABLED=0")
	if w.GOOS != "" {
		env = append(env, "GOOS="+w.GOOS)
	}
	if w.GOARCH != "" {
		env = append(env, "GOARCH="+w.GOARCH)
	}
	args := []string{"build", "-gcflags=" + modPath + "/...=-l -d=ssa/check_bce/debug=1"}
	if w.Tags != "" {
		args = append(args, "-tags="+w.Tags)
	}
	args = append(args, "./...")
	cmd := exec.Command("go", args...)
	cmd.Dir = w.Repo
	cmd.Env = env
	var out bytes.Buffer
	cmd.Stdout = &out
	cmd.Stderr = &out
	err := cmd.Run()
	sites := map[string]bool{}
	re := regexp.MustCompile(`^(?:\./)?([^:\s]+\.go):(\d+):(\d+): Found (IsInBounds|IsSliceInBounds)`)
	other := 0
	for _, l := range strings.Split(out.String(), "\n") {
		if m := re.FindStringSubmatch(l); m != nil {
			sites[m[1]+":"+m[2]+":"+m[3]] = true
		} else if strings.TrimSpace(l) != "" && !strings.HasPrefix(l, "#") {
			other++
		}
	}
	if err != nil && len(sites) == 0 {
		return nil, fmt.Errorf("go build for the bounds-check listing failed: %v: %s", err, trunc(out.String(), 400))
	}
	if other > 0 && err != nil {
		return nil, fmt.Errorf("go build for the bounds-check listing failed: %s", trunc(out.String(), 400))
	}
	return sites, nil
}

type c04Ob struct {
	size   ssa.Value // alloc: the size operand (MakeSlice.Len or the argument of an allocating call)
	in     ssa.Instruction
	kind   string
	goals  []lin
	desc   string // rendered construct
	hasBCE bool
}

func runC04(w *World, c *Check) {
	c.Rule("C04.entries", "the frozen entry-point patterns resolve to functions of the loaded program", 150)
	c.Rule("C04.bounds", "every index and slice expression reachable from an input entry point is within bounds on every path", 300)
	c.Rule("C04.alloc", "every make() reachable from an input entry point has a size that is non-negative and bounded by a constant or a multiple of an input length", 20)
	c.Rule("C04.arith", "every integer division or remainder has a non-zero divisor, every shift a non-negative count", 5)
	c.Rule("C04.assert", "every type assertion without comma-ok is applied to a value whose dynamic type is fixed by construction", 0)
	c.Rule("C04.nil-logger", "every *log.Logger method call is dominated by a nil test of that logger", 5)
	c.Rule("C04.compiler", "the compiler's residue of unproven bounds checks maps onto SSA index/slice instructions (position convention agrees)", 100)
	c.Assume("A-int64: for 64-bit int, sums and differences of slice lengths and of values converted from ≤32-bit fields do not wrap (no slice holds 2^40 elements)",
		"A-int32: for 32-bit int (thorough tier, GOARCH=386), sums of lengths, loop counters, positions and ≤16-bit fields do not wrap; a sum that involves a 32-bit or wider field read from the input is linear only where ranges or dominating conditions prove that it fits",
		"A-alias: a pointer parameter or receiver is not modified through a global or through another argument that does not derive from it",
		"A-io: Read/ReadFull/copy return 0 ≤ n ≤ len(buffer); strings.Split with a non-empty separator returns at least one element",
		"A-compiler: a bounds check the Go compiler's prove pass eliminates cannot fail (the compiler relies on this itself)")
	c.Trusted("gofork/encoding/asn1, rpc/v2 (ndr, mstypes), aescts, dnsutils, goidentity, golang.org/x/crypto and the standard library: no obligations are raised inside them")

	// ---- scope ----------------------------------------------------------------
	var entries []*ssa.Function
	for _, fn := range w.ModuleFuncs() {
		k := FuncKey(fn)
		if strings.HasPrefix(k, "examples") || strings.HasPrefix(k, "test") {
			continue
		}
		for _, p := range c04Entries {
			if compileRe(p).MatchString(k) {
				entries = append(entries, fn)
				c.Ok("C04.entries", k, "entry", w.Pos(fn.Pos()), "input entry point")
				break
			}
		}
	}
	cg := w.CallGraph()
	parent := map[*ssa.Function]*ssa.Function{}
	inScope := map[*ssa.Function]bool{}
	var queue []*ssa.Function
	for _, e := range entries {
		if !inScope[e] {
			inScope[e] = true
			queue = append(queue, e)
		}
	}
	modFn := func(f *ssa.Function) bool {
		if f == nil || len(f.Blocks) == 0 {
			return false
		}
		root := f
		for root.Parent() != nil {
			root = root.Parent()
		}
		if root.Pkg == nil || !inModule(root.Pkg.Pkg.Path()) {
			return false
		}
		k := FuncKey(root)
		return !strings.HasPrefix(k, "examples") && !strings.HasPrefix(k, "test")
	}
	for len(queue) > 0 {
		f := queue[0]
		queue = queue[1:]
		var next []*ssa.Function
		if n := cg.Nodes[f]; n != nil {
			for _, e := range n.Out {
				next = append(next, e.Callee.Func)
			}
		}
		next = append(next, f.AnonFuncs...)
		sort.Slice(next, func(i, j int) bool { return next[i].String() < next[j].String() })
		for _, g := range next {
			if modFn(g) && !inScope[g] {
				inScope[g] = true
				parent[g] = f
				queue = append(queue, g)
			}
		}
	}
	pathTo := func(f *ssa.Function) string {
		var p []string
		for cur := f; cur != nil; cur = parent[cur] {
			p = append([]string{FuncKey(cur)}, p...)
			if len(p) > 8 {
				break
			}
		}
		return strings.Join(p, " → ")
	}
	// functions reachable from an entry point without passing through a function that converts
	// panics into an error (defer + recover): obligations outside this set are recovered
	notRecovered := map[*ssa.Function]bool{}
	{
		var q2 []*ssa.Function
		for _, e := range entries {
			if !notRecovered[e] && !recovers(e) {
				notRecovered[e] = true
				q2 = append(q2, e)
			}
		}
		for len(q2) > 0 {
			f := q2[0]
			q2 = q2[1:]
			var next []*ssa.Function
			if n := cg.Nodes[f]; n != nil {
				for _, e := range n.Out {
					next = append(next, e.Callee.Func)
				}
			}
			next = append(next, f.AnonFuncs...)
			for _, g := range next {
				if modFn(g) && !notRecovered[g] && !recovers(g) {
					notRecovered[g] = true
					q2 = append(q2, g)
				}
			}
		}
	}
	c.extra["entry_points"] = len(entries)
	c.extra["functions_in_scope"] = len(inScope)

	// ---- compiler residue --------------------------------------------------------
	bce, err := runBCE(w)
	if err != nil {
		c.Fail("C04.compiler", "", "bce-build", "-", "the module compiles with the bounds-check listing enabled", err.Error())
		return
	}
	c.extra["compiler_unproven_module_wide@"+c.Config] = len(bce)
	matched := map[string]bool{}

	// ---- obligations ----------------------------------------------------------------
	var scope []*ssa.Function
	for f := range inScope {
		scope = append(scope, f)
	}
	sort.Slice(scope, func(i, j int) bool { return FuncKey(scope[i]) < FuncKey(scope[j]) })
	stats := map[string]int{}
	// every module function is scanned so that the compiler's list can be matched; only in-scope
	// functions raise obligations
	all := append([]*ssa.Function{}, w.ModuleFuncs()...)
	for _, fn := range all {
		if len(fn.Blocks) == 0 {
			continue
		}
		k := FuncKey(fn)
		if strings.HasPrefix(k, "examples") || strings.HasPrefix(k, "test") {
			continue
		}
		var bc *boundsCtx
		for _, b := range fn.Blocks {
			if b == fn.Recover {
				continue
			}
			for _, in := range b.Instrs {
				ob := c04Obligation(w, fn, in, &bc)
				if ob == nil {
					continue
				}
				pos := w.PosCol(InstrPos(in))
				where := w.Pos(InstrPos(in))
				isBounds := ob.kind == "index" || ob.kind == "slice"
				unprovenByCompiler := false
				if isBounds {
					if p := in.Pos(); p.IsValid() && bce[pos] {
						unprovenByCompiler = true
						matched[pos] = true
					} else if !p.IsValid() {
						unprovenByCompiler = true // no source bracket to look up: decide ourselves
					}
				}
				if !inScope[fn] {
					if unprovenByCompiler && in.Pos().IsValid() {
						stats["out-of-scope-unproven"]++
						c.Note("C04.bounds", k, "out-of-scope "+ob.kind+" "+ob.desc, where, "not reachable from an input entry point; unproven by the compiler (informational)")
					}
					continue
				}
				rule := map[string]string{"index": "C04.bounds", "slice": "C04.bounds", "alloc": "C04.alloc", "div": "C04.arith", "shift": "C04.arith", "assert": "C04.assert", "nil-logger": "C04.nil-logger"}[ob.kind]
				construct := ob.kind + " " + ob.desc
				if isBounds && !unprovenByCompiler {
					stats["compiler"]++
					c.Ok(rule, k, construct, where, "in bounds: proved by the compiler's prove pass")
					continue
				}
				if bc == nil {
					bc = newBoundsCtx(w, fn)
				}
				if !notRecovered[fn] && ob.kind != "alloc" {
					stats["recovered"]++
					c.Ok(rule, k, construct, where, "a run-time panic here is converted into an error by the deferred recover of every entry path")
					continue
				}
				ok, why := c04Discharge(w, c, bc, fn, ob, cg, inScope)
				if ok {
					stats[why]++
					c.Ok(rule, k, construct, where, "discharged by "+why)
					continue
				}
				wk := k
				if a, isAlias := aliasOf(fn); isAlias {
					wk = a // the waiver table names functions by their reference keys
				}
				if wv := c04WaiverFor(fn, wk, construct, helperOwners(cg, fn)); wv != nil {
					stats["waiver"]++
					waiverUse[wv]++
					c.Ok(rule, k, construct, where, "not input-dependent: "+wv.reason)
					continue
				}
				if as, has := c04Assumes[wk]; has {
					abc := newBoundsCtx(w, fn)
					abc.assumed = c04Assumed(abc, fn, as.facts)
					if ok2, _ := c04Discharge(w, c, abc, fn, ob, cg, inScope); ok2 {
						stats["precondition"]++
						c.Ok(rule, k, construct, where, "holds under the function's documented precondition ("+strings.Join(as.facts, ", ")+"): "+as.reason)
						continue
					}
				}
				stats["unproven"]++
				c.Fail(rule, k, construct, where, c04Desc(ob.kind), why+"; reached from an entry point by "+pathTo(fn))
			}
		}
	}
	for i := range c04Waivers {
		wv := &c04Waivers[i]
		n := waiverUse[wv]
		if n > 2*wv.max+2 {
			c.Fail("C04.bounds", wv.fn, "waiver-budget "+wv.pattern, "-", fmt.Sprintf("about %d obligations of this function rest on the waiver", wv.max), fmt.Sprintf("%d obligations needed it: many new unproven constructs of the same shape were added", n))
		}
		if n == 0 && w.Func(wv.fn) != nil && c.Config == "linux/amd64" {
			c.Note("C04.bounds", wv.fn, "stale-waiver "+wv.pattern, "-", "waiver matched no unproven obligation (the code was changed or is now proved)")
		}
		delete(waiverUse, wv)
	}
	// every compiler-listed site must have been matched to an SSA instruction
	var unmatched []string
	for p := range bce {
		if !matched[p] {
			unmatched = append(unmatched, p)
		}
	}
	sort.Strings(unmatched)
	for _, p := range unmatched {
		if strings.HasPrefix(p, "examples/") || strings.HasPrefix(p, "test/") {
			continue
		}
		c.Fail("C04.compiler", "", "unmatched "+p, p, "each bounds check the compiler lists corresponds to an index/slice instruction of the SSA program", "no SSA instruction at this position: the position conventions diverged and compiler discharges cannot be trusted")
	}
	for p := range matched {
		_ = p
		c.counts["C04.compiler@"+c.Config]++
	}
	for k, v := range stats {
		c.extra["discharge:"+k+"@"+c.Config] = v
	}
}

var waiverUse = map[*c04Waiver]int{}

// c04WaiverFor: the waiver for a construct of function fn — a waiver of fn itself, or, when fn is a
// new helper (extract-method), a waiver of a reference function that reaches fn through new
// helpers only (owners). Loop symbols are compared without their numbering.
func c04WaiverFor(f *ssa.Function, fn, construct string, owners []string) *c04Waiver {
	norm := loopSymRe.ReplaceAllString(construct, `$$L`)
	for i := range c04Waivers {
		wv := &c04Waivers[i]
		if wv.fn != fn && !contains(owners, wv.fn) {
			continue
		}
		wpat := wv.pattern
		if wv.fn == fn {
			// the table names parameters as the reference tree does: a renamed parameter is the same value
			wpat = substParams(f, wpat)
		}
		pat := strings.ReplaceAll(wpat, `\$L0`, `\$L`)
		pat = strings.ReplaceAll(pat, `\$L1`, `\$L`)
		if compileRe(pat).MatchString(norm) || compileRe(wpat).MatchString(construct) {
			return wv
		}
	}
	return nil
}

var loopSymRe = regexp.MustCompile(`\$L\d+`)

// helperOwners: for a new helper g, the reference functions that reach g through new helpers only.
func helperOwners(cg *callgraph.Graph, g *ssa.Function) []string {
	if !newHelper(g) {
		return nil
	}
	var out []string
	seen := map[*ssa.Function]bool{g: true}
	stack := []*ssa.Function{g}
	for len(stack) > 0 {
		f := stack[len(stack)-1]
		stack = stack[:len(stack)-1]
		callers := []*ssa.Function{}
		if f.Parent() != nil {
			callers = append(callers, f.Parent())
		}
		if n := cg.Nodes[f]; n != nil {
			for _, e := range n.In {
				callers = append(callers, e.Caller.Func)
			}
		}
		for _, c := range callers {
			if c == nil || seen[c] {
				continue
			}
			seen[c] = true
			if newHelper(c) {
				stack = append(stack, c)
			} else if c.Pkg != nil && inModule(c.Pkg.Pkg.Path()) {
				out = append(out, FuncKey(c))
			}
		}
	}
	sort.Strings(out)
	return out
}

func c04Desc(kind string) string {
	switch kind {
	case "index":
		return "0 ≤ index < len on every path"
	case "slice":
		return "0 ≤ low ≤ high ≤ len on every path"
	case "alloc":
		return "0 ≤ size, and size bounded by a constant or a multiple of an input length"
	case "div":
		return "divisor ≠ 0"
	case "shift":
		return "shift count ≥ 0"
	case "assert":
		return "the asserted type is the value's dynamic type on every path"
	case "nil-logger":
		return "the logger is non-nil when its method is called"
	}
	return kind
}

// c04Obligation: the obligation raised by instruction in (nil if none).
func c04Obligation(w *World, fn *ssa.Function, in ssa.Instruction, bcp **boundsCtx) *c04Ob {
	need := func() *boundsCtx {
		if *bcp == nil {
			*bcp = newBoundsCtx(w, fn)
		}
		return *bcp
	}
	switch x := in.(type) {
	case *ssa.IndexAddr:
		bc := need()
		n := bc.lenOfSliceBase(x.X, 0)
		i := bc.lin(x.Index)
		return &c04Ob{in: in, kind: "index", goals: []lin{i.neg(), i.add(n, -1).plus(1)}, desc: bc.r.R(x.X) + "[" + bc.r.R(x.Index) + "]"}
	case *ssa.Index:
		bc := need()
		n := bc.lenLin(x.X, 0)
		i := bc.lin(x.Index)
		return &c04Ob{in: in, kind: "index", goals: []lin{i.neg(), i.add(n, -1).plus(1)}, desc: bc.r.R(x.X) + "[" + bc.r.R(x.Index) + "]"}
	case *ssa.Lookup:
		if _, isMap := x.X.Type().Underlying().(*types.Map); isMap {
			return nil
		}
		bc := need()
		n := bc.lenLin(x.X, 0)
		i := bc.lin(x.Index)
		return &c04Ob{in: in, kind: "index", goals: []lin{i.neg(), i.add(n, -1).plus(1)}, desc: bc.r.R(x.X) + "[" + bc.r.R(x.Index) + "]"}
	case *ssa.Slice:
		if x.Low == nil && x.High == nil && x.Max == nil {
			return nil
		}
		bc := need()
		n := bc.lenOfSliceBase(x.X, 0)
		lo, hi := linConst(0), n
		var goals []lin
		if x.Low != nil {
			lo = bc.lin(x.Low)
			goals = append(goals, lo.neg())
		}
		if x.High != nil {
			hi = bc.lin(x.High)
			// high ≤ cap; len ≤ cap, so high ≤ len suffices (a make with explicit capacity is handled by capLin)
			goals = append(goals, hi.add(bc.capLin(x.X), -1))
			_ = bc.capAtomLin
		}
		goals = append(goals, lo.add(hi, -1))
		d := bc.r.R(x.X) + "["
		if x.Low != nil {
			d += bc.r.R(x.Low)
		}
		d += ":"
		if x.High != nil {
			d += bc.r.R(x.High)
		}
		d += "]"
		return &c04Ob{in: in, kind: "slice", goals: goals, desc: d}
	case *ssa.MakeSlice:
		if _, ok := constInt(x.Len); ok {
			return nil
		}
		bc := need()
		l := bc.lin(x.Len)
		return &c04Ob{in: in, kind: "alloc", goals: []lin{l.neg()}, size: x.Len, desc: "make(" + types.TypeString(x.Type(), func(p *types.Package) string { return p.Name() }) + ", " + bc.r.R(x.Len) + ")"}
	case *ssa.BinOp:
		switch x.Op {
		case token.QUO, token.REM:
			if _, _, ok := intInfo(x.X.Type(), 64); !ok {
				return nil
			}
			if c, ok := constInt(x.Y); ok && c != 0 {
				return nil
			}
			bc := need()
			return &c04Ob{in: in, kind: "div", goals: []lin{bc.lin(x.Y).neg().plus(1)}, desc: bc.r.R(x.X) + " " + x.Op.String() + " " + bc.r.R(x.Y)}
		case token.SHL, token.SHR:
			if _, uns, ok := intInfo(x.Y.Type(), 64); !ok || uns {
				return nil
			}
			if c, ok := constInt(x.Y); ok && c >= 0 {
				return nil
			}
			bc := need()
			return &c04Ob{in: in, kind: "shift", goals: []lin{bc.lin(x.Y).neg()}, desc: bc.r.R(x.X) + " " + x.Op.String() + " " + bc.r.R(x.Y)}
		}
	case *ssa.TypeAssert:
		if x.CommaOk {
			return nil
		}
		bc := need()
		return &c04Ob{in: in, kind: "assert", desc: bc.r.R(x.X) + ".(" + types.TypeString(x.AssertedType, func(p *types.Package) string { return p.Name() }) + ")"}
	case *ssa.Call:
		if f := x.Call.StaticCallee(); f != nil && strings.HasPrefix(calleeName(f), "log.(*Logger).") && len(x.Call.Args) > 0 {
			bc := need()
			return &c04Ob{in: in, kind: "nil-logger", desc: bc.r.R(x.Call.Args[0]) + "." + f.Name()}
		}
		// library calls that allocate the number of bytes/elements they are told to
		if f := x.Call.StaticCallee(); f != nil {
			if ai, ok := allocCalls[calleeName(f)]; ok && ai < len(x.Call.Args) {
				if _, isC := constInt(x.Call.Args[ai]); !isC {
					bc := need()
					l := bc.lin(x.Call.Args[ai])
					return &c04Ob{in: in, kind: "alloc", goals: []lin{l.neg()}, size: x.Call.Args[ai], desc: calleeName(f) + "(…, " + bc.r.R(x.Call.Args[ai]) + ")"}
				}
			}
		}
	}
	return nil
}

// allocCalls: standard library functions that allocate as much as an argument says (index into
// Call.Args, receiver included).
var allocCalls = map[string]int{
	"bytes.(*Buffer).Grow": 1, "strings.(*Builder).Grow": 1, "bytes.Repeat": 1, "strings.Repeat": 1, "bufio.NewReaderSize": 1, "bufio.NewWriterSize": 1,
}

// capLin: an upper bound usable for the high index of a slice expression: cap(x) when it is known
// to exceed len (make with capacity, append results are not), else len(x).
func (bc *boundsCtx) capLin(v ssa.Value) lin {
	cv := bc.canon(v)
	if m, ok := cv.(*ssa.MakeSlice); ok {
		return bc.lin(m.Cap)
	}
	return bc.lenOfSliceBase(v, 0)
}

// c04Discharge tries the prover, then the caller-established rule.
func c04Discharge(w *World, c *Check, bc *boundsCtx, fn *ssa.Function, ob *c04Ob, cg *callgraph.Graph, inScope map[*ssa.Function]bool) (bool, string) {
	switch ob.kind {
	case "assert":
		ta := ob.in.(*ssa.TypeAssert)
		if mi, ok := bc.canon(ta.X).(*ssa.MakeInterface); ok && types.Identical(mi.X.Type(), ta.AssertedType) {
			return true, "assert-of-known-type"
		}
		if ex, ok := bc.canon(ta.X).(*ssa.Extract); ok {
			if call, ok := ex.Tuple.(*ssa.Call); ok {
				if f := call.Call.StaticCallee(); f != nil {
					// net.Dial*/DialTimeout with a constant network: the connection type is fixed by the network name
					if n := calleeName(f); (n == "net.DialTimeout" || n == "net.Dial") && ex.Index == 0 && bc.errNilAt(call, ta) {
						if nc, ok := call.Call.Args[0].(*ssa.Const); ok && nc.Value != nil && nc.Value.Kind() == constant.String {
							want := map[string]string{"tcp": "*net.TCPConn", "tcp4": "*net.TCPConn", "tcp6": "*net.TCPConn", "udp": "*net.UDPConn", "udp4": "*net.UDPConn", "udp6": "*net.UDPConn"}[constant.StringVal(nc.Value)]
							if want != "" && ta.AssertedType.String() == want {
								return true, "dial-network-contract"
							}
						}
					}
					if tupleAssertOK(bc, call, ex.Index, ta) {
						return true, "callee-returns-that-type"
					}
					// v, ok := G.Load(k) of a package-level sync.Map into which the module only ever
					// stores values of the asserted type, asserted where ok is known to hold
					if n := calleeName(f); n == "sync.(*Map).Load" && ex.Index == 0 {
						if g, isG := call.Call.Args[0].(*ssa.Global); isG && syncMapHomogeneous(w, g, ta.AssertedType) {
							for _, dc := range domConds(ta.Block()) {
								if e1, isE := dc.cond.(*ssa.Extract); isE && e1.Tuple == call && e1.Index == 1 && dc.holds {
									return true, "homogeneous-sync-map"
								}
							}
						}
					}
				}
			}
		}
		if callbackDialArg(w, bc, fn, ta) {
			return true, "dial-network-contract(callback)"
		}
		return false, "the dynamic type of " + ob.desc + " is not fixed by construction"
	case "nil-logger":
		call := ob.in.(*ssa.Call)
		recv := call.Call.Args[0]
		fa := NewFuncAn(w, fn)
		rs := fa.R.R(recv)
		// dominating nil test of the same receiver term
		var e *Edge
		blk := call.Block()
		if len(blk.Preds) == 1 {
			p := blk.Preds[0]
			for i, s := range p.Succs {
				if s == blk {
					e = &Edge{p, i}
				}
			}
		}
		for _, f := range fa.factsOn(e) {
			if f.c.Kind == "eq" && !f.holds && ((f.c.L == rs && f.c.R == "nil") || (f.c.R == rs && f.c.L == "nil")) {
				return true, "nil-test"
			}
		}
		if _, ok := recv.(*ssa.Call); ok && strings.HasPrefix(rs, "log.New(") {
			return true, "fresh-logger"
		}
		return false, "no dominating `" + rs + " != nil` test"
	}
	if ob.kind == "div" {
		bo := ob.in.(*ssa.BinOp)
		for _, dc := range domConds(bo.Block()) {
			if b, ok := dc.cond.(*ssa.BinOp); ok && (b.Op == token.NEQ) == dc.holds && (b.Op == token.NEQ || b.Op == token.EQL) {
				for _, pair := range [][2]ssa.Value{{b.X, b.Y}, {b.Y, b.X}} {
					if z, isZ := constInt(pair[1]); isZ && z == 0 && bc.canon(pair[0]) == bc.canon(bo.Y) {
						return true, "nonzero-test"
					}
				}
			}
		}
		// a negative divisor is as good as a positive one
		if bc.Prove(bc.lin(bo.Y).plus(1), ob.in) {
			return true, "linear-prover"
		}
	}
	var failed []string
	for _, g := range ob.goals {
		if !bc.Prove(g, ob.in) {
			failed = append(failed, bc.linString(g)+" ≤ 0")
		}
	}
	if len(failed) == 0 {
		if ob.kind == "alloc" {
			return c04AllocBounded(w, bc, fn, ob, cg)
		}
		return true, "linear-prover"
	}
	// caller-established: an unexported function whose every module call site proves the goals
	if ok := c04CallerEstablished(w, bc, fn, ob, cg, false); ok {
		if ob.kind == "alloc" {
			return c04AllocBounded(w, bc, fn, ob, cg)
		}
		return true, "caller-established"
	}
	if ob.kind == "alloc" {
		// a size that is a scalar parameter belongs to whoever supplies it: for module callers that is
		// checked at each call site, an embedding program's own argument is not input
		if ok := c04CallerEstablished(w, bc, fn, ob, cg, true); ok {
			return c04AllocBounded(w, bc, fn, ob, cg)
		}
	}
	var facts []string
	for _, f := range bc.blockFacts(ob.in.Block()) {
		facts = append(facts, bc.linString(f)+" ≤ 0")
	}
	sort.Strings(facts)
	return false, "cannot prove " + strings.Join(failed, " and ") + " from the dominating conditions {" + trunc(strings.Join(facts, "; "), 400) + "}"
}

// allocBoundedAt: l ≤ 2^24, or l ≤ 8·len(x)+4096 (or cap(x)) for some slice/string x, at instruction at.
func allocBoundedAt(bc *boundsCtx, l lin, at ssa.Instruction) (bool, string) {
	if u, ok := bc.upper(l); ok && u <= 1<<24 {
		return true, "alloc-constant-bound"
	}
	facts := bc.factsAt(l, at)
	if bc.prove(l.plus(-(1<<24)), facts, 4) || bc.provePerEtype(l.plus(-(1<<24)), facts, at) {
		return true, "alloc-constant-bound"
	}
	cands := map[atom]bool{}
	collect := func(x lin) {
		for a := range x.t {
			if a.kind == 'l' || a.kind == 'c' {
				cands[a] = true
			}
		}
	}
	collect(l)
	for _, f := range facts {
		collect(f)
	}
	var names []string
	for a := range cands {
		names = append(names, bc.atomName(a))
	}
	sort.Strings(names)
	for _, n := range names {
		for a := range cands {
			if bc.atomName(a) == n && bc.prove(l.add(linAtom(a), -8).plus(-4096), facts, 4) {
				return true, "alloc-proportional-to-" + n
			}
		}
	}
	return false, "size " + bc.linString(l) + " is not bounded by a constant or a multiple of an input length"
}

// c04AllocBounded: the size is bounded here, or — when it is made of parameters — at every module call site.
func c04AllocBounded(w *World, bc *boundsCtx, fn *ssa.Function, ob *c04Ob, cg *callgraph.Graph) (bool, string) {
	l := bc.lin(ob.size)
	ok, why := allocBoundedAt(bc, l, ob.in)
	if ok {
		return true, why
	}
	n := cg.Nodes[fn]
	if n == nil || len(n.In) == 0 || fn.Parent() != nil {
		return false, why
	}
	sites := 0
	for _, e := range n.In {
		site, isCall := e.Site.(*ssa.Call)
		if !isCall || site.Parent() == nil || len(site.Parent().Blocks) == 0 || site.Call.IsInvoke() || site.Call.StaticCallee() != fn {
			return false, why
		}
		if k := FuncKey(site.Parent()); strings.HasPrefix(k, "examples") || strings.HasPrefix(k, "test") {
			continue
		}
		cb := newBoundsCtx(w, site.Parent())
		// an upper approximation made of parameters only: drop subtracted terms that are ≥ 0
		up := linConst(l.k)
		facts := bc.factsAt(l, ob.in)
		for a, cf := range l.t {
			if cf < 0 && bc.prove(linAtom(a).neg(), facts, 3) {
				continue
			}
			up = up.add(linAtom(a), cf)
		}
		tl, ok := translateLin(bc, cb, fn, site, up)
		if !ok {
			return false, why
		}
		if ok2, _ := allocBoundedAt(cb, tl, site); !ok2 {
			return false, why + " (nor at the call site in " + FuncKey(site.Parent()) + ")"
		}
		sites++
	}
	if sites == 0 {
		return false, why
	}
	return true, "alloc-bounded-at-call-sites"
}

// c04CallerEstablished: re-prove the goals at every call site with parameters replaced by arguments.
func c04CallerEstablished(w *World, bc *boundsCtx, fn *ssa.Function, ob *c04Ob, cg *callgraph.Graph, exportedToo bool) bool {
	if !exportedToo && fn.Object() != nil && fn.Object().Exported() {
		// an exported function can be called by anyone with anything — unless it is a method of an unexported type
		if recv := fn.Signature.Recv(); recv == nil || token.IsExported(typeBaseName(recv.Type())) {
			return false
		}
	}
	if fn.Parent() != nil {
		return false
	}
	n := cg.Nodes[fn]
	if n == nil || len(n.In) == 0 {
		return false
	}
	sites := 0
	for _, e := range n.In {
		site, ok := e.Site.(*ssa.Call)
		if !ok {
			return false
		}
		caller := site.Parent()
		if caller == nil || len(caller.Blocks) == 0 {
			return false
		}
		if k := FuncKey(caller); strings.HasPrefix(k, "examples") || strings.HasPrefix(k, "test") {
			continue
		}
		if site.Call.IsInvoke() || site.Call.StaticCallee() != fn {
			return false
		}
		cb := newBoundsCtx(w, caller)
		for _, g := range ob.goals {
			if bc.Prove(g, ob.in) {
				continue // this part holds locally; only what is left is the callers' business
			}
			tg, ok := translateLin(bc, cb, fn, site, g)
			if os.Getenv("C04_DEBUG") != "" {
				fmt.Fprintf(os.Stderr, "caller-established %s at %s: goal %s -> ok=%v %s\n", FuncKey(fn), FuncKey(caller), bc.linString(g), ok, cb.linString(tg))
			}
			if !ok {
				return false
			}
			if !cb.Prove(tg, site) {
				// part of the argument may sit on each side of the call (a helper extracted from
				// below a check keeps its own later checks): what the callee has established at
				// the obligation, read in the caller's terms, joins what the caller has established
				facts := cb.factsAt(tg, site)
				for _, f := range bc.factsAt(g, ob.in) {
					if tf, ok := translateLin(bc, cb, fn, site, f); ok {
						facts = append(facts, tf)
					}
				}
				facts = append(facts, cb.extraFacts(tg, facts, site)...)
				if !cb.prove(tg, facts, 4) {
					return false
				}
			}
		}
		sites++
	}
	return sites > 0
}

func typeBaseName(t types.Type) string {
	if p, ok := t.(*types.Pointer); ok {
		t = p.Elem()
	}
	if n, ok := t.(*types.Named); ok {
		return n.Obj().Name()
	}
	return "x"
}

// translateLin rewrites a callee-side term over parameters into the caller's terms.
func translateLin(bc, cb *boundsCtx, fn *ssa.Function, site *ssa.Call, g lin) (lin, bool) {
	out := linConst(g.k)
	argOf := func(v ssa.Value) (ssa.Value, bool) {
		p, ok := v.(*ssa.Parameter)
		if !ok {
			return nil, false
		}
		for i, fp := range fn.Params {
			if fp == p && i < len(site.Call.Args) {
				return site.Call.Args[i], true
			}
		}
		return nil, false
	}
	// a value of the callee that is an access path rooted at a parameter (recv.ZeroSigData): the
	// caller-side value with the same path rooted at the argument, evaluated before the call
	pathOf := func(v ssa.Value) (ssa.Value, bool) {
		if arg, ok := argOf(v); ok {
			return arg, true
		}
		sub := NewRenderer(bc.w, fn)
		sub.subst = map[*ssa.Parameter]string{}
		for i, p := range fn.Params {
			if i < len(site.Call.Args) {
				sub.subst[p] = cb.r.R(site.Call.Args[i])
			}
		}
		want := sub.R(v)
		if !strings.Contains(want, ".") || strings.Contains(want, "local<") {
			return nil, false
		}
		for _, b := range site.Parent().Blocks {
			for _, in := range b.Instrs {
				val, isVal := in.(ssa.Value)
				if !isVal {
					continue
				}
				// a field of an argument that is a struct *value*: the same value wherever the caller
				// selects it (no memory involved, so no dominance needed)
				if fl, isField := in.(*ssa.Field); isField {
					root := fl.X
					for {
						f2, ok := root.(*ssa.Field)
						if !ok {
							break
						}
						root = f2.X
					}
					isArg := false
					for _, a := range site.Call.Args {
						if a == root {
							isArg = true
						}
					}
					if isArg && cb.r.R(val) == want {
						return val, true
					}
					continue
				}
				if u, isLoad := in.(*ssa.UnOp); !isLoad || u.Op != token.MUL {
					continue
				}
				if instrDominates(in, site) && cb.r.R(val) == want {
					return val, true
				}
				// a field of a local that is assigned once per activation (a range variable, a spilled
				// value): the same value before and after the call
				if cb.r.R(val) == want {
					addr := in.(*ssa.UnOp).X
					for {
						fa, ok := addr.(*ssa.FieldAddr)
						if !ok {
							break
						}
						addr = fa.X
					}
					if al, ok := addr.(*ssa.Alloc); ok && readOnlyFieldsLocal(al) {
						if st := uniqueStoreInstr(al); st != nil && instrDominates(st, site) && instrDominates(st, in) {
							return val, true
						}
					}
				}
			}
		}
		return nil, false
	}
	// an access path below an argument that the caller never evaluates itself (a field of a struct
	// passed by value): an opaque caller-side name for it — the same path gives the same name, so
	// facts and goals about it still meet
	opaque := func(v ssa.Value, isLen bool) (lin, bool) {
		sub := NewRenderer(bc.w, fn)
		sub.subst = map[*ssa.Parameter]string{}
		for i, p := range fn.Params {
			if i < len(site.Call.Args) {
				sub.subst[p] = "‹" + cb.r.R(site.Call.Args[i]) + "›"
			}
		}
		want := sub.R(v)
		if !strings.HasPrefix(want, "‹") || strings.Contains(want, "local<") || strings.Contains(want, "(") && !strings.HasPrefix(want, "‹") {
			return lin{}, false
		}
		// only a field path below the argument: ‹arg›.f.g
		rest := want[strings.Index(want, "›")+len("›"):]
		for _, r := range rest {
			if !(r == '.' || r == '_' || (r >= 'a' && r <= 'z') || (r >= 'A' && r <= 'Z') || (r >= '0' && r <= '9')) {
				return lin{}, false
			}
		}
		if rest == "" {
			return lin{}, false
		}
		if _, isLoadOrField := v.(*ssa.UnOp); !isLoadOrField {
			if _, isField := v.(*ssa.Field); !isField {
				return lin{}, false
			}
		}
		name := want
		if isLen {
			name = "len(" + want + ")"
		}
		na := atom{kind: 'x', s: name}
		cb.names[na] = name
		if cb.xtype == nil {
			cb.xtype = map[atom]types.Type{}
		}
		if isLen {
			cb.xtype[na] = types.Typ[types.Uint64] // a length: non-negative, no upper bound claimed
		} else {
			cb.xtype[na] = v.Type()
		}
		return linAtom(na), true
	}
	for a, cf := range g.t {
		switch a.kind {
		case 'v':
			arg, ok := pathOf(a.v)
			if !ok {
				ol, ok2 := opaque(a.v, false)
				if !ok2 {
					return lin{}, false
				}
				out = out.add(ol, cf)
				continue
			}
			out = out.add(cb.lin(arg), cf)
		case 'l':
			arg, ok := pathOf(a.v)
			if !ok {
				ol, ok2 := opaque(a.v, true)
				if !ok2 {
					return lin{}, false
				}
				out = out.add(ol, cf)
				continue
			}
			out = out.add(cb.lenLin(arg, 0), cf)
		case 'm':
			arg, ok := argOf(a.v)
			if !ok {
				return lin{}, false
			}
			na := atom{kind: 'm', v: cb.canon(arg), s: a.s}
			cb.names[na] = cb.r.R(arg) + "." + a.s + "()"
			out = out.add(linAtom(na), cf)
		case 'q':
			qi := bc.qinfo[a]
			in, ok := translateLin(bc, cb, fn, site, qi.inner)
			if !ok {
				return lin{}, false
			}
			if in.isConst() {
				if in.k < 0 {
					return lin{}, false
				}
				out = out.plus(cf * (in.k / qi.c))
				continue
			}
			na := atom{kind: 'q', s: cb.linString(in) + fmt.Sprintf("/%d", qi.c)}
			cb.qinfo[na] = qinfo{in, qi.c}
			cb.names[na] = "(" + cb.linString(in) + fmt.Sprintf(")/%d", qi.c)
			out = out.add(linAtom(na), cf)
		default:
			return lin{}, false
		}
	}
	return out, true
}

// recovers: fn defers a function literal that calls recover() and assigns a named result — a
// run-time panic below fn surfaces as fn's error.
func recovers(fn *ssa.Function) bool {
	for _, b := range fn.Blocks {
		for _, in := range b.Instrs {
			d, ok := in.(*ssa.Defer)
			if !ok {
				continue
			}
			var body *ssa.Function
			switch v := d.Call.Value.(type) {
			case *ssa.MakeClosure:
				body, _ = v.Fn.(*ssa.Function)
			case *ssa.Function:
				body = v
			}
			if body == nil {
				continue
			}
			callsRecover, storesResult := false, false
			for _, bb := range body.Blocks {
				for _, bi := range bb.Instrs {
					if call, ok := bi.(*ssa.Call); ok {
						if bt, ok := call.Call.Value.(*ssa.Builtin); ok && bt.Name() == "recover" {
							callsRecover = true
						}
					}
					if st, ok := bi.(*ssa.Store); ok {
						if fv, ok := st.Addr.(*ssa.FreeVar); ok && types.Identical(fv.Type().(*types.Pointer).Elem(), types.Universe.Lookup("error").Type()) {
							storesResult = true
						}
					}
				}
			}
			if callsRecover && storesResult {
				return true
			}
		}
	}
	return false
}

// tupleAssertOK: v := f(...)#k asserted to T where every return of the module function f that is
// consistent with what the dominating branches know about f's other results (a bool result's
// value, a nil error) yields a value of dynamic type T at position k.
func tupleAssertOK(bc *boundsCtx, call *ssa.Call, k int, ta *ssa.TypeAssert) bool {
	f := call.Call.StaticCallee()
	if f == nil || len(f.Blocks) == 0 || f.Pkg == nil || !inModule(f.Pkg.Pkg.Path()) {
		return false
	}
	// what is known about the other results at the assertion
	known := map[int]string{} // index -> "true" | "false" | "nil"
	for _, dc := range domConds(ta.Block()) {
		switch c := dc.cond.(type) {
		case *ssa.Extract:
			if c.Tuple == call {
				known[c.Index] = fmt.Sprint(dc.holds)
			}
		case *ssa.BinOp:
			if c.Op != token.EQL && c.Op != token.NEQ {
				continue
			}
			for _, pair := range [][2]ssa.Value{{c.X, c.Y}, {c.Y, c.X}} {
				ex, ok := bc.canon(pair[0]).(*ssa.Extract)
				cn, isC := pair[1].(*ssa.Const)
				if ok && isC && ex.Tuple == call && cn.Value == nil && (c.Op == token.EQL) == dc.holds {
					known[ex.Index] = "nil"
				}
			}
		}
	}
	n := 0
	for _, b := range f.Blocks {
		ret, ok := lastInstr(b).(*ssa.Return)
		if !ok || b == f.Recover {
			continue
		}
		rs := RetResults(ret)
		consistent := true
		for i, want := range known {
			if i >= len(rs) {
				return false
			}
			c, isC := rs[i].(*ssa.Const)
			switch want {
			case "nil":
				if isC && c.Value == nil {
					continue
				}
				if !isC {
					if _, isCall := rs[i].(*ssa.Call); isCall {
						consistent = false // a constructed error is not nil
					} else if _, isMI := rs[i].(*ssa.MakeInterface); isMI {
						consistent = false
					}
				}
			case "true", "false":
				if isC && c.Value != nil && c.Value.String() != want {
					consistent = false
				}
			}
		}
		if !consistent {
			continue
		}
		mi, ok := rs[k].(*ssa.MakeInterface)
		if !ok || !types.Identical(mi.X.Type(), ta.AssertedType) {
			return false
		}
		n++
	}
	return n > 0
}

// syncMapHomogeneous: every Store/LoadOrStore/Swap on the package-level sync.Map g anywhere in the
// module stores a value of static type t.
func syncMapHomogeneous(w *World, g *ssa.Global, t types.Type) bool {
	n := 0
	for _, fn := range w.ModuleFuncs() {
		for _, b := range fn.Blocks {
			for _, in := range b.Instrs {
				call, ok := in.(ssa.CallInstruction)
				if !ok {
					continue
				}
				f := call.Common().StaticCallee()
				if f == nil {
					continue
				}
				vi := -1
				switch calleeName(f) {
				case "sync.(*Map).Store", "sync.(*Map).LoadOrStore", "sync.(*Map).Swap":
					vi = 2
				case "sync.(*Map).CompareAndSwap":
					vi = 3
				default:
					continue
				}
				if call.Common().Args[0] != ssa.Value(g) {
					continue
				}
				mi, isMI := call.Common().Args[vi].(*ssa.MakeInterface)
				if !isMI || !types.Identical(mi.X.Type(), t) {
					return false
				}
				n++
			}
		}
	}
	return n > 0
}

// readOnlyFieldsLocal: a local whose address is used only to store the whole value, to load it,
// and to load fields of it (no field store, no escape).
func readOnlyFieldsLocal(a *ssa.Alloc) bool {
	var ok func(v ssa.Value, depth int) bool
	ok = func(v ssa.Value, depth int) bool {
		if v.Referrers() == nil || depth > 4 {
			return false
		}
		for _, r := range *v.Referrers() {
			switch x := r.(type) {
			case *ssa.Store:
				if x.Addr != v || depth > 0 {
					return false
				}
			case *ssa.UnOp, *ssa.DebugRef:
			case *ssa.FieldAddr:
				if !ok(x, depth+1) {
					return false
				}
			default:
				return false
			}
		}
		return true
	}
	return ok(a, 0)
}

var dialConnType = map[string]string{"tcp": "*net.TCPConn", "tcp4": "*net.TCPConn", "tcp6": "*net.TCPConn", "udp": "*net.UDPConn", "udp4": "*net.UDPConn", "udp6": "*net.UDPConn"}

// callbackDialArg: the assertion is on parameter j of a function literal that exists only as
// argument k of one call H(…, "udp"|"tcp", …, literal) of a module function H; H does nothing with
// its parameter k but call it, and at every such call the j-th argument is the connection of a
// successful net.Dial/DialTimeout whose network operand is H's parameter m — the very parameter
// that receives the constant network name at the call that passes the literal. Parameters are
// immutable, so inside that activation of H the connection's type is fixed by the constant.
func callbackDialArg(w *World, bc *boundsCtx, lit *ssa.Function, ta *ssa.TypeAssert) bool {
	par, ok := bc.canon(ta.X).(*ssa.Parameter)
	if !ok || lit.Parent() == nil || par.Parent() != lit {
		return false
	}
	j := -1
	for i, p := range lit.Params {
		if p == par {
			j = i
		}
	}
	if j < 0 {
		return false
	}
	// the one use of the literal
	var site *ssa.Call
	k := -1
	uses := 0
	for _, b := range lit.Parent().Blocks {
		for _, in := range b.Instrs {
			for _, op := range in.Operands(nil) {
				v := *op
				if mc, isMC := v.(*ssa.MakeClosure); isMC {
					v = mc.Fn
				}
				if v != ssa.Value(lit) {
					continue
				}
				if _, isMC := in.(*ssa.MakeClosure); isMC {
					continue // counted at the closure's own use
				}
				uses++
				call, isCall := in.(*ssa.Call)
				if !isCall || call.Call.StaticCallee() == nil {
					return false
				}
				for i, a := range call.Call.Args {
					av := a
					if mc, isMC := av.(*ssa.MakeClosure); isMC {
						av = mc.Fn
					}
					if av == ssa.Value(lit) {
						site, k = call, i
					}
				}
			}
		}
	}
	if uses != 1 || site == nil || k < 0 {
		return false
	}
	h := site.Call.StaticCallee()
	if h == nil || len(h.Blocks) == 0 || h.Pkg == nil || !inModule(h.Pkg.Pkg.Path()) || k >= len(h.Params) {
		return false
	}
	cb := h.Params[k]
	if cb.Referrers() == nil {
		return false
	}
	hb := newBoundsCtx(w, h)
	calls := 0
	for _, ref := range *cb.Referrers() {
		switch x := ref.(type) {
		case *ssa.DebugRef:
		case *ssa.Call:
			if x.Call.Value != ssa.Value(cb) || j >= len(x.Call.Args) {
				return false
			}
			for _, a := range x.Call.Args {
				if a == ssa.Value(cb) {
					return false
				}
			}
			ex, isEx := hb.canon(x.Call.Args[j]).(*ssa.Extract)
			if !isEx || ex.Index != 0 {
				return false
			}
			dial, isCall := ex.Tuple.(*ssa.Call)
			if !isCall || dial.Call.StaticCallee() == nil {
				return false
			}
			if n := calleeName(dial.Call.StaticCallee()); n != "net.DialTimeout" && n != "net.Dial" {
				return false
			}
			if !hb.errNilAt(dial, x) {
				return false
			}
			np, isPar := dial.Call.Args[0].(*ssa.Parameter)
			if !isPar {
				return false
			}
			m := -1
			for i, p := range h.Params {
				if p == np {
					m = i
				}
			}
			if m < 0 || m >= len(site.Call.Args) {
				return false
			}
			nc, isC := site.Call.Args[m].(*ssa.Const)
			if !isC || nc.Value == nil || nc.Value.Kind() != constant.String {
				return false
			}
			if want := dialConnType[constant.StringVal(nc.Value)]; want == "" || ta.AssertedType.String() != want {
				return false
			}
			calls++
		default:
			return false
		}
	}
	return calls > 0
}
