package main

// C20 — keys and passwords never leak into diagnostics, errors, logs or encodings.

import (
	"fmt"
	"go/constant"
	"go/types"
	"strings"

	"golang.org/x/tools/go/ssa"
)

func init() {
	register(&Property{
		ID:      "C20",
		Run:     runC20,
		Explain: "Information-flow analysis over all paths (SSA taint with per-function parameter→result / parameter→sink summaries iterated to a fixpoint over the module): sources are declared by type and field — types.EncryptionKey.KeyValue (hence every session key, subkey, keytab and ccache key), credentials.Credentials.password, kadmin.ChangePasswdData.NewPasswd, the password/secret parameters of the string-to-key and change-password API, and the raw file buffers of Keytab.Unmarshal and CCache.Unmarshal with everything sliced or copied from them; sinks are every error constructor, logger call, fmt print and http.Error in the module (≈480 call sites); a formatted aggregate whose static type contains a source field is a hit even without dataflow. Plus a type audit of every json/gob encoder call (walking the argument type as the encoder would, honouring json:\"-\") and the wire-field audit of every asn1.Marshal call (shared with C13). Key-derivation outputs stay tainted; ciphertexts, checksums and MACs are declassified. Added: split taint for HTTP basic credentials — domain and user name derive only from the part of the decoded value before the first colon.",
		NotDecided: []string{
			"leaks through dependencies' own error texts; re-encodings performed by callers of the library",
			"Keytab.String()/entry.String() print key bytes by design (explicit dump API, the analogue of klist -K): their bodies are exempt as sinks, formatting a Keytab/entry anywhere else is a hit",
		},
	})
}

func buildTaintCfg(w *World, c *Check) *taintCfg {
	cfg := &taintCfg{w: w, srcField: map[*types.Var]string{}, srcParam: map[string][]int{}, exemptFn: map[string]string{
		"keytab.(Keytab).String": "explicit key dump API (klist -K analogue)",
		"keytab.(entry).String":  "explicit key dump API (klist -K analogue)",
	}}
	addField := func(pkg, typ, field, why string) {
		st := w.StructOf(pkg, typ)
		if st == nil {
			c.Missing("C20.flow", pkg+"."+typ)
			return
		}
		for i := 0; i < st.NumFields(); i++ {
			if st.Field(i).Name() == field {
				cfg.srcField[st.Field(i)] = why
				return
			}
		}
		c.Missing("C20.flow", pkg+"."+typ+"."+field)
	}
	addField("types", "EncryptionKey", "KeyValue", "key bytes (types.EncryptionKey.KeyValue)")
	addField("credentials", "Credentials", "password", "the password held in credentials.Credentials")
	addField("kadmin", "ChangePasswdData", "NewPasswd", "the new password of a change-password request")
	// secret parameters, found by role: string/[]byte parameters named passwd/password/secret/newPasswd
	var listed []string
	for _, fn := range w.ModuleFuncs() {
		if strings.HasSuffix(fn.Pkg.Pkg.Path(), "/examples") {
			continue
		}
		for i, p := range fn.Params {
			n := strings.ToLower(p.Name())
			if (n == "passwd" || n == "password" || n == "secret" || n == "newpasswd" || n == "newpassword") && bytesOrString(p.Type()) {
				cfg.srcParam[FuncKey(fn)] = append(cfg.srcParam[FuncKey(fn)], i)
				listed = append(listed, FuncKey(fn)+"("+p.Name()+")")
			}
		}
	}
	for _, fk := range []string{"keytab.(*Keytab).Unmarshal", "credentials.(*CCache).Unmarshal"} {
		if fn := w.Func(fk); fn != nil && len(fn.Params) == 2 {
			cfg.srcParam[fk] = append(cfg.srcParam[fk], 1)
			listed = append(listed, fk+"("+fn.Params[1].Name()+": secret-bearing file contents)")
		} else {
			c.Missing("C20.flow", fk)
		}
	}
	c.extra["secret_parameters"] = sortedStrings(listed)
	c.Decide(len(listed) >= 15, "C20.flow", "module", "secret-parameters", "-", "the password/secret parameters and secret-bearing file buffers of the API are known to the analysis", fmt.Sprintf("only %d found: %v", len(listed), listed))
	return cfg
}

func runC20(w *World, c *Check) {
	c.Rule("C20.flow", "no value derived from a key, password or secret-bearing file buffer reaches an error, log, print or HTTP-error sink; no aggregate containing a key field is formatted", 2)
	c.Rule("C20.basic", "HTTP basic credentials are split at the first colon: user name and domain derive from the part before it only (the part after it is the password and goes nowhere else)", 2)
	ruleBasicSplit(w, c, "C20.basic")
	c.Rule("C20.encoders", "no json/gob encoder call can reach a key or password field through the argument's type", 7)
	c.Rule("C20.wire", "no clear-text ASN.1 encoding includes an untagged helper field (decrypted parts)", 20)

	cfg := buildTaintCfg(w, c)
	ta := newTaintAn(cfg)
	ta.solve()
	c.extra["sink_call_sites"] = ta.nSinks
	for _, k := range sortedHitKeys(ta.hits) {
		h := ta.hits[k]
		fk := FuncKey(h.fn)
		construct := fmt.Sprintf("%s(%s)", h.sink, trunc(h.arg, 70))
		desc := "no secret-derived value is formatted into an error, log line or other diagnostic"
		detail := fmt.Sprintf("operand %s is derived from %s and is passed to %s", trunc(h.arg, 120), h.why, h.sink)
		if h.kind == "type" {
			detail = fmt.Sprintf("operand %s: %s, and is formatted by %s", trunc(h.arg, 120), h.why, h.sink)
		}
		c.Fail("C20.flow", fk, construct, w.Pos(InstrPos(h.site)), desc, detail)
	}
	c.Decide(ta.nSinks >= 300, "C20.flow", "module", "sinks-analysed", "-", "the module's error/log/print call sites were found and analysed", fmt.Sprintf("only %d sink call sites found", ta.nSinks))

	// ---- encoders ---------------------------------------------------------------------
	nEnc := 0
	for _, fn := range w.ModuleFuncs() {
		if strings.HasSuffix(fn.Pkg.Pkg.Path(), "/examples") {
			continue
		}
		fa := NewFuncAn(w, fn)
		for _, ci := range fa.Calls(`encoding/json\.(Marshal|MarshalIndent)|encoding/json\.\(\*Encoder\)\.Encode|encoding/gob\.\(\*Encoder\)\.Encode`) {
			nEnc++
			name := fa.CalleeName(ci)
			args := ci.Common().Args
			arg := args[0]
			if strings.Contains(name, "Encoder") {
				arg = args[1]
			}
			t := arg.Type()
			if mi, ok := arg.(*ssa.MakeInterface); ok {
				t = mi.X.Type()
			}
			reach := cfg.jsonReach(t, shortType(t), 0, map[types.Type]bool{}, strings.Contains(name, "gob"))
			c.Decide(len(reach) == 0, "C20.encoders", FuncKey(fn), name+"("+shortType(t)+")", w.Pos(InstrPos(ci)),
				"the encoded type exposes no key or password field (exported, not json:\"-\")", fmt.Sprintf("the encoder reaches %v", reach))
		}
	}
	if nEnc == 0 {
		c.Fail("C20.encoders", "module", "encoders", "-", "the diagnostic JSON/gob encoders exist", "no json/gob encoder call found")
	}
	// values held behind interface{} (credential attributes) are encoded by gob only for registered
	// concrete types: registering a key-bearing type is what lets a key stored there be encoded
	for _, fn := range w.ModuleFuncs() {
		if strings.HasSuffix(fn.Pkg.Pkg.Path(), "/examples") {
			continue
		}
		fa := NewFuncAn(w, fn)
		for _, ci := range fa.Calls(`encoding/gob\.(Register|RegisterName)`) {
			args := ci.Common().Args
			arg := args[len(args)-1]
			t := arg.Type()
			if mi, ok := arg.(*ssa.MakeInterface); ok {
				t = mi.X.Type()
			}
			reach := cfg.jsonReach(t, shortType(t), 0, map[types.Type]bool{}, true)
			c.Decide(len(reach) == 0, "C20.encoders", FuncKey(fn), "gob.Register("+shortType(t)+")", w.Pos(InstrPos(ci)),
				"no type registered with gob for interface-typed values exposes a key or password field", fmt.Sprintf("the registered type reaches %v: a value of it kept in an interface-typed field (credential attributes) is written out by Credentials.Marshal", reach))
		}
	}

	ruleWireAudit(w, c, "C20.wire")
}

// firstColonOf: idx is strings.IndexByte(s, ':') / strings.Index(s, ":") / strings.IndexRune(s, ':') of the same s.
func firstColonOf(idx, s ssa.Value) bool {
	call, ok := idx.(*ssa.Call)
	if !ok {
		return false
	}
	f := call.Call.StaticCallee()
	if f == nil || len(call.Call.Args) != 2 || call.Call.Args[0] != s {
		return false
	}
	k, ok := call.Call.Args[1].(*ssa.Const)
	if !ok || k.Value == nil {
		return false
	}
	switch calleeName(f) {
	case "strings.IndexByte", "strings.IndexRune":
		v, isInt := constant.Int64Val(k.Value)
		return isInt && v == ':'
	case "strings.Index":
		return k.Value.Kind() == constant.String && constant.StringVal(k.Value) == ":"
	}
	return false
}

// ruleBasicSplit: in service.parseBasicHeaderValue the decoded header value "user:password" carries
// the password. The only way to a password-free value is the part before the first colon
// (SplitN(v, ":", 2)[0] or the first result of Cut(v, ":")). The domain and user name results —
// which end up in the realm of the AS-REQ, in Credentials, in error texts and log lines — must derive
// from that part alone on every return.
func ruleBasicSplit(w *World, c *Check, rule string) {
	fk := "service.parseBasicHeaderValue"
	fn := w.Func(fk)
	if fn == nil {
		c.Missing(rule, fk)
		return
	}
	fa := NewFuncAn(w, fn)
	isColon := func(v ssa.Value) bool {
		k, ok := v.(*ssa.Const)
		return ok && k.Value != nil && k.Value.Kind() == constant.String && constant.StringVal(k.Value) == ":"
	}
	memo := map[ssa.Value]int{} // 0 unknown/in progress, 1 clean, 2 secret
	var secret func(v ssa.Value, depth int) bool
	// colonSplit: v is SplitN/Split/Cut(x, ":") of a secret-bearing x
	colonSplit := func(v ssa.Value, depth int) bool {
		call, ok := v.(*ssa.Call)
		if !ok {
			return false
		}
		f := call.Call.StaticCallee()
		if f == nil {
			return false
		}
		switch calleeName(f) {
		case "strings.SplitN", "strings.Split", "strings.Cut":
			return len(call.Call.Args) >= 2 && isColon(call.Call.Args[1]) && secret(call.Call.Args[0], depth+1)
		}
		return false
	}
	secret = func(v ssa.Value, depth int) bool {
		if depth > 40 {
			return true
		}
		if m, ok := memo[v]; ok {
			return m == 2
		}
		memo[v] = 1 // optimistic for cycles (φ webs); fixed below
		res := false
		switch x := v.(type) {
		case *ssa.Parameter:
			res = true
		case *ssa.Const:
			res = false
		case *ssa.Convert:
			res = secret(x.X, depth+1)
		case *ssa.ChangeType:
			res = secret(x.X, depth+1)
		case *ssa.Slice:
			// v[:i] with i = the index of the first colon in v is the part before it
			res = secret(x.X, depth+1)
			if res && x.Low == nil && x.High != nil && firstColonOf(x.High, x.X) {
				res = false
			}
		case *ssa.Phi:
			for _, e := range x.Edges {
				if secret(e, depth+1) {
					res = true
				}
			}
		case *ssa.Extract:
			if colonSplit(x.Tuple, depth) {
				res = x.Index == 1 // Cut: before, after, found
			} else {
				res = secret(x.Tuple, depth+1)
			}
		case *ssa.UnOp:
			if ia, ok := x.X.(*ssa.IndexAddr); ok {
				if colonSplit(ia.X, depth) {
					k, isC := constInt(ia.Index)
					res = !(isC && k == 0)
				} else {
					res = secret(ia.X, depth+1)
				}
			} else {
				res = secret(x.X, depth+1)
			}
		case *ssa.Call:
			if colonSplit(x, depth) {
				res = true // the split as a whole still holds the password part
			} else {
				for _, a := range x.Call.Args {
					if secret(a, depth+1) {
						res = true
					}
				}
			}
		case *ssa.BinOp:
			res = secret(x.X, depth+1) || secret(x.Y, depth+1)
		case *ssa.Alloc:
			if x.Referrers() != nil {
				for _, ref := range *x.Referrers() {
					if st, ok := ref.(*ssa.Store); ok && st.Addr == x && secret(st.Val, depth+1) {
						res = true
					}
				}
			}
		case *ssa.IndexAddr:
			res = secret(x.X, depth+1)
		default:
			res = false
		}
		if res {
			memo[v] = 2
		} else {
			memo[v] = 1
		}
		return res
	}
	_ = isColon
	names := []string{"domain", "username"}
	bad := map[int]string{}
	nret := 0
	for _, x := range fa.Exits() {
		rs := RetResults(x.Ret)
		if len(rs) < 3 {
			continue
		}
		nret++
		for i := 0; i < 2; i++ {
			// two passes: the optimistic default for φ cycles is re-checked once everything is classified
			memo = map[ssa.Value]int{}
			if secret(rs[i], 0) {
				bad[i] = fa.R.R(rs[i]) + " at " + w.Pos(InstrPos(x.Ret))
			}
		}
	}
	for i, n := range names {
		c.Decide(nret > 0 && bad[i] == "", rule, fk, n+"-from-user-part", w.Pos(fn.Pos()), "the "+n+" returned derives only from the part of the decoded value before the first colon", "it can hold what follows the colon (the password): "+trunc(bad[i], 200))
	}
}
