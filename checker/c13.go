package main

// C13 — Kerberos and SPNEGO messages match the RFC ASN.1: struct tag table vs
// RFC 4120 App. A / RFC 6806 / RFC 4178 / RFC 3244, APPLICATION tag numbers,
// shadow-struct agreement and field coverage, wire-field audit of every
// asn1.Marshal call site, flag bit numbering, token framing.

import (
	"fmt"
	"go/token"
	"go/types"
	"reflect"
	"sort"
	"strconv"
	"strings"

	"golang.org/x/tools/go/ssa"
)

func init() {
	register(&Property{
		ID:      "C13",
		Run:     runC13,
		Explain: "(1) every `asn1:` struct tag of the Kerberos/SPNEGO wire types (≈200 fields, read from go/types) against a reference table transcribed from RFC 4120 Appendix A, RFC 6806 §11, RFC 4178 §4.2 and RFC 3244 §2: context tag number, explicit, GeneralString on every KerberosString/Realm, GeneralizedTime on every KerberosTime, code-optional ⊆ RFC-optional; APPLICATION numbers at every AddASNAppTag/UnmarshalWithParams site against the RFC and the iana table, same number on the encode and decode side of a type; (2) each marshal* shadow struct carries the same tags as its public twin, Marshal copies every wire field into the shadow and Unmarshal copies every one back, raw tickets are wrapped with the RFC's context tag; (3) wire-field audit: the static type handed to every asn1.Marshal call in the module contains only tagged fields (or is a literal that provably leaves an untagged field zero) — so decrypting an object cannot change its encoding; (4) SetFlag/UnsetFlag/IsFlagSet agree on byte i/8 and bit 7-(i-8*(i/8)) (RFC 4120 §5.2.8) and flags are 32 bits; (5) SPNEGO/KRB5 token framing: OID‖body in APPLICATION 0 on both sides, NegTokenInit/Resp as context tags 0/1 on both sides; (6) ticket sequences use SEQUENCE tag 0x30 + length. Round-trip equality for every value is not decided. Added: write-through summaries (no decrypt/verify/checksum/derive entry writes the bytes of a parameter, interprocedurally); the ticket sequence keeps slice order (Σ vs Σreversed placements); clock values are converted to UTC before any use in the message-building packages; SetFlag/UnsetFlag pad to 4 octets.",
		NotDecided: []string{
			"decode∘encode = id for every value; length-octet arithmetic of asn1tools for all lengths (value properties over unbounded domains)",
			"the gofork asn1 codec itself (dependency)",
		},
	})
}

type asnField struct {
	Name     string
	Tag      int    // context tag number; -1 = not a wire field
	Kind     string // "", "generalstring", "generalized"
	Optional bool   // RFC says OPTIONAL
}

func F(name string, tag int, opts ...string) asnField {
	f := asnField{Name: name, Tag: tag}
	for _, o := range opts {
		switch o {
		case "opt":
			f.Optional = true
		case "gs":
			f.Kind = "generalstring"
		case "time":
			f.Kind = "generalized"
		}
	}
	return f
}

// asnRef: transcribed from RFC 4120 Appendix A unless noted.
var asnRef = map[string][]asnField{
	"types.PrincipalName":          {F("NameType", 0), F("NameString", 1, "gs")},
	"types.HostAddress":            {F("AddrType", 0), F("Address", 1)},
	"types.AuthorizationDataEntry": {F("ADType", 0), F("ADData", 1)},
	"types.ADKDCIssued":            {F("ADChecksum", 0), F("IRealm", 1, "gs", "opt"), F("Isname", 2, "opt"), F("Elements", 3)},
	"types.ADAndOr":                {F("ConditionCount", 0), F("Elements", 1)},
	"types.TypedData":              {F("DataType", 0), F("DataValue", 1, "opt")},
	"types.EncryptedData":          {F("EType", 0), F("KVNO", 1, "opt"), F("Cipher", 2)},
	"types.EncryptionKey":          {F("KeyType", 0), F("KeyValue", 1)},
	"types.Checksum":               {F("CksumType", 0), F("Checksum", 1)},
	"types.Authenticator":          {F("AVNO", 0), F("CRealm", 1, "gs"), F("CName", 2), F("Cksum", 3, "opt"), F("Cusec", 4), F("CTime", 5, "time"), F("SubKey", 6, "opt"), F("SeqNumber", 7, "opt"), F("AuthorizationData", 8, "opt")},
	"types.PAData":                 {F("PADataType", 1), F("PADataValue", 2)},
	"types.PAEncTSEnc":             {F("PATimestamp", 0, "time"), F("PAUSec", 1, "opt")},
	"types.ETypeInfoEntry":         {F("EType", 0), F("Salt", 1, "opt")},
	"types.ETypeInfo2Entry":        {F("EType", 0), F("Salt", 1, "gs", "opt"), F("S2KParams", 2, "opt")},
	"types.PAReqEncPARep":          {F("ChksumType", 0), F("Chksum", 1)}, // RFC 6806 §11: a Checksum
	"messages.Ticket":              {F("TktVNO", 0), F("Realm", 1, "gs"), F("SName", 2), F("EncPart", 3), F("DecryptedEncPart", -1)},
	"messages.EncTicketPart":       {F("Flags", 0), F("Key", 1), F("CRealm", 2, "gs"), F("CName", 3), F("Transited", 4), F("AuthTime", 5, "time"), F("StartTime", 6, "time", "opt"), F("EndTime", 7, "time"), F("RenewTill", 8, "time", "opt"), F("CAddr", 9, "opt"), F("AuthorizationData", 10, "opt")},
	"messages.TransitedEncoding":   {F("TRType", 0), F("Contents", 1)},
	"messages.marshalKDCReq":       {F("PVNO", 1), F("MsgType", 2), F("PAData", 3, "opt"), F("ReqBody", 4)},
	"messages.marshalKDCReqBody":   {F("KDCOptions", 0), F("CName", 1, "opt"), F("Realm", 2, "gs"), F("SName", 3, "opt"), F("From", 4, "time", "opt"), F("Till", 5, "time"), F("RTime", 6, "time", "opt"), F("Nonce", 7), F("EType", 8), F("Addresses", 9, "opt"), F("EncAuthData", 10, "opt"), F("AdditionalTickets", 11, "opt")},
	"messages.KDCReqBody":          {F("KDCOptions", 0), F("CName", 1, "opt"), F("Realm", 2, "gs"), F("SName", 3, "opt"), F("From", 4, "time", "opt"), F("Till", 5, "time"), F("RTime", 6, "time", "opt"), F("Nonce", 7), F("EType", 8), F("Addresses", 9, "opt"), F("EncAuthData", 10, "opt"), F("AdditionalTickets", 11, "opt")},
	"messages.marshalKDCRep":       {F("PVNO", 0), F("MsgType", 1), F("PAData", 2, "opt"), F("CRealm", 3, "gs"), F("CName", 4), F("Ticket", 5), F("EncPart", 6)},
	"messages.EncKDCRepPart":       {F("Key", 0), F("LastReqs", 1), F("Nonce", 2), F("KeyExpiration", 3, "time", "opt"), F("Flags", 4), F("AuthTime", 5, "time"), F("StartTime", 6, "time", "opt"), F("EndTime", 7, "time"), F("RenewTill", 8, "time", "opt"), F("SRealm", 9, "gs"), F("SName", 10), F("CAddr", 11, "opt"), F("EncPAData", 12, "opt")}, // [12] RFC 6806 §11
	"messages.LastReq":             {F("LRType", 0), F("LRValue", 1, "time")},
	"messages.marshalAPReq":        {F("PVNO", 0), F("MsgType", 1), F("APOptions", 2), F("Ticket", 3), F("EncryptedAuthenticator", 4)},
	"messages.APReq":               {F("PVNO", 0), F("MsgType", 1), F("APOptions", 2), F("Ticket", 3), F("EncryptedAuthenticator", 4), F("Authenticator", -1)},
	"messages.APRep":               {F("PVNO", 0), F("MsgType", 1), F("EncPart", 2)},
	"messages.EncAPRepPart":        {F("CTime", 0, "time"), F("Cusec", 1), F("Subkey", 2, "opt"), F("SequenceNumber", 3, "opt")},
	"messages.KRBSafe":             {F("PVNO", 0), F("MsgType", 1), F("SafeBody", 2), F("Cksum", 3)},
	"messages.KRBSafeBody":         {F("UserData", 0), F("Timestamp", 1, "time", "opt"), F("Usec", 2, "opt"), F("SequenceNumber", 3, "opt"), F("SAddress", 4), F("RAddress", 5, "opt")},
	"messages.KRBPriv":             {F("PVNO", 0), F("MsgType", 1), F("EncPart", 3), F("DecryptedEncPart", -1)}, // there is no [2]
	"messages.EncKrbPrivPart":      {F("UserData", 0), F("Timestamp", 1, "time", "opt"), F("Usec", 2, "opt"), F("SequenceNumber", 3, "opt"), F("SAddress", 4), F("RAddress", 5, "opt")},
	"messages.marshalKRBCred":      {F("PVNO", 0), F("MsgType", 1), F("Tickets", 2), F("EncPart", 3)},
	"messages.EncKrbCredPart":      {F("TicketInfo", 0), F("Nouce", 1, "opt"), F("Timestamp", 2, "time", "opt"), F("Usec", 3, "opt"), F("SAddress", 4, "opt"), F("RAddress", 5, "opt")},
	"messages.KRBError":            {F("PVNO", 0), F("MsgType", 1), F("CTime", 2, "time", "opt"), F("Cusec", 3, "opt"), F("STime", 4, "time"), F("Susec", 5), F("ErrorCode", 6), F("CRealm", 7, "gs", "opt"), F("CName", 8, "opt"), F("Realm", 9, "gs"), F("SName", 10), F("EText", 11, "gs", "opt"), F("EData", 12, "opt")},
	"kadmin.ChangePasswdData":      {F("NewPasswd", 0), F("TargName", 1, "opt"), F("TargRealm", 2, "gs", "opt")},                                      // RFC 3244 §2
	"spnego.marshalNegTokenInit":   {F("MechTypes", 0), F("ReqFlags", 1, "opt"), F("MechTokenBytes", 2, "opt"), F("MechListMIC", 3, "opt")},           // RFC 4178 §4.2.1
	"spnego.marshalNegTokenResp":   {F("NegState", 0, "opt"), F("SupportedMech", 1, "opt"), F("ResponseToken", 2, "opt"), F("MechListMIC", 3, "opt")}, // RFC 4178 §4.2.2
}

// KrbCredInfo is outside the property's list (KRB-CRED is decode-only here); audited as a note.
var asnRefNoteOnly = map[string][]asnField{
	"messages.KrbCredInfo": {F("Key", 0), F("PRealm", 1, "gs", "opt"), F("PName", 2, "opt"), F("Flags", 3, "opt"), F("AuthTime", 4, "time", "opt"), F("StartTime", 5, "time", "opt"), F("EndTime", 6, "time", "opt"), F("RenewTill", 7, "time", "opt"), F("SRealm", 8, "gs", "opt"), F("SName", 9, "opt"), F("CAddr", 10, "opt")},
}

type parsedTag struct {
	tag      int
	hasTag   bool
	explicit bool
	optional bool
	kind     string
	other    []string
}

func parseASN1Tag(raw string) parsedTag {
	p := parsedTag{tag: -1}
	s := reflect.StructTag(raw).Get("asn1")
	for _, part := range strings.Split(s, ",") {
		part = strings.TrimSpace(part)
		switch {
		case part == "":
		case part == "explicit":
			p.explicit = true
		case part == "optional":
			p.optional = true
		case part == "generalstring" || part == "generalized" || part == "ia5" || part == "utf8" || part == "printable" || part == "utc":
			p.kind = part
		case strings.HasPrefix(part, "tag:"):
			n, err := strconv.Atoi(part[4:])
			if err == nil {
				p.tag, p.hasTag = n, true
			}
		default:
			p.other = append(p.other, part)
		}
	}
	return p
}

func splitTypeKey(k string) (string, string) {
	i := strings.LastIndex(k, ".")
	return k[:i], k[i+1:]
}

func ruleTagTable(w *World, c *Check, rule string, ref map[string][]asnField, noteOnly bool) {
	for _, tk := range sortedKeys(ref) {
		pkg, name := splitTypeKey(tk)
		st := w.StructOf(pkg, name)
		if st == nil {
			if noteOnly {
				continue
			}
			c.Missing(rule, tk)
			continue
		}
		want := map[string]asnField{}
		for _, f := range ref[tk] {
			want[f.Name] = f
		}
		seen := map[string]bool{}
		for i := 0; i < st.NumFields(); i++ {
			fld := st.Field(i)
			if fld.Embedded() {
				continue
			}
			where := w.Pos(fld.Pos())
			pt := parseASN1Tag(st.Tag(i))
			rf, ok := want[fld.Name()]
			seen[fld.Name()] = true
			construct := "field " + fld.Name()
			fail := func(desc, detail string) {
				if noteOnly {
					c.Note(rule, tk, construct, where, "deviation outside the property's type list: "+desc+" — "+detail)
				} else {
					c.Fail(rule, tk, construct, where, desc, detail)
				}
			}
			if !ok {
				if !fld.Exported() {
					continue // unexported fields are never encoded
				}
				fail("every exported field of a wire type has a reference row", "field "+fld.Name()+" is not in the RFC table (an extra field changes the encoding)")
				continue
			}
			if rf.Tag < 0 {
				// not a wire field: must be untagged and optional (so that decoding works) — rule 3 checks it is never encoded
				good := !pt.hasTag && pt.optional
				if good {
					c.Ok(rule, tk, construct, where, "non-wire helper field is untagged and optional")
				} else {
					fail("non-wire helper field is untagged and optional", "tag string `"+st.Tag(i)+"`")
				}
				continue
			}
			var problems []string
			if !pt.hasTag || pt.tag != rf.Tag {
				problems = append(problems, fmt.Sprintf("context tag is %d, RFC says [%d]", pt.tag, rf.Tag))
			}
			if !pt.explicit {
				problems = append(problems, "not EXPLICIT (the Kerberos module uses explicit tagging)")
			}
			if rf.Kind != pt.kind {
				// only enforce when the Go type needs a string/time qualifier
				problems = append(problems, fmt.Sprintf("string/time type is %q, RFC needs %q", pt.kind, rf.Kind))
			}
			if pt.optional && !rf.Optional {
				problems = append(problems, "marked optional but the RFC field is mandatory (it would be omitted when zero)")
			}
			desc := fmt.Sprintf("%s.%s is [%d] EXPLICIT%s%s", name, fld.Name(), rf.Tag, map[string]string{"": "", "generalstring": " GeneralString", "generalized": " GeneralizedTime"}[rf.Kind], map[bool]string{true: " OPTIONAL", false: ""}[rf.Optional])
			if len(problems) > 0 {
				fail(desc, strings.Join(problems, "; ")+" (tag string `"+st.Tag(i)+"`)")
			} else if !noteOnly {
				c.Ok(rule, tk, construct, where, desc)
			}
			if rf.Optional && !pt.optional && !noteOnly {
				c.Note(rule, tk, construct+" mandatory-in-code", where, "RFC-optional field is mandatory in the code: a peer omitting it cannot be decoded (decode-interop note)")
			}
		}
		for _, f := range ref[tk] {
			if !seen[f.Name] {
				if noteOnly {
					continue
				}
				c.Fail(rule, tk, "field "+f.Name, w.Pos(w.NamedType(pkg, name).Obj().Pos()), fmt.Sprintf("RFC field [%d] %s exists", f.Tag, f.Name), "no such field in the struct")
			}
		}
	}
}

var appTagRef = map[string]int{
	"Ticket": 1, "Authenticator": 2, "EncTicketPart": 3, "ASREQ": 10, "ASREP": 11, "TGSREQ": 12, "TGSREP": 13, "APREQ": 14, "APREP": 15,
	"KRBSafe": 20, "KRBPriv": 21, "KRBCred": 22, "EncASRepPart": 25, "EncTGSRepPart": 26, "EncAPRepPart": 27, "EncKrbPrivPart": 28, "EncKrbCredPart": 29, "KRBError": 30,
}

// which APPLICATION number a function's encode/decode site must use
var appTagOfFunc = map[string][]int{
	"messages.(*Ticket).Unmarshal": {1}, "messages.(*Ticket).Marshal": {1}, "messages.unmarshalTicketsSequence": {1},
	"types.(*Authenticator).Unmarshal": {2}, "types.(*Authenticator).Marshal": {2},
	"messages.(*EncTicketPart).Unmarshal": {3}, "messages.NewTicket": {3},
	"messages.(*ASReq).Unmarshal": {10}, "messages.(*ASReq).Marshal": {10},
	"messages.(*ASRep).Unmarshal": {11}, "messages.(*ASRep).Marshal": {11},
	"messages.(*TGSReq).Unmarshal": {12}, "messages.(*TGSReq).Marshal": {12},
	"messages.(*TGSRep).Unmarshal": {13}, "messages.(*TGSRep).Marshal": {13},
	"messages.(*APReq).Unmarshal": {14}, "messages.(*APReq).Marshal": {14},
	"messages.(*APRep).Unmarshal":   {15},
	"messages.(*KRBSafe).Unmarshal": {20},
	"messages.(*KRBPriv).Unmarshal": {21}, "messages.(*KRBPriv).Marshal": {21},
	"messages.(*KRBCred).Unmarshal":       {22},
	"messages.(*EncKDCRepPart).Unmarshal": {25, 26}, "messages.(*EncKDCRepPart).Marshal": {25},
	"messages.(*EncAPRepPart).Unmarshal":   {27},
	"messages.(*EncKrbPrivPart).Unmarshal": {28}, "messages.(*KRBPriv).EncryptEncPart": {28},
	"messages.(*EncKrbCredPart).Unmarshal": {29},
	"messages.(*KRBError).Unmarshal":       {30}, "messages.(*KRBError).Marshal": {30},
	"spnego.(*SPNEGOToken).Marshal": {0}, "spnego.(*SPNEGOToken).Unmarshal": {0},
	"spnego.(*KRB5Token).Marshal": {0}, "spnego.(*KRB5Token).Unmarshal": {0},
}

func ruleAppTags(w *World, c *Check, rule string) {
	for _, n := range sortedKeys(appTagRef) {
		v, ok := w.ConstInt("iana/asnAppTag", n)
		c.Decide(ok && int(v) == appTagRef[n], rule, "iana/asnAppTag", "const "+n, "-", fmt.Sprintf("APPLICATION tag of %s is %d (RFC 4120 §5.10)", n, appTagRef[n]), fmt.Sprintf("constant is %d (found %v)", v, ok))
	}
	seenFn := map[string]bool{}
	for _, fn := range w.ModuleFuncs() {
		if strings.HasSuffix(fn.Pkg.Pkg.Path(), "/examples") || strings.HasSuffix(fn.Pkg.Pkg.Path(), "/asn1tools") {
			continue
		}
		if newHelper(fn) {
			continue // its sites are attributed, with the arguments it is called with, to its callers
		}
		fa := NewFuncAn(w, fn)
		fk := FuncKey(fn)
		var nums []int
		var sites []string
		for _, dc := range fa.CallsDeep(`asn1tools\.AddASNAppTag`) {
			ci := dc.ci
			a := dc.fa.CallArgs(ci)
			if n, err := strconv.Atoi(a[1]); err == nil {
				nums = append(nums, n)
			} else {
				nums = append(nums, -1)
			}
			sites = append(sites, w.Pos(InstrPos(ci)))
		}
		for _, dc := range fa.CallsDeep(`github\.com/jcmturner/gofork/encoding/asn1\.UnmarshalWithParams`) {
			ci := dc.ci
			a := dc.fa.CallArgs(ci)
			m := regexpFind(`^fmt\.Sprintf\("application,(?:explicit,)?tag:%[vd]", \[(\d+)\]\)$`, a[2])
			if m == "" {
				m = regexpFind(`^"application,(?:explicit,)?tag:(\d+)"$`, a[2])
			}
			if m == "" {
				// the same string built by concatenation
				m = regexpFind(`^\("application,(?:explicit,)?tag:" \+ strconv\.(?:Itoa|FormatInt)\((\d+)(?:, 10)?\)\)$`, a[2])
			}
			if m == "" {
				c.Fail(rule, fk, "params", w.Pos(InstrPos(ci)), "UnmarshalWithParams is given an application tag that can be read statically", "params operand is "+trunc(a[2], 120))
				continue
			}
			n, _ := strconv.Atoi(m)
			nums = append(nums, n)
			sites = append(sites, w.Pos(InstrPos(ci)))
		}
		if len(nums) == 0 {
			continue
		}
		seenFn[fk] = true
		want, ok := appTagOfFunc[fk]
		if !ok {
			c.Fail(rule, fk, "site", sites[0], "every APPLICATION-tagging site belongs to a known message type", fmt.Sprintf("function uses application tag(s) %v but has no reference row", nums))
			continue
		}
		sort.Ints(nums)
		good := len(nums) == len(want)
		for i := range want {
			if i < len(nums) && nums[i] != want[i] {
				good = false
			}
		}
		c.Decide(good, rule, fk, "application-tag", sites[0], fmt.Sprintf("uses APPLICATION %v", want), fmt.Sprintf("uses %v", nums))
	}
	for _, fk := range sortedKeys(appTagOfFunc) {
		if !seenFn[fk] {
			c.Fail(rule, fk, "application-tag", "-", fmt.Sprintf("the function wraps/expects APPLICATION %v", appTagOfFunc[fk]), "no tagging site found in it (or the function is gone)")
		}
	}
	// message types
	for n, v := range map[string]int{"KRB_AS_REQ": 10, "KRB_AS_REP": 11, "KRB_TGS_REQ": 12, "KRB_TGS_REP": 13, "KRB_AP_REQ": 14, "KRB_AP_REP": 15, "KRB_SAFE": 20, "KRB_PRIV": 21, "KRB_CRED": 22, "KRB_ERROR": 30} {
		got, ok := w.ConstInt("iana/msgtype", n)
		c.Decide(ok && int(got) == v, rule, "iana/msgtype", "const "+n, "-", fmt.Sprintf("message type %s is %d", n, v), fmt.Sprintf("constant is %d", got))
	}
}

type shadowRef struct {
	shadow, public string // "pkg.Type"
	marshal        string // function keys
	unmarshal      []string
	raw            map[string]int // raw-value fields and the context tag they are wrapped with
}

var shadows = []shadowRef{
	{"messages.marshalAPReq", "messages.APReq", "messages.(*APReq).Marshal", []string{"messages.(*APReq).Unmarshal"}, map[string]int{"Ticket": 3}},
	{"messages.marshalKDCRep", "messages.KDCRepFields", "messages.(*ASRep).Marshal", []string{"messages.(*ASRep).Unmarshal"}, map[string]int{"Ticket": 5}},
	{"messages.marshalKDCRep", "messages.KDCRepFields", "messages.(*TGSRep).Marshal", []string{"messages.(*TGSRep).Unmarshal"}, map[string]int{"Ticket": 5}},
	{"messages.marshalKDCReq", "messages.KDCReqFields", "messages.(*ASReq).Marshal", []string{"messages.(*ASReq).Unmarshal"}, map[string]int{"ReqBody": 4}},
	{"messages.marshalKDCReq", "messages.KDCReqFields", "messages.(*TGSReq).Marshal", []string{"messages.(*TGSReq).Unmarshal"}, map[string]int{"ReqBody": 4}},
	{"messages.marshalKDCReqBody", "messages.KDCReqBody", "messages.(*KDCReqBody).Marshal", []string{"messages.(*KDCReqBody).Unmarshal"}, map[string]int{"AdditionalTickets": 11}},
	{"spnego.marshalNegTokenInit", "spnego.NegTokenInit", "spnego.(*NegTokenInit).Marshal", []string{"spnego.UnmarshalNegToken"}, nil},
	{"spnego.marshalNegTokenResp", "spnego.NegTokenResp", "spnego.(*NegTokenResp).Marshal", []string{"spnego.UnmarshalNegToken"}, nil},
}

func ruleShadows(w *World, c *Check, rule string) {
	for _, sr := range shadows {
		sp, sn := splitTypeKey(sr.shadow)
		pp, pn := splitTypeKey(sr.public)
		ss, ps := w.StructOf(sp, sn), w.StructOf(pp, pn)
		if ss == nil || ps == nil {
			c.Missing(rule, sr.shadow+"↔"+sr.public)
			continue
		}
		pub := map[string]int{}
		for i := 0; i < ps.NumFields(); i++ {
			pub[ps.Field(i).Name()] = i
		}
		// tag agreement
		for i := 0; i < ss.NumFields(); i++ {
			f := ss.Field(i)
			j, ok := pub[f.Name()]
			if !ok {
				c.Fail(rule, sr.shadow, "twin "+f.Name(), w.Pos(f.Pos()), "every shadow field has a same-named public field", "no field "+f.Name()+" in "+sr.public)
				continue
			}
			ptag := reflect.StructTag(ps.Tag(j)).Get("asn1")
			stag := reflect.StructTag(ss.Tag(i)).Get("asn1")
			if ptag != "" { // the SPNEGO public structs carry no tags
				a, b := parseASN1Tag(ss.Tag(i)), parseASN1Tag(ps.Tag(j))
				same := a.tag == b.tag && a.explicit == b.explicit && a.optional == b.optional && a.kind == b.kind
				c.Decide(same, rule, sr.shadow, "tags "+f.Name(), w.Pos(f.Pos()), "shadow and public field carry the same ASN.1 tag", fmt.Sprintf("shadow `%s` vs public `%s`", stag, ptag))
			}
		}
		// type agreement: a shadow field of a narrower or different type silently truncates or rejects values
		for i := 0; i < ss.NumFields(); i++ {
			f := ss.Field(i)
			j, ok := pub[f.Name()]
			if !ok {
				continue
			}
			if _, isRaw := sr.raw[f.Name()]; isRaw {
				continue
			}
			c.Decide(types.Identical(f.Type().Underlying(), ps.Field(j).Type().Underlying()), rule, sr.shadow, "type "+f.Name(), w.Pos(f.Pos()), "shadow and public field have the same Go type",
				fmt.Sprintf("shadow %s vs public %s", types.TypeString(f.Type(), nil), types.TypeString(ps.Field(j).Type(), nil)))
		}
		// marshal coverage
		mf := w.Func(sr.marshal)
		if mf == nil {
			c.Missing(rule, sr.marshal)
		} else {
			fa := NewFuncAn(w, mf)
			stores := map[string]string{}
			for _, st := range fa.storesTo(`local<` + q(sp+"."+sn) + `>(#\d+)?\.\w+`) {
				a := fa.R.R(st.Addr)
				stores[a[strings.LastIndex(a, ".")+1:]] = fa.R.R(st.Val)
			}
			for i := 0; i < ss.NumFields(); i++ {
				f := ss.Field(i)
				v, ok := stores[f.Name()]
				where := w.Pos(mf.Pos())
				if tag, isRaw := sr.raw[f.Name()]; isRaw {
					// wrapped raw value: Tag const, Class context-specific (2), IsCompound
					okRaw := false
					rawStores := map[string]string{}
					// (the wrapper may be built by a helper: its stores are read with the caller's arguments)
					for _, sub := range fa.withNewHelpers() {
						for _, st := range sub.storesTo(`.*\.(Tag|Class|IsCompound)`) {
							a := sub.R.R(st.Addr)
							rawStores[a[strings.LastIndex(a, ".")+1:]] = sub.R.R(st.Val)
						}
					}
					if rawStores["Tag"] == fmt.Sprint(tag) && rawStores["Class"] == "2" && rawStores["IsCompound"] == "true" {
						okRaw = true
					}
					// KDCReqBody: tag set on the MarshalTicketSequence result
					if !okRaw && f.Name() == "AdditionalTickets" {
						for _, st := range fa.storesTo(`.*\.Tag`) {
							if fa.R.R(st.Val) == fmt.Sprint(tag) {
								okRaw = true
							}
						}
					}
					c.Decide(okRaw, rule, sr.marshal, "raw "+f.Name(), where, fmt.Sprintf("%s is wrapped as context-specific constructed tag [%d]", f.Name(), tag), fmt.Sprintf("raw value stores: %v", rawStores))
					continue
				}
				good := ok && strings.HasSuffix(v, "."+f.Name())
				c.Decide(good, rule, sr.marshal, "copies "+f.Name(), where, "Marshal copies "+f.Name()+" from the same-named public field", "stored value: "+v)
			}
		}
		// unmarshal coverage
		for _, uk := range sr.unmarshal {
			uf := w.Func(uk)
			if uf == nil {
				c.Missing(rule, uk)
				continue
			}
			fa0 := NewFuncAn(w, uf)
			restored := map[string]bool{}
			for _, fa := range fa0.withNewHelpers() {
				for _, b := range fa.Fn.Blocks {
					for _, in := range b.Instrs {
						st, ok := in.(*ssa.Store)
						if !ok {
							continue
						}
						v := fa.R.R(st.Val)
						a := fa.R.R(st.Addr)
						for i := 0; i < ss.NumFields(); i++ {
							n := ss.Field(i).Name()
							if strings.HasSuffix(a, "."+n) && fullMatch(`local<`+q(sp+"."+sn)+`>(#\d+)?\.`+n+`(\..*)?`, v) {
								restored[n] = true
							}
						}
					}
				}
			}
			for i := 0; i < ss.NumFields(); i++ {
				f := ss.Field(i)
				if _, isRaw := sr.raw[f.Name()]; isRaw {
					// decoded through a helper from the raw bytes
					used := false
					for _, fa := range fa0.withNewHelpers() {
						for _, b := range fa.Fn.Blocks {
							for _, in := range b.Instrs {
								if ci, ok := in.(ssa.CallInstruction); ok {
									for _, a := range fa.CallArgs(ci) {
										if fullMatch(`local<`+q(sp+"."+sn)+`>(#\d+)?\.`+f.Name()+`(\.Bytes)?`, a) {
											used = true
										}
									}
								}
							}
						}
					}
					c.Decide(used, rule, uk, "decodes raw "+f.Name(), w.Pos(uf.Pos()), "Unmarshal decodes the raw "+f.Name()+" bytes", "raw field is not passed to a decoder")
					continue
				}
				c.Decide(restored[f.Name()], rule, uk, "restores "+f.Name(), w.Pos(uf.Pos()), "Unmarshal copies "+f.Name()+" back into the public struct", "no store of the shadow's "+f.Name()+" into a field of that name")
			}
		}
	}
}

// untaggedWireFields walks a type as the codec would and returns paths of
// struct fields that would be encoded without a context tag.
func untaggedWireFields(t types.Type, path string, depth int, seen map[types.Type]bool) []string {
	if depth > 8 || seen[t] {
		return nil
	}
	ts := t.String()
	switch {
	case strings.HasSuffix(ts, "asn1.RawValue"), strings.HasSuffix(ts, "asn1.ObjectIdentifier"), strings.HasSuffix(ts, "asn1.BitString"),
		strings.HasSuffix(ts, "asn1.Enumerated"), ts == "time.Time", strings.HasSuffix(ts, "asn1.Flag"), strings.HasSuffix(ts, "big.Int"):
		return nil
	}
	switch u := t.Underlying().(type) {
	case *types.Struct:
		seen[t] = true
		defer delete(seen, t)
		var out []string
		for i := 0; i < u.NumFields(); i++ {
			f := u.Field(i)
			if !f.Exported() {
				continue
			}
			pt := parseASN1Tag(u.Tag(i))
			p := path + "." + f.Name()
			if !pt.hasTag && !f.Embedded() {
				out = append(out, p)
				continue
			}
			out = append(out, untaggedWireFields(f.Type(), p, depth+1, seen)...)
		}
		return out
	case *types.Slice:
		return untaggedWireFields(u.Elem(), path+"[]", depth+1, seen)
	case *types.Pointer:
		return untaggedWireFields(u.Elem(), path, depth+1, seen)
	}
	return nil
}

func ruleWireAudit(w *World, c *Check, rule string) int {
	n := 0
	for _, fn := range w.ModuleFuncs() {
		if strings.HasSuffix(fn.Pkg.Pkg.Path(), "/examples") {
			continue
		}
		fa := NewFuncAn(w, fn)
		for _, ci := range fa.Calls(`github\.com/jcmturner/gofork/encoding/asn1\.Marshal(WithParams)?`) {
			n++
			arg := ci.Common().Args[0]
			// the static type behind the interface conversion
			var t types.Type = arg.Type()
			if mi, ok := arg.(*ssa.MakeInterface); ok {
				t = mi.X.Type()
				arg = mi.X
			}
			where := w.Pos(InstrPos(ci))
			fk := FuncKey(fn)
			construct := "asn1.Marshal(" + shortType(t) + ")"
			// top-level struct: its own fields need tags; a SEQUENCE OF / primitive at top level is fine
			var bad []string
			if _, isStruct := t.Underlying().(*types.Struct); isStruct || isPtr(t) || isSlice(t) {
				bad = untaggedWireFields(t, shortType(t), 0, map[types.Type]bool{})
			}
			if len(bad) > 0 {
				// composite-literal idiom: the value is a literal that never assigns the untagged fields
				if u, ok := arg.(*ssa.UnOp); ok {
					if a, ok := u.X.(*ssa.Alloc); ok && onlyFieldStores(a) {
						assigned := map[string]bool{}
						for _, st := range fa.storesTo(q(fa.R.R(a)) + `\.\w+`) {
							s := fa.R.R(st.Addr)
							assigned[s[strings.LastIndex(s, ".")+1:]] = true
						}
						var still []string
						for _, b := range bad {
							top := strings.Split(strings.TrimPrefix(b, shortType(t)+"."), ".")[0]
							if assigned[top] || strings.Count(strings.TrimPrefix(b, shortType(t)+"."), ".") > 0 {
								still = append(still, b)
							}
						}
						bad = still
					}
				}
			}
			c.Decide(len(bad) == 0, rule, fk, construct, where,
				"only tagged wire fields are handed to the encoder (the encoding cannot depend on helper fields such as a decrypted part)",
				fmt.Sprintf("the value encoded has untagged field(s) %v: whatever they hold is appended to the encoding (e.g. the plaintext of a decrypted part, session key included)", bad))
		}
	}
	return n
}

// onlyFieldStores: the local is built field by field (composite literal or
// assignments), never assigned as a whole and never handed out by address, so
// fields that are not stored are provably zero.
func onlyFieldStores(a *ssa.Alloc) bool {
	if a.Referrers() == nil {
		return false
	}
	for _, ref := range *a.Referrers() {
		switch x := ref.(type) {
		case *ssa.FieldAddr:
			if x.Referrers() == nil {
				continue
			}
			for _, r2 := range *x.Referrers() {
				switch y := r2.(type) {
				case *ssa.Store:
					if y.Addr != ssa.Value(x) {
						return false
					}
				case *ssa.UnOp, *ssa.DebugRef:
				default:
					return false
				}
			}
		case *ssa.UnOp, *ssa.DebugRef:
		case *ssa.Store:
			return false
		default:
			return false
		}
	}
	return true
}

func isSlice(t types.Type) bool {
	_, ok := t.Underlying().(*types.Slice)
	return ok
}

func runC13(w *World, c *Check) {
	c.Rule("C13.tags", "struct tags equal the RFC ASN.1 modules (tag number, EXPLICIT, GeneralString/GeneralizedTime, code-optional ⊆ RFC-optional)", 175)
	c.Rule("C13.apptags", "APPLICATION tag numbers and message-type constants equal RFC 4120; encode and decode side of a type agree", 60)
	c.Rule("C13.shadow", "shadow structs agree with their public twins; Marshal/Unmarshal cover every wire field; raw tickets carry the RFC's context tag", 100)
	c.Rule("C13.wire", "every asn1.Marshal call site encodes only tagged fields", 20)
	c.Rule("C13.processing", "decrypting, verifying or inspecting a decoded message stores only into its non-wire helper fields: what was decoded is what is re-encoded, whatever was done in between", 7)
	c.Rule("C13.no-clobber", "decrypting, verifying or checksumming never writes into the bytes it was given (a decoded message's cipher field, a key): what was decoded is still what is re-encoded afterwards", 40)
	ruleNoClobber(w, c, "C13.no-clobber", []string{"EType.DecryptData", "EType.DecryptMessage", "EType.VerifyIntegrity", "EType.VerifyChecksum", "EType.GetChecksumHash", "EType.DeriveKey", "EType.DeriveRandom",
		"crypto.DecryptEncPart", "crypto.DecryptMessage"},
		"the function does not write into the backing array of a byte slice it received")
	c.Rule("C13.utc", "a time taken from the clock for a message field is converted to UTC first: KerberosTime is encoded as YYYYMMDDHHMMSSZ (RFC 4120 §5.2.3) and the encoder writes the value's own zone offset", 10)
	ruleClockUTC(w, c, "C13.utc")
	c.Rule("C13.flags", "flag i lives in byte i/8, bit 7-(i-8*(i/8)) in SetFlag, UnsetFlag and IsFlagSet; flags are 32 bits", 4)
	c.Rule("C13.framing", "SPNEGO and KRB5 tokens are OID‖body in APPLICATION 0 on both sides; NegTokenInit/Resp are context tags 0/1 on both sides; ticket sequences are SEQUENCE (0x30)", 7)

	ruleTagTable(w, c, "C13.tags", asnRef, false)
	ruleTagTable(w, c, "C13.tags", asnRefNoteOnly, true)
	ruleAppTags(w, c, "C13.apptags")
	ruleShadows(w, c, "C13.shadow")
	ruleProcessingKeepsWire(w, c, "C13.processing")
	ruleUint32Fields(w, c, "C13.shadow")
	ruleWireAudit(w, c, "C13.wire")

	// ---- flags ---------------------------------------------------------------------
	var forms []string
	for _, fk := range []string{"types.SetFlag", "types.UnsetFlag", "types.IsFlagSet"} {
		fn := w.Func(fk)
		if fn == nil {
			c.Missing("C13.flags", fk)
			continue
		}
		fa := NewFuncAn(w, fn)
		// the byte index and the shift amount
		var idx, shift string
		for _, a := range fa.withNewHelpers() {
			for _, b := range a.Fn.Blocks {
				for _, in := range b.Instrs {
					switch x := in.(type) {
					case *ssa.IndexAddr:
						if strings.HasSuffix(a.R.R(x.X), ".Bytes") && a == fa {
							idx = a.R.R(x.Index)
						}
					case *ssa.BinOp:
						if x.Op.String() == "<<" && shift == "" {
							shift = a.R.R(x.Y)
						}
					}
				}
			}
		}
		i := substParams(fn, "i")
		wantIdx := "(" + i + " / 8)"
		wantShift := "(7 - (" + i + " - (8 * (" + i + " / 8))))"
		wantShift2 := "(7 - (" + i + " - ((" + i + " / 8) * 8)))"
		forms = append(forms, idx+"|"+shift)
		c.Decide(idx == wantIdx && (shift == wantShift || shift == wantShift2), "C13.flags", fk, "bit-numbering", w.Pos(fn.Pos()), "flag i is byte i/8, mask 1 << (7-(i-8*(i/8))) — RFC 4120 §5.2.8 big-endian bit numbering", "byte index "+idx+", shift "+shift)
	}
	if fn := w.Func("types.NewKrbFlags"); fn != nil {
		fa := NewFuncAn(w, fn)
		ok := false
		for _, st := range fa.storesTo(`.*\.Bytes`) {
			if v := fa.R.R(st.Val); v == "local<[4]byte>[:4]" || v == "make([]byte, 4)" {
				ok = true
			}
		}
		c.Decide(ok, "C13.flags", FuncKey(fn), "32-bits", w.Pos(fn.Pos()), "a fresh flag set has 4 bytes", "Bytes is not a 4-byte buffer")
	} else {
		c.Missing("C13.flags", "types.NewKrbFlags")
	}

	// flags are at least 32 bits (RFC 4120 §5.2.8): setting or clearing a flag on a shorter (or empty)
	// bit string first pads it to 4 octets — not merely as far as the flag's own octet, which would
	// send a 1–3 octet string that every decoder (this one included) left-pads differently
	for _, fk := range []string{"types.SetFlag", "types.UnsetFlag"} {
		fn := w.Func(fk)
		if fn == nil {
			c.Missing("C13.flags", fk)
			continue
		}
		fa := NewFuncAn(w, fn)
		n := 0
		for _, sub := range fa.withNewHelpers() {
			n += len(sub.MatchGuard(GuardPat{Kind: "gt", X: "4", Y: `\$L\d+|len\(.*Bytes\)`, PassWhen: true}))
			n += len(sub.MatchGuard(GuardPat{Kind: "gt", X: "32", Y: `.*BitLength`, PassWhen: true}))
		}
		c.Decide(n >= 1, "C13.flags", fk, "pads-to-32-bits", w.Pos(fn.Pos()), "a short bit string is padded to 4 octets before the flag is written", "no padding loop bounded by the constant 4 (octets) / 32 (bits)")
	}

	// received flag octets keep their position: bit i of a KerberosFlags value is bit i%8 (from the
	// most significant) of octet i/8 *counted from the first octet* (RFC 4120 §5.2.8, X.690 §8.6),
	// so a decoder that brings a short bit string up to 32 bits adds the missing octets behind the
	// received ones — zero octets put in front renumber every flag that was sent
	for _, fn := range w.ModuleFuncs() {
		if fn.Pkg == nil || !strings.HasSuffix(fn.Pkg.Pkg.Path(), "/messages") || fn.Name() != "Unmarshal" {
			continue
		}
		fa := NewFuncAn(w, fn)
		for _, b := range fn.Blocks {
			for _, in := range b.Instrs {
				st, isSt := in.(*ssa.Store)
				if !isSt {
					continue
				}
				// a store into the Bytes of a BIT STRING value (the receiver's field, or a local
				// copy that is assigned to it afterwards)
				fad, isFA := st.Addr.(*ssa.FieldAddr)
				if !isFA {
					continue
				}
				pt, isPtr := fad.X.Type().Underlying().(*types.Pointer)
				if !isPtr || !strings.HasSuffix(pt.Elem().String(), "encoding/asn1.BitString") {
					continue
				}
				stt, isStruct := pt.Elem().Underlying().(*types.Struct)
				if !isStruct || stt.Field(fad.Field).Name() != "Bytes" {
					continue
				}
				addr := fa.R.R(st.Addr)
				field := strings.TrimSuffix(addr, ".Bytes")
				if i := strings.LastIndex(field, "."); i >= 0 {
					field = field[i+1:]
				}
				places, _ := fa.BufferPlaces(st.Val)
				for _, pl := range places {
					if !strings.HasSuffix(pl.What, ".Bytes") {
						continue
					}
					c.Decide(pl.Off == "0", "C13.flags", FuncKey(fn), "received-octets-first:"+field, w.Pos(InstrPos(st)),
						"when "+field+" is brought up to 32 bits the received octets stay at the front (flag i keeps its number)",
						"the received octets are placed at offset "+pl.Off+": "+placesString(places))
				}
			}
		}
	}

	ruleFreshDecodeTarget(w, c, "C13.fresh-target")

	// ---- framing -----------------------------------------------------------------------
	checkCalls(w, c, "C13.framing", "spnego.(*SPNEGOToken).Marshal", []CallSpec{
		{Name: "init-framing", Desc: "an init token is SPNEGO-OID ‖ NegTokenInit wrapped in APPLICATION 0", Callee: `asn1tools\.AddASNAppTag`,
			Want: `asn1tools\.AddASNAppTag\(append\(github\.com/jcmturner/gofork/encoding/asn1\.Marshal\(gssapi\.\(OIDName\)\.OID\("SPNEGO"\)\)#0, spnego\.\(\*NegTokenInit\)\.Marshal\(recv\.NegTokenInit\)#0\), 0\)`},
	})
	// the message is appended to the header in every case, or only in the cases that have one
	// (appending an absent message is appending nothing)
	const krbTokHdr = `append\(github\.com/jcmturner/gofork/encoding/asn1\.Marshal\(recv\.OID\)#0, recv\.tokID\)`
	const krbTokWithMsg = `append\(` + krbTokHdr + `, [^|]*\)`
	checkCalls(w, c, "C13.framing", "spnego.(*KRB5Token).Marshal", []CallSpec{
		{Name: "krb5-framing", Desc: "a KRB5 mech token is OID ‖ tokID ‖ message wrapped in APPLICATION 0", Callee: `asn1tools\.AddASNAppTag`,
			Want: `asn1tools\.AddASNAppTag\((append\(` + krbTokHdr + `, .*\)|φ\(` + krbTokWithMsg + `\|` + krbTokHdr + `\)|φ\(` + krbTokHdr + `\|` + krbTokWithMsg + `\)), 0\)`},
	})
	for fk, tag := range map[string]string{"spnego.(*NegTokenInit).Marshal": "0", "spnego.(*NegTokenResp).Marshal": "1"} {
		fn := w.Func(fk)
		if fn == nil {
			c.Missing("C13.framing", fk)
			continue
		}
		fa := NewFuncAn(w, fn)
		got := map[string]string{}
		for _, sub := range fa.withNewHelpers() {
			for _, st := range sub.storesTo(`.*\.(Tag|Class|IsCompound)`) {
				a := sub.R.R(st.Addr)
				got[a[strings.LastIndex(a, ".")+1:]] = sub.R.R(st.Val)
			}
		}
		c.Decide(got["Tag"] == tag && got["Class"] == "2" && got["IsCompound"] == "true", "C13.framing", fk, "choice-tag", w.Pos(fn.Pos()), "the CHOICE alternative is context-specific constructed tag ["+tag+"] (RFC 4178 §4.2)", fmt.Sprintf("RawValue fields %v", got))
	}
	if fn := w.Func("spnego.UnmarshalNegToken"); fn == nil {
		c.Missing("C13.framing", "spnego.UnmarshalNegToken")
	} else {
		fa := NewFuncAn(w, fn)
		okI, okR, seenI, seenR := true, true, false, false
		for _, x := range fa.SuccessExits(BoolErrSuccess(-1, 2)) {
			first := fa.R.R(RetResults(x.Ret)[0])
			second := fa.R.R(RetResults(x.Ret)[1])
			for _, f := range fa.factsOn(x.In) {
				if f.c.Kind != "eq" || !f.holds || !strings.HasSuffix(f.c.R, ".Tag") {
					continue
				}
				switch f.c.L {
				case "0":
					seenI = true
					if first != "true" || !strings.Contains(second, "NegTokenInit") {
						okI = false
					}
				case "1":
					seenR = true
					if first != "false" || !strings.Contains(second, "NegTokenResp") {
						okR = false
					}
				}
			}
		}
		c.Decide(okI && okR && seenI && seenR, "C13.framing", FuncKey(fn), "choice-decode", w.Pos(fn.Pos()), "tag 0 decodes as NegTokenInit, tag 1 as NegTokenResp (same numbers as the encoder)", fmt.Sprintf("init arm ok=%v seen=%v; resp arm ok=%v seen=%v", okI, seenI, okR, seenR))
	}
	if fn := w.Func("messages.MarshalTicketSequence"); fn == nil {
		c.Missing("C13.framing", "messages.MarshalTicketSequence")
	} else {
		fa := NewFuncAn(w, fn)
		// the bytes of the raw value, however assembled: 0x30, the length octets of the tickets, then
		// the tickets' encodings in the order of the slice (Σ: each one appended after those before it)
		ok := false
		detail := "no store to the raw value's Bytes"
		for _, st := range fa.storesTo(`.*\.Bytes`) {
			ps, _ := fa.BufferPlaces(st.Val)
			detail = placesString(ps)
			if len(ps) != 3 {
				continue
			}
			tk := substParams(fn, `Σ\(messages\.\(\*Ticket\)\.Marshal\(tkts\[\$i\d+\]\)#0\)`)
			ok = ps[0].String() == "48@0:1" && ps[1].Off == "1" && fullMatch(`asn1tools\.MarshalLengthBytes\(len\(.*\)\)`, ps[1].What) && fullMatch(tk, ps[2].What) && ps[2].Off == ps[1].End
		}
		c.Decide(ok, "C13.framing", FuncKey(fn), "sequence-header", w.Pos(fn.Pos()), "the ticket sequence is 0x30 ‖ length ‖ the tickets' encodings in slice order", "bytes: "+detail)
	}
	checkCalls(w, c, "C13.framing", "messages.unmarshalTicketsSequence", []CallSpec{
		{Name: "skip-header", Desc: "decoding skips one tag octet plus the length octets of the same header", Callee: `asn1tools\.GetNumberBytesInLengthHeader`, Want: `asn1tools\.GetNumberBytesInLengthHeader\(in\.Bytes\)`},
	})
	_ = forms
}

// RFC 4120 UInt32 fields (nonce, seq-number): the Go field must hold 0 … 2^32-1 on every platform
// the module supports for them to round-trip; int32 cannot, int can on 64-bit targets only (noted).
var uint32WireFields = []string{"messages.KDCReqBody.Nonce", "messages.marshalKDCReqBody.Nonce", "messages.EncKDCRepPart.Nonce",
	"messages.EncKrbPrivPart.SequenceNumber", "messages.EncAPRepPart.SequenceNumber", "messages.KRBSafeBody.SequenceNumber", "types.Authenticator.SeqNumber"}

func ruleUint32Fields(w *World, c *Check, rule string) {
	for _, fk := range uint32WireFields {
		i := strings.LastIndex(fk, ".")
		pkg, name := splitTypeKey(fk[:i])
		st := w.StructOf(pkg, name)
		if st == nil {
			c.Missing(rule, fk[:i])
			continue
		}
		found := false
		for k := 0; k < st.NumFields(); k++ {
			f := st.Field(k)
			if f.Name() != fk[i+1:] {
				continue
			}
			found = true
			b, _ := f.Type().Underlying().(*types.Basic)
			ok := b != nil && (b.Kind() == types.Int || b.Kind() == types.Int64 || b.Kind() == types.Uint32 || b.Kind() == types.Uint64 || b.Kind() == types.Uint)
			c.Decide(ok, rule, fk[:i], "uint32 "+f.Name(), w.Pos(f.Pos()), f.Name()+" is an RFC 4120 UInt32: its Go type holds 0 … 2^32-1", "Go type "+types.TypeString(f.Type(), nil)+" cannot hold values from 2^31")
		}
		if !found {
			c.Fail(rule, fk[:i], "uint32 "+fk[i+1:], "-", "the UInt32 field exists", "no such field")
		}
	}
}

// ruleProcessingKeepsWire: methods that process a decoded message in place (Decrypt*, Verify,
// Valid, GetPACType, Process*) may store into the receiver's helper fields (reference tag -1:
// DecryptedEncPart, Authenticator …) but not into a field that is encoded: "re-encoding a decoded
// message reproduces the original bytes regardless of what was done in between".
func ruleProcessingKeepsWire(w *World, c *Check, rule string) {
	procRe := compileRe(`^(Decrypt\w*|Verify\w*|Valid|GetPACType|Process\w*|IsReplay)$`)
	wireOf := func(st types.Type) map[string]int {
		n, ok := st.(*types.Named)
		if !ok || n.Obj().Pkg() == nil {
			return nil
		}
		key := relPkg(n.Obj().Pkg().Path()) + "." + n.Obj().Name()
		rows, ok := asnRef[key]
		if !ok {
			return nil
		}
		m := map[string]int{}
		for _, r := range rows {
			m[r.Name] = r.Tag
		}
		return m
	}
	for _, fn := range w.ModuleFuncs() {
		if fn.Signature.Recv() == nil || !procRe.MatchString(fn.Name()) || len(fn.Params) == 0 {
			continue
		}
		pt, ok := fn.Signature.Recv().Type().(*types.Pointer)
		if !ok {
			continue
		}
		top := wireOf(pt.Elem())
		if top == nil {
			// a type that embeds a table type (ASRep, TGSRep embed KDCRepFields)
			if st, isSt := pt.Elem().Underlying().(*types.Struct); isSt {
				for i := 0; i < st.NumFields(); i++ {
					if st.Field(i).Embedded() && wireOf(st.Field(i).Type()) != nil {
						top = map[string]int{}
					}
				}
			}
			if top == nil {
				continue
			}
		}
		fk := FuncKey(fn)
		recv := fn.Params[0]
		var bad []string
		var pos ssa.Instruction
		for _, b := range fn.Blocks {
			for _, in := range b.Instrs {
				st, isSt := in.(*ssa.Store)
				if !isSt {
					continue
				}
				// walk the address up to the receiver
				var chain []*ssa.FieldAddr
				v := st.Addr
				for {
					if fa, isFA := v.(*ssa.FieldAddr); isFA {
						chain = append([]*ssa.FieldAddr{fa}, chain...)
						v = fa.X
						continue
					}
					if ia, isIA := v.(*ssa.IndexAddr); isIA {
						v = ia.X
						continue
					}
					if u, isU := v.(*ssa.UnOp); isU && u.Op == token.MUL {
						v = u.X // element of a slice field: load of the slice header
						continue
					}
					break
				}
				if v != recv || len(chain) == 0 {
					continue
				}
				// the first field below the receiver that belongs to a table type
				for _, fa := range chain {
					stt := fa.X.Type().Underlying().(*types.Pointer).Elem()
					fld := stt.Underlying().(*types.Struct).Field(fa.Field)
					if fld.Embedded() {
						continue
					}
					tab := wireOf(stt)
					if tab == nil {
						break
					}
					if tag, known := tab[fld.Name()]; known && tag >= 0 {
						bad = append(bad, fld.Name())
						pos = in
					}
					break
				}
			}
		}
		if len(bad) > 0 {
			c.Fail(rule, fk, "wire-fields-kept", w.Pos(InstrPos(pos)), "processing stores only into helper fields of the message", fmt.Sprintf("stores into the encoded field(s) %v of the receiver: a later Marshal no longer reproduces what was decoded", bad))
		} else {
			c.Ok(rule, fk, "wire-fields-kept", w.Pos(fn.Pos()), "processing stores only into helper fields of the message")
		}
	}
}

// ruleClockUTC: in the packages that build protocol messages every time.Now() is used only as the
// receiver of .UTC(). The ASN.1 encoder writes a GeneralizedTime with the zone offset of the
// time.Time it is given; a local time therefore leaves the library as "…+0200", which RFC 4120
// §5.2.3 forbids and strict peers reject — visible only when the process zone is not UTC.
func ruleClockUTC(w *World, c *Check, rule string) {
	scope := map[string]bool{"messages": true, "types": true, "kadmin": true, "spnego": true, "gssapi": true, "service": true, "pac": true, "credentials": true}
	for _, fn := range w.ModuleFuncs() {
		if fn.Pkg == nil || !scope[relPkg(fn.Pkg.Pkg.Path())] {
			continue
		}
		for _, b := range fn.Blocks {
			for _, in := range b.Instrs {
				call, ok := in.(*ssa.Call)
				if !ok {
					continue
				}
				f := call.Call.StaticCallee()
				if f == nil || calleeName(f) != "time.Now" {
					continue
				}
				good := call.Referrers() != nil && len(*call.Referrers()) > 0
				bad := ""
				if good {
					for _, ref := range *call.Referrers() {
						switch x := ref.(type) {
						case *ssa.DebugRef:
						case *ssa.Call:
							if g := x.Call.StaticCallee(); g == nil || calleeName(g) != "time.(Time).UTC" || len(x.Call.Args) == 0 || x.Call.Args[0] != ssa.Value(call) {
								good, bad = false, x.String()
							}
						default:
							good, bad = false, ref.String()
						}
					}
				}
				c.Decide(good, rule, FuncKey(fn), "clock-utc", w.Pos(InstrPos(call)), "the clock value is converted to UTC before any other use", "time.Now() is used as "+trunc(bad, 100)+": a local time reaches a message field or a comparison with one")
			}
		}
	}
}

// ruleFreshDecodeTarget: the ASN.1 decoder leaves a field alone when its OPTIONAL element is
// absent, so a struct decoded into inside a loop must be a fresh variable of that iteration — a
// variable declared outside the loop hands element N's optional fields on to element N+1.
// Exempt: asn1.RawValue (no optional member: every field is set by every decode) and slice
// targets (the decoder makes a new slice).
func ruleFreshDecodeTarget(w *World, c *Check, rule string) {
	c.Rule(rule, "a struct decoded inside a loop is a variable of that iteration: the decoder does not reset fields whose OPTIONAL element is absent, so a target declared outside the loop carries them from one element to the next", 2)
	for _, fn := range w.ModuleFuncs() {
		for _, b := range fn.Blocks {
			var h *ssa.BasicBlock
			looked := false
			for _, in := range b.Instrs {
				call, ok := in.(*ssa.Call)
				if !ok {
					continue
				}
				f := call.Call.StaticCallee()
				if f == nil || call.Call.IsInvoke() {
					continue
				}
				var dst ssa.Value
				switch n := calleeName(f); {
				case strings.HasSuffix(n, "encoding/asn1.Unmarshal") || strings.HasSuffix(n, "encoding/asn1.UnmarshalWithParams"):
					if len(call.Call.Args) >= 2 {
						dst = call.Call.Args[1]
					}
				case f.Name() == "Unmarshal" && f.Signature.Recv() != nil && f.Pkg != nil && inModule(f.Pkg.Pkg.Path()):
					dst = call.Call.Args[0]
				}
				if dst == nil {
					continue
				}
				if !looked {
					h, looked = loopHeaderOf(b), true
				}
				if h == nil {
					continue
				}
				if mi, isMI := dst.(*ssa.MakeInterface); isMI {
					dst = mi.X
				}
				a, isAlloc := dst.(*ssa.Alloc)
				if !isAlloc {
					continue
				}
				et := a.Type().(*types.Pointer).Elem()
				if _, isSlice := et.Underlying().(*types.Slice); isSlice || strings.HasSuffix(et.String(), "encoding/asn1.RawValue") {
					c.Ok(rule, FuncKey(fn), "target "+a.Comment+" ("+shortType(et)+")", w.Pos(InstrPos(call)), "the target is replaced as a whole by every decode")
					continue
				}
				c.Decide(loopHeaderOf(a.Block()) == h, rule, FuncKey(fn), "target "+a.Comment+" ("+shortType(et)+")", w.Pos(InstrPos(call)),
					"the decode target is declared inside the loop it is decoded in",
					"the target "+a.Comment+" is declared outside the loop: fields of absent OPTIONAL elements keep the previous element's values")
			}
		}
	}
}
