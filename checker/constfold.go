package main

// Constant byte strings, however they are spelled.
//
// A fixed byte string (a token identifier, filler bytes) may be written as a literal at the use
// site, returned by a parameterless accessor function, or kept in a package-level array that is
// only ever read. All three are the same value; the renderer folds them to the literal "[a, b]"
// so that rules about such bytes do not depend on which spelling the code uses.

import (
	"go/types"
	"strings"

	"golang.org/x/tools/go/ssa"
)

type globalBytes struct {
	elems   []string
	written string // non-empty: where the global is (or may be) written outside its initialiser
}

// constArrayElems: a is a local byte array all of whose slots are filled once with constants
// (unfilled slots are zero) and that is otherwise only loaded or sliced.
func constArrayElems(a *ssa.Alloc) ([]string, bool) {
	pt, ok := a.Type().(*types.Pointer)
	if !ok {
		return nil, false
	}
	arr, ok := pt.Elem().Underlying().(*types.Array)
	if !ok || arr.Len() > 64 || a.Referrers() == nil || !isByte(arr.Elem()) {
		return nil, false
	}
	els := make([]string, arr.Len())
	for i := range els {
		els[i] = "0"
	}
	set := make([]bool, arr.Len())
	for _, ref := range *a.Referrers() {
		switch x := ref.(type) {
		case *ssa.IndexAddr:
			c, ok := x.Index.(*ssa.Const)
			if !ok || c.Value == nil || x.Referrers() == nil {
				return nil, false
			}
			i, ok := constInt64(c.Value)
			if !ok || i < 0 || i >= arr.Len() {
				return nil, false
			}
			for _, r2 := range *x.Referrers() {
				st, ok := r2.(*ssa.Store)
				if !ok || st.Addr != x || set[i] {
					return nil, false
				}
				cv, ok := st.Val.(*ssa.Const)
				if !ok || cv.Value == nil {
					return nil, false
				}
				set[i] = true
				els[i] = cv.Value.ExactString()
			}
		case *ssa.UnOp, *ssa.DebugRef, *ssa.Return:
		case *ssa.Slice:
			// a slice of the literal handed out: it must not be written through here
			if x.Referrers() != nil {
				for _, r2 := range *x.Referrers() {
					if _, isRet := r2.(*ssa.Return); !isRet {
						return nil, false
					}
				}
			}
		default:
			return nil, false
		}
	}
	return els, true
}

func isByte(t types.Type) bool {
	b, ok := t.Underlying().(*types.Basic)
	return ok && b.Kind() == types.Uint8
}

// funcConstBytes: the parameterless module function f returns one constant byte array / slice.
func funcConstBytes(f *ssa.Function, depth int) ([]string, bool) {
	if f == nil || depth > 3 || len(f.Params) != 0 || len(f.FreeVars) != 0 || f.Blocks == nil || f.Pkg == nil || !inModule(f.Pkg.Pkg.Path()) || f.Signature.Results().Len() != 1 {
		return nil, false
	}
	var out []string
	n := 0
	for _, b := range f.Blocks {
		for _, in := range b.Instrs {
			ret, ok := in.(*ssa.Return)
			if !ok {
				continue
			}
			n++
			if len(ret.Results) != 1 {
				return nil, false
			}
			els, ok := valueConstBytes(nil, ret.Results[0], depth+1)
			if !ok {
				return nil, false
			}
			out = els
		}
	}
	if n != 1 {
		return nil, false
	}
	// nothing else happens in the function: only the literal's construction
	for _, b := range f.Blocks {
		for _, in := range b.Instrs {
			switch in.(type) {
			case *ssa.Alloc, *ssa.IndexAddr, *ssa.Store, *ssa.UnOp, *ssa.Slice, *ssa.Return, *ssa.DebugRef:
			case *ssa.Call:
				if g := in.(*ssa.Call).Call.StaticCallee(); g == nil {
					return nil, false
				} else if _, ok := funcConstBytes(g, depth+1); !ok {
					return nil, false
				}
			default:
				return nil, false
			}
		}
	}
	return out, true
}

// valueConstBytes: v is a constant byte string in one of the three spellings.
func valueConstBytes(w *World, v ssa.Value, depth int) ([]string, bool) {
	if depth > 4 {
		return nil, false
	}
	switch x := v.(type) {
	case *ssa.Alloc:
		// go/ssa returns an array composite literal as its (unlifted) cell
		return constArrayElems(x)
	case *ssa.Call:
		if len(x.Call.Args) == 0 {
			return funcConstBytes(x.Call.StaticCallee(), depth)
		}
	case *ssa.UnOp:
		switch a := x.X.(type) {
		case *ssa.Alloc:
			if els, ok := constArrayElems(a); ok {
				return els, true
			}
			return spilledConstBytes(w, a, depth)
		case *ssa.Global:
			if w != nil {
				return w.globalConstBytes(a)
			}
		}
	case *ssa.Slice:
		if x.Low != nil || x.High != nil {
			return nil, false
		}
		switch a := x.X.(type) {
		case *ssa.Alloc:
			if els, ok := constArrayElems(a); ok {
				return els, true
			}
			return spilledConstBytes(w, a, depth)
		case *ssa.Global:
			if w != nil {
				return w.globalConstBytes(a)
			}
		case *ssa.Call:
			return valueConstBytes(w, a, depth+1)
		}
	}
	return nil, false
}

// spilledConstBytes: a local array that only holds the result of one constant-bytes value
// (t = f(); t[:]).
func spilledConstBytes(w *World, a *ssa.Alloc, depth int) ([]string, bool) {
	if a.Referrers() == nil {
		return nil, false
	}
	var val ssa.Value
	for _, ref := range *a.Referrers() {
		switch x := ref.(type) {
		case *ssa.Store:
			if x.Addr != a || val != nil {
				return nil, false
			}
			val = x.Val
		case *ssa.Slice, *ssa.UnOp, *ssa.DebugRef:
		case *ssa.IndexAddr:
			if x.Referrers() != nil {
				for _, r2 := range *x.Referrers() {
					if st, ok := r2.(*ssa.Store); ok && st.Addr == x {
						return nil, false
					}
				}
			}
		default:
			return nil, false
		}
	}
	if val == nil {
		return nil, false
	}
	if _, isArr := val.Type().Underlying().(*types.Array); !isArr {
		return nil, false
	}
	return valueConstBytes(w, val, depth+1)
}

// globalConstBytes: g is a package-level byte array initialised with constants and never written
// (nor handed to anything that could write it) outside the package initialiser.
func (w *World) globalConstBytes(g *ssa.Global) ([]string, bool) {
	if w.globals == nil {
		w.globals = map[*ssa.Global]*globalBytes{}
		w.scanGlobals()
	}
	gb := w.globals[g]
	if gb == nil || gb.written != "" || gb.elems == nil {
		return nil, false
	}
	return gb.elems, true
}

func (w *World) scanGlobals() {
	get := func(g *ssa.Global) *globalBytes {
		if gb := w.globals[g]; gb != nil {
			return gb
		}
		gb := &globalBytes{}
		if pt, ok := g.Type().(*types.Pointer); ok {
			if arr, ok := pt.Elem().Underlying().(*types.Array); ok && isByte(arr.Elem()) && arr.Len() <= 64 {
				gb.elems = make([]string, arr.Len())
				for i := range gb.elems {
					gb.elems[i] = "0"
				}
			}
		}
		w.globals[g] = gb
		return gb
	}
	readOnlyCall := func(c *ssa.CallCommon, v ssa.Value) bool {
		// the slice v is an argument: only known readers are accepted
		if bi, ok := c.Value.(*ssa.Builtin); ok {
			switch bi.Name() {
			case "copy", "append":
				return len(c.Args) == 2 && c.Args[1] == v && c.Args[0] != v
			case "len", "cap":
				return true
			}
			return false
		}
		if f := c.StaticCallee(); f != nil && f.Pkg != nil {
			switch f.Pkg.Pkg.Path() + "." + f.Name() {
			case "bytes.Equal", "bytes.Compare", "bytes.HasPrefix", "bytes.HasSuffix", "bytes.Contains", "bytes.Index", "crypto/hmac.Equal", "crypto/subtle.ConstantTimeCompare", "encoding/hex.EncodeToString", "encoding/hex.Dump", "bytes.NewReader", "string":
				return true
			}
		}
		return false
	}
	var fns []*ssa.Function
	fns = append(fns, w.allFns...)
	for _, p := range w.SSAPkgs {
		if init := p.Func("init"); init != nil {
			fns = append(fns, init)
		}
	}
	for _, fn := range fns {
		isInit := fn.Name() == "init" && fn.Synthetic != ""
		for _, b := range fn.Blocks {
			for _, in := range b.Instrs {
				for _, op := range in.Operands(nil) {
					g, ok := (*op).(*ssa.Global)
					if !ok || g.Pkg == nil || !inModule(g.Pkg.Pkg.Path()) {
						continue
					}
					gb := get(g)
					if gb.elems == nil {
						continue
					}
					where := FuncKey(fn)
					switch x := in.(type) {
					case *ssa.UnOp: // load of the whole array
					case *ssa.IndexAddr:
						for _, r2 := range derefRefs(x) {
							st, isSt := r2.(*ssa.Store)
							if !isSt || st.Addr != x {
								continue
							}
							c, _ := x.Index.(*ssa.Const)
							cv, _ := st.Val.(*ssa.Const)
							if isInit && c != nil && cv != nil && c.Value != nil && cv.Value != nil {
								if i, ok := constInt64(c.Value); ok && i >= 0 && int(i) < len(gb.elems) {
									gb.elems[i] = cv.Value.ExactString()
									continue
								}
							}
							gb.written = where
						}
					case *ssa.Slice:
						for _, r2 := range derefRefs(x) {
							switch y := r2.(type) {
							case *ssa.Call:
								if !readOnlyCall(&y.Call, x) {
									gb.written = where
								}
							case *ssa.DebugRef:
							case *ssa.MakeInterface, *ssa.ChangeType, *ssa.Convert:
								// string(g[:]) is a read; anything else is not followed
								if cv, ok := y.(*ssa.Convert); ok {
									if bt, ok := cv.Type().Underlying().(*types.Basic); ok && bt.Kind() == types.String {
										continue
									}
								}
								gb.written = where
							default:
								gb.written = where
							}
						}
					case *ssa.DebugRef:
					case *ssa.Store:
						if isInit && x.Addr == g {
							if cv, ok := x.Val.(*ssa.UnOp); ok {
								if a, ok := cv.X.(*ssa.Alloc); ok {
									if els, ok := constArrayElems(a); ok && len(els) == len(gb.elems) {
										gb.elems = els
										continue
									}
								}
							}
						}
						gb.written = where
					default:
						gb.written = where
					}
				}
			}
		}
	}
}

func derefRefs(v ssa.Value) []ssa.Instruction {
	if r := v.Referrers(); r != nil {
		return *r
	}
	return nil
}

func bytesLiteral(els []string) string { return "[" + strings.Join(els, ", ") + "]" }
