package main

// Guards decided by scenario, not by spelling.
//
// A guard obligation says: a success exit is reachable only when the guard's condition passes
// (or an exemption applies). The syntactic matcher finds the branch that tests the condition and
// checks that every path to success uses its accepting edge. That depends on how the test is
// written: `if a && !b {reject}; if !a && b {reject}` and `if a != b {reject}` are the same guard.
//
// The scenario evaluator asks the question directly. The scenario of a guard is "every spelling of
// its condition fails and no exemption holds". The function is then walked path-sensitively:
// a branch whose condition is decided by the scenario — because it matches one of the patterns, or
// because it is built from decided values by ==, !=, !, comparison of constants, a φ selected by the
// path taken, or a call of a module function that evaluates to one outcome under the same
// scenario — is followed only on the decided side; every other branch is followed on both sides.
// If no success exit is reachable, the guard holds, whatever its spelling.
//
// This is an abstract interpretation over the finite domain {true, false, unknown} (and
// {nil, non-nil, unknown} for errors), not an execution: no input is ever chosen.

import (
	"go/constant"
	"go/token"
	"go/types"
	"sort"
	"strings"

	"golang.org/x/tools/go/ssa"
)

type scenarioPat struct {
	x, y string
	p    GuardPat
	pass bool // whether the pattern's guard passes in the scenario
}

type sval struct {
	kind int // 0 unknown, 1 bool, 2 nilness, 3 integer constant
	b    bool
	c    constant.Value
}

func (s sval) known() bool { return s.kind != 0 }

func (s sval) key() string {
	switch s.kind {
	case 1:
		if s.b {
			return "T"
		}
		return "F"
	case 2:
		if s.b {
			return "nil"
		}
		return "nonnil"
	case 3:
		return s.c.ExactString()
	}
	return "?"
}

type symCtx struct {
	w     *World
	pats  []scenarioPat
	steps int
}

type symExit struct {
	ret  *ssa.Return
	in   *Edge
	env  map[ssa.Value]sval
	path []*ssa.BasicBlock
}

func boolVal(b bool) sval    { return sval{kind: 1, b: b} }
func nilVal(isNil bool) sval { return sval{kind: 2, b: isNil} }

// evalBoolByPattern: v is a condition one of the scenario's patterns talks about.
func (sc *symCtx) evalBoolByPattern(fa *FuncAn, v ssa.Value) (sval, bool) {
	c := fa.canon(v)
	if c.Kind == "gt" {
		c.Alts = fa.linearAlts(v)
	}
	for _, sp := range sc.pats {
		if passSucc, ok := matchOne(c, sp.x, sp.y, sp.p); ok {
			taken := passSucc
			if !sp.pass {
				taken = 1 - passSucc
			}
			return boolVal(taken == 0), true
		}
	}
	return sval{}, false
}

func isNilConstV(v ssa.Value) bool {
	c, ok := v.(*ssa.Const)
	return ok && c.Value == nil && !isBasic(c.Type())
}

func isBasic(t types.Type) bool {
	_, ok := t.Underlying().(*types.Basic)
	return ok
}

func (sc *symCtx) eval(fa *FuncAn, v ssa.Value, env map[ssa.Value]sval, depth int) sval {
	if sv, ok := env[v]; ok {
		return sv
	}
	if depth > 8 {
		return sval{}
	}
	if bt, ok := v.Type().Underlying().(*types.Basic); ok && bt.Kind() == types.Bool {
		if _, isConst := v.(*ssa.Const); !isConst {
			if sv, ok := sc.evalBoolByPattern(fa, v); ok {
				return sv
			}
		}
	}
	switch x := v.(type) {
	case *ssa.Const:
		if x.Value == nil {
			if isBasic(x.Type()) {
				return sval{}
			}
			return nilVal(true)
		}
		switch x.Value.Kind() {
		case constant.Bool:
			return boolVal(constant.BoolVal(x.Value))
		case constant.Int:
			return sval{kind: 3, c: x.Value}
		}
	case *ssa.UnOp:
		if x.Op == token.NOT {
			if s := sc.eval(fa, x.X, env, depth+1); s.kind == 1 {
				return boolVal(!s.b)
			}
		}
	case *ssa.BinOp:
		switch x.Op {
		case token.EQL, token.NEQ:
			var res sval
			switch {
			case isNilConstV(x.X) || isNilConstV(x.Y):
				o := x.X
				if isNilConstV(x.X) {
					o = x.Y
				}
				if s := sc.eval(fa, o, env, depth+1); s.kind == 2 {
					res = boolVal(s.b)
				}
			default:
				l, r := sc.eval(fa, x.X, env, depth+1), sc.eval(fa, x.Y, env, depth+1)
				if l.kind == 1 && r.kind == 1 {
					res = boolVal(l.b == r.b)
				} else if l.kind == 3 && r.kind == 3 {
					res = boolVal(constant.Compare(l.c, token.EQL, r.c))
				}
			}
			if res.kind == 1 {
				if x.Op == token.NEQ {
					res.b = !res.b
				}
				return res
			}
		case token.LSS, token.GTR, token.LEQ, token.GEQ:
			l, r := sc.eval(fa, x.X, env, depth+1), sc.eval(fa, x.Y, env, depth+1)
			if l.kind == 3 && r.kind == 3 {
				return boolVal(constant.Compare(l.c, x.Op, r.c))
			}
		case token.AND, token.OR:
			l, r := sc.eval(fa, x.X, env, depth+1), sc.eval(fa, x.Y, env, depth+1)
			if l.kind == 1 && r.kind == 1 {
				if x.Op == token.AND {
					return boolVal(l.b && r.b)
				}
				return boolVal(l.b || r.b)
			}
		}
	case *ssa.MakeInterface:
		if _, isPtr := x.X.Type().Underlying().(*types.Pointer); !isPtr {
			return nilVal(false)
		}
	case *ssa.Alloc, *ssa.MakeSlice, *ssa.MakeMap, *ssa.MakeChan, *ssa.MakeClosure, *ssa.FieldAddr, *ssa.IndexAddr:
		return nilVal(false)
	case *ssa.Call:
		return sc.evalCall(fa, x, 0, env, depth)
	case *ssa.Extract:
		if call, ok := x.Tuple.(*ssa.Call); ok {
			return sc.evalCall(fa, call, x.Index, env, depth)
		}
	}
	return sval{}
}

func (sc *symCtx) evalCall(fa *FuncAn, call *ssa.Call, idx int, env map[ssa.Value]sval, depth int) sval {
	g := call.Call.StaticCallee()
	if g == nil {
		return sval{}
	}
	res := g.Signature.Results()
	if idx >= res.Len() {
		return sval{}
	}
	isErr := res.At(idx).Type().String() == "error"
	if isErr {
		if errCtorRe.MatchString(fa.R.R(call)) || alwaysErr(fa.W, g, 0) {
			return nilVal(false)
		}
	}
	bt, isB := res.At(idx).Type().Underlying().(*types.Basic)
	if !(isErr || (isB && bt.Kind() == types.Bool)) {
		return sval{}
	}
	if g.Blocks == nil || g.Pkg == nil || !inModule(g.Pkg.Pkg.Path()) || depth > 4 || g == fa.Fn {
		return sval{}
	}
	sub := NewFuncAnCtx(fa.W, g, fa.CallArgs(call))
	sub.R.inlineDepth = fa.R.inlineDepth + 1
	exits := sc.run(sub, depth+1)
	if len(exits) == 0 {
		return sval{}
	}
	var out sval
	for i, x := range exits {
		rs := RetResults(x.ret)
		if idx >= len(rs) {
			return sval{}
		}
		v := rs[idx]
		// a φ in the return block is selected by the edge the path arrived on
		s := sc.eval(sub, v, x.env, depth+1)
		if !s.known() && isErr && sub.knownNonNilErr(v, x.in) {
			s = nilVal(false)
		}
		if !s.known() {
			return sval{}
		}
		if i > 0 && s.key() != out.key() {
			return sval{}
		}
		out = s
	}
	return out
}

// run walks fa's function under the scenario and returns the reachable returns.
func (sc *symCtx) run(fa *FuncAn, depth int) []symExit {
	fn := fa.Fn
	if len(fn.Blocks) == 0 {
		return nil
	}
	type state struct {
		b    *ssa.BasicBlock
		prev *ssa.BasicBlock
		env  map[ssa.Value]sval
		path []*ssa.BasicBlock
	}
	envKey := func(env map[ssa.Value]sval) string {
		ks := make([]string, 0, len(env))
		for v, s := range env {
			if _, isPhi := v.(*ssa.Phi); isPhi {
				ks = append(ks, v.Name()+"="+s.key())
			}
		}
		sort.Strings(ks)
		return strings.Join(ks, ",")
	}
	seen := map[string]bool{}
	var out []symExit
	stack := []state{{fn.Blocks[0], nil, map[ssa.Value]sval{}, nil}}
	for len(stack) > 0 {
		st := stack[len(stack)-1]
		stack = stack[:len(stack)-1]
		sc.steps++
		if sc.steps > 200000 {
			// give up: report every return as reachable (no pruning claimed)
			out = nil
			for _, b := range fn.Blocks {
				if len(b.Instrs) > 0 {
					if ret, ok := b.Instrs[len(b.Instrs)-1].(*ssa.Return); ok {
						out = append(out, symExit{ret: ret, env: map[ssa.Value]sval{}})
					}
				}
			}
			return out
		}
		env := st.env
		// φs are selected by the edge taken (evaluated in parallel on the incoming environment)
		if st.prev != nil {
			var upd map[ssa.Value]sval
			for _, in := range st.b.Instrs {
				phi, ok := in.(*ssa.Phi)
				if !ok {
					break
				}
				for i, p := range st.b.Preds {
					if p == st.prev && i < len(phi.Edges) {
						if upd == nil {
							upd = map[ssa.Value]sval{}
						}
						upd[phi] = sc.eval(fa, phi.Edges[i], st.env, depth+1)
						break
					}
				}
			}
			if upd != nil {
				env = map[ssa.Value]sval{}
				for k, v := range st.env {
					env[k] = v
				}
				for k, v := range upd {
					if v.known() {
						env[k] = v
					} else {
						delete(env, k)
					}
				}
			}
		}
		pi := -1
		if st.prev != nil {
			pi = st.prev.Index
		}
		key := strings.Join([]string{itoa(st.b.Index), itoa(pi), envKey(env)}, "|")
		if seen[key] {
			continue
		}
		seen[key] = true
		path := append(append([]*ssa.BasicBlock{}, st.path...), st.b)
		if len(st.b.Instrs) == 0 {
			continue
		}
		switch t := st.b.Instrs[len(st.b.Instrs)-1].(type) {
		case *ssa.Return:
			var in *Edge
			if st.prev != nil {
				in = &Edge{st.prev, succIndex(st.prev, st.b)}
			}
			out = append(out, symExit{t, in, env, path})
		case *ssa.If:
			cv := sc.eval(fa, shortCircuitCond(t), env, depth+1)
			if !cv.known() || cv.kind != 1 {
				cv = sc.eval(fa, t.Cond, env, depth+1)
			}
			if cv.kind == 1 {
				k := 1
				if cv.b {
					k = 0
				}
				stack = append(stack, state{st.b.Succs[k], st.b, env, path})
			} else {
				stack = append(stack, state{st.b.Succs[1], st.b, env, path}, state{st.b.Succs[0], st.b, env, path})
			}
		default:
			for _, s := range st.b.Succs {
				stack = append(stack, state{s, st.b, env, path})
			}
		}
	}
	return out
}

func itoa(i int) string {
	return strings.TrimSpace(strings.Join([]string{"", constant.MakeInt64(int64(i)).ExactString()}, ""))
}

// GuardHoldsByScenario: with every spelling of the guard failing and no exemption holding, no
// success exit of the function is reachable. used reports whether the scenario decided at least one
// branch (a guard none of whose patterns nor derived values occur is not "held" by vacuity: every
// branch is followed and the success exit is reached).
func (fa *FuncAn) GuardHoldsByScenario(cls ExitClass, g GuardSpec) (holds bool, witness string) {
	sc := &symCtx{w: fa.W}
	for _, p := range g.Main {
		sc.pats = append(sc.pats, scenarioPat{substParams(fa.Fn, p.X), substParams(fa.Fn, p.Y), p, false})
	}
	for _, p := range g.Unless {
		sc.pats = append(sc.pats, scenarioPat{substParams(fa.Fn, p.X), substParams(fa.Fn, p.Y), p, false})
	}
	for _, x := range sc.run(fa, 0) {
		// the exit's own results are read with what the scenario decides about them (a returned
		// call result that evaluates to false / non-nil under the scenario is not a success)
		env := x.env
		fa.oracle = func(v ssa.Value) sval { return sc.eval(fa, v, env, 0) }
		success := cls(fa, x.ret, x.in)
		fa.oracle = nil
		if success {
			return false, fa.DescribeBlocks(x.path)
		}
	}
	return true, ""
}

// DescribeBlocks renders a block path like DescribePath does for edges.
func (fa *FuncAn) DescribeBlocks(bs []*ssa.BasicBlock) string {
	var parts []string
	for _, b := range bs {
		line := 0
		for _, in := range b.Instrs {
			if p := InstrPos(in); p.IsValid() {
				line = fa.W.Fset.Position(p).Line
				break
			}
		}
		parts = append(parts, "b"+itoa(b.Index)+"@"+itoa(line))
		if len(parts) > 14 {
			parts = append(parts, "…")
			break
		}
	}
	return strings.Join(parts, " → ")
}
