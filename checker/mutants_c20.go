package main

func init() {
	addMutants(
		Mutant{"C20", "keyvalue-json-exposed", "types/Cryptosystem.go",
			"KeyValue []byte `asn1:\"explicit,tag:1\" json:\"-\"`", "KeyValue []byte `asn1:\"explicit,tag:1\"`", "C20.encoders"},
		Mutant{"C20", "log-session-key", "client/session.go",
			"cl.Log(\"TGT session added for %s (EndTime: %v)\", realm, dep.EndTime)", "cl.Log(\"TGT session added for %s (EndTime: %v) key %x\", realm, dep.EndTime, dep.Key.KeyValue)", "C20.flow"},
		Mutant{"C20", "log-whole-encpart", "client/session.go",
			"cl.Log(\"TGT session added for %s (EndTime: %v)\", realm, dep.EndTime)", "cl.Log(\"TGT session added for %s: %+v\", realm, dep)", "C20.flow"},
		Mutant{"C20", "keytab-error-prints-input-again", "keytab/keytab.go",
			"return 0, fmt.Errorf(\"byte array length %d is less than %d\", len(b), *p+2)", "return 0, fmt.Errorf(\"%x's length is less than %d\", b, *p+2)", "C20.flow"},
		Mutant{"C20", "password-in-error", "crypto/crypto.go",
			"return key, et, fmt.Errorf(\"error deriving key from string: %+v\", err)", "return key, et, fmt.Errorf(\"error deriving key from %q: %+v\", passwd, err)", "C20.flow"},
		Mutant{"C20", "derived-key-in-error", "crypto/crypto.go",
			"\tkey = types.EncryptionKey{\n\t\tKeyType:  etypeID,\n\t\tKeyValue: k,\n\t}\n\treturn key, et, nil", "\tkey = types.EncryptionKey{\n\t\tKeyType:  etypeID,\n\t\tKeyValue: k,\n\t}\n\tif len(k) == 0 {\n\t\treturn key, et, fmt.Errorf(\"empty key %s\", hex.EncodeToString(k))\n\t}\n\treturn key, et, nil", "C20.flow"},
		Mutant{"C20", "gob-credentials-password", "credentials/credentials.go",
			"\t\tSessionID:       c.sessionID,\n\t}\n\terr := enc.Encode(&mc)", "\t\tSessionID:       c.sessionID + c.password,\n\t}\n\terr := enc.Encode(&mc)", "C20.flow"},
		Mutant{"C20", "helper-describes-key", "messages/Ticket.go",
			"\t\treturn fmt.Errorf(\"error decrypting Ticket EncPart: %v\", err)", "\t\treturn fmt.Errorf(\"error decrypting Ticket EncPart with %s: %v\", string(key.KeyValue), err)", "C20.flow"},
		Mutant{"C20", "ticket-marshal-whole-struct", "messages/Ticket.go",
			"\tb, err := asn1.Marshal(tk)\n", "\tb, err := asn1.Marshal(*t)\n\t_ = tk\n", "C20.wire"},
		Mutant{"C20", "ccache-error-echoes-file", "credentials/ccache.go",
			"return errors.New(\"Invalid credential cache data. First byte does not equal 5\")", "return errors.New(\"Invalid credential cache data \" + string(b) + \". First byte does not equal 5\")", "C20.flow"},
		Mutant{"C20", "changepw-logs-password", "client/passwd.go",
			"func (cl *Client) ChangePasswd(newPasswd string) (bool, error) {", "func (cl *Client) ChangePasswd(newPasswd string) (bool, error) {\n\tcl.Log(\"changing password to %s\", newPasswd)", "C20.flow"},
	)
}
