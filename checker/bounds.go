package main

// E4 — bounds: a small linear-inequality prover over SSA values.
//
// Every index, slice, make, division, shift and unchecked-assertion instruction
// is an obligation. An obligation is a set of goals `lin ≤ 0` over *atoms*
// (SSA values by identity, len(v), quotients, constant-returning etype
// methods). Facts are the branch conditions of the Ifs whose single outcome
// dominates the instruction, normalised the same way, plus value ranges that
// follow from types (unsigned, narrow integers), from induction on loop phis,
// from the lengths of make/slice/append/constant values and from a short table
// of library contracts (strings.Split has ≥1 element, io Read returns ≤ len).
// A goal is proved when, after subtracting positive multiples of facts (each
// fact is ≤ 0), its upper bound by ranges is ≤ 0. Loads through pointers are
// value-numbered: two loads of one address are the same atom when no store to
// a possibly aliasing address and no call receiving that pointer lies on any
// path between them (go/ssa performs no CSE).
//
// Integers are treated as mathematical integers; the wrap-around cases are
// kept out by construction: unsigned subtraction and narrow arithmetic are
// linear only when the ranges show they cannot wrap, `int` arithmetic is
// linear for 64-bit int (a sum of lengths and ≤32-bit fields cannot reach
// 2^63) and range-checked for 32-bit int.

import (
	"fmt"
	"go/constant"
	"go/token"
	"go/types"
	"sort"
	"strings"

	"golang.org/x/tools/go/ssa"
)

type atom struct {
	kind byte // 'v' value, 'l' len(value), 'q' quotient, 'm' constant method of an etype
	v    ssa.Value
	s    string
}

type lin struct {
	t map[atom]int64
	k int64
}

func linConst(k int64) lin { return lin{k: k} }
func linAtom(a atom) lin   { return lin{t: map[atom]int64{a: 1}} }

func (a lin) add(b lin, m int64) lin {
	out := lin{t: map[atom]int64{}, k: a.k + m*b.k}
	for x, c := range a.t {
		out.t[x] = c
	}
	for x, c := range b.t {
		out.t[x] += m * c
		if out.t[x] == 0 {
			delete(out.t, x)
		}
	}
	return out
}
func (a lin) neg() lin         { return linConst(0).add(a, -1) }
func (a lin) plus(k int64) lin { return a.add(linConst(k), 1) }
func (a lin) isConst() bool    { return len(a.t) == 0 }

type boundsCtx struct {
	w          *World
	fn         *ssa.Function
	intBits    int
	loadRep    map[*ssa.UnOp]ssa.Value
	qinfo      map[atom]qinfo
	names      map[atom]string
	r          *Renderer
	factMem    map[*ssa.BasicBlock][]lin
	rngBusy    map[atom]bool
	linMemo    map[ssa.Value]lin
	inlineBusy int
	einfo      map[atom]einfo
	fitBusy    map[ssa.Value]bool
	// substitution of parameters by caller-side terms (caller-established rule)
	visitingPhi map[*ssa.Phi]bool
	xtype       map[atom]types.Type // type of the value an opaque ('x') atom stands for
	assumed     []lin               // documented preconditions of the function (c04Assumes), as facts lin ≤ 0
}

// einfo: an etype-dependent product or quotient: left (op) right, where right is made of constant
// methods of one etype value only — linear once the etype is fixed.
type einfo struct {
	op          token.Token
	left, right lin
}

type qinfo struct {
	inner lin
	c     int64
}

func newBoundsCtx(w *World, fn *ssa.Function) *boundsCtx {
	bc := &boundsCtx{w: w, fn: fn, intBits: 64, loadRep: map[*ssa.UnOp]ssa.Value{}, qinfo: map[atom]qinfo{}, names: map[atom]string{},
		factMem: map[*ssa.BasicBlock][]lin{}, rngBusy: map[atom]bool{}, visitingPhi: map[*ssa.Phi]bool{}, linMemo: map[ssa.Value]lin{}, fitBusy: map[ssa.Value]bool{}, einfo: map[atom]einfo{}}
	if w.GOARCH == "386" || w.GOARCH == "arm" {
		bc.intBits = 32
	}
	bc.r = NewRenderer(w, fn)
	bc.computeLoadReps()
	return bc
}

// ---- integer types -------------------------------------------------------------

func intInfo(t types.Type, intBits int) (bits int, unsigned, ok bool) {
	b, isB := t.Underlying().(*types.Basic)
	if !isB {
		return 0, false, false
	}
	switch b.Kind() {
	case types.Int8:
		return 8, false, true
	case types.Int16:
		return 16, false, true
	case types.Int32:
		return 32, false, true
	case types.Int64:
		return 64, false, true
	case types.Int:
		return intBits, false, true
	case types.Uint8:
		return 8, true, true
	case types.Uint16:
		return 16, true, true
	case types.Uint32:
		return 32, true, true
	case types.Uint64:
		return 64, true, true
	case types.Uint, types.Uintptr:
		return intBits, true, true
	case types.UntypedInt, types.UntypedRune:
		return 64, false, true
	}
	return 0, false, false
}

func typeRange(t types.Type, intBits int) (lo, hi int64, hasLo, hasHi bool) {
	bits, uns, ok := intInfo(t, intBits)
	if !ok {
		return
	}
	if uns {
		lo, hasLo = 0, true
		if bits < 63 {
			hi, hasHi = int64(1)<<uint(bits)-1, true
		}
		return
	}
	if bits < 64 {
		return -(int64(1) << uint(bits-1)), int64(1)<<uint(bits-1) - 1, true, true
	}
	return
}

// ---- value canonicalisation ------------------------------------------------------

func isPrivateAlloc(a *ssa.Alloc) bool {
	if a.Referrers() == nil {
		return false
	}
	for _, r := range *a.Referrers() {
		switch x := r.(type) {
		case *ssa.Store:
			if x.Addr != a {
				return false
			}
		case *ssa.UnOp, *ssa.DebugRef:
		default:
			return false
		}
	}
	return true
}

// canon strips value-preserving wrappers and forwards loads.
func (bc *boundsCtx) canon(v ssa.Value) ssa.Value {
	for i := 0; i < 12; i++ {
		switch x := v.(type) {
		case *ssa.ChangeType:
			v = x.X
			continue
		case *ssa.Convert:
			if bc.preserving(x) {
				v = x.X
				continue
			}
		case *ssa.UnOp:
			if x.Op == token.MUL {
				if a, ok := x.X.(*ssa.Alloc); ok && isPrivateAlloc(a) {
					if st := uniqueStoreInstr(a); st != nil && instrDominates(st, x) {
						v = st.Val
						continue
					}
				}
				if rep, ok := bc.loadRep[x]; ok && rep != v {
					v = rep
					continue
				}
			}
		}
		break
	}
	return v
}

func (bc *boundsCtx) preserving(c *ssa.Convert) bool {
	fb, fu, ok1 := intInfo(c.X.Type(), bc.intBits)
	tb, tu, ok2 := intInfo(c.Type(), bc.intBits)
	if !ok1 || !ok2 {
		// string <-> []byte keep their length; handled by lenLin
		return false
	}
	switch {
	case fu && tu:
		return tb >= fb
	case !fu && !tu:
		return tb >= fb
	case fu && !tu:
		return tb > fb
	}
	return false
}

// ---- load value numbering ---------------------------------------------------------

// addrKey: structural identity of an address expression.
func (bc *boundsCtx) addrKey(v ssa.Value) (string, ssa.Value) {
	switch x := v.(type) {
	case *ssa.FieldAddr:
		k, base := bc.addrKey(x.X)
		return fmt.Sprintf("%s.f%d", k, x.Field), base
	case *ssa.UnOp:
		if x.Op == token.MUL {
			// pointer loaded from somewhere: identity of the canonical load
			c := bc.canonShallow(x)
			return fmt.Sprintf("*%p", c), c
		}
	case *ssa.IndexAddr:
		if c, ok := x.Index.(*ssa.Const); ok {
			k, base := bc.addrKey(x.X)
			return fmt.Sprintf("%s[%s]", k, c.Value), base
		}
	}
	return fmt.Sprintf("%p", v), v
}

func (bc *boundsCtx) canonShallow(v ssa.Value) ssa.Value {
	if u, ok := v.(*ssa.UnOp); ok && u.Op == token.MUL {
		if rep, ok := bc.loadRep[u]; ok {
			return rep
		}
	}
	return v
}

// clobbers: may instruction in change the memory at address addr (base pointer base)?
func (bc *boundsCtx) clobbers(in ssa.Instruction, addr ssa.Value, key string, base ssa.Value, elem types.Type) bool {
	switch x := in.(type) {
	case *ssa.Store:
		if a, ok := x.Addr.(*ssa.Alloc); ok && isPrivateAlloc(a) && a != base {
			return false
		}
		if ba, ok := base.(*ssa.Alloc); ok && isPrivateAlloc(ba) {
			// only stores to that alloc (or a field of it) matter
			_, sb := bc.addrKey(x.Addr)
			return sb == ba
		}
		k2, _ := bc.addrKey(x.Addr)
		if k2 == key {
			return true
		}
		// a store to a different field of the same base does not alias
		if _, sb := bc.addrKey(x.Addr); sb == base && k2 != key && !strings.HasPrefix(key, k2) && !strings.HasPrefix(k2, key) {
			return false
		}
		// type based: a store of a different type cannot change the loaded location
		st := x.Val.Type()
		if !types.Identical(st.Underlying(), elem.Underlying()) && !containsType(st, elem) {
			return false
		}
		return true
	case ssa.CallInstruction:
		if ba, ok := base.(*ssa.Alloc); ok && isPrivateAlloc(ba) {
			return false
		}
		cc := x.Common()
		if b, ok := cc.Value.(*ssa.Builtin); ok {
			switch b.Name() {
			case "len", "cap", "append", "print", "println", "min", "max", "panic", "recover", "real", "imag", "complex", "delete", "clear":
				return false
			case "copy":
				// copy writes elements of its destination; those are not the loaded scalar unless types agree
				if sl, ok := cc.Args[0].Type().Underlying().(*types.Slice); ok {
					return types.Identical(sl.Elem().Underlying(), elem.Underlying())
				}
				return false
			}
		}
		if _, ok := in.(*ssa.Defer); ok {
			return false // runs at exit
		}
		vals := append([]ssa.Value{}, cc.Args...)
		if cc.IsInvoke() {
			vals = append(vals, cc.Value)
		} else if mc, ok := cc.Value.(*ssa.MakeClosure); ok {
			vals = append(vals, mc.Bindings...)
		}
		for ai, a := range vals {
			if bc.derivedFromBase(a, base, 0) {
				// a pointer to one field of the base cannot reach its other fields
				if ak, ab := bc.addrKey(bc.stripToAddr(a)); ab == base && ak != fmt.Sprintf("%p", base) && !strings.HasPrefix(key, ak) && !strings.HasPrefix(ak, key) {
					continue
				}
				// the base itself is passed to a module function that provably stores to other fields only
				if g := cc.StaticCallee(); g != nil && !cc.IsInvoke() && bc.stripToAddr(a) == base && ai < len(g.Params) {
					rel := strings.TrimPrefix(key, fmt.Sprintf("%p", base))
					if mods, known := modFields(g, ai, 0); known {
						hit := false
						for m := range mods {
							if m == rel || strings.HasPrefix(rel, m) || strings.HasPrefix(m, rel) {
								hit = true
							}
						}
						if !hit {
							continue
						}
					}
				}
				return true
			}
		}
		return false
	case *ssa.MapUpdate, *ssa.Send:
		return false
	}
	return false
}

func containsType(outer, inner types.Type) bool {
	switch t := outer.Underlying().(type) {
	case *types.Struct:
		for i := 0; i < t.NumFields(); i++ {
			if types.Identical(t.Field(i).Type().Underlying(), inner.Underlying()) || containsType(t.Field(i).Type(), inner) {
				return true
			}
		}
	case *types.Array:
		return types.Identical(t.Elem().Underlying(), inner.Underlying()) || containsType(t.Elem(), inner)
	}
	return false
}

// stripToAddr removes interface/type wrappers around an address value.
func (bc *boundsCtx) stripToAddr(v ssa.Value) ssa.Value {
	for i := 0; i < 4; i++ {
		switch x := v.(type) {
		case *ssa.MakeInterface:
			v = x.X
		case *ssa.ChangeType:
			v = x.X
		case *ssa.ChangeInterface:
			v = x.X
		default:
			return v
		}
	}
	return v
}

func (bc *boundsCtx) derivedFromBase(v, base ssa.Value, depth int) bool {
	if depth > 6 {
		return true
	}
	v = bc.canonShallow(v)
	if v == base {
		return true
	}
	switch x := v.(type) {
	case *ssa.FieldAddr:
		return bc.derivedFromBase(x.X, base, depth+1)
	case *ssa.IndexAddr:
		return bc.derivedFromBase(x.X, base, depth+1)
	case *ssa.ChangeType:
		return bc.derivedFromBase(x.X, base, depth+1)
	case *ssa.MakeInterface:
		return bc.derivedFromBase(x.X, base, depth+1)
	case *ssa.ChangeInterface:
		return bc.derivedFromBase(x.X, base, depth+1)
	case *ssa.Phi:
		for _, e := range x.Edges {
			if e != v && bc.derivedFromBase(e, base, depth+1) {
				return true
			}
		}
	case *ssa.Slice:
		return bc.derivedFromBase(x.X, base, depth+1)
	case *ssa.MakeClosure:
		for _, b := range x.Bindings {
			if bc.derivedFromBase(b, base, depth+1) {
				return true
			}
		}
	}
	return false
}

func (bc *boundsCtx) computeLoadReps() {
	// dominance preorder so that representatives are fixed before their dependants
	var order []*ssa.BasicBlock
	if len(bc.fn.Blocks) > 0 {
		order = bc.fn.DomPreorder()
	}
	// events per address key: earlier loads and stores
	groups := map[string][]ssa.Instruction{}
	for _, b := range order {
		for _, in := range b.Instrs {
			if st, ok := in.(*ssa.Store); ok {
				if a, ok := st.Addr.(*ssa.Alloc); ok && isPrivateAlloc(a) && uniqueStoreInstr(a) != nil {
					continue
				}
				key, _ := bc.addrKey(st.Addr)
				groups[key] = append(groups[key], st)
				continue
			}
			u, ok := in.(*ssa.UnOp)
			if !ok || u.Op != token.MUL {
				continue
			}
			if a, ok := u.X.(*ssa.Alloc); ok && isPrivateAlloc(a) && uniqueStoreInstr(a) != nil {
				continue
			}
			key, base := bc.addrKey(u.X)
			elem := u.Type()
			evs := groups[key]
			for i := len(evs) - 1; i >= 0; i-- {
				prev := evs[i]
				if !instrDominates(prev, u) {
					continue
				}
				if !bc.clobberFree(prev, u, u.X, key, base, elem) {
					continue
				}
				switch p := prev.(type) {
				case *ssa.Store:
					// store-to-load forwarding
					bc.loadRep[u] = p.Val
				case *ssa.UnOp:
					rep := ssa.Value(p)
					if r, ok := bc.loadRep[p]; ok {
						rep = r
					}
					bc.loadRep[u] = rep
				}
				break
			}
			groups[key] = append(groups[key], u)
		}
	}
}

// clobberFree: no possibly-clobbering instruction lies on any path from a to b
// (a dominates b) that does not pass through a again.
func (bc *boundsCtx) clobberFree(a, b ssa.Instruction, addr ssa.Value, key string, base ssa.Value, elem types.Type) bool {
	ab, bb := a.Block(), b.Block()
	scan := func(ins []ssa.Instruction) bool {
		for _, in := range ins {
			if bc.clobbers(in, addr, key, base, elem) {
				return false
			}
		}
		return true
	}
	ai, bi := instrIndex(a), instrIndex(b)
	if ab == bb && ai < bi {
		return scan(ab.Instrs[ai+1 : bi])
	}
	if !scan(ab.Instrs[ai+1:]) || !scan(bb.Instrs[:bi]) {
		return false
	}
	// forward reach from a's successors avoiding a's block
	fwd := map[*ssa.BasicBlock]bool{}
	var stack []*ssa.BasicBlock
	for _, s := range ab.Succs {
		if s != ab && !fwd[s] {
			fwd[s] = true
			stack = append(stack, s)
		}
	}
	for len(stack) > 0 {
		n := stack[len(stack)-1]
		stack = stack[:len(stack)-1]
		for _, s := range n.Succs {
			if s != ab && !fwd[s] {
				fwd[s] = true
				stack = append(stack, s)
			}
		}
	}
	// backward reach from b's block avoiding a's block
	bwd := map[*ssa.BasicBlock]bool{}
	stack = stack[:0]
	for _, p := range bb.Preds {
		if p != ab && !bwd[p] {
			bwd[p] = true
			stack = append(stack, p)
		}
	}
	for len(stack) > 0 {
		n := stack[len(stack)-1]
		stack = stack[:len(stack)-1]
		for _, p := range n.Preds {
			if p != ab && !bwd[p] {
				bwd[p] = true
				stack = append(stack, p)
			}
		}
	}
	for blk := range fwd {
		if !bwd[blk] {
			continue
		}
		if blk == bb {
			// b's block lies on a cycle between a and b: the tail after b counts too
			if !scan(bb.Instrs[bi+1:]) {
				return false
			}
			continue
		}
		if !scan(blk.Instrs) {
			return false
		}
	}
	return true
}

// ---- linearisation ------------------------------------------------------------------

func constInt(v ssa.Value) (int64, bool) {
	c, ok := v.(*ssa.Const)
	if !ok || c.Value == nil {
		return 0, false
	}
	if c.Value.Kind() != constant.Int {
		return 0, false
	}
	n, exact := constant.Int64Val(c.Value)
	if !exact {
		return 0, false
	}
	return n, true
}

func (bc *boundsCtx) lin(v ssa.Value) lin {
	v = bc.canon(v)
	if n, ok := constInt(v); ok {
		return linConst(n)
	}
	if l, ok := bc.linMemo[v]; ok {
		return l
	}
	l := bc.lin1(v)
	bc.linMemo[v] = l
	return l
}

func (bc *boundsCtx) lin1(v ssa.Value) lin {
	switch x := v.(type) {
	case *ssa.Convert:
		// a conversion that is not value preserving for every operand keeps the value when the
		// operand's range — by types, or by the branch conditions that dominate the conversion —
		// fits the target type
		if _, _, ok := intInfo(x.X.Type(), bc.intBits); ok {
			if tb, tu, ok := intInfo(x.Type(), bc.intBits); ok {
				in := bc.lin(x.X)
				if bc.fitsAt(in, tb, tu, x) {
					return in
				}
				// signed → unsigned of at least the same width keeps every non-negative value
				if fb, fu, _ := intInfo(x.X.Type(), bc.intBits); !fu && tu && tb >= fb && x.Block() != nil && !bc.fitBusy[x] {
					bc.fitBusy[x] = true
					facts := append(append([]lin{}, bc.blockFacts(x.Block())...), bc.assumed...)
					ok := bc.prove(in.neg(), facts, 3)
					delete(bc.fitBusy, x)
					if ok {
						return in
					}
				}
			}
		}
	case *ssa.BinOp:
		bits, uns, ok := intInfo(x.Type(), bc.intBits)
		if !ok {
			break
		}
		if bk, isB := x.Type().Underlying().(*types.Basic); isB && bk.Kind() == types.Int && bits == 32 {
			// platform int on a 32-bit target: positions, counters and lengths stay below 2^31
			// (assumption A-int32); only a term that carries a 32-bit or wider wire field can wrap
			bits = 33
		}
		switch x.Op {
		case token.ADD, token.SUB:
			a, b := bc.lin(x.X), bc.lin(x.Y)
			var out lin
			if x.Op == token.ADD {
				out = a.add(b, 1)
			} else {
				out = a.add(b, -1)
			}
			if bc.noWrap(out, bits, uns) || bc.fitsAt(out, bits, uns, x) {
				return out
			}
			// an unsigned difference of two values of the type cannot exceed the type: it is exact
			// as soon as it is not negative (minuend ≥ subtrahend by the dominating conditions)
			if uns && x.Op == token.SUB && x.Block() != nil && !bc.fitBusy[x] {
				bc.fitBusy[x] = true
				facts := append(append([]lin{}, bc.blockFacts(x.Block())...), bc.assumed...)
				ok := bc.prove(out.neg(), facts, 3)
				delete(bc.fitBusy, x)
				if ok {
					return out
				}
			}
		case token.MUL:
			if _, isC := constInt(x.Y); !isC {
				if _, isC2 := constInt(x.X); !isC2 {
					l, r := bc.lin(x.X), bc.lin(x.Y)
					if bc.pureEtype(l) && !bc.pureEtype(r) {
						l, r = r, l
					}
					if bc.pureEtype(r) && bits >= 63 && !uns {
						a := atom{kind: 'e', s: "(" + bc.linString(l) + ")*(" + bc.linString(r) + ")"}
						bc.einfo[a] = einfo{token.MUL, l, r}
						bc.names[a] = a.s
						return linAtom(a)
					}
				}
			}
			if c, ok := constInt(x.Y); ok {
				out := linConst(0).add(bc.lin(x.X), c)
				if bc.noWrap(out, bits, uns) {
					return out
				}
			} else if c, ok := constInt(x.X); ok {
				out := linConst(0).add(bc.lin(x.Y), c)
				if bc.noWrap(out, bits, uns) {
					return out
				}
			}
		case token.SHL:
			if c, ok := constInt(x.Y); ok && c >= 0 && c < 31 {
				out := linConst(0).add(bc.lin(x.X), int64(1)<<uint(c))
				if bc.noWrap(out, bits, uns) {
					return out
				}
			}
		case token.QUO, token.SHR:
			if _, isC := constInt(x.Y); !isC && x.Op == token.QUO && bits >= 63 && !uns {
				if r := bc.lin(x.Y); bc.pureEtype(r) {
					l := bc.lin(x.X)
					a := atom{kind: 'e', s: "(" + bc.linString(l) + ")/(" + bc.linString(r) + ")"}
					bc.einfo[a] = einfo{token.QUO, l, r}
					bc.names[a] = a.s
					return linAtom(a)
				}
			}
			c, ok := constInt(x.Y)
			if ok && x.Op == token.SHR {
				if c < 0 || c > 31 {
					break
				}
				c = int64(1) << uint(c)
			}
			if ok && c > 0 {
				inner := bc.lin(x.X)
				if inner.isConst() {
					if inner.k >= 0 {
						return linConst(inner.k / c)
					}
					break
				}
				a := atom{kind: 'q', s: bc.linString(inner) + fmt.Sprintf("/%d", c)}
				bc.qinfo[a] = qinfo{inner, c}
				bc.names[a] = "(" + bc.linString(inner) + fmt.Sprintf(")/%d", c)
				return linAtom(a)
			}
		}
	case *ssa.Call:
		if b, ok := x.Call.Value.(*ssa.Builtin); ok && (b.Name() == "len") && len(x.Call.Args) == 1 {
			return bc.lenLin(x.Call.Args[0], 0)
		}
		if a, ok := bc.pureMethodAtom(x); ok {
			return linAtom(a)
		}
		if l, ok := bc.inlineCallLin(x, 0); ok {
			return l
		}
	case *ssa.Extract:
		if call, isCall := x.Tuple.(*ssa.Call); isCall {
			if l, ok := bc.inlineCallLin(call, x.Index); ok {
				return l
			}
		}
	}
	return linAtom(atom{kind: 'v', v: v})
}

// inlineCallLin: result idx of a call of a module function with a single return, as a linear term
// over the caller's values: the callee's return term with arguments substituted for parameters
// (only when every atom of it is a parameter, a length of a parameter or a quotient of such).
func (bc *boundsCtx) inlineCallLin(call *ssa.Call, idx int) (lin, bool) {
	if bc.inlineBusy > 2 {
		return lin{}, false
	}
	g := call.Call.StaticCallee()
	if g == nil || len(g.Blocks) == 0 || g.Pkg == nil || !inModule(g.Pkg.Pkg.Path()) || g == bc.fn || call.Call.IsInvoke() {
		return lin{}, false
	}
	var ret *ssa.Return
	for _, b := range g.Blocks {
		if r, ok := lastInstr(b).(*ssa.Return); ok && b != g.Recover {
			if ret != nil {
				return lin{}, false
			}
			ret = r
		}
	}
	if ret == nil {
		return lin{}, false
	}
	rs := RetResults(ret)
	if idx >= len(rs) {
		return lin{}, false
	}
	if _, _, isInt := intInfo(rs[idx].Type(), bc.intBits); !isInt {
		return lin{}, false
	}
	cb := newBoundsCtx(bc.w, g)
	cb.inlineBusy = bc.inlineBusy + 1
	rl := cb.lin(rs[idx])
	// callee → caller: the reverse direction of translateLin with the roles of the contexts swapped
	return translateLin(cb, bc, g, call, rl)
}

// noWrap: can the mathematical value of out be represented in the result type (so that machine
// arithmetic agrees with it)?
func (bc *boundsCtx) noWrap(out lin, bits int, uns bool) bool {
	if !uns && bits == 64 {
		return true // sums of lengths and ≤32-bit fields stay far below 2^63 (assumption A-int64)
	}
	if !uns && bits == 33 {
		// 32-bit platform int (see lin1): linear unless a wide wire field takes part
		for a := range out.t {
			if bc.wideWire(a) {
				lo, okLo := bc.lower(out)
				hi, okHi := bc.upper(out)
				return okLo && okHi && lo >= -(int64(1)<<31) && hi <= int64(1)<<31-1
			}
		}
		return true
	}
	lo, okLo := bc.lower(out)
	hi, okHi := bc.upper(out)
	if !okLo || !okHi {
		return false
	}
	if uns {
		if lo < 0 {
			return false
		}
		if bits >= 63 {
			// the upper bound is known (upper() saturates below 2^61): no wrap past 2^64
			return true
		}
		return hi <= int64(1)<<uint(bits)-1
	}
	return lo >= -(int64(1)<<uint(bits-1)) && hi <= int64(1)<<uint(bits-1)-1
}

var etypeConstMethods = map[string]bool{"GetHMACBitLength": true, "GetConfounderByteSize": true, "GetMessageBlockByteSize": true, "GetKeyByteSize": true,
	"GetKeySeedBitLength": true, "GetCypherBlockBitLength": true}

func (bc *boundsCtx) pureMethodAtom(c *ssa.Call) (atom, bool) {
	if !c.Call.IsInvoke() || !etypeConstMethods[c.Call.Method.Name()] {
		return atom{}, false
	}
	if !strings.HasSuffix(c.Call.Value.Type().String(), "crypto/etype.EType") {
		return atom{}, false
	}
	a := atom{kind: 'm', v: bc.canon(c.Call.Value), s: c.Call.Method.Name()}
	bc.names[a] = bc.r.R(c.Call.Value) + "." + c.Call.Method.Name() + "()"
	return a, true
}

// lenLin: the length of slice/string/array value v as a linear term.
func (bc *boundsCtx) lenLin(v ssa.Value, depth int) lin {
	v = bc.canon(v)
	if depth < 8 {
		switch x := v.(type) {
		case *ssa.Slice:
			var hi lin
			if x.High != nil {
				hi = bc.lin(x.High)
			} else {
				hi = bc.lenOfSliceBase(x.X, depth+1)
			}
			if x.Low != nil {
				return hi.add(bc.lin(x.Low), -1)
			}
			return hi
		case *ssa.MakeSlice:
			return bc.lin(x.Len)
		case *ssa.Const:
			if x.Value == nil {
				return linConst(0)
			}
			if x.Value.Kind() == constant.String {
				return linConst(int64(len(constant.StringVal(x.Value))))
			}
		case *ssa.Convert:
			// string <-> []byte
			if isByteSeq(x.X.Type()) && isByteSeq(x.Type()) {
				return bc.lenLin(x.X, depth+1)
			}
		case *ssa.Call:
			if b, ok := x.Call.Value.(*ssa.Builtin); ok && b.Name() == "append" && len(x.Call.Args) == 2 {
				return bc.lenLin(x.Call.Args[0], depth+1).add(bc.lenLin(x.Call.Args[1], depth+1), 1)
			}
			if f := x.Call.StaticCallee(); f != nil {
				if n, ok := bc.calleeConstLen(f, 0); ok {
					return linConst(n)
				}
			}
		case *ssa.Phi:
			var first string
			var fl lin
			same := true
			for i, e := range x.Edges {
				if e == x {
					continue
				}
				if bc.visitingPhi[x] {
					same = false
					break
				}
				bc.visitingPhi[x] = true
				l := bc.lenLin(e, depth+1)
				delete(bc.visitingPhi, x)
				s := bc.linString(l)
				if i == 0 || first == "" {
					first, fl = s, l
				} else if s != first {
					same = false
				}
			}
			if same && first != "" {
				return fl
			}
		}
	}
	if t, ok := v.Type().Underlying().(*types.Array); ok {
		return linConst(t.Len())
	}
	return linAtom(atom{kind: 'l', v: v})
}

func isByteSeq(t types.Type) bool {
	switch u := t.Underlying().(type) {
	case *types.Basic:
		return u.Info()&types.IsString != 0
	case *types.Slice:
		b, ok := u.Elem().Underlying().(*types.Basic)
		return ok && (b.Kind() == types.Uint8 || b.Kind() == types.Int32)
	}
	return false
}

// lenOfSliceBase: len of the operand of a slice expression (a slice, string, or pointer to array).
func (bc *boundsCtx) lenOfSliceBase(v ssa.Value, depth int) lin {
	if p, ok := v.Type().Underlying().(*types.Pointer); ok {
		if a, ok := p.Elem().Underlying().(*types.Array); ok {
			return linConst(a.Len())
		}
	}
	return bc.lenLin(v, depth)
}

// calleeConstLen: every return of f (first result) is a slice of one constant length.
func (bc *boundsCtx) calleeConstLen(f *ssa.Function, depth int) (int64, bool) {
	if depth > 2 || len(f.Blocks) == 0 || f.Signature.Results().Len() != 1 {
		return 0, false
	}
	if _, ok := f.Signature.Results().At(0).Type().Underlying().(*types.Slice); !ok {
		return 0, false
	}
	cb := &boundsCtx{w: bc.w, fn: f, intBits: bc.intBits, loadRep: map[*ssa.UnOp]ssa.Value{}, qinfo: map[atom]qinfo{}, names: map[atom]string{},
		factMem: map[*ssa.BasicBlock][]lin{}, rngBusy: map[atom]bool{}, visitingPhi: map[*ssa.Phi]bool{}, linMemo: map[ssa.Value]lin{}, fitBusy: map[ssa.Value]bool{}, einfo: map[atom]einfo{}}
	cb.r = bc.r
	var n int64 = -1
	for _, b := range f.Blocks {
		ret, ok := lastInstr(b).(*ssa.Return)
		if !ok {
			continue
		}
		l := cb.lenLin(ret.Results[0], 0)
		if !l.isConst() {
			return 0, false
		}
		if n >= 0 && n != l.k {
			return 0, false
		}
		n = l.k
	}
	return n, n >= 0
}

// ---- ranges ------------------------------------------------------------------------------

func (bc *boundsCtx) atomRange(a atom) (lo, hi int64, hasLo, hasHi bool) {
	if bc.rngBusy[a] {
		return
	}
	bc.rngBusy[a] = true
	defer delete(bc.rngBusy, a)
	switch a.kind {
	case 'l':
		lo, hasLo = 0, true
		// no slice or string holds 2^40 elements (assumption A-int64); 2^31-1 for 32-bit int
		hi, hasHi = int64(1)<<40, true
		if bc.intBits == 32 {
			hi = int64(1)<<31 - 1
		}
		if c, ok := a.v.(*ssa.Call); ok {
			if f := c.Call.StaticCallee(); f != nil {
				switch calleeName(f) {
				case "strings.Split":
					// strings.Split returns at least one element unless both s and sep are empty
					if n := bc.lenLin(c.Call.Args[1], 0); n.isConst() && n.k > 0 {
						lo = 1
					}
				case "strings.SplitN":
					if sl := bc.lenLin(c.Call.Args[1], 0); sl.isConst() && sl.k > 0 {
						// n == 0 gives nil; any other n gives at least one element
						nl := bc.lin(c.Call.Args[2])
						if l, ok := bc.lower(nl); ok && l >= 1 {
							lo = 1
						} else if h, ok := bc.upper(nl); ok && h <= -1 {
							lo = 1
						}
					}
					if n, ok := constInt(c.Call.Args[2]); ok && n > 0 {
						hi, hasHi = n, true
					}
				}
			}
		}
		return
	case 'm':
		impls, _ := etypeImpls(bc.w)
		first := true
		for _, n := range sortedNames(impls) {
			s, _, ok := etypeParam(bc.w, impls[n], a.s)
			if !ok {
				return 0, 0, false, false
			}
			var v int64
			if _, err := fmt.Sscan(s, &v); err != nil {
				return 0, 0, false, false
			}
			if first || v < lo {
				lo = v
			}
			if first || v > hi {
				hi = v
			}
			first = false
		}
		if first {
			return 0, 0, false, false
		}
		return lo, hi, true, true
	case 'x':
		if t, ok := bc.xtype[a]; ok {
			return typeRange(t, bc.intBits)
		}
		return
	case 'e':
		return
	case 'c':
		lo, hasLo = 0, true
		hi, hasHi = int64(1)<<40, true
		if bc.intBits == 32 {
			hi = int64(1)<<31 - 1
		}
		return
	case 'q':
		qi := bc.qinfo[a]
		il, okl := bc.lower(qi.inner)
		if okl && il >= 0 {
			lo, hasLo = il/qi.c, true
			if ih, okh := bc.upper(qi.inner); okh {
				hi, hasHi = ih/qi.c, true
			}
		}
		return
	}
	// plain value
	v := a.v
	lo, hi, hasLo, hasHi = typeRange(v.Type(), bc.intBits)
	tighten := func(l, h int64, okL, okH bool) {
		if okL && (!hasLo || l > lo) {
			lo, hasLo = l, true
		}
		if okH && (!hasHi || h < hi) {
			hi, hasHi = h, true
		}
	}
	switch x := v.(type) {
	case *ssa.Convert:
		// a non-preserving conversion of a value whose range fits the target keeps the value
		if _, _, ok := intInfo(x.X.Type(), bc.intBits); ok {
			il, okl := bc.lower(bc.lin(x.X))
			ih, okh := bc.upper(bc.lin(x.X))
			if okl && okh && (!hasLo || il >= lo) && (!hasHi || ih <= hi) {
				tighten(il, ih, true, true)
			}
		}
	case *ssa.BinOp:
		switch x.Op {
		case token.REM:
			if c, ok := constInt(x.Y); ok && c > 0 {
				if l, okl := bc.lower(bc.lin(x.X)); okl && l >= 0 {
					tighten(0, c-1, true, true)
				} else {
					tighten(-(c - 1), c-1, true, true)
				}
			} else if h, okh := bc.upper(bc.lin(x.Y)); okh && h > 0 {
				if l, okl := bc.lower(bc.lin(x.Y)); okl && l > 0 {
					if lx, ok := bc.lower(bc.lin(x.X)); ok && lx >= 0 {
						tighten(0, h-1, true, true)
					}
				}
			}
		case token.AND:
			if c, ok := constInt(x.Y); ok && c >= 0 {
				tighten(0, c, true, true)
			} else if c, ok := constInt(x.X); ok && c >= 0 {
				tighten(0, c, true, true)
			}
		case token.SHR:
			if l, okl := bc.lower(bc.lin(x.X)); okl && l >= 0 {
				tighten(0, 0, true, false)
				if h, okh := bc.upper(bc.lin(x.X)); okh {
					tighten(0, h, false, true)
				}
			}
		}
	case *ssa.Phi:
		if bc.visitingPhi[x] {
			return
		}
		bc.visitingPhi[x] = true
		defer delete(bc.visitingPhi, x)
		// the web of phis feeding x; its leaves are the non-phi inputs
		web := map[*ssa.Phi]bool{}
		var leaves []lin
		var leafVals []ssa.Value
		var collect func(p *ssa.Phi)
		collect = func(p *ssa.Phi) {
			web[p] = true
			for _, e := range p.Edges {
				if q, ok := bc.canon(e).(*ssa.Phi); ok {
					if !web[q] {
						collect(q)
					}
					continue
				}
				leaves = append(leaves, bc.lin(e))
				leafVals = append(leafVals, e)
			}
		}
		collect(x)
		okAllLo, okAllHi := true, true
		var mlo, mhi int64
		haveLo, haveHi := false, false
		addLo := func(l int64) {
			if !haveLo || l < mlo {
				mlo, haveLo = l, true
			}
		}
		addHi := func(h int64) {
			if !haveHi || h > mhi {
				mhi, haveHi = h, true
			}
		}
		for li, le := range leaves {
			// inductive leaves: (a phi of the web) + d
			inductive := false
			for a2, c := range le.t {
				if p, ok := a2.v.(*ssa.Phi); ok && a2.kind == 'v' && web[p] && c == 1 {
					d := le.add(linAtom(a2), -1)
					hasWeb := false
					for a3 := range d.t {
						if p3, ok := a3.v.(*ssa.Phi); ok && a3.kind == 'v' && web[p3] {
							hasWeb = true
						}
					}
					if hasWeb {
						break
					}
					dl, okdl := bc.lower(d)
					dh, okdh := bc.upper(d)
					// a step in the "wrong" direction is fine when a branch condition dominating the
					// step bounds the variable there (for i < 8 { i++ }: i+1 ≤ 8)
					var edgeFacts []lin
					if in, isInstr := leafVals[li].(ssa.Instruction); isInstr && in.Block() != nil {
						edgeFacts = bc.blockFacts(in.Block())
					}
					if !okdl || dl < 0 {
						found := false
						if okdl {
							for _, f := range edgeFacts {
								if cf, has := f.t[a2]; has && cf == -1 && len(f.t) == 1 {
									addLo(f.k + dl) // -a2 + k ≤ 0: a2 ≥ k
									found = true
									break
								}
							}
						}
						if !found {
							okAllLo = false
						}
					}
					if !okdh || dh > 0 {
						found := false
						if okdh {
							for _, f := range edgeFacts {
								if cf, has := f.t[a2]; has && cf == 1 && len(f.t) == 1 {
									addHi(-f.k + dh) // a2 + k ≤ 0: a2 ≤ -k
									found = true
									break
								}
							}
						}
						if !found {
							okAllHi = false
						}
					}
					inductive = true
					break
				}
			}
			if inductive {
				continue
			}
			if l, okl := bc.lower(le); okl {
				addLo(l)
			} else {
				okAllLo = false
			}
			if h, okh := bc.upper(le); okh {
				addHi(h)
			} else {
				okAllHi = false
			}
		}
		tighten(mlo, mhi, okAllLo && haveLo, okAllHi && haveHi)
	case *ssa.Extract:
		// n of (n, err) := Read(buf): 0 ≤ n ≤ len(buf) is a fact added by contractFacts, not a constant range
		if x.Index == 1 {
			if nx, ok := x.Tuple.(*ssa.Next); ok && nx.IsString {
				tighten(0, 0, true, false) // byte offset of a range over a string
			}
		}
	case *ssa.Call:
		if b, ok := x.Call.Value.(*ssa.Builtin); ok && (b.Name() == "copy" || b.Name() == "len" || b.Name() == "cap") {
			tighten(0, 0, true, false)
		}
		if f := x.Call.StaticCallee(); f != nil && stringsIndexFn[calleeName(f)] {
			tighten(-1, 0, true, false)
		}
		if f := x.Call.StaticCallee(); f != nil {
			switch calleeName(f) {
			case "math/rand.Intn", "math/rand.Int63n", "math/rand.Int31n", "math/rand.(*Rand).Intn":
				tighten(0, 0, true, false)
			}
			if lo, ok := calleeLowerBound(bc.w, f, bc.intBits); ok {
				tighten(lo, 0, true, false)
			}
		}
	}
	return
}

// functions that return an index into their first argument, or -1
var stringsIndexFn = map[string]bool{"strings.Index": true, "strings.IndexAny": true, "strings.IndexByte": true, "strings.IndexRune": true,
	"strings.LastIndex": true, "strings.LastIndexAny": true, "strings.LastIndexByte": true, "bytes.Index": true, "bytes.IndexByte": true,
	"bytes.IndexAny": true, "bytes.LastIndex": true, "bytes.LastIndexByte": true, "strings.Count": true}

const satMax = int64(1) << 61

func satAdd(a, b int64) int64 {
	r := a + b
	if a > 0 && b > 0 && (r < 0 || r > satMax) {
		return satMax
	}
	if a < 0 && b < 0 && (r > 0 || r < -satMax) {
		return -satMax
	}
	if r > satMax {
		return satMax
	}
	if r < -satMax {
		return -satMax
	}
	return r
}

func satMul(a, b int64) int64 {
	if a == 0 || b == 0 {
		return 0
	}
	r := a * b
	if r/b != a || r > satMax || r < -satMax {
		if (a > 0) == (b > 0) {
			return satMax
		}
		return -satMax
	}
	return r
}

// upper: an upper bound of l from atom ranges (saturating at 2^61: a saturated bound proves nothing
// smaller than itself, so it only ever weakens the result).
func (bc *boundsCtx) upper(l lin) (int64, bool) {
	s := l.k
	for a, c := range l.t {
		lo, hi, hasLo, hasHi := bc.atomRange(a)
		if c > 0 {
			if !hasHi {
				return 0, false
			}
			s = satAdd(s, satMul(c, hi))
		} else {
			if !hasLo {
				return 0, false
			}
			s = satAdd(s, satMul(c, lo))
		}
	}
	if s >= satMax {
		return 0, false
	}
	return s, true
}

func (bc *boundsCtx) lower(l lin) (int64, bool) {
	u, ok := bc.upper(l.neg())
	return -u, ok
}

// ---- facts -----------------------------------------------------------------------------------

// condFacts: the linear facts (each ≤ 0) that follow from cond having truth value holds.
func (bc *boundsCtx) condFacts(cond ssa.Value, holds bool) []lin {
	for {
		u, ok := cond.(*ssa.UnOp)
		if !ok || u.Op != token.NOT {
			break
		}
		cond, holds = u.X, !holds
	}
	if call, isCall := cond.(*ssa.Call); isCall && holds {
		// strings.HasPrefix/HasSuffix/Contains(x, "const") ⇒ len(x) ≥ len("const")
		if f := call.Call.StaticCallee(); f != nil && len(call.Call.Args) == 2 {
			switch calleeName(f) {
			case "strings.HasPrefix", "strings.HasSuffix", "strings.Contains", "bytes.HasPrefix", "bytes.HasSuffix", "bytes.Contains":
				if k, ok := call.Call.Args[1].(*ssa.Const); ok && k.Value != nil && k.Value.Kind() == constant.String {
					n := int64(len(constant.StringVal(k.Value)))
					return []lin{linConst(n).add(bc.lenLin(call.Call.Args[0], 0), -1)}
				}
				return nil
			}
		}
		return bc.boolHelperFacts(call)
	}
	b, ok := cond.(*ssa.BinOp)
	if !ok {
		return nil
	}
	if _, _, ok := intInfo(b.X.Type(), bc.intBits); !ok {
		return nil
	}
	x, y := bc.lin(b.X), bc.lin(b.Y)
	d := x.add(y, -1) // x - y
	op := b.Op
	if !holds {
		switch op {
		case token.LSS:
			op = token.GEQ
		case token.LEQ:
			op = token.GTR
		case token.GTR:
			op = token.LEQ
		case token.GEQ:
			op = token.LSS
		case token.EQL:
			op = token.NEQ
		case token.NEQ:
			op = token.EQL
		}
	}
	switch op {
	case token.LSS:
		return []lin{d.plus(1)}
	case token.LEQ:
		return []lin{d}
	case token.GTR:
		return []lin{d.neg().plus(1)}
	case token.GEQ:
		return []lin{d.neg()}
	case token.EQL:
		return []lin{d, d.neg()}
	case token.NEQ:
		if l, ok := bc.lower(d); ok && l >= 0 {
			return []lin{d.neg().plus(1)} // d ≥ 1
		}
		if h, ok := bc.upper(d); ok && h <= 0 {
			return []lin{d.plus(1)} // d ≤ -1
		}
	}
	return nil
}

// blockFacts: facts that hold on entry to block b (dominating single-outcome branches).
func (bc *boundsCtx) blockFacts(b *ssa.BasicBlock) []lin {
	if f, ok := bc.factMem[b]; ok {
		return f
	}
	var out []lin
	for cur := b; cur != nil; cur = cur.Idom() {
		d := cur.Idom()
		if d == nil {
			break
		}
		iff, ok := lastInstr(d).(*ssa.If)
		if !ok {
			continue
		}
		for k, s := range d.Succs {
			if len(s.Preds) == 1 && (s == cur || s.Dominates(cur)) && d.Succs[1-k] != s {
				out = append(out, bc.condFacts(iff.Cond, k == 0)...)
			}
		}
	}
	bc.factMem[b] = out
	return out
}

// extraFacts: relations that come with the atoms of a goal — quotient definitions and the
// contracts of the readers whose result is an atom.
func (bc *boundsCtx) extraFacts(g lin, facts []lin, at ssa.Instruction) []lin {
	seen := map[atom]bool{}
	var out []lin
	var visit func(l lin)
	visit = func(l lin) {
		for a := range l.t {
			if seen[a] {
				continue
			}
			seen[a] = true
			switch a.kind {
			case 'q':
				qi := bc.qinfo[a]
				// truncated division: |inner - c*q| ≤ c-1 always
				out = append(out, qi.inner.add(linAtom(a), -qi.c).plus(-(qi.c - 1)))
				out = append(out, linConst(0).add(linAtom(a), qi.c).add(qi.inner, -1).plus(-(qi.c - 1)))
				if bc.prove(qi.inner.neg(), facts, 2) {
					// inner ≥ 0: q ≥ 0 and c*q ≤ inner
					out = append(out, linAtom(a).neg())
					out = append(out, linConst(0).add(linAtom(a), qi.c).add(qi.inner, -1))
				}
				visit(qi.inner)
			case 'v':
				out = append(out, bc.contractFacts(a)...)
				out = append(out, bc.remFacts(a, facts)...)
				pf := bc.phiFacts(a)
				pf = append(pf, bc.strideFacts(a, at)...)
				pf = append(pf, bc.resultIntFacts(a, at)...)
				pf = append(pf, bc.indexFacts(a, at)...)
				out = append(out, pf...)
				for _, f := range pf {
					visit(f)
				}
			case 'c':
				// len(x) ≤ cap(x)
				out = append(out, bc.lenLin(a.v, 0).add(linAtom(a), -1))
			case 'l':
				lf := bc.sameLenFacts(a, at)
				lf = append(lf, bc.resultLenFacts(a, at)...)
				lf = append(lf, bc.splitFacts(a, at)...)
				out = append(out, lf...)
				for _, f := range lf {
					visit(f)
				}
			}
		}
	}
	visit(g)
	for _, f := range facts {
		visit(f)
	}
	return out
}

// contractFacts: n, _ := r.Read(buf) / io.ReadFull(r, buf) / copy(dst, src) satisfy 0 ≤ n ≤ len(buf).
func (bc *boundsCtx) contractFacts(a atom) []lin {
	var call *ssa.Call
	switch x := a.v.(type) {
	case *ssa.Extract:
		if x.Index == 0 {
			call, _ = x.Tuple.(*ssa.Call)
		}
	case *ssa.Call:
		call = x
	}
	if ex, ok := a.v.(*ssa.Extract); ok && ex.Index == 1 {
		if nx, ok := ex.Tuple.(*ssa.Next); ok && nx.IsString {
			if rg, ok := nx.Iter.(*ssa.Range); ok {
				// the byte offset of a range over a string is below its length
				return []lin{linAtom(a).add(bc.lenLin(rg.X, 0), -1).plus(1)}
			}
		}
	}
	if call != nil {
		if f := call.Call.StaticCallee(); f != nil && stringsIndexFn[calleeName(f)] && calleeName(f) != "strings.Count" && len(call.Call.Args) > 0 {
			if _, isCall := a.v.(*ssa.Call); isCall {
				return []lin{linAtom(a).add(bc.lenLin(call.Call.Args[0], 0), -1).plus(1)}
			}
		}
	}
	var buf ssa.Value
	if call == nil {
		return nil
	}
	if f := call.Call.StaticCallee(); f != nil {
		switch calleeName(f) {
		case "math/rand.Intn", "math/rand.Int63n", "math/rand.Int31n", "math/rand.(*Rand).Intn":
			// 0 ≤ r < n (Intn panics for n ≤ 0: listed as not decided)
			if _, isCall := a.v.(*ssa.Call); isCall {
				return []lin{linAtom(a).add(bc.lin(call.Call.Args[len(call.Call.Args)-1]), -1).plus(1)}
			}
		}
	}
	if b, ok := call.Call.Value.(*ssa.Builtin); ok && b.Name() == "copy" {
		buf = call.Call.Args[0]
	} else if call.Call.IsInvoke() && call.Call.Method.Name() == "Read" && len(call.Call.Args) == 1 {
		buf = call.Call.Args[0]
	} else if f := call.Call.StaticCallee(); f != nil {
		switch calleeName(f) {
		case "io.ReadFull":
			buf = call.Call.Args[1]
		case "net.(*UDPConn).Read", "net.(*TCPConn).Read", "net.(*conn).Read", "bytes.(*Buffer).Read", "bytes.(*Reader).Read", "bufio.(*Reader).Read",
			"net.(*UDPConn).ReadFrom", "net.(*UDPConn).ReadFromUDP":
			buf = call.Call.Args[len(call.Call.Args)-1]
		}
	}
	if buf == nil {
		return nil
	}
	n := linAtom(a)
	return []lin{n.neg(), n.add(bc.lenLin(buf, 0), -1)}
}

// ---- prover --------------------------------------------------------------------------------------

func (bc *boundsCtx) prove(g lin, facts []lin, depth int) bool {
	if u, ok := bc.upper(g); ok && u <= 0 {
		return true
	}
	if depth == 0 {
		return false
	}
	for i, f := range facts {
		// choose the multiplier that cancels a shared atom of the same sign
		tried := map[int64]bool{}
		for a, ca := range g.t {
			fa, ok := f.t[a]
			if !ok || (ca > 0) != (fa > 0) || ca%fa != 0 {
				continue
			}
			m := ca / fa
			if m <= 0 || tried[m] {
				continue
			}
			tried[m] = true
			rest := append(append([]lin{}, facts[:i]...), facts[i+1:]...)
			if bc.prove(g.add(f, -m), rest, depth-1) {
				return true
			}
		}
	}
	return false
}

// Prove: goal ≤ 0 at instruction in.
func (bc *boundsCtx) Prove(g lin, at ssa.Instruction) bool {
	facts := bc.factsAt(g, at)
	if bc.prove(g, facts, 4) {
		return true
	}
	return bc.provePerEtype(g, facts, at)
}

// factsAt: branch facts dominating at, facts implied by slice expressions that were evaluated
// before at on every path (they would have panicked otherwise), and the facts that come with the
// atoms involved.
func (bc *boundsCtx) factsAt(g lin, at ssa.Instruction) []lin {
	facts := append([]lin{}, bc.blockFacts(at.Block())...)
	facts = append(facts, bc.assumed...)
	facts = append(facts, bc.sliceFacts(at)...)
	facts = append(facts, bc.extraFacts(g, facts, at)...)
	return facts
}

// sliceFacts: for every x[lo:hi] that dominates at: 0 ≤ lo ≤ hi ≤ cap(x).
func (bc *boundsCtx) sliceFacts(at ssa.Instruction) []lin {
	var out []lin
	for cur := at.Block(); cur != nil; cur = cur.Idom() {
		for _, in := range cur.Instrs {
			if in == at {
				break
			}
			sl, ok := in.(*ssa.Slice)
			if !ok || (sl.Low == nil && sl.High == nil) {
				continue
			}
			if cur == at.Block() && !instrDominates(sl, at) {
				continue
			}
			lo := linConst(0)
			if sl.Low != nil {
				lo = bc.lin(sl.Low)
				out = append(out, lo.neg())
			}
			if sl.High != nil {
				hi := bc.lin(sl.High)
				out = append(out, lo.add(hi, -1))
				out = append(out, hi.add(bc.capAtomLin(sl.X), -1))
			} else {
				out = append(out, lo.add(bc.lenOfSliceBase(sl.X, 0), -1))
			}
		}
	}
	return out
}

// capAtomLin: cap(x) as a term: the array length for a pointer to array, else an atom ≥ len(x).
func (bc *boundsCtx) capAtomLin(v ssa.Value) lin {
	if p, ok := v.Type().Underlying().(*types.Pointer); ok {
		if a, ok := p.Elem().Underlying().(*types.Array); ok {
			return linConst(a.Len())
		}
	}
	cv := bc.canon(v)
	if m, ok := cv.(*ssa.MakeSlice); ok {
		return bc.lin(m.Cap)
	}
	if _, isStr := cv.Type().Underlying().(*types.Basic); isStr {
		return bc.lenLin(cv, 0)
	}
	a := atom{kind: 'c', v: cv}
	bc.names[a] = "cap(" + bc.r.R(cv) + ")"
	return linAtom(a)
}

// provePerEtype: when the goal speaks about constant-returning methods of one etype value, prove it
// separately for every implementation of etype.EType with the constants substituted (the sizes of
// one etype are correlated — HMAC length ≤ hash size — in a way ranges over all etypes are not).
func (bc *boundsCtx) provePerEtype(g lin, facts []lin, at ssa.Instruction) bool {
	var recv ssa.Value
	has := false
	scan := func(l lin) bool {
		for a := range l.t {
			r, ok := bc.etypeRecvOf(a)
			if !ok {
				continue
			}
			if has && r != recv {
				return false
			}
			recv, has = r, true
		}
		return true
	}
	if !scan(g) || !has {
		return false
	}
	impls, _ := etypeImpls(bc.w)
	if len(impls) == 0 {
		return false
	}
	for _, n := range sortedNames(impls) {
		t := impls[n]
		ig, ok := bc.instantiate(g, recv, t)
		if !ok {
			return false
		}
		var ifacts []lin
		for _, f := range facts {
			if fi, ok := bc.instantiate(f, recv, t); ok {
				ifacts = append(ifacts, fi)
			}
		}
		if at != nil {
			ifacts = append(ifacts, bc.extraFacts(ig, ifacts, at)...)
		}
		if !bc.prove(ig, ifacts, 4) {
			return false
		}
	}
	return true
}

// etypeRecvOf: the etype value an atom depends on ('m' atoms, quotients over them, and the length
// of an HMAC sum keyed by the etype's hash function).
func (bc *boundsCtx) etypeRecvOf(a atom) (ssa.Value, bool) {
	switch a.kind {
	case 'm':
		return a.v, true
	case 'q':
		for ia := range bc.qinfo[a].inner.t {
			if r, ok := bc.etypeRecvOf(ia); ok {
				return r, true
			}
		}
	case 'l':
		if r := bc.hmacSumRecv(a.v); r != nil {
			return r, true
		}
	case 'e':
		for ia := range bc.einfo[a].right.t {
			if r, ok := bc.etypeRecvOf(ia); ok {
				return r, true
			}
		}
	}
	return nil, false
}

// pureEtype: l is made only of constant methods of one etype value (and constants).
func (bc *boundsCtx) pureEtype(l lin) bool {
	var recv ssa.Value
	n := 0
	for a := range l.t {
		if a.kind != 'm' && a.kind != 'q' {
			return false
		}
		r, ok := bc.etypeRecvOf(a)
		if !ok || (n > 0 && r != recv) {
			return false
		}
		recv = r
		n++
	}
	return n > 0
}

// hmacSumRecv: v is hmac.New(e.GetHashFunc(), _).Sum(_): returns e.
func (bc *boundsCtx) hmacSumRecv(v ssa.Value) ssa.Value {
	sum, ok := v.(*ssa.Call)
	if !ok || !sum.Call.IsInvoke() || sum.Call.Method.Name() != "Sum" {
		return nil
	}
	if c, ok := sum.Call.Args[0].(*ssa.Const); !ok || c.Value != nil {
		return nil // Sum(nil) only: Sum(b) appends to b
	}
	nw, ok := bc.canon(sum.Call.Value).(*ssa.Call)
	if !ok {
		return nil
	}
	if f := nw.Call.StaticCallee(); f == nil || calleeName(f) != "crypto/hmac.New" {
		return nil
	}
	hf, ok := bc.canon(nw.Call.Args[0]).(*ssa.Call)
	if !ok || !hf.Call.IsInvoke() || hf.Call.Method.Name() != "GetHashFunc" {
		return nil
	}
	return bc.canon(hf.Call.Value)
}

func (bc *boundsCtx) instantiate(l lin, recv ssa.Value, t types.Type) (lin, bool) {
	out := linConst(l.k)
	for a, c := range l.t {
		r, dep := bc.etypeRecvOf(a)
		if !dep || r != recv {
			out = out.add(linAtom(a), c)
			continue
		}
		switch a.kind {
		case 'm':
			s, _, ok := etypeParam(bc.w, t, a.s)
			var v int64
			if !ok {
				return lin{}, false
			}
			if _, err := fmt.Sscan(s, &v); err != nil {
				return lin{}, false
			}
			out = out.plus(c * v)
		case 'q':
			qi := bc.qinfo[a]
			in, ok := bc.instantiate(qi.inner, recv, t)
			if !ok || !in.isConst() || in.k < 0 {
				return lin{}, false
			}
			out = out.plus(c * (in.k / qi.c))
		case 'e':
			ei := bc.einfo[a]
			r, ok := bc.instantiate(ei.right, recv, t)
			if !ok || !r.isConst() || r.k <= 0 {
				return lin{}, false
			}
			l, ok := bc.instantiate(ei.left, recv, t)
			if !ok {
				return lin{}, false
			}
			if ei.op == token.MUL {
				out = out.add(l, c*r.k)
			} else {
				if l.isConst() {
					if l.k < 0 {
						return lin{}, false
					}
					out = out.plus(c * (l.k / r.k))
				} else {
					qa := atom{kind: 'q', s: bc.linString(l) + fmt.Sprintf("/%d", r.k)}
					bc.qinfo[qa] = qinfo{l, r.k}
					bc.names[qa] = "(" + bc.linString(l) + fmt.Sprintf(")/%d", r.k)
					out = out.add(linAtom(qa), c)
				}
			}
		case 'l':
			f := bc.w.MethodOf(t, "GetHashFunc")
			if f == nil {
				return lin{}, false
			}
			s, ok := evalFunc(f, 0)
			if !ok {
				return lin{}, false
			}
			n, known := hashSizes[strings.TrimPrefix(s, "func:")]
			if !known {
				return lin{}, false
			}
			out = out.plus(c * int64(n))
		}
	}
	return out, true
}

// domConds: the branch conditions with a single outcome dominating block b.
func domConds(b *ssa.BasicBlock) []struct {
	cond  ssa.Value
	holds bool
} {
	var out []struct {
		cond  ssa.Value
		holds bool
	}
	for cur := b; cur != nil; cur = cur.Idom() {
		d := cur.Idom()
		if d == nil {
			break
		}
		iff, ok := lastInstr(d).(*ssa.If)
		if !ok {
			continue
		}
		for k, s := range d.Succs {
			if len(s.Preds) == 1 && (s == cur || s.Dominates(cur)) && d.Succs[1-k] != s {
				cond, holds := iff.Cond, k == 0
				for {
					u, ok := cond.(*ssa.UnOp)
					if !ok || u.Op != token.NOT {
						break
					}
					cond, holds = u.X, !holds
				}
				out = append(out, struct {
					cond  ssa.Value
					holds bool
				}{cond, holds})
			}
		}
	}
	return out
}

// splitFacts: strings.Split(s, sep) / SplitN(s, sep, n≥2 or n<0) has at least two elements where
// strings.Contains(s, sep) is known to hold.
func (bc *boundsCtx) splitFacts(a atom, at ssa.Instruction) []lin {
	call, ok := a.v.(*ssa.Call)
	if !ok {
		return nil
	}
	f := call.Call.StaticCallee()
	if f == nil {
		return nil
	}
	switch calleeName(f) {
	case "strings.Split":
	case "strings.SplitN":
		n, ok := constInt(call.Call.Args[2])
		if !ok || (n >= 0 && n < 2) {
			return nil
		}
	default:
		return nil
	}
	sep, ok := call.Call.Args[1].(*ssa.Const)
	if !ok || sep.Value == nil || sep.Value.Kind() != constant.String || constant.StringVal(sep.Value) == "" {
		return nil
	}
	for _, dc := range domConds(at.Block()) {
		cc, ok := dc.cond.(*ssa.Call)
		if !ok || !dc.holds {
			continue
		}
		g := cc.Call.StaticCallee()
		if g == nil || calleeName(g) != "strings.Contains" {
			continue
		}
		s2, ok := cc.Call.Args[1].(*ssa.Const)
		if !ok || s2.Value == nil || s2.Value.Kind() != constant.String || constant.StringVal(s2.Value) != constant.StringVal(sep.Value) {
			continue
		}
		if bc.canon(cc.Call.Args[0]) == bc.canon(call.Call.Args[0]) {
			return []lin{linConst(2).add(linAtom(a), -1)}
		}
	}
	// the string is a parameter of an unexported function: the Contains test may be the callers'
	// (a helper extracted from below the test) — it must dominate every call, on the argument
	if p, isP := bc.canon(call.Call.Args[0]).(*ssa.Parameter); isP && bc.fn.Parent() == nil && bc.fn.Object() != nil && !bc.fn.Object().Exported() && bc.inlineBusy < 2 {
		pi := -1
		for i, fp := range bc.fn.Params {
			if fp == p {
				pi = i
			}
		}
		n := bc.w.CallGraph().Nodes[bc.fn]
		if pi < 0 || n == nil || len(n.In) == 0 {
			return nil
		}
		for _, e := range n.In {
			site, ok := e.Site.(*ssa.Call)
			if !ok || site.Call.IsInvoke() || site.Call.StaticCallee() != bc.fn || pi >= len(site.Call.Args) || site.Parent() == nil {
				return nil
			}
			cb := newBoundsCtx(bc.w, site.Parent())
			cb.inlineBusy = bc.inlineBusy + 1
			found := false
			for _, dc := range domConds(site.Block()) {
				cc, ok := dc.cond.(*ssa.Call)
				if !ok || !dc.holds {
					continue
				}
				g := cc.Call.StaticCallee()
				if g == nil || calleeName(g) != "strings.Contains" {
					continue
				}
				s2, ok := cc.Call.Args[1].(*ssa.Const)
				if !ok || s2.Value == nil || s2.Value.Kind() != constant.String || constant.StringVal(s2.Value) != constant.StringVal(sep.Value) {
					continue
				}
				if cb.canon(cc.Call.Args[0]) == cb.canon(site.Call.Args[pi]) {
					found = true
				}
			}
			if !found {
				return nil
			}
		}
		return []lin{linConst(2).add(linAtom(a), -1)}
	}
	return nil
}

// ---- rendering -------------------------------------------------------------------------------------

func (bc *boundsCtx) atomName(a atom) string {
	if n, ok := bc.names[a]; ok {
		return n
	}
	switch a.kind {
	case 'l':
		return "len(" + bc.r.R(a.v) + ")"
	case 'c':
		return "cap(" + bc.r.R(a.v) + ")"
	case 'v':
		return bc.r.R(a.v)
	}
	return a.s
}

func (bc *boundsCtx) linString(l lin) string {
	var parts []string
	for a, c := range l.t {
		n := bc.atomName(a)
		switch c {
		case 1:
			parts = append(parts, "+"+n)
		case -1:
			parts = append(parts, "-"+n)
		default:
			parts = append(parts, fmt.Sprintf("%+d*%s", c, n))
		}
	}
	sort.Strings(parts)
	s := strings.Join(parts, " ")
	if l.k != 0 || s == "" {
		s += fmt.Sprintf(" %+d", l.k)
	}
	return strings.TrimPrefix(strings.TrimSpace(s), "+")
}

// remFacts: x % y with x ≥ 0 and y ≥ 1 lies in [0, y-1].
func (bc *boundsCtx) remFacts(a atom, facts []lin) []lin {
	b, ok := a.v.(*ssa.BinOp)
	if !ok || b.Op != token.REM {
		return nil
	}
	if _, isConst := constInt(b.Y); isConst {
		return nil // constant divisors are handled by atomRange
	}
	x, y := bc.lin(b.X), bc.lin(b.Y)
	if !bc.prove(x.neg(), facts, 2) || !bc.prove(y.neg().plus(1), facts, 2) {
		return nil
	}
	r := linAtom(a)
	return []lin{r.neg(), r.add(y, -1).plus(1)}
}

// ---- length-preserving callees ---------------------------------------------------------------

// trustedSameLen: dependency functions that return, on success, as many bytes as one argument holds.
var trustedSameLen = map[string]int{
	"github.com/jcmturner/aescts/v2.Decrypt": 2,
	"github.com/jcmturner/aescts/v2.Encrypt": -1, // returns (iv, ct, err): not the first result
}

var sameLenMemo = map[*ssa.Function]int{}

// sameLenParam: index i into f.Params such that every return of f that can carry a nil error
// returns as its first result a slice with len == len(Params[i]). -1: no such parameter.
func (bc *boundsCtx) sameLenParam(f *ssa.Function, depth int) int {
	if v, ok := sameLenMemo[f]; ok {
		return v
	}
	sameLenMemo[f] = -1
	if depth > 4 {
		return -1
	}
	if i, ok := trustedSameLen[calleeName(f)]; ok {
		sameLenMemo[f] = i
		return i
	}
	if len(f.Blocks) == 0 || f.Signature.Results().Len() < 1 {
		return -1
	}
	cb := &boundsCtx{w: bc.w, fn: f, intBits: bc.intBits, loadRep: map[*ssa.UnOp]ssa.Value{}, qinfo: map[atom]qinfo{}, names: map[atom]string{},
		factMem: map[*ssa.BasicBlock][]lin{}, rngBusy: map[atom]bool{}, visitingPhi: map[*ssa.Phi]bool{}, linMemo: map[ssa.Value]lin{}, fitBusy: map[ssa.Value]bool{}, einfo: map[atom]einfo{}}
	cb.r = bc.r
	cb.computeLoadReps()
	paramIdx := func(v ssa.Value) int {
		p, ok := cb.canon(v).(*ssa.Parameter)
		if !ok {
			return -1
		}
		for i, fp := range f.Params {
			if fp == p {
				return i
			}
		}
		return -1
	}
	idx := -1
	n := 0
	for _, b := range f.Blocks {
		ret, ok := lastInstr(b).(*ssa.Return)
		if !ok || b == f.Recover {
			continue
		}
		rs := RetResults(ret)
		if len(rs) == 0 {
			return -1
		}
		if len(rs) >= 2 {
			ev := rs[len(rs)-1]
			if c, ok := ev.(*ssa.Const); ok && c.Value == nil {
				// success return
			} else if _, isCall := ev.(*ssa.Call); isCall {
				continue // a constructed error: not a success return
			} else if _, isMI := ev.(*ssa.MakeInterface); isMI {
				continue
			}
		}
		this := -1
		if ex, ok := rs[0].(*ssa.Extract); ok && ex.Index == 0 {
			if call, ok := ex.Tuple.(*ssa.Call); ok {
				this = cb.callSameLenArg(call, depth+1, paramIdx)
			}
		} else if call, ok := rs[0].(*ssa.Call); ok {
			this = cb.callSameLenArg(call, depth+1, paramIdx)
		}
		if this < 0 {
			l := cb.lenLin(rs[0], 0)
			if len(l.t) == 1 && l.k == 0 {
				for a, c := range l.t {
					if c == 1 && a.kind == 'l' {
						this = paramIdx(a.v)
					}
				}
			}
		}
		if this < 0 || (idx >= 0 && idx != this) {
			return -1
		}
		idx = this
		n++
	}
	if n == 0 {
		return -1
	}
	sameLenMemo[f] = idx
	return idx
}

// callSameLenArg: the callees of call all preserve the length of one argument, which is parameter
// paramIdx(arg) of the enclosing function.
func (bc *boundsCtx) callSameLenArg(call *ssa.Call, depth int, paramIdx func(ssa.Value) int) int {
	arg := bc.sameLenArg(call, depth)
	if arg == nil {
		return -1
	}
	return paramIdx(arg)
}

// sameLenArg: the argument of call whose length every possible callee preserves (nil if none).
func (bc *boundsCtx) sameLenArg(call *ssa.Call, depth int) ssa.Value {
	callees := bc.w.Callees(call)
	if len(callees) == 0 {
		return nil
	}
	var arg ssa.Value
	for _, g := range callees {
		i := bc.sameLenParam(g, depth)
		if i < 0 {
			return nil
		}
		ai := i
		if call.Call.IsInvoke() {
			ai = i - 1 // Params[0] is the receiver
		}
		if ai < 0 || ai >= len(call.Call.Args) {
			return nil
		}
		if arg != nil && arg != call.Call.Args[ai] {
			return nil
		}
		arg = call.Call.Args[ai]
	}
	return arg
}

// sameLenFacts: len(x) == len(arg) for x, err := f(…arg…) with f length-preserving, where err is
// known to be nil at the instruction.
func (bc *boundsCtx) sameLenFacts(a atom, at ssa.Instruction) []lin {
	ex, ok := a.v.(*ssa.Extract)
	if !ok || ex.Index != 0 {
		return nil
	}
	call, ok := ex.Tuple.(*ssa.Call)
	if !ok {
		return nil
	}
	arg := bc.sameLenArg(call, 0)
	if arg == nil || !bc.errNilAt(call, at) {
		return nil
	}
	d := linAtom(a).add(bc.lenLin(arg, 0), -1)
	return []lin{d, d.neg()}
}

// resultLenFacts: v, err := g(…) of a module function g, used where err is known to be nil: when
// every success return of g hands back a slice whose length is one linear form over g's
// parameters (b[off:off+size] has length size), len(v) is that form over the arguments.
func (bc *boundsCtx) resultLenFacts(a atom, at ssa.Instruction) []lin {
	ex, ok := a.v.(*ssa.Extract)
	if !ok || bc.inlineBusy > 2 {
		return nil
	}
	call, ok := ex.Tuple.(*ssa.Call)
	if !ok || call.Call.IsInvoke() {
		return nil
	}
	g := call.Call.StaticCallee()
	if g == nil || len(g.Blocks) == 0 || g.Pkg == nil || !inModule(g.Pkg.Pkg.Path()) || g == bc.fn {
		return nil
	}
	res := g.Signature.Results()
	n := res.Len()
	if n < 2 || res.At(n-1).Type().String() != "error" || ex.Index >= n-1 || !bc.errNilAt(call, at) {
		return nil
	}
	cb := newBoundsCtx(bc.w, g)
	cb.inlineBusy = bc.inlineBusy + 1
	var out *lin
	for _, b := range g.Blocks {
		ret, ok := lastInstr(b).(*ssa.Return)
		if !ok || b == g.Recover {
			continue
		}
		rs := RetResults(ret)
		if len(rs) != n {
			return nil
		}
		if c, isC := rs[n-1].(*ssa.Const); !isC || c.Value != nil {
			// an exit that may carry an error: if it can also carry nil its value counts
			if !isC {
				if _, isCall := rs[n-1].(*ssa.Call); !isCall {
					if _, isMI := rs[n-1].(*ssa.MakeInterface); !isMI {
						return nil
					}
				}
			}
			continue
		}
		l, ok := translateLin(cb, bc, g, call, cb.lenLin(rs[ex.Index], 0))
		if !ok {
			return nil
		}
		if out != nil && bc.linString(*out) != bc.linString(l) {
			return nil
		}
		l2 := l
		out = &l2
	}
	if out == nil {
		return nil
	}
	d := linAtom(a).add(*out, -1)
	return []lin{d, d.neg()}
}

// resultIntFacts: n, err := g(…) of a module function g, used where err is known to be nil: the
// facts that dominate g's (single) success return and speak about the returned integer — a
// range check performed inside a helper (0 ≤ n ≤ len(b)) — hold for n in the caller, with g's
// parameters read as the arguments.
func (bc *boundsCtx) resultIntFacts(a atom, at ssa.Instruction) []lin {
	ex, ok := a.v.(*ssa.Extract)
	if !ok || a.kind != 'v' || bc.inlineBusy > 2 || at == nil {
		return nil
	}
	call, ok := ex.Tuple.(*ssa.Call)
	if !ok || call.Call.IsInvoke() {
		return nil
	}
	g := call.Call.StaticCallee()
	if g == nil || len(g.Blocks) == 0 || g.Pkg == nil || !inModule(g.Pkg.Pkg.Path()) || g == bc.fn {
		return nil
	}
	res := g.Signature.Results()
	n := res.Len()
	if n < 2 || res.At(n-1).Type().String() != "error" || ex.Index >= n-1 || !bc.errNilAt(call, at) {
		return nil
	}
	if _, _, isInt := intInfo(res.At(ex.Index).Type(), bc.intBits); !isInt {
		return nil
	}
	var succ *ssa.Return
	for _, b := range g.Blocks {
		ret, ok := lastInstr(b).(*ssa.Return)
		if !ok || b == g.Recover {
			continue
		}
		rs := RetResults(ret)
		if len(rs) != n {
			return nil
		}
		if c, isC := rs[n-1].(*ssa.Const); isC && c.Value == nil {
			if succ != nil {
				return nil
			}
			succ = ret
			continue
		}
		// the other exits must carry a non-nil error for certain
		nonNil := false
		if ec, isCall := rs[n-1].(*ssa.Call); isCall {
			if f := ec.Call.StaticCallee(); f != nil {
				switch calleeName(f) {
				case "fmt.Errorf", "errors.New":
					nonNil = true
				}
			}
		}
		if mi, isMI := rs[n-1].(*ssa.MakeInterface); isMI {
			if _, isPtr := mi.X.Type().Underlying().(*types.Pointer); !isPtr {
				nonNil = true
			}
		}
		if !nonNil {
			return nil
		}
	}
	if succ == nil {
		return nil
	}
	cb := newBoundsCtx(bc.w, g)
	cb.inlineBusy = bc.inlineBusy + 1
	bc.seedCallee(cb, g, call)
	rl := cb.lin(RetResults(succ)[ex.Index])
	// the returned value as one callee atom (plus a constant)
	if len(rl.t) != 1 {
		return nil
	}
	var ra atom
	var rc int64
	for k, c := range rl.t {
		ra, rc = k, c
	}
	if rc != 1 {
		return nil
	}
	var out []lin
	for _, f := range cb.factsAt(rl, succ) {
		k, has := f.t[ra]
		if !has {
			continue
		}
		// f = k·ra + rest ≤ 0 with ra = a - rl.k
		rest := f.add(linAtom(ra), -k)
		tr, ok := translateLin(cb, bc, g, call, rest)
		if !ok {
			continue
		}
		out = append(out, tr.add(linAtom(a), k).plus(-k*rl.k))
	}
	return out
}

// seedCallee: what this call site knows about the sign of its integer arguments becomes an
// assumption about the callee's parameters (for this call only): a length passed as `size int`
// is not negative, so uint64(size) is size.
func (bc *boundsCtx) seedCallee(cb *boundsCtx, g *ssa.Function, call *ssa.Call) {
	for i, p := range g.Params {
		if i >= len(call.Call.Args) {
			break
		}
		if _, _, isInt := intInfo(p.Type(), bc.intBits); !isInt {
			continue
		}
		al := bc.lin(call.Call.Args[i])
		nonNeg := false
		if lo, ok := bc.lower(al); ok && lo >= 0 {
			nonNeg = true
		} else if bc.prove(al.neg(), bc.factsAt(al, call), 2) {
			nonNeg = true
		}
		if nonNeg {
			cb.assumed = append(cb.assumed, linAtom(atom{kind: 'v', v: p}).neg())
		}
	}
}

// indexFacts: i := strings.Index(x, sep) (IndexByte, IndexAny, LastIndex …): -1 ≤ i ≤ len(x)-1, and
// i ≥ 0 where a dominating strings.Contains(x, sep) / ContainsAny / ContainsRune of the same
// operands holds (or i itself was tested).
func (bc *boundsCtx) indexFacts(a atom, at ssa.Instruction) []lin {
	call, ok := a.v.(*ssa.Call)
	if !ok || a.kind != 'v' || at == nil {
		return nil
	}
	f := call.Call.StaticCallee()
	if f == nil || len(call.Call.Args) != 2 {
		return nil
	}
	var contains string
	switch calleeName(f) {
	case "strings.Index", "strings.LastIndex":
		contains = "strings.Contains"
	case "strings.IndexByte", "strings.IndexRune", "strings.LastIndexByte":
		contains = "strings.ContainsRune"
	case "strings.IndexAny", "strings.LastIndexAny":
		contains = "strings.ContainsAny"
	default:
		return nil
	}
	x := call.Call.Args[0]
	if contains == "strings.Contains" {
		// Index(x, "") is 0 even for an empty x: the upper bound below needs a non-empty separator
		k, isK := call.Call.Args[1].(*ssa.Const)
		if !isK || k.Value == nil || k.Value.Kind() != constant.String || constant.StringVal(k.Value) == "" {
			return []lin{linConst(-1).add(linAtom(a), -1)}
		}
	}
	out := []lin{linConst(-1).add(linAtom(a), -1), linAtom(a).add(bc.lenLin(x, 0), -1).plus(1)} // -1 - i ≤ 0 ; i - len + 1 ≤ 0 … for a hit; for a miss i = -1 ≤ len - 1 as well
	sameConst := func(u, v ssa.Value) bool {
		ku, ok1 := u.(*ssa.Const)
		kv, ok2 := v.(*ssa.Const)
		return ok1 && ok2 && ku.Value != nil && kv.Value != nil && ku.Value.ExactString() == kv.Value.ExactString()
	}
	for _, dc := range domConds(at.Block()) {
		cc, ok := dc.cond.(*ssa.Call)
		if !ok || !dc.holds {
			continue
		}
		g := cc.Call.StaticCallee()
		if g == nil || len(cc.Call.Args) != 2 {
			continue
		}
		n := calleeName(g)
		if n != contains && !(contains == "strings.ContainsRune" && n == "strings.Contains") {
			continue
		}
		if bc.canon(cc.Call.Args[0]) == bc.canon(x) && (sameConst(cc.Call.Args[1], call.Call.Args[1]) || bc.canon(cc.Call.Args[1]) == bc.canon(call.Call.Args[1])) {
			out = append(out, linAtom(a).neg())
		}
	}
	return out
}

// boolHelperFacts: `if helper(args)` taken on its true edge, for a module function with a single
// bool result that is true in exactly one way (one return, or one edge of the result φ that is
// not the constant false): the comparisons that hold on that way — a range check written as a
// predicate — hold in the caller with the parameters read as the arguments.
func (bc *boundsCtx) boolHelperFacts(call *ssa.Call) []lin {
	if bc.inlineBusy > 2 || call.Call.IsInvoke() {
		return nil
	}
	g := call.Call.StaticCallee()
	if g == nil || len(g.Blocks) == 0 || g.Pkg == nil || !inModule(g.Pkg.Pkg.Path()) || g == bc.fn {
		return nil
	}
	res := g.Signature.Results()
	if res.Len() != 1 || res.At(0).Type().String() != "bool" {
		return nil
	}
	cb := newBoundsCtx(bc.w, g)
	cb.inlineBusy = bc.inlineBusy + 1
	bc.seedCallee(cb, g, call)
	var facts []lin
	ways := 0
	for _, b := range g.Blocks {
		ret, ok := lastInstr(b).(*ssa.Return)
		if !ok || b == g.Recover {
			continue
		}
		rs := RetResults(ret)
		if len(rs) != 1 {
			return nil
		}
		addWay := func(v ssa.Value, at *ssa.BasicBlock) {
			if c, isC := v.(*ssa.Const); isC {
				if c.Value != nil && c.Value.String() == "true" {
					ways++
					facts = append(facts, cb.blockFacts(at)...)
				}
				return // constant false: not a way to be true
			}
			ways++
			facts = append(facts, cb.blockFacts(at)...)
			facts = append(facts, cb.condFacts(v, true)...)
		}
		if phi, isPhi := rs[0].(*ssa.Phi); isPhi && phi.Block() == b {
			for i, e := range phi.Edges {
				if i < len(b.Preds) {
					addWay(e, b.Preds[i])
				}
			}
		} else {
			addWay(rs[0], b)
		}
	}
	if ways != 1 {
		return nil
	}
	var out []lin
	for _, f := range facts {
		if tf, ok := translateLin(cb, bc, g, call, f); ok {
			out = append(out, tf)
		}
	}
	return out
}

// errNilAt: the last result of call is known to be nil at instruction at (a dominating branch tested it).
func (bc *boundsCtx) errNilAt(call *ssa.Call, at ssa.Instruction) bool {
	n := call.Call.Signature().Results().Len()
	if n < 2 {
		return true
	}
	for cur := at.Block(); cur != nil; cur = cur.Idom() {
		d := cur.Idom()
		if d == nil {
			break
		}
		iff, ok := lastInstr(d).(*ssa.If)
		if !ok {
			continue
		}
		for k, s := range d.Succs {
			if len(s.Preds) == 1 && (s == cur || s.Dominates(cur)) && d.Succs[1-k] != s {
				cond, holds := iff.Cond, k == 0
				for {
					u, ok := cond.(*ssa.UnOp)
					if !ok || u.Op != token.NOT {
						break
					}
					cond, holds = u.X, !holds
				}
				b, ok := cond.(*ssa.BinOp)
				if !ok || (b.Op != token.EQL && b.Op != token.NEQ) {
					continue
				}
				isErr := func(v ssa.Value) bool {
					e, ok := bc.canon(v).(*ssa.Extract)
					return ok && e.Tuple == call && e.Index == n-1
				}
				isNil := func(v ssa.Value) bool {
					c, ok := v.(*ssa.Const)
					return ok && c.Value == nil
				}
				if (isErr(b.X) && isNil(b.Y)) || (isErr(b.Y) && isNil(b.X)) {
					if (b.Op == token.EQL) == holds {
						return true
					}
				}
			}
		}
	}
	return false
}

// fitsAt: the mathematical value of out is representable in an integer type of the given width and
// signedness at the point where instruction def computes it, by ranges or by the facts that
// dominate def.
func (bc *boundsCtx) fitsAt(out lin, bits int, uns bool, def ssa.Instruction) bool {
	if bc.noWrap(out, bits, uns) {
		return true
	}
	if bits == 33 {
		bits = 32
	}
	v, _ := def.(ssa.Value)
	if v == nil || bc.fitBusy[v] || def.Block() == nil {
		return false
	}
	bc.fitBusy[v] = true
	defer delete(bc.fitBusy, v)
	var lo, hi int64
	switch {
	case uns && bits >= 63:
		// a sum with a full-range 64-bit operand can wrap past 2^64: it fits only if it is provably
		// below 2^60
		lo, hi = 0, int64(1)<<60
	case uns:
		lo, hi = 0, int64(1)<<uint(bits)-1
	case bits >= 63:
		lo, hi = -satMax, satMax
	default:
		lo, hi = -(int64(1) << uint(bits-1)), int64(1)<<uint(bits-1)-1
	}
	facts := append(append([]lin{}, bc.blockFacts(def.Block())...), bc.assumed...)
	okLo := lo == -satMax || bc.prove(linConst(lo).add(out, -1), facts, 3)
	okHi := hi == satMax || bc.prove(out.plus(-hi), facts, 3)
	return okLo && okHi
}

// calleeLowerBound: a module function with a single integer result all of whose returns are
// provably ≥ 1 or ≥ 0 (by the facts at the return).
var lowerMemo = map[*ssa.Function]int64{}

func calleeLowerBound(w *World, f *ssa.Function, intBits int) (int64, bool) {
	if v, ok := lowerMemo[f]; ok {
		return v, v >= 0
	}
	lowerMemo[f] = -1
	if len(f.Blocks) == 0 || f.Pkg == nil || !inModule(f.Pkg.Pkg.Path()) || f.Signature.Results().Len() != 1 {
		return 0, false
	}
	if _, _, ok := intInfo(f.Signature.Results().At(0).Type(), intBits); !ok {
		return 0, false
	}
	cb := newBoundsCtx(w, f)
	best := int64(1)
	for _, b := range f.Blocks {
		ret, ok := lastInstr(b).(*ssa.Return)
		if !ok || b == f.Recover {
			continue
		}
		rs := RetResults(ret)
		if len(rs) != 1 {
			return 0, false
		}
		r := cb.lin(rs[0])
		switch {
		case best == 1 && cb.Prove(linConst(1).add(r, -1), ret):
		case cb.Prove(r.neg(), ret):
			best = 0
		default:
			return 0, false
		}
	}
	lowerMemo[f] = best
	return best, true
}

// wideWire: an atom holding a 32-bit or wider explicitly sized integer produced by a call, a tuple
// element or a memory load — a field read from the wire — as opposed to lengths, loop counters and
// positions of platform int type.
func (bc *boundsCtx) wideWire(a atom) bool {
	if a.kind == 'q' {
		for ia := range bc.qinfo[a].inner.t {
			if bc.wideWire(ia) {
				return true
			}
		}
		return false
	}
	if a.kind != 'v' || a.v == nil {
		return false
	}
	b, ok := a.v.Type().Underlying().(*types.Basic)
	if !ok {
		return false
	}
	switch b.Kind() {
	case types.Int32, types.Uint32, types.Int64, types.Uint64:
	default:
		return false
	}
	switch a.v.(type) {
	case *ssa.Call, *ssa.Extract, *ssa.UnOp, *ssa.Parameter, *ssa.Convert, *ssa.Phi:
		return true
	}
	return false
}

// phiFacts: a loop variable that only decreases stays ≤ its initial value; one that only increases
// stays ≥ it (single non-inductive input).
func (bc *boundsCtx) phiFacts(a atom) []lin {
	x, ok := a.v.(*ssa.Phi)
	if !ok || a.kind != 'v' || bc.visitingPhi[x] {
		return nil
	}
	if _, _, isInt := intInfo(x.Type(), bc.intBits); !isInt {
		return nil
	}
	bc.visitingPhi[x] = true
	defer delete(bc.visitingPhi, x)
	var init *lin
	allLe, allGe := true, true
	for _, e := range x.Edges {
		le := bc.lin(e)
		if c, ok := le.t[a]; ok && c == 1 {
			d := le.add(linAtom(a), -1)
			if h, ok := bc.upper(d); !ok || h > 0 {
				allLe = false
			}
			if l, ok := bc.lower(d); !ok || l < 0 {
				allGe = false
			}
			continue
		}
		if ip, isPhi := bc.canon(e).(*ssa.Phi); isPhi {
			// another loop variable is a fixed initial value only if it is defined strictly above
			// this loop (a parallel phi of the same header changes along with x)
			if ip.Block() == x.Block() || !ip.Block().Dominates(x.Block()) {
				return nil
			}
		}
		if init != nil && bc.linString(*init) != bc.linString(le) {
			return nil
		}
		l2 := le
		init = &l2
	}
	if init == nil {
		return nil
	}
	var out []lin
	if allLe {
		out = append(out, linAtom(a).add(*init, -1))
	}
	if allGe {
		out = append(out, (*init).add(linAtom(a), -1))
	}
	return out
}

// strideFacts: for i := c0; i < N; i += s (constants, s > 0) the values i takes in the body are
// c0, c0+s, …: inside the body i ≤ c0 + s·⌊(N-1-c0)/s⌋, which is tighter than N-1 when s does
// not divide N-c0 evenly … and is what makes b[i:i+s] provable against a length of exactly N.
func (bc *boundsCtx) strideFacts(a atom, at ssa.Instruction) []lin {
	x, ok := a.v.(*ssa.Phi)
	if !ok || a.kind != 'v' || at == nil || len(x.Edges) != 2 {
		return nil
	}
	var c0, step int64
	haveInit, haveStep := false, false
	for _, e := range x.Edges {
		if k, ok := constInt(e); ok {
			c0, haveInit = k, true
			continue
		}
		if bo, ok := bc.canon(e).(*ssa.BinOp); ok && bo.Op == token.ADD {
			if bc.canon(bo.X) == ssa.Value(x) {
				if k, ok := constInt(bo.Y); ok && k > 0 {
					step, haveStep = k, true
				}
			} else if bc.canon(bo.Y) == ssa.Value(x) {
				if k, ok := constInt(bo.X); ok && k > 0 {
					step, haveStep = k, true
				}
			}
		}
	}
	if !haveInit || !haveStep || step < 2 {
		return nil
	}
	hb := x.Block()
	if len(hb.Instrs) == 0 {
		return nil
	}
	iff, ok := hb.Instrs[len(hb.Instrs)-1].(*ssa.If)
	if !ok {
		return nil
	}
	bo, ok := iff.Cond.(*ssa.BinOp)
	if !ok || bo.Op != token.LSS || bc.canon(bo.X) != ssa.Value(x) {
		return nil
	}
	n, ok := constInt(bo.Y)
	if !ok || n <= c0 {
		return nil
	}
	body := hb.Succs[0]
	if !(body == at.Block() || (len(body.Preds) == 1 && body.Dominates(at.Block()))) {
		return nil
	}
	last := c0 + step*((n-1-c0)/step)
	return []lin{linAtom(a).plus(-last)} // x - last ≤ 0
}

// modFields: the field paths (".f3.f1" relative to parameter pi of module function g) that g, and
// the module functions it statically calls with that pointer, may store to. known is false when
// the pointer escapes to something that cannot be summarised (dynamic call, stored away, passed
// to a function outside the module).
var modMemo = map[*ssa.Function]map[int]map[string]bool{}

func modFields(g *ssa.Function, pi int, depth int) (map[string]bool, bool) {
	if len(g.Blocks) == 0 || g.Pkg == nil || !inModule(g.Pkg.Pkg.Path()) || depth > 3 || pi >= len(g.Params) {
		return nil, false
	}
	if m, ok := modMemo[g]; ok {
		if r, ok := m[pi]; ok {
			return r, r != nil
		}
	} else {
		modMemo[g] = map[int]map[string]bool{}
	}
	modMemo[g][pi] = nil // in progress / unknown
	p := g.Params[pi]
	out := map[string]bool{}
	// values derived from p: address computations only
	rel := map[ssa.Value]string{p: ""}
	changed := true
	for changed {
		changed = false
		for _, b := range g.Blocks {
			for _, in := range b.Instrs {
				if fa, ok := in.(*ssa.FieldAddr); ok {
					if r, has := rel[fa.X]; has {
						if _, done := rel[fa]; !done {
							rel[fa] = fmt.Sprintf("%s.f%d", r, fa.Field)
							changed = true
						}
					}
				}
			}
		}
	}
	for _, b := range g.Blocks {
		for _, in := range b.Instrs {
			switch x := in.(type) {
			case *ssa.Store:
				if r, has := rel[x.Addr]; has {
					if r == "" {
						return nil, false // *p = …
					}
					out[r] = true
				}
				if _, has := rel[x.Val]; has {
					return nil, false // the pointer is stored away
				}
			case ssa.CallInstruction:
				cc := x.Common()
				args := append([]ssa.Value{}, cc.Args...)
				for ai, a := range args {
					r, has := rel[a]
					if !has {
						continue
					}
					callee := cc.StaticCallee()
					if callee == nil || cc.IsInvoke() {
						return nil, false
					}
					if callee.Pkg == nil || !inModule(callee.Pkg.Pkg.Path()) {
						return nil, false
					}
					sub, known := modFields(callee, ai, depth+1)
					if !known {
						return nil, false
					}
					for m := range sub {
						out[r+m] = true
					}
					if len(sub) == 0 {
						continue
					}
				}
				if cc.IsInvoke() {
					if _, has := rel[cc.Value]; has {
						return nil, false
					}
				}
				if mc, ok := cc.Value.(*ssa.MakeClosure); ok {
					for _, bv := range mc.Bindings {
						if _, has := rel[bv]; has {
							return nil, false
						}
					}
				}
			case *ssa.MakeClosure:
				for _, bv := range x.Bindings {
					if _, has := rel[bv]; has {
						return nil, false
					}
				}
			case *ssa.MakeInterface:
				if _, has := rel[x.X]; has {
					return nil, false
				}
			case *ssa.Phi:
				for _, e := range x.Edges {
					if _, has := rel[e]; has {
						return nil, false
					}
				}
			case *ssa.Return:
				for _, rv := range x.Results {
					if _, has := rel[rv]; has {
						return nil, false
					}
				}
			}
		}
	}
	modMemo[g][pi] = out
	return out, true
}
