package main

import (
	"flag"
	"fmt"
	"go/types"
	"os"
	"path/filepath"
	"sort"
	"strconv"
	"strings"

	"golang.org/x/tools/go/ssa"
)

// Property is one registered check.
type Property struct {
	ID         string
	Run        func(w *World, c *Check)
	Explain    string   // what is decided (evidence.coverage.explanation)
	NotDecided []string // declined clauses
}

var registry = map[string]*Property{}

func register(p *Property) { registry[p.ID] = p }

func verifDir() string {
	if d := os.Getenv("VERIF_DIR"); d != "" {
		return d
	}
	exe, err := os.Executable()
	if err == nil {
		d := filepath.Dir(filepath.Dir(exe))
		if _, err := os.Stat(filepath.Join(d, "properties.jsonl")); err == nil {
			return d
		}
	}
	return "/verif"
}

type buildCfg struct{ goos, goarch, tags string }

func (b buildCfg) label() string {
	s := b.goos + "/" + b.goarch
	if b.tags != "" {
		s += "+" + b.tags
	}
	return s
}

func main() {
	if len(os.Args) < 2 {
		usage()
	}
	switch os.Args[1] {
	case "check":
		os.Exit(cmdCheck(os.Args[2:]))
	case "dump":
		os.Exit(cmdDump(os.Args[2:]))
	case "explain":
		os.Exit(cmdExplain(os.Args[2:]))
	case "list":
		for _, id := range sortedKeys(registry) {
			fmt.Println(id)
		}
	case "trace":
		os.Exit(cmdTrace(os.Args[2:]))
	case "genparams":
		os.Exit(cmdGenParams(os.Args[2:]))
	case "genfuncs":
		os.Exit(cmdGenFuncs(os.Args[2:]))
	case "mutants":
		os.Exit(cmdMutants(os.Args[2:]))
	default:
		usage()
	}
}

func usage() {
	fmt.Fprintln(os.Stderr, "usage: gokrb5lint check <ID> [-tier quick|thorough] [-repo /repo/v8]\n       gokrb5lint dump <funcKey> [-repo ..]\n       gokrb5lint explain <replay.json>\n       gokrb5lint mutants [ID]")
	os.Exit(2)
}

func cmdCheck(args []string) int {
	if len(args) < 1 {
		usage()
	}
	id := args[0]
	fs := flag.NewFlagSet("check", flag.ExitOnError)
	tier := fs.String("tier", envOr("VERIF_TIER", "quick"), "quick|thorough")
	repo := fs.String("repo", "/repo/v8", "module root")
	noMut := fs.Bool("nomutants", false, "skip the mutant corpus in the thorough tier")
	noWrite := fs.Bool("noevidence", false, "write evidence to a temp dir (used for mutant runs)")
	fs.Parse(args[1:])
	p := registry[id]
	if p == nil {
		fmt.Fprintf(os.Stderr, "unknown property %s\n", id)
		return 2
	}
	seed, _ := strconv.ParseInt(os.Getenv("VERIF_SEED"), 10, 64)
	c := NewCheck(id, *tier, seed)
	cfgs := []buildCfg{{"linux", "amd64", ""}}
	if *tier == "thorough" {
		// (the examples directory is not a buildable package under its own build tag — every file
		// declares main — so there is no "examples" configuration to load)
		cfgs = append(cfgs, buildCfg{"linux", "386", ""}, buildCfg{"windows", "amd64", ""})
	}
	for _, bc := range cfgs {
		w, err := Load(*repo, bc.goos, bc.goarch, bc.tags)
		if err != nil {
			// a tree that does not load cannot be judged: that is a failure of the
			// check, reported as such (exit 2), never a silent pass
			fmt.Fprintf(os.Stderr, "checker cannot analyse %s [%s]: %v\n", *repo, bc.label(), err)
			return 2
		}
		c.Config = bc.label()
		c.configs = append(c.configs, c.Config)
		c.extra["packages_loaded"] = len(w.Pkgs)
		c.extra["module_functions"] = w.NFuncs
		func() {
			defer func() {
				if r := recover(); r != nil {
					fmt.Fprintf(os.Stderr, "checker broken: panic while analysing %s [%s]: %v\n", id, bc.label(), r)
					panic(r)
				}
			}()
			p.Run(w, c)
		}()
	}
	vd := verifDir()
	if *noWrite {
		tmp, err := os.MkdirTemp("", "gokrb5lint-ev")
		if err != nil || tmp == "" {
			// never fall back to a relative path: the copy below would land on the real file
			fmt.Fprintf(os.Stderr, "checker broken: cannot create a scratch directory for the evidence of a -noevidence run: %v\n", err)
			return 2
		}
		defer os.RemoveAll(tmp)
		// known findings still come from the real file
		if b, err := os.ReadFile(filepath.Join(vd, "known_findings.json")); err == nil {
			os.WriteFile(filepath.Join(tmp, "known_findings.json"), b, 0o644)
		}
		vd = tmp
	} else if *tier == "thorough" && !*noMut {
		c.mutants = runMutants(id, *repo)
	}
	return c.Finish(vd, p.Explain, p.NotDecided)
}

func envOr(k, d string) string {
	if v := os.Getenv(k); v != "" {
		return v
	}
	return d
}

// cmdDump prints the SSA of a function with rendered terms (debugging aid for
// writing rule tables).
func cmdDump(args []string) int {
	fs := flag.NewFlagSet("dump", flag.ExitOnError)
	repo := fs.String("repo", "/repo/v8", "module root")
	if len(args) < 1 {
		usage()
	}
	fs.Parse(args[1:])
	w, err := Load(*repo, "", "", "")
	if err != nil {
		fmt.Fprintln(os.Stderr, err)
		return 2
	}
	if args[0] == "-funcs" {
		for _, f := range w.ModuleFuncs() {
			fmt.Println(FuncKey(f))
		}
		return 0
	}
	fn := w.Func(args[0])
	if fn == nil {
		var cands []string
		for _, f := range w.ModuleFuncs() {
			if strings.Contains(FuncKey(f), args[0]) {
				cands = append(cands, FuncKey(f))
			}
		}
		sort.Strings(cands)
		fmt.Fprintf(os.Stderr, "no function %q; candidates: %v\n", args[0], cands)
		return 2
	}
	fa := NewFuncAn(w, fn)
	for _, b := range fn.Blocks {
		fmt.Printf("b%d: preds=%v succs=%v\n", b.Index, blockIdx(b.Preds), blockIdx(b.Succs))
		for _, in := range b.Instrs {
			switch x := in.(type) {
			case *ssa.If:
				c := fa.CondOf(x)
				fmt.Printf("   if [%s] %s   (holds on succ %d)\n", c.Kind, c.String(), c.HoldsSucc)
			case ssa.Value:
				fmt.Printf("   %s = %-30s ;; %s\n", x.Name(), trunc(in.String(), 60), fa.R.R(x))
			case *ssa.Store:
				fmt.Printf("   store %s <- %s\n", fa.R.R(x.Addr), fa.R.R(x.Val))
			case *ssa.Return:
				var rs []string
				for _, r := range x.Results {
					rs = append(rs, fa.R.R(r))
				}
				fmt.Printf("   return %s\n", strings.Join(rs, " , "))
				for _, r := range x.Results {
					if sl, ok := r.Type().Underlying().(*types.Slice); ok {
						if bt, ok := sl.Elem().Underlying().(*types.Basic); ok && bt.Kind() == types.Uint8 {
							ps, l := fa.BufferPlaces(r)
							fmt.Printf("      bytes(len %s): %s\n", l, placesString(ps))
						}
					}
				}
			default:
				fmt.Printf("   %s\n", in.String())
			}
		}
	}
	return 0
}

func trunc(s string, n int) string {
	if len(s) > n {
		return s[:n] + "…"
	}
	return s
}

func blockIdx(bs []*ssa.BasicBlock) []int {
	out := make([]int, len(bs))
	for i, b := range bs {
		out[i] = b.Index
	}
	return out
}

func cmdExplain(args []string) int {
	if len(args) < 1 {
		usage()
	}
	b, err := os.ReadFile(args[0])
	if err != nil {
		fmt.Fprintln(os.Stderr, err)
		return 2
	}
	fmt.Println(string(b))
	return 0
}

// cmdGenParams prints refparams_gen.go: the parameter names of every module
// function on the tree the rule tables were transcribed from.
func cmdGenParams(args []string) int {
	w, err := Load("/repo/v8", "", "", "")
	if err != nil {
		fmt.Fprintln(os.Stderr, err)
		return 2
	}
	fmt.Println("// Code generated by `gokrb5lint genparams`; frozen deliberately — regenerate only when the rule tables are re-transcribed.")
	fmt.Println("package main\n")
	fmt.Println("var refParams = map[string][]string{")
	for _, fn := range w.ModuleFuncs() {
		params := fn.Params
		if fn.Signature.Recv() != nil && len(params) > 0 {
			params = params[1:]
		}
		if len(params) == 0 {
			continue
		}
		var ns []string
		for _, p := range params {
			ns = append(ns, strconv.Quote(p.Name()))
		}
		fmt.Printf("\t%q: {%s},\n", FuncKey(fn), strings.Join(ns, ", "))
	}
	fmt.Println("}")
	return 0
}

// cmdGenFuncs prints the frozen list of the module's function keys on the reference tree. A module
// function that is not in the list is a helper introduced later (extract-method refactoring): the
// term renderer sees through it and call/guard searches descend into it.
func cmdGenFuncs(args []string) int {
	w, err := Load("/repo/v8", "", "", "")
	if err != nil {
		fmt.Fprintln(os.Stderr, err)
		return 2
	}
	fmt.Println("// Code generated by `gokrb5lint genfuncs` on the reference tree; frozen deliberately.")
	fmt.Println("package main\n")
	fmt.Println("var refFuncs = map[string]bool{")
	for _, fn := range w.ModuleFuncs() {
		fmt.Printf("\t%q: true,\n", FuncKey(fn))
	}
	fmt.Println("}")
	return 0
}

// cmdTrace prints layout traces (debugging aid for transcribing reference sequences).
func cmdTrace(args []string) int {
	w, err := Load("/repo/v8", "", "", "")
	if err != nil {
		fmt.Fprintln(os.Stderr, err)
		return 2
	}
	for _, a := range args {
		fn := w.Func(a)
		if fn == nil {
			fmt.Println("no function", a)
			continue
		}
		fa := NewFuncAn(w, fn)
		pkg := a[:strings.Index(a, ".")]
		ver := `.*\.[vV]ersion|v`
		fmt.Println("==", a)
		fmt.Println(" reader:", traceString(readerTrace(fa, readerOps(pkg), ver)))
		fmt.Println(" writer:", traceString(writerTrace(fa, ver, writerOps(pkg))))
	}
	return 0
}
