package main

func init() {
	addMutants(
		Mutant{"C18", "remove-401-bound", "spnego/http.go",
			"\t\tif authAttempts >= 1 {\n\t\t\t// The server has rejected the SPNEGO header already sent. Return its response rather than retrying forever.\n\t\t\treturn resp, err\n\t\t}\n", "", "C18.bounded"},
		Mutant{"C18", "retry-does-not-count", "spnego/http.go",
			"return c.do(req, authAttempts+1)", "return c.do(req, authAttempts)", "C18.bounded"},
		Mutant{"C18", "remove-redirect-bound", "spnego/http.go",
			"\t\t\t\tif len(c.reqs) >= 10 {\n\t\t\t\t\treturn resp, errors.New(\"stopped after 10 redirects\")\n\t\t\t\t}\n", "\t\t\t\t_ = errors.New\n", "C18.bounded"},
		Mutant{"C18", "redirect-chain-not-recorded", "spnego/http.go",
			"\t\t\t\tc.reqs = append(c.reqs, e.reqTarget)\n", "", "C18.bounded"},
		Mutant{"C18", "retry-without-body-reset", "spnego/http.go",
			"\t\tif req.Body != nil {\n\t\t\t// Refresh the body reader so the body can be sent again\n\t\t\treq.Body = io.NopCloser(&body)\n\t\t}\n\t\tio.Copy(io.Discard, resp.Body)", "\t\tio.Copy(io.Discard, resp.Body)", "C18.body"},
		Mutant{"C18", "retry-resends-empty-buffer", "spnego/http.go",
			"\t\t\treq.Body = io.NopCloser(&body)\n\t\t}\n\t\tio.Copy(io.Discard, resp.Body)", "\t\t\treq.Body = io.NopCloser(&bytes.Buffer{})\n\t\t}\n\t\tio.Copy(io.Discard, resp.Body)", "C18.body"},
		Mutant{"C18", "response-not-closed", "spnego/http.go",
			"\t\tio.Copy(io.Discard, resp.Body)\n\t\tresp.Body.Close()\n", "\t\tio.Copy(io.Discard, resp.Body)\n", "C18.body"},
		Mutant{"C18", "header-set-despite-context-error", "spnego/http.go",
			"\tst, err := s.InitSecContext()\n\tif err != nil {\n\t\treturn fmt.Errorf(\"could not initialize context: %v\", err)\n\t}", "\tst, err := s.InitSecContext()\n\tif err != nil {\n\t\tcl.Log(\"could not initialize context: %v\", err)\n\t}", "C18.header"},
		Mutant{"C18", "url-encoding-base64", "spnego/http.go",
			"hs := \"Negotiate \" + base64.StdEncoding.EncodeToString(nb)", "hs := \"Negotiate \" + base64.URLEncoding.EncodeToString(nb)", "C18.header"},
		Mutant{"C18", "spn-argument-ignored", "spnego/http.go",
			"\tif spn == \"\" {\n\t\tpn, err := setRequestSPN(r)", "\tif spn != \"-\" {\n\t\tpn, err := setRequestSPN(r)", "C18.header"},
		Mutant{"C18", "challenge-on-any-401", "spnego/http.go",
			"\t\tif resp.Header.Get(HTTPHeaderAuthResponse) == HTTPHeaderAuthResponseValueKey {\n\t\t\treturn true\n\t\t}", "\t\treturn true", "C18.header"},
		Mutant{"C18", "redirect-keeps-authorization", "spnego/http.go",
			"\t\t\t\te.reqTarget.Header.Del(HTTPHeaderAuthRequest)\n", "", "C18.header"},
		Mutant{"C18", "token-ticket-for-other-spn", "spnego/spnego.go",
			"negTokenInit, err := NewNegTokenInitKRB5(s.client, tkt, key)", "tkt2, _, _ := s.client.GetServiceTicket(\"krbtgt/\" + s.spn)\n\tnegTokenInit, err := NewNegTokenInitKRB5(s.client, tkt2, key)\n\t_ = tkt", "C18.token"},
		Mutant{"C18", "gss-checksum-length-be", "spnego/krb5Token.go",
			"binary.LittleEndian.PutUint32(a[:4], 16)", "binary.BigEndian.PutUint32(a[:4], 16)", "C18.token"},
	)
}
