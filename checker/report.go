package main

// Obligations, verdicts, known findings, evidence and replay files.

import (
	"encoding/json"
	"fmt"
	"os"
	"path/filepath"
	"sort"
	"strings"
	"time"
)

type Ob struct {
	Rule    string   `json:"rule"`
	Key     string   `json:"key"` // rule|function|construct — position-free
	Func    string   `json:"func,omitempty"`
	Where   string   `json:"where,omitempty"` // file:line (informational only)
	Desc    string   `json:"desc"`
	Verdict string   `json:"verdict"` // ok | violation | known | note
	Detail  string   `json:"detail,omitempty"`
	Configs []string `json:"configs,omitempty"`
}

type KnownFinding struct {
	Property string `json:"property"`
	Key      string `json:"key"`
	What     string `json:"what"`
	Input    string `json:"input,omitempty"`
}

type FixedFinding struct {
	Property string `json:"property"`
	Commit   string `json:"commit"`
	What     string `json:"what"`
}

type KnownFile struct {
	Findings []KnownFinding `json:"findings"`
	Fixed    []FixedFinding `json:"fixed"`
}

type Check struct {
	ID      string
	Tier    string
	Seed    int64
	Config  string // label of the configuration being analysed
	obs     []*Ob
	byKey   map[string]*Ob
	floors  map[string]int
	counts  map[string]int
	funcs   map[string]bool
	notes   []string
	extra   map[string]any
	explain string
	rules   map[string]string // rule id -> rule text
	assume  []string
	trusted []string
	start   time.Time
	configs []string
	mutants []MutantResult
	dups    map[string]int
	held    map[string]bool // Config+key of obligations discharged in that configuration
}

func NewCheck(id, tier string, seed int64) *Check {
	return &Check{ID: id, Tier: tier, Seed: seed, byKey: map[string]*Ob{}, floors: map[string]int{}, counts: map[string]int{},
		funcs: map[string]bool{}, extra: map[string]any{}, rules: map[string]string{}, start: time.Now()}
}

func mkKey(rule, fn, construct string) string { return rule + "|" + fn + "|" + construct }

func (c *Check) add(rule, fn, construct, where, desc, verdict, detail string) *Ob {
	key := mkKey(rule, fn, construct)
	if fn != "" {
		c.funcs[fn] = true
	}
	// the same key twice in one configuration: number the repeats
	if c.dups == nil {
		c.dups = map[string]int{}
	}
	c.dups[c.Config+"\x00"+key]++
	if n := c.dups[c.Config+"\x00"+key]; n > 1 {
		key = fmt.Sprintf("%s#%d", key, n)
	}
	if o, ok := c.byKey[key]; ok {
		// merge across configurations; a violation in any configuration wins
		if !contains(o.Configs, c.Config) {
			o.Configs = append(o.Configs, c.Config)
		}
		if verdict != "note" {
			c.counts[rule+"@"+c.Config]++
		}
		if verdict == "violation" && o.Verdict != "violation" {
			o.Verdict, o.Detail, o.Where = verdict, detail, where
		}
		return o
	}
	o := &Ob{Rule: rule, Key: key, Func: fn, Where: where, Desc: desc, Verdict: verdict, Detail: detail, Configs: []string{c.Config}}
	c.obs = append(c.obs, o)
	c.byKey[key] = o
	if verdict != "note" {
		c.counts[rule+"@"+c.Config]++
	}
	return o
}

func contains(xs []string, s string) bool {
	for _, x := range xs {
		if x == s {
			return true
		}
	}
	return false
}

// Ok records a discharged obligation.
func (c *Check) Ok(rule, fn, construct, where, desc string) {
	c.add(rule, fn, construct, where, desc, "ok", "")
	if c.held == nil {
		c.held = map[string]bool{}
	}
	c.held[c.Config+"\x00"+mkKey(rule, fn, construct)] = true
}

// Held: the obligation was discharged (by whichever form) in the configuration being analysed.
func (c *Check) Held(rule, fn, construct string) bool {
	return c.held[c.Config+"\x00"+mkKey(rule, fn, construct)]
}

// Fail records a violated obligation.
func (c *Check) Fail(rule, fn, construct, where, desc, detail string) {
	c.add(rule, fn, construct, where, desc, "violation", detail)
}

// Decide records ok or violation.
func (c *Check) Decide(ok bool, rule, fn, construct, where, desc, detail string) {
	if ok {
		c.Ok(rule, fn, construct, where, desc)
	} else {
		c.Fail(rule, fn, construct, where, desc, detail)
	}
}

// Note records an informational observation (never affects the verdict).
func (c *Check) Note(rule, fn, construct, where, desc string) {
	c.add(rule, fn, construct, where, desc, "note", "")
}

// Rule registers the text of a rule and its instance floor.
// The floor passed is the number of instances confirmed by hand on the reference tree. What is
// enforced is 60 % of it (at least 1): de-duplicating refactorings legitimately merge instances
// (two copy-pasted arms become one helper), while a rule that lost its anchors — and would pass
// vacuously — falls far below that.
func (c *Check) Rule(id, text string, floor int) {
	c.rules[id] = text
	if floor > 0 {
		f := floor * 6 / 10
		if f < 1 {
			f = 1
		}
		floor = f
	}
	c.floors[id] = floor
}

func (c *Check) Assume(s ...string)  { c.assume = append(c.assume, s...) }
func (c *Check) Trusted(s ...string) { c.trusted = append(c.trusted, s...) }

// Missing records that an anchor could not be resolved.
func (c *Check) Missing(rule, anchor string) {
	c.Fail(rule, anchor, "anchor-missing", "-", "anchor "+anchor+" must exist so that its obligations can be established",
		"anchor not found in the loaded program (renamed, removed or moved): the obligation cannot be established")
}

func loadKnown(path string) (*KnownFile, error) {
	kf := &KnownFile{}
	b, err := os.ReadFile(path)
	if err != nil {
		if os.IsNotExist(err) {
			return kf, nil
		}
		return nil, err
	}
	if err := json.Unmarshal(b, kf); err != nil {
		return nil, fmt.Errorf("%s: %v", path, err)
	}
	return kf, nil
}

type MutantResult struct {
	Name     string `json:"name"`
	Status   string `json:"status"` // detected | missed | skipped | nocompile; for behaviour-preserving refactorings: silent | false-alarm
	Detail   string `json:"detail,omitempty"`
	Expected string `json:"expected_rule,omitempty"`
}

// Finish applies floors and known findings, prints the result lines, writes the
// evidence and replay files and returns the exit code.
func (c *Check) Finish(verifDir string, explanation string, notDecided []string) int {
	// floors, per configuration
	for rule, floor := range c.floors {
		for _, cfg := range c.configs {
			n := c.counts[rule+"@"+cfg]
			if n < floor {
				save := c.Config
				c.Config = cfg
				c.Fail(rule, "", "instance-floor", "-",
					fmt.Sprintf("rule %s must instantiate at least %d obligations (confirmed by hand on the tree as read)", rule, floor),
					fmt.Sprintf("only %d instances found in configuration %s: the anchored code moved or was removed, obligations cannot be established", n, cfg))
				c.Config = save
			}
		}
	}
	kf, err := loadKnown(filepath.Join(verifDir, "known_findings.json"))
	if err != nil {
		fmt.Fprintf(os.Stderr, "checker broken: %v\n", err)
		return 2
	}
	known := map[string]KnownFinding{}
	for _, k := range kf.Findings {
		if k.Property == c.ID {
			known[k.Key] = k
		}
	}
	sort.SliceStable(c.obs, func(i, j int) bool { return c.obs[i].Key < c.obs[j].Key })
	usedKnown := map[string]bool{}
	nViol, nKnown, nOk, nNote := 0, 0, 0, 0
	replayDir := filepath.Join(verifDir, "evidence", "replay")
	os.MkdirAll(replayDir, 0o755)
	// clear old replay files of this property
	old, _ := filepath.Glob(filepath.Join(replayDir, c.ID+"-*.json"))
	for _, f := range old {
		os.Remove(f)
	}
	var lines []string
	for _, o := range c.obs {
		switch o.Verdict {
		case "ok":
			nOk++
		case "note":
			nNote++
		case "violation":
			if k, ok := known[o.Key]; ok {
				o.Verdict = "known"
				usedKnown[o.Key] = true
				nKnown++
				lines = append(lines, fmt.Sprintf("KNOWN-FINDING: property=%s %s [%s at %s]", c.ID, k.What, o.Key, o.Where))
				continue
			}
			nViol++
			rp := filepath.Join(replayDir, fmt.Sprintf("%s-%d.json", c.ID, nViol))
			rb, _ := json.MarshalIndent(map[string]any{"property": c.ID, "obligation": o, "rule_text": c.rules[o.Rule]}, "", " ")
			os.WriteFile(rp, rb, 0o644)
			fmt.Printf("violation: rule=%s func=%s at %s\n  obligation: %s\n  found: %s\n  key: %s\n", o.Rule, o.Func, o.Where, o.Desc, o.Detail, o.Key)
			lines = append(lines, fmt.Sprintf("VIOLATION property=%s replay=%s", c.ID, rp))
		}
	}
	var stale []string
	for k := range known {
		if !usedKnown[k] {
			stale = append(stale, k)
		}
	}
	sort.Strings(stale)
	for _, s := range stale {
		fmt.Printf("stale known finding (no longer derived, suppresses nothing): property=%s %s\n", c.ID, s)
	}
	for _, l := range lines {
		fmt.Println(l)
	}
	// evidence
	total := nOk + nKnown + nViol
	distinct := map[string]bool{}
	for _, o := range c.obs {
		if o.Verdict != "note" && o.Where != "-" {
			distinct[o.Key] = true
		}
	}
	var samples []any
	perRule := map[string]int{}
	for _, o := range c.obs {
		if o.Verdict == "note" {
			continue
		}
		perRule[o.Rule]++
	}
	// sample: all non-ok, plus up to 6 per rule of ok
	shown := map[string]int{}
	for _, o := range c.obs {
		if o.Verdict == "ok" {
			if shown[o.Rule] >= 6 {
				continue
			}
			shown[o.Rule]++
		}
		samples = append(samples, o)
	}
	var ruleList []map[string]any
	for _, id := range sortedKeys(c.rules) {
		ruleList = append(ruleList, map[string]any{"id": id, "text": c.rules[id], "floor": c.floors[id], "instances": perRule[id]})
	}
	cov := map[string]any{
		"explanation":         explanation,
		"obligations":         total,
		"discharged":          nOk,
		"known_findings":      nKnown,
		"evaluations":         total,
		"distinct_nontrivial": len(distinct),
		"rule":                "one obligation per rule instance instantiated from the current source (key = rule|function|normalised construct); distinct = distinct keys that matched a real construct in the tree",
		"samples":             samples,
		"rules":               ruleList,
		"functions_analysed":  sortedKeys(c.funcs),
		"configurations":      c.configs,
		"not_decided":         notDecided,
		"notes":               nNote,
		"checker_cmd":         fmt.Sprintf("bin/gokrb5lint check %s -tier %s", c.ID, c.Tier),
		"trusted_base":        append([]string{"go/types and go/ssa of golang.org/x/tools v0.29.0", "go1.23.5 go list / type checker", "rule tables and reference tables in /verif/checker (transcribed by hand from the RFCs cited per row)"}, c.trusted...),
		"exhaustive":          true,
		"stale_known":         stale,
	}
	if len(c.mutants) > 0 {
		cov["mutants"] = c.mutants
		det, app := 0, 0
		for _, m := range c.mutants {
			if m.Status == "detected" {
				det++
				app++
			} else if m.Status == "missed" {
				app++
			}
		}
		cov["mutants_detected"] = det
		cov["mutants_applicable"] = app
		sil, fa := 0, 0
		for _, m := range c.mutants {
			switch m.Status {
			case "silent":
				sil++
			case "false-alarm":
				fa++
			}
		}
		if sil+fa > 0 {
			cov["neutral_refactorings_silent"] = sil
			cov["neutral_refactorings_false_alarm"] = fa
		}
	}
	for k, v := range c.extra {
		cov[k] = v
	}
	ev := map[string]any{
		"property_id": c.ID,
		"tier":        c.Tier,
		"seed":        c.Seed,
		"level":       "other",
		"coverage":    cov,
		"assumptions": append([]string{
			"the analysed configuration(s) are the ones the module is built for; code behind other build tags is not seen",
			"callees outside the module (stdlib, gofork asn1, rpc/ndr, aescts, goidentity, gorilla) behave as documented",
			"rendered access paths identify memory by path, not by value: two loads of the same path are assumed to see the same value unless a rule states otherwise",
		}, c.assume...),
		"wall_s":     time.Since(c.start).Seconds(),
		"violations": nViol,
	}
	eb, _ := json.MarshalIndent(ev, "", " ")
	os.MkdirAll(filepath.Join(verifDir, "evidence"), 0o755)
	if err := os.WriteFile(filepath.Join(verifDir, "evidence", c.ID+".json"), eb, 0o644); err != nil {
		fmt.Fprintf(os.Stderr, "checker broken: cannot write evidence: %v\n", err)
		return 2
	}
	fmt.Printf("%s tier=%s configs=%s: %d obligations, %d discharged, %d known findings, %d violations, %d notes (%.1fs)\n",
		c.ID, c.Tier, strings.Join(c.configs, ","), total, nOk, nKnown, nViol, nNote, time.Since(c.start).Seconds())
	if nViol > 0 {
		return 1
	}
	return 0
}
