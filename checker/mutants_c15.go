package main

func init() {
	addMutants(
		Mutant{"C15", "starttime-before-authtime", "credentials/ccache.go",
			"\tcred.AuthTime = readTimestamp(b, p, e)\n\tcred.StartTime = readTimestamp(b, p, e)", "\tcred.StartTime = readTimestamp(b, p, e)\n\tcred.AuthTime = readTimestamp(b, p, e)", "C15.layout"},
		Mutant{"C15", "v3-keytype-not-doubled", "credentials/ccache.go",
			"\tif c.Version == 3 {\n\t\t//repeated twice in version 3\n\t\tkey.KeyType = int32(readInt16(b, p, e))\n\t}", "", "C15.layout"},
		Mutant{"C15", "doubled-keytype-in-v4", "credentials/ccache.go",
			"\tif c.Version == 3 {\n\t\t//repeated twice in version 3", "\tif c.Version >= 3 {\n\t\t//repeated twice in version 3", "C15.layout"},
		Mutant{"C15", "nametype-read-in-v1", "credentials/ccache.go",
			"\tif c.Version != 1 {\n\t\t//Name Type is omitted in version 1\n\t\tprinc.PrincipalName.NameType = readInt32(b, p, e)\n\t}", "\tprinc.PrincipalName.NameType = readInt32(b, p, e)", "C15.layout"},
		Mutant{"C15", "realm-length-u16", "credentials/ccache.go",
			"\tlenRealm := readInt32(b, p, e)\n\tprinc.Realm = string(readBytes(b, p, int(lenRealm), e))", "\tlenRealm := readInt16(b, p, e)\n\tprinc.Realm = string(readBytes(b, p, int(lenRealm), e))", "C15.layout"},
		Mutant{"C15", "flags-8-bytes", "credentials/ccache.go",
			"cred.TicketFlags.Bytes = readBytes(b, p, 4, e)", "cred.TicketFlags.Bytes = readBytes(b, p, 8, e)", "C15.layout"},
		Mutant{"C15", "second-ticket-skipped", "credentials/ccache.go",
			"\tcred.Ticket = readData(b, p, e)\n\tcred.SecondTicket = readData(b, p, e)", "\tcred.Ticket = readData(b, p, e)", "C15.layout"},
		Mutant{"C15", "int16-advances-by-4", "credentials/ccache.go",
			"func readInt16(b []byte, p *int, e *binary.ByteOrder) (i int16) {\n\tbuf := bytes.NewBuffer(b[*p : *p+2])\n\tbinary.Read(buf, *e, &i)\n\t*p += 2", "func readInt16(b []byte, p *int, e *binary.ByteOrder) (i int16) {\n\tbuf := bytes.NewBuffer(b[*p : *p+2])\n\tbinary.Read(buf, *e, &i)\n\t*p += 4", "C15.layout"},
		Mutant{"C15", "v2-big-endian", "credentials/ccache.go",
			"if (c.Version == 1 || c.Version == 2) && isNativeEndianLittle() {", "if (c.Version == 1 || c.Version == 3) && isNativeEndianLittle() {", "C15.endian"},
		Mutant{"C15", "header-parsed-for-v3", "credentials/ccache.go",
			"\tif c.Version == 4 {\n\t\terr := parseHeader(b, &p, c, &endian)", "\tif c.Version >= 3 {\n\t\terr := parseHeader(b, &p, c, &endian)", "C15.layout"},
		Mutant{"C15", "cacheconf-filter-dropped", "credentials/ccache.go",
			"\t\tif strings.HasPrefix(cred.Server.Realm, \"X-CACHECONF\") {\n\t\t\tcontinue\n\t\t}", "\t\tif strings.HasPrefix(cred.Server.Realm, \"X-CACHECONF\") && cred.IsSKey {\n\t\t\tcontinue\n\t\t}", "C15.accessors"},
		Mutant{"C15", "getentry-matches-client", "credentials/ccache.go",
			"if c.Credentials[i].Server.PrincipalName.Equal(p) {", "if c.Credentials[i].Client.PrincipalName.Equal(p) {", "C15.accessors"},
		Mutant{"C15", "session-endtime-from-renewtill", "client/client.go",
			"\t\tendTime:    cred.EndTime,\n\t\trenewTill:  cred.RenewTill,", "\t\tendTime:    cred.RenewTill,\n\t\trenewTill:  cred.RenewTill,", "C15.client"},
		Mutant{"C15", "tgt-of-client-realm-string", "client/client.go",
			"NameString: []string{\"krbtgt\", c.DefaultPrincipal.Realm},", "NameString: []string{\"krbtgt\", c.DefaultPrincipal.PrincipalName.PrincipalNameString()},", "C15.client"},
	)
}
