package main

// C08 — string-to-key parameters, generated keys, PA-data precedence.
// n-fold, DK, KDF-HMAC-SHA2, PBKDF2, DES parity and the RC4 UTF-16 conversion
// are value computations and are not decided.

import (
	"fmt"
	"regexp"
	"sort"
	"strings"

	"golang.org/x/tools/go/ssa"
)

func init() {
	register(&Property{
		ID:      "C08",
		Run:     runC08,
		Explain: "(1) default string-to-key parameters, protocol-key sizes and seed lengths of the six etypes (folded from SSA) against RFC 3962 §4, RFC 8009 §4–5, RFC 3961 §6.3, RFC 4757, and the RFC 8009 salt-prefix strings; (2) every key the library generates is sized by GetKeyByteSize() of the etype whose id it is stamped with, filled by crypto/rand, and each family's EncryptData accepts exactly GetKeyByteSize() bytes (generator/consumer table agreement, evaluated per etype); (3) PA-data precedence is order-independent: in the loops of crypto.GetKeyFromPassword and client.preAuthEType an update made for a lower-precedence PA type cannot overwrite one made for a higher-precedence type in an earlier iteration — it is guarded by a loop-carried variable that the higher-precedence case assigns, or the higher case leaves the loop; (4) salt defaulting and s2kparams length test. The key values themselves are not computed. Added: the crypto packages keep no package-level state (or only a memo table whose key carries every parameter itself): results do not depend on earlier calls.",
		NotDecided: []string{
			"n-fold, DK, KDF-HMAC-SHA2, PBKDF2 iteration handling, DES parity and weak keys (numerical)",
			"RC4 UTF-16LE conversion of non-ASCII passwords: the only structural proxy is a frozen implementation choice",
		},
	})
}

var paPrecedence = map[string]int{"19": 3, "11": 2, "3": 1} // PA-ETYPE-INFO2 > PA-ETYPE-INFO > PA-PW-SALT (RFC 4120 §5.2.7.5)
var paNames = map[string]string{"19": "PA-ETYPE-INFO2", "11": "PA-ETYPE-INFO", "3": "PA-PW-SALT"}

// rulePAPrecedence checks order-independence of a `for range padata { switch pa.PADataType {…} }` loop.
func rulePAPrecedence(w *World, c *Check, rule, fk string) {
	fn := w.Func(fk)
	if fn == nil {
		c.Missing(rule, fk)
		return
	}
	// the loop over the PA-data may have been extracted into a helper: the rule is about the loop,
	// wherever it lives below the anchor
	anchor := NewFuncAn(w, fn)
	for _, sub := range anchor.withNewHelpers() {
		if paLoopIn(sub) {
			rulePAPrecedenceIn(w, c, rule, fk, sub)
			return
		}
	}
	rulePAPrecedenceIn(w, c, rule, fk, anchor)
}

// paLoopIn: the function compares PADataType with at least two of the key-describing PA types inside a loop.
func paLoopIn(fa *FuncAn) bool {
	n, inLoop := 0, false
	for _, cd := range fa.Conds {
		if cd.Kind != "eq" {
			continue
		}
		var k string
		switch {
		case strings.HasSuffix(cd.R, ".PADataType") && isConstTerm(cd.L):
			k = cd.L
		case strings.HasSuffix(cd.L, ".PADataType") && isConstTerm(cd.R):
			k = cd.R
		default:
			continue
		}
		if _, known := paPrecedence[k]; known {
			n++
			if loopHeaderOf(cd.If.Block()) != nil {
				inLoop = true
			}
		}
	}
	return n >= 2 && inLoop
}

func rulePAPrecedenceIn(w *World, c *Check, rule, fk string, fa *FuncAn) {
	fn := fa.Fn
	where := w.Pos(fn.Pos())
	// case regions
	type region struct {
		k     string
		entry *ssa.BasicBlock
	}
	var regions []region
	var header *ssa.BasicBlock
	for _, cd := range fa.Conds {
		if cd.Kind != "eq" {
			continue
		}
		var k string
		switch {
		case strings.HasSuffix(cd.R, ".PADataType") && isConstTerm(cd.L):
			k = cd.L
		case strings.HasSuffix(cd.L, ".PADataType") && isConstTerm(cd.R):
			k = cd.R
		default:
			continue
		}
		if _, known := paPrecedence[k]; !known {
			continue
		}
		e := Edge{cd.If.Block(), cd.HoldsSucc}
		regions = append(regions, region{k, e.To()})
		if h := loopHeaderOf(cd.If.Block()); h != nil {
			header = h
		}
	}
	if len(regions) < 2 || header == nil {
		c.Fail(rule, fk, "loop", where, "the function switches on PADataType inside a loop over the PA-data", fmt.Sprintf("found %d PA-type cases, loop header %v", len(regions), header != nil))
		return
	}
	sort.Slice(regions, func(i, j int) bool { return paPrecedence[regions[i].k] > paPrecedence[regions[j].k] })
	inRegion := func(b *ssa.BasicBlock, r region) bool {
		return b == r.entry || (len(r.entry.Preds) == 1 && r.entry.Dominates(b))
	}
	// header phis and who updates them
	type upd struct {
		phi  *ssa.Phi
		pred *ssa.BasicBlock
	}
	updates := map[string][]upd{} // region k -> updates
	var phis []*ssa.Phi
	for _, in := range header.Instrs {
		phi, ok := in.(*ssa.Phi)
		if !ok {
			break
		}
		if phi.Comment == "rangeindex" {
			continue
		}
		phis = append(phis, phi)
		for i, p := range header.Preds {
			if phi.Edges[i] == ssa.Value(phi) {
				continue
			}
			for _, r := range regions {
				if inRegion(p, r) {
					// changed in this region? (the operand is not simply the header phi passed through)
					if !passesThrough(phi.Edges[i], phi) {
						updates[r.k] = append(updates[r.k], upd{phi, p})
					}
				}
			}
		}
	}
	n := 0
	for hi := 0; hi < len(regions); hi++ {
		for lo := hi + 1; lo < len(regions); lo++ {
			H, L := regions[hi], regions[lo]
			// variables updated by both
			for _, ul := range updates[L.k] {
				both := false
				for _, uh := range updates[H.k] {
					if uh.phi == ul.phi {
						both = true
					}
				}
				if !both {
					continue
				}
				n++
				name := ul.phi.Comment
				if name == "" {
					name = ul.phi.Name()
				}
				construct := fmt.Sprintf("%s: %s must not overwrite %s", name, paNames[L.k], paNames[H.k])
				desc := fmt.Sprintf("the update of %q in the %s case cannot overwrite the value set by %s in an earlier iteration (RFC 4120 §5.2.7.5 precedence, any order)", name, paNames[L.k], paNames[H.k])
				// look for a guard in region L: gt between a header phi P (≠ ul.phi) and the PA type, P assigned in H
				var pass []Edge
				reason := "no comparison with a loop-carried precedence variable guards this update"
				for _, cd := range fa.Conds {
					// the guard sits in the case itself, or before the switch on the way to every case
					if cd.Kind != "gt" || !(inRegion(cd.If.Block(), L) || (loopHeaderOf(cd.If.Block()) == header && cd.If.Block().Dominates(L.entry))) {
						continue
					}
					b := cd.If.Cond
					bo, ok := stripNot(b).(*ssa.BinOp)
					if !ok {
						continue
					}
					var other ssa.Value
					switch {
					case strings.HasSuffix(fa.R.R(bo.X), ".PADataType") || fa.R.R(bo.X) == L.k:
						other = bo.Y
					case strings.HasSuffix(fa.R.R(bo.Y), ".PADataType") || fa.R.R(bo.Y) == L.k:
						other = bo.X
					default:
						continue
					}
					p, isPhi := stripConv(other).(*ssa.Phi)
					if !isPhi || p.Block() != header {
						if _, isConst := stripConv(other).(*ssa.Const); isConst {
							reason = fmt.Sprintf("the guard `%s` compares the PA type with the constant %s: the precedence variable it was written with is never assigned, so the test never skips and the result depends on the order of the PA-data", cd.String(), fa.R.R(other))
						}
						continue
					}
					// P must be assigned in H
					assigned := false
					for i, pr := range header.Preds {
						if inRegion(pr, H) && !passesThrough(p.Edges[i], p) {
							assigned = true
						}
					}
					if !assigned {
						reason = fmt.Sprintf("the guard compares %s, which the %s case never assigns", fa.R.R(p), paNames[H.k])
						continue
					}
					// the pass edge is the one on which !(P > type): type side is L's
					if fullMatch(q(fa.R.R(p)), cd.L) {
						pass = append(pass, Edge{cd.If.Block(), 1 - cd.HoldsSucc})
					} else {
						pass = append(pass, Edge{cd.If.Block(), cd.HoldsSucc})
					}
				}
				if len(pass) == 0 {
					c.Fail(rule, fk, construct, w.Pos(InstrPos(lastInstr(ul.pred))), desc, reason)
					continue
				}
				rm := map[Edge]bool{}
				for _, e := range pass {
					rm[e] = true
				}
				path := pathTo(header, rm, nil, map[*ssa.BasicBlock]bool{ul.pred: true})
				// the update is "reached" only if the changed operand is produced after the guard
				c.Decide(path == nil || ul.pred == L.entry && false, rule, fk, construct, w.Pos(InstrPos(lastInstr(ul.pred))), desc, "update reachable without the precedence guard: "+fa.DescribePath(path))
			}
		}
	}
	// A higher-precedence hint *determines* what it describes: a value that a lower-precedence hint
	// may have set in an earlier iteration must not survive a later, higher-precedence hint of the
	// same kind on any path that takes the hint (only the skip path — "a higher one was already
	// seen" — leaves things alone). `if etypeID != info2.EType { et = … }` keeps, when the two are
	// equal, whatever ETYPE-INFO put into et before: the result then depends on the order of the hints.
	{
		mayPass := func(v ssa.Value, phi *ssa.Phi) bool {
			seen := map[ssa.Value]bool{}
			var rec func(x ssa.Value) bool
			rec = func(x ssa.Value) bool {
				if x == ssa.Value(phi) {
					return true
				}
				if seen[x] {
					return false
				}
				seen[x] = true
				if p, ok := x.(*ssa.Phi); ok {
					for _, e := range p.Edges {
						if rec(e) {
							return true
						}
					}
				}
				return false
			}
			return rec(v)
		}
		// the skip edges of a region: a comparison of the PA type with a loop-carried precedence variable
		skipTargets := func(R region) map[*ssa.BasicBlock]bool {
			// blocks entered only on the skip edge; when the skip edge goes straight back to the loop
			// head the guard block itself is the predecessor that carries the skip
			out := map[*ssa.BasicBlock]bool{}
			for _, cd := range fa.Conds {
				if cd.Kind != "gt" || !(inRegion(cd.If.Block(), R) || (loopHeaderOf(cd.If.Block()) == header && cd.If.Block().Dominates(R.entry))) {
					continue
				}
				bo, ok := stripNot(cd.If.Cond).(*ssa.BinOp)
				if !ok {
					continue
				}
				for _, o := range []ssa.Value{bo.X, bo.Y} {
					if p, isPhi := stripConv(o).(*ssa.Phi); isPhi && p.Block() == header {
						// the edge on which "already seen something higher" holds: P > type
						t := cd.If.Block().Succs[1-cd.HoldsSucc]
						if fullMatch(q(fa.R.R(p)), cd.L) {
							t = cd.If.Block().Succs[cd.HoldsSucc]
						}
						if t == header {
							out[cd.If.Block()] = true // marks the edge guard → head
						} else {
							out[t] = true
						}
					}
				}
			}
			return out
		}
		for hi := 0; hi < len(regions); hi++ {
			H := regions[hi]
			skips := skipTargets(H)
			for lo := hi + 1; lo < len(regions); lo++ {
				L := regions[lo]
				for _, ul := range updates[L.k] {
					updatedInH := false
					for _, uh := range updates[H.k] {
						if uh.phi == ul.phi {
							updatedInH = true
						}
					}
					if !updatedInH {
						continue
					}
					name := ul.phi.Comment
					if name == "" {
						name = ul.phi.Name()
					}
					stale := ""
					for i, pr := range header.Preds {
						if i >= len(ul.phi.Edges) || !inRegion(pr, H) {
							continue
						}
						if !mayPass(ul.phi.Edges[i], ul.phi) {
							continue
						}
						// the value can come through unchanged on this way back to the loop head: is
						// that way the skip path only?
						onSkipOnly := false
						for sb := range skips {
							if sb == pr {
								onSkipOnly = true // the guard block's own edge to the head, or the skip block itself
							} else if lastIf, isIf := lastInstr(sb).(*ssa.If); (!isIf || lastIf == nil) && sb.Dominates(pr) {
								onSkipOnly = true // below a block entered only by skipping
							}
						}
						if !onSkipOnly {
							stale = w.Pos(InstrPos(lastInstr(pr)))
						}
					}
					c.Decide(stale == "", rule, fk, fmt.Sprintf("%s: %s determines what %s set", name, paNames[H.k], paNames[L.k]), where,
						fmt.Sprintf("when the %s hint is taken it sets %q on every path: a value left by an earlier %s hint does not survive it", paNames[H.k], name, paNames[L.k]),
						fmt.Sprintf("the %s case can reach the next iteration at %s without assigning %q (a conditional assignment): what an earlier %s hint put there is used for the key, so the key depends on the order of the hints", paNames[H.k], stale, name, paNames[L.k]))
				}
			}
		}
	}
	// the precedence variable(s) the guards compare with advance only for the three key-describing
	// PA types: an unrelated, higher-numbered PA-data type must not make the loop skip the hints
	{
		var tests []GuardPat
		for k := range paPrecedence {
			tests = append(tests, EqPass(`.*\.PADataType|paType|@\d+`, k))
		}
		typed, _ := fa.MatchGuardSet(tests, nil)
		rm := map[Edge]bool{}
		for _, e := range typed {
			rm[e] = true
		}
		precVars := map[*ssa.Phi]bool{}
		for _, cd := range fa.Conds {
			if cd.Kind != "gt" || loopHeaderOf(cd.If.Block()) != header {
				continue
			}
			if bo, ok := stripNot(cd.If.Cond).(*ssa.BinOp); ok {
				for _, o := range []ssa.Value{bo.X, bo.Y} {
					if p, isPhi := stripConv(o).(*ssa.Phi); isPhi && p.Block() == header {
						other := bo.X
						if o == bo.X {
							other = bo.Y
						}
						if strings.HasSuffix(fa.R.R(other), ".PADataType") {
							precVars[p] = true
						}
					}
				}
			}
		}
		for p := range precVars {
			okAdv, detail := true, ""
			for i, pr := range header.Preds {
				if i >= len(p.Edges) || passesThrough(p.Edges[i], p) || !header.Dominates(pr) {
					continue
				}
				if path := pathTo(header, rm, nil, map[*ssa.BasicBlock]bool{pr: true}); path != nil {
					okAdv = false
					detail = "the precedence variable is advanced on a path that has not established the PA type to be PA-PW-SALT, PA-ETYPE-INFO or PA-ETYPE-INFO2: " + fa.DescribePath(path)
				}
			}
			name := p.Comment
			if name == "" {
				name = p.Name()
			}
			c.Decide(okAdv, rule, fk, "advance-only-for-hints:"+name, where, "the precedence variable advances only for the three PA types that describe the key", detail)
		}
	}
	if n == 0 {
		// no variable is updated by two cases through the loop: e.g. the higher case leaves the loop
		c.Ok(rule, fk, "no-overwrite-possible", where, "no value set for a higher-precedence PA type can be overwritten by a lower-precedence one (the higher case leaves the loop, or the cases update disjoint variables)")
	}
}

func stripNot(v ssa.Value) ssa.Value {
	for {
		if u, ok := v.(*ssa.UnOp); ok && u.Op.String() == "!" {
			v = u.X
			continue
		}
		return v
	}
}

func stripConv(v ssa.Value) ssa.Value {
	for {
		switch x := v.(type) {
		case *ssa.Convert:
			v = x.X
			continue
		case *ssa.ChangeType:
			v = x.X
			continue
		}
		return v
	}
}

// passesThrough: operand v is the phi itself, possibly through phis that only merge it.
func passesThrough(v ssa.Value, phi *ssa.Phi) bool {
	seen := map[ssa.Value]bool{}
	var rec func(x ssa.Value) bool
	rec = func(x ssa.Value) bool {
		if x == ssa.Value(phi) {
			return true
		}
		if seen[x] {
			return true
		}
		seen[x] = true
		if p, ok := x.(*ssa.Phi); ok {
			for _, e := range p.Edges {
				if !rec(e) {
					return false
				}
			}
			return true
		}
		return false
	}
	return rec(v)
}

func runC08(w *World, c *Check) {
	c.Rule("C08.defaults", "default s2k parameters, protocol-key sizes and seed lengths per etype; RFC 8009 salt prefixes are the etype names", 20)
	c.Rule("C08.generated", "generated keys are sized by GetKeyByteSize() of the etype they are stamped with, filled by crypto/rand, and every EncryptData accepts exactly that size", 10)
	c.Rule("C08.precedence", "PA-ETYPE-INFO2 > PA-ETYPE-INFO > PA-PW-SALT regardless of order (RFC 4120 §5.2.7.5)", 2)
	c.Rule("C08.kdf-length", "RFC 8009 §5: for aes256-sha384 the derived key is 256 bits exactly for Ke (the label's LAST octet is 0xAA) and for string-to-key (the label is \"kerberos\"), else the seed length: every test of the label in DeriveKey (and helpers extracted from it) is one of those two, in a known spelling", 3)
	ruleKDFLength(w, c, "C08.kdf-length")
	c.Rule("C08.weakkey", "DES3 random-to-key corrects weak keys per 8-byte DES key: fixWeakKey is applied to each stretch56Bits block (the weak-key table holds 8-byte keys), and flips byte 7 with 0xF0 when weak() says so", 4)
	c.Rule("C08.salt", "the salt defaults to cname.GetSalt(realm) only when none was supplied; only 4-byte s2kparams are decoded", 3)
	c.Rule("C08.stateless", "a crypto function touches package-level state only as a memo table keyed by all of its parameters themselves (on this tree: no package-level state at all): results do not depend on earlier calls", 6)
	ruleStateless(w, c, "C08.stateless")

	ruleEtypeTable(w, c, "C08.defaults", map[string]bool{"GetKeyByteSize": true, "GetKeySeedBitLength": true, "GetDefaultStringToKeyParams": true})
	for tn, name := range map[string]string{"Aes128CtsHmacSha256128": "aes128-cts-hmac-sha256-128", "Aes256CtsHmacSha384192": "aes256-cts-hmac-sha384-192"} {
		checkCalls(w, c, "C08.defaults", "crypto.("+tn+").StringToKey", []CallSpec{
			{Name: "saltp", Desc: "RFC 8009 §4: saltp = \"" + name + "\" ‖ 0x00 ‖ salt", Callee: `crypto/rfc8009\.GetSaltP`, Want: `crypto/rfc8009\.GetSaltP\(salt, "` + name + `"\)`},
			{Name: "s2k", Desc: "string-to-key receives the secret, saltp and the parameters", Callee: `crypto/rfc8009\.StringToKey`, Want: `crypto/rfc8009\.StringToKey\(secret, crypto/rfc8009\.GetSaltP\(.*\), s2kparams, recv\)`},
		})
	}
	if fn := w.Func("crypto/rfc8009.GetSaltP"); fn == nil {
		c.Missing("C08.defaults", "crypto/rfc8009.GetSaltP")
	} else {
		// the returned bytes, whether appended as bytes or concatenated as strings
		fa := NewFuncAn(w, fn)
		ok, detail := false, "no return"
		en, sa := substParams(fn, "ename"), substParams(fn, "salt")
		for _, v := range returnedBytes(fa) {
			ps, total := fa.BufferPlaces(v)
			detail = placesString(ps) + " (length " + total + ")"
			ok = len(ps) == 3 && ps[0].What == en && ps[0].Off == "0" && ps[1].What == "0" && ps[1].Off == "len("+en+")" && ps[2].What == sa && ps[2].Off == "1+len("+en+")"
			if !ok {
				break
			}
		}
		c.Decide(ok, "C08.defaults", FuncKey(fn), "zero-separator", w.Pos(fn.Pos()), "etype name, then a zero octet, then the salt", "returns "+detail)
	}

	// ---- generated keys -----------------------------------------------------------
	if fn := w.Func("types.GenerateEncryptionKey"); fn == nil {
		c.Missing("C08.generated", "types.GenerateEncryptionKey")
	} else {
		fa := NewFuncAn(w, fn)
		fk := FuncKey(fn)
		reads := fa.Calls(`crypto/rand\.Read`)
		ok := len(reads) == 1
		var buf ssa.Value
		if ok {
			buf = stripSlice(reads[0].Common().Args[0])
		}
		c.Decide(ok && fa.M(`make\(\[\]byte, crypto/etype\.EType\.GetKeyByteSize\(etype\)\)`, fa.R.R(buf)), "C08.generated", fk, "size", w.Pos(fn.Pos()),
			"the key buffer has GetKeyByteSize() bytes of the given etype and is filled by crypto/rand.Read", fmt.Sprintf("rand.Read calls: %v", renderCalls(fa, reads)))
		pass := fa.MatchGuard(EqPass("nil", `crypto/rand\.Read\(.*\)#1`))
		p := fa.PathAvoiding(pass, fa.SuccessExits(BoolErrSuccess(-1, 1)))
		c.Decide(len(pass) > 0 && p == nil, "C08.generated", fk, "error-checked", w.Pos(fn.Pos()), "a failing random source yields an error, not a key", "success exit reachable when rand.Read failed")
		// one key value (there may be several literals: an error return's and the success return's)
		// carries both the etype's id and the random buffer
		okT, okV := false, false
		var sts []string
		hasT, hasV := map[string]bool{}, map[string]bool{}
		for _, st := range fa.storesTo(`local<types\.EncryptionKey>(#\d+)?\..*`) {
			a, v := fa.R.R(st.Addr), fa.R.R(st.Val)
			sts = append(sts, a+" <- "+v)
			obj := a[:strings.LastIndex(a, ".")]
			if strings.HasSuffix(a, ".KeyType") && fa.M(`crypto/etype\.EType\.GetETypeID\(etype\)`, v) {
				hasT[obj] = true
			}
			if strings.HasSuffix(a, ".KeyValue") && buf != nil && stripSlice(st.Val) == buf {
				hasV[obj] = true
			}
		}
		for obj := range hasV {
			if hasT[obj] {
				okT, okV = true, true
			}
		}
		c.Decide(okT && okV, "C08.generated", fk, "stamp", w.Pos(fn.Pos()), "the key is stamped with the same etype's id and carries the random buffer", fmt.Sprintf("stores: %v", sts))
	}
	checkCalls(w, c, "C08.generated", "types.(*Authenticator).GenerateSeqNumberAndSubKey", []CallSpec{
		{Name: "subkey-random", Desc: "the subkey buffer of keySize bytes is filled by crypto/rand.Read", Callee: `crypto/rand\.Read`, Want: `crypto/rand\.Read\(make\(\[\]byte, keySize\)\)`},
	})
	if fn := w.Func("types.(*Authenticator).GenerateSeqNumberAndSubKey"); fn != nil {
		fa := NewFuncAn(w, fn)
		okT, okV := false, false
		for _, st := range fa.storesTo(`.*SubKey.*|local<types\.EncryptionKey>\..*`) {
			a, v := fa.R.R(st.Addr), fa.R.R(st.Val)
			if strings.HasSuffix(a, ".KeyType") && fa.M(`keyType`, v) {
				okT = true
			}
			if strings.HasSuffix(a, ".KeyValue") && fa.M(`make\(\[\]byte, keySize\)`, v) {
				okV = true
			}
		}
		c.Decide(okT && okV, "C08.generated", FuncKey(fn), "stamp", w.Pos(fn.Pos()), "SubKey{KeyType: keyType, KeyValue: the random buffer}", "stores do not have that shape")
		if len(fa.MatchGuard(EqPass("nil", `crypto/rand\.Read\(.*\)#1`))) == 0 {
			c.Note("C08.generated", FuncKey(fn), "rand-error-unchecked", w.Pos(fn.Pos()), "the error of crypto/rand.Read for the subkey is not checked (crypto/rand does not fail on supported platforms)")
		}
	}
	// callers pass id and size of ONE etype
	for _, fn := range w.ModuleFuncs() {
		fa := NewFuncAn(w, fn)
		for _, ci := range fa.Calls(`types\.\(\*Authenticator\)\.GenerateSeqNumberAndSubKey`) {
			args := fa.CallArgs(ci)
			if len(args) != 3 {
				continue
			}
			e1 := regexpFind(`^crypto/etype\.EType\.GetETypeID\((.*)\)$`, args[1])
			e2 := regexpFind(`^crypto/etype\.EType\.GetKeyByteSize\((.*)\)$`, args[2])
			good := e1 != "" && e1 == e2
			if !good {
				// constant pair: must agree with the table
				for _, r := range etypeRefs {
					if args[1] == fmt.Sprint(r.ID) && args[2] == r.Cells["GetKeyByteSize"] {
						good = true
					}
				}
			}
			c.Decide(good, "C08.generated", FuncKey(fn), "subkey-size-matches-etype", w.Pos(InstrPos(ci)), "the subkey is generated with the id and GetKeyByteSize() of one etype", "called with ("+args[1]+", "+args[2]+")")
		}
	}
	// consumer side: each family's EncryptData accepts exactly GetKeyByteSize()
	for _, fk := range []string{"crypto/rfc3961.DES3EncryptData", "crypto/rfc3962.EncryptData", "crypto/rfc8009.EncryptData", "crypto/rfc4757.EncryptData"} {
		fn := w.Func(fk)
		if fn == nil {
			c.Missing("C08.generated", fk)
			continue
		}
		fa := NewFuncAn(w, fn)
		// a key-length guard: len(key) == <size term> pass; the size term must evaluate, per etype of the family, to GetKeyByteSize
		var sizeTerms []string
		okGuard := false
		exits := fa.SuccessExits(BoolErrSuccess(-1, fn.Signature.Results().Len()-1))
		plain := EqPass(`len\(key\)`, `crypto/etype\.EType\.GetKeyByteSize\(e\)`)
		special := EqPass(`len\(key\)`, `φ\(32\|crypto/etype\.EType\.GetKeyByteSize\(e\)\)`)
		if pass, all := fa.MatchGuardSet([]GuardPat{plain}, nil); len(pass) > 0 {
			sizeTerms = append(sizeTerms, "GetKeyByteSize(e)")
			okGuard = fa.PathAvoiding(all, exits) == nil
		} else if pass, all := fa.MatchGuardSet([]GuardPat{special}, nil); len(pass) > 0 {
			sizeTerms = append(sizeTerms, "φ(32|GetKeyByteSize(e))")
			// the RFC 8009 special case: 32 must be selected for etype 20 only, and be what the table says
			nsel := 0
			for _, a := range fa.withNewHelpers() {
				nsel += len(a.MatchGuard(EqPass("20", `crypto/etype\.EType\.GetETypeID\(e\)`)))
			}
			ref20 := ""
			for _, r := range etypeRefs {
				if r.ID == 20 {
					ref20 = r.Cells["GetKeyByteSize"]
				}
			}
			okGuard = nsel > 0 && ref20 == "32" && fa.PathAvoiding(all, exits) == nil
		} else {
			for _, cd := range fa.Conds {
				if cd.Kind == "eq" && (fa.M(`len\(key\)`, cd.L) || fa.M(`len\(key\)`, cd.R)) {
					sizeTerms = append(sizeTerms, cd.L+" == "+cd.R)
				}
			}
		}
		c.Decide(okGuard, "C08.generated", fk, "accepts-GetKeyByteSize", w.Pos(fn.Pos()), "the cipher accepts exactly the key size the generators produce (GetKeyByteSize() of the etype)", fmt.Sprintf("key length compared with %v", sizeTerms))
	}

	// ---- precedence --------------------------------------------------------------------
	rulePAPrecedence(w, c, "C08.precedence", "crypto.GetKeyFromPassword")
	rulePAPrecedence(w, c, "C08.precedence", "client.preAuthEType")

	// ---- salt defaulting -----------------------------------------------------------------
	if fn := w.Func("crypto.GetKeyFromPassword"); fn != nil {
		fa := NewFuncAn(w, fn)
		fk := FuncKey(fn)
		calls := fa.Calls(`crypto/etype\.EType\.StringToKey`)
		if len(calls) != 1 {
			c.Fail("C08.salt", fk, "string-to-key", w.Pos(fn.Pos()), "one StringToKey call derives the key", fmt.Sprintf("%d calls", len(calls)))
		} else {
			args := fa.CallArgs(calls[0])
			for i := range args {
				for k := 0; k < 3; k++ {
					args[i] = fa.R.ExpandLoopSyms(args[i])
				}
			}
			where := w.Pos(InstrPos(calls[0]))
			c.Decide(fa.M(`passwd`, args[1]), "C08.salt", fk, "password", where, "the password parameter is what is stretched", "secret operand is "+args[1])
			c.Decide(fa.M(`φ\(.*types\.\(PrincipalName\)\.GetSalt\(cname, realm\).*\)`, args[2]), "C08.salt", fk, "salt-default", where, "the salt is the KDC-supplied one or, failing that, cname.GetSalt(realm)", "salt operand is "+trunc(args[2], 200))
			def := fa.MatchGuard(EqPass(`""`, `\$L\d+|φ⟲?\(.*\)`))
			c.Decide(len(def) > 0, "C08.salt", fk, "default-only-when-empty", where, "the default salt is used only when no salt was supplied", "no emptiness test of the salt")
			c.Decide(strings.Contains(args[3], "GetDefaultStringToKeyParams") && strings.Contains(args[3], "S2KParams"), "C08.salt", fk, "s2kparams", where, "parameters are the etype default or the KDC-supplied ones", "params operand is "+trunc(args[3], 200))
			// what the hints set is what is used: no alternative of the parameters operand is
			// computed after the hint loop (a late "default for the etype now in use" discards
			// the KDC's iteration count)
			if ops := calls[0].Common().Args; len(ops) >= 3 {
				pv := ops[len(ops)-1]
				leaves := fa.LeafValues(pv)
				var hdr *ssa.BasicBlock
				for _, lv := range leaves {
					if in, isIn := lv.v.(ssa.Instruction); isIn && lv.fa == fa && in.Block() != nil {
						if h := loopHeaderOf(in.Block()); h != nil {
							hdr = h
						}
					}
				}
				late := ""
				if hdr != nil {
					for _, lv := range leaves {
						in, isIn := lv.v.(ssa.Instruction)
						if !isIn || lv.fa != fa || in.Block() == nil {
							continue
						}
						if b := in.Block(); loopHeaderOf(b) != hdr && !b.Dominates(hdr) {
							late = lv.fa.R.R(lv.v) + " at " + w.Pos(InstrPos(in))
						}
					}
				}
				c.Decide(late == "", "C08.salt", fk, "s2kparams-not-reset", where, "the parameters used are the default taken before the hints or what a hint supplied: nothing replaces them after the hints were processed", "the parameters may be "+trunc(late, 160)+", computed after the hint loop: parameters a hint supplied are discarded")
			}
			lenTest := false
			for _, sub := range fa.withNewHelpers() {
				if len(sub.MatchGuard(EqPass("4", `len\(.*\.S2KParams\)`))) > 0 {
					lenTest = true
				}
			}
			c.Decide(lenTest, "C08.salt", fk, "s2kparams-4-bytes", where, "only 4-byte s2kparams are decoded", "no length test")
		}
		for _, st := range fa.storesTo(`local<types\.EncryptionKey>\.KeyType`) {
			if v := fa.R.R(st.Val); fa.M(`etypeID`, v) {
				c.Note("C08.salt", fk, "stamp-requested-etype", w.Pos(InstrPos(st)), "the returned key is stamped with the requested etype id even when a KDC hint switched the etype used for string-to-key")
			}
		}
	}
	// the default salt is realm ‖ name components, for every principal (RFC 4120 §4: "the
	// concatenation of the principal's realm and name components, in order, with no separators")
	if fn := w.Func("types.(PrincipalName).GetSalt"); fn == nil {
		c.Missing("C08.salt", "types.(PrincipalName).GetSalt")
	} else {
		fa := NewFuncAn(w, fn)
		ok, detail, n := true, "", 0
		for _, x := range fa.Exits() {
			rs := RetResults(x.Ret)
			if len(rs) != 1 {
				continue
			}
			n++
			ps, _ := fa.BufferPlaces(rs[0])
			detail = placesString(ps)
			good := len(ps) == 2 && ps[0].What == substParams(fn, "realm") && ps[0].Off == "0" && fullMatch(`Σ\(recv\.NameString\[\$i\d+\]\)`, ps[1].What) && ps[1].Off == "len("+substParams(fn, "realm")+")"
			if !good {
				ok = false
				break
			}
		}
		c.Decide(ok && n > 0, "C08.salt", FuncKey(fn), "default-salt-layout", w.Pos(fn.Pos()), "the default salt is the realm followed by the name components in order, on every return", "a return yields "+detail)
	}
	ruleWeakKey(w, c, "C08.weakkey")
}

// ruleWeakKey: RFC 3961 §6.3.1 random-to-key: each 56-bit chunk is expanded to an 8-byte DES key
// and weak keys are corrected per DES key. Structural part: the argument of every fixWeakKey call
// in DES3RandomToKey is one expanded block (the result of stretch56Bits, or a slice of width 8),
// every expanded block goes through it, and fixWeakKey xors byte 7 with 0xF0 under weak(b).
func ruleWeakKey(w *World, c *Check, rule string) {
	fn := w.Func("crypto/rfc3961.DES3RandomToKey")
	if fn == nil {
		c.Missing(rule, "crypto/rfc3961.DES3RandomToKey")
		return
	}
	fa := NewFuncAn(w, fn)
	fk := FuncKey(fn)
	bc := newBoundsCtx(w, fn)
	fix := fa.Calls(`crypto/rfc3961\.fixWeakKey`)
	str := fa.Calls(`crypto/rfc3961\.stretch56Bits`)
	c.Decide(len(fix) >= 1 && len(str) >= 1, rule, fk, "calls", w.Pos(fn.Pos()), "random-to-key expands with stretch56Bits and corrects with fixWeakKey", fmt.Sprintf("%d fixWeakKey, %d stretch56Bits calls", len(fix), len(str)))
	fixed := map[ssa.Value]bool{}
	for _, ci := range fix {
		arg := ci.Common().Args[0]
		ok := false
		if call, isCall := arg.(*ssa.Call); isCall && fa.CalleeName(call) == "crypto/rfc3961.stretch56Bits" {
			ok = true
			fixed[call] = true
		} else if l := bc.lenLin(arg, 0); l.isConst() && l.k == 8 {
			ok = true
			// a width-8 window: which blocks it covers is not tracked, count every block as corrected
			for _, s := range str {
				fixed[s.Value()] = true
			}
		}
		c.Decide(ok, rule, fk, "per-block", w.Pos(InstrPos(ci)), "fixWeakKey receives one 8-byte DES key (a stretch56Bits result or a window of width 8)", "argument "+trunc(fa.R.R(arg), 160)+" is not a single expanded block: the 8-byte weak-key table can never match it")
	}
	for _, s := range str {
		c.Decide(fixed[s.Value()], rule, fk, "every-block", w.Pos(InstrPos(s)), "every expanded block is weak-key corrected", "the result of this stretch56Bits call does not go through fixWeakKey")
	}
	if ff := w.Func("crypto/rfc3961.fixWeakKey"); ff == nil {
		c.Missing(rule, "crypto/rfc3961.fixWeakKey")
	} else {
		ffa := NewFuncAn(w, ff)
		g := ffa.MatchGuard(TruePass(substParams(ff, `crypto/rfc3961\.weak\(@0\)`)))
		okSt := false
		for _, st := range ffa.storesTo(substParams(ff, `@0\[7\]`)) {
			v := ffa.R.R(st.Val)
			if (strings.Contains(v, "^ 240") || strings.Contains(v, "240 ^")) && len(g) == 1 && (st.Block() == g[0].To() || g[0].To().Dominates(st.Block())) {
				okSt = true
			}
		}
		c.Decide(okSt, rule, FuncKey(ff), "flip", w.Pos(ff.Pos()), "a weak key gets byte 7 xored with 0xF0, and only a weak key", "no store of b[7]^0xF0 under weak(b)")
	}
}

// ruleKDFLength: which derived-key length rfc8009.DeriveKey asks the KDF for. The selection may
// look at the label only in these ways (the spellings found on the tree and in equivalent
// rewrites): its last octet against 0xAA (Ke) or 's' (pre-test for "kerberos"); its length against
// that of "kerberos"; its octets against those of "kerberos"; bytes.Equal / string equality with
// "kerberos". Any other test of the label (a search for 0xAA anywhere, a prefix test …) selects the
// length by something RFC 8009 does not say and is reported.
func ruleKDFLength(w *World, c *Check, rule string) {
	fn := w.Func("crypto/rfc8009.DeriveKey")
	if fn == nil {
		c.Missing(rule, "crypto/rfc8009.DeriveKey")
		return
	}
	fa0 := NewFuncAn(w, fn)
	label := regexp.QuoteMeta(substParams(fn, "label"))
	last := label + `\[\(len\(` + label + `\) - 1\)\]`
	known := []string{
		`^(170|115) == ` + last + `$`, `^` + last + ` == (170|115)$`,
		`^len\("kerberos"\) == len\(` + label + `\)$`, `^len\(` + label + `\) == (8|len\("kerberos"\))$`, `^8 == len\(` + label + `\)$`,
		`^len\(` + label + `\) > \$i\d+$`, `^len\("kerberos"\) > \$i\d+$`, `^8 > \$i\d+$`,
		`^"kerberos"\[\$i\d+\] == ` + label + `\[\$i\d+\]$`, `^` + label + `\[\$i\d+\] == "kerberos"\[\$i\d+\]$`,
		`^bytes\.Equal\((` + label + `, "kerberos"|"kerberos", ` + label + `)\)$`,
		`^"kerberos" == string\(` + label + `\)$`, `^string\(` + label + `\) == "kerberos"$`,
	}
	sawKe := false
	for _, fa := range fa0.withNewHelpers() {
		for _, cd := range fa.Conds {
			txt := cd.L
			if cd.Kind == "eq" {
				txt = cd.L + " == " + cd.R
			} else if cd.Kind == "gt" {
				txt = cd.L + " > " + cd.R
			}
			if !compileRe(`(^|[^A-Za-z0-9_.])` + label + `([^A-Za-z0-9_]|$)`).MatchString(txt) {
				continue
			}
			ok := false
			for _, k := range known {
				if compileRe(k).MatchString(txt) {
					ok = true
				}
			}
			if compileRe(`^170 == `+last+`$`).MatchString(txt) || compileRe(`^`+last+` == 170$`).MatchString(txt) {
				sawKe = true
			}
			c.Decide(ok, rule, FuncKey(fa.Fn), "label-test "+trunc(txt, 70), w.Pos(InstrPos(cd.If)),
				"a test of the label that takes part in choosing the derived-key length is the last-octet or the \"kerberos\" test",
				"the label is tested by `"+trunc(cd.String(), 120)+"`, which is neither: the length would depend on something other than the label's last octet being 0xAA or the label being \"kerberos\"")
		}
	}
	c.Decide(sawKe, rule, FuncKey(fn), "ke-by-last-octet", w.Pos(fn.Pos()), "Ke is recognised by the last octet of the label being 0xAA", "no comparison of "+substParams(fn, "label")+"[len-1] with 0xAA")
}
