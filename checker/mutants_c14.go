package main

func init() {
	addMutants(
		Mutant{"C14", "key-length-u32", "keytab/keytab.go",
			"\trei16, err = readInt16(eb, &p, &endian)\n\t\t\tif err != nil {\n\t\t\t\treturn err\n\t\t\t}\n\t\t\tkl := int(rei16)", "\trei32, err := readInt32(eb, &p, &endian)\n\t\t\tif err != nil {\n\t\t\t\treturn err\n\t\t\t}\n\t\t\tkl := int(rei32)", "C14.layout"},
		Mutant{"C14", "nametype-read-in-v1", "keytab/keytab.go",
			"\tif kt.version != 1 {\n\t\t//Name Type is omitted in version 1\n\t\tke.Principal.NameType, err = readInt32(b, p, e)", "\tif kt.version != 0 {\n\t\t//Name Type is omitted in version 1\n\t\tke.Principal.NameType, err = readInt32(b, p, e)", "C14.layout"},
		Mutant{"C14", "timestamp-after-kvno", "keytab/keytab.go",
			"\tendian.PutUint32(t[0:4], uint32(e.Timestamp.Unix()))\n\tt[4] = e.KVNO8\n\tendian.PutUint16(t[5:7], uint16(e.Key.KeyType))", "\tt[0] = e.KVNO8\n\tendian.PutUint32(t[1:5], uint32(e.Timestamp.Unix()))\n\tendian.PutUint16(t[5:7], uint16(e.Key.KeyType))", "C14.layout"},
		Mutant{"C14", "writer-v1-count-not-adjusted", "keytab/keytab.go",
			"\tif v == 1 {\n\t\t// In version 1 the number of components includes the realm\n\t\tn++\n\t}", "", "C14.layout"},
		Mutant{"C14", "reader-v1-count-not-adjusted", "keytab/keytab.go",
			"\tif kt.version == 1 {\n\t\t//In version 1 the number of components includes the realm. Minus 1 to make consistent with version 2\n\t\tke.Principal.NumComponents--\n\t}", "", "C14.layout"},
		Mutant{"C14", "little-endian-for-v2", "keytab/keytab.go",
			"func marshalString(s string, v int) ([]byte, error) {\n\tsb := []byte(s)\n\tb := make([]byte, 2)\n\tvar endian binary.ByteOrder\n\tendian = binary.BigEndian\n\tif v == 1 && isNativeEndianLittle() {", "func marshalString(s string, v int) ([]byte, error) {\n\tsb := []byte(s)\n\tb := make([]byte, 2)\n\tvar endian binary.ByteOrder\n\tendian = binary.BigEndian\n\tif isNativeEndianLittle() {", "C14.endian"},
		Mutant{"C14", "hole-parsed", "keytab/keytab.go",
			"\t\tif l < 0 {\n\t\t\t//Zero padded so skip over\n\t\t\tl = l * -1\n\t\t\tn = n + int(l)\n\t\t} else {", "\t\tif l < 0 && n < 0 {\n\t\t\t//Zero padded so skip over\n\t\t\tl = l * -1\n\t\t\tn = n + int(l)\n\t\t} else {", "C14.holes"},
		Mutant{"C14", "kvno8-always-wins", "keytab/keytab.go",
			"\t\t\tif ke.KVNO == 0 {\n\t\t\t\t// Handles", "\t\t\tif ke.KVNO >= 0 {\n\t\t\t\t// Handles", "C14.kvno"},
		Mutant{"C14", "parseprincipal-error-dropped-again", "keytab/keytab.go",
			"\t\t\terr = parsePrincipal(eb, &p, kt, &ke, &endian)\n\t\t\tif err != nil {\n\t\t\t\treturn err\n\t\t\t}", "\t\t\tparsePrincipal(eb, &p, kt, &ke, &endian)", "C14."},
		Mutant{"C14", "realm-read-error-dropped", "keytab/keytab.go",
			"\trealmB, err := readBytes(b, p, int(lenRealm), e)\n\tif err != nil {\n\t\treturn err\n\t}", "\trealmB, _ := readBytes(b, p, int(lenRealm), e)", "C14.errors"},
		Mutant{"C14", "filter-drop-kvno-wildcard", "keytab/keytab.go",
			"(k.KVNO == uint32(kvno) || kvno == 0) &&", "(k.KVNO == uint32(kvno)) &&", "C14.filter"},
		Mutant{"C14", "filter-prefix-components", "keytab/keytab.go",
			"if k.Principal.Realm == realm && len(k.Principal.Components) == len(princName.NameString) &&", "if k.Principal.Realm == realm && len(k.Principal.Components) <= len(princName.NameString) &&", "C14.filter"},
	)
}
