package main

// C18 — SPNEGO HTTP client authenticates once, replays the body, and terminates.

import (
	"fmt"
	"go/types"
	"strings"

	"golang.org/x/tools/go/ssa"
)

func init() {
	register(&Property{
		ID:      "C18",
		Run:     runC18,
		Explain: "(1) bounded recursion: every call-graph cycle through the SPNEGO client's request function is broken at each recursive call site either by an integer parameter passed strictly increased and tested against a constant bound before the call, or by a container that is appended to on the way and whose length is tested against a constant before the call (the redirect chain); (2) body replay: on both retry paths, when the request has a body, what is re-sent is io.NopCloser over the buffer the first attempt tee'd into, and the 401 response body is drained and closed before the retry; (3) header construction: SetSPNEGOHeader sets Authorization to \"Negotiate \" + base64.StdEncoding of the marshalled token obtained from InitSecContext of a mechanism built for the SPN argument (or the one derived from the request URL), and returns before setting the header on any error of AcquireCred/InitSecContext/Marshal; a challenge is status 401 with WWW-Authenticate: Negotiate; a redirect target loses the Authorization header; (4) the token passes the ticket and session key it was given down to NewAPReq, with the RFC 4121 §4.1.1 authenticator checksum (type 0x8003, 24 bytes, length 16 little-endian at [0:4], flags little-endian at [20:24]). Added: the body is teed on every attempt that has one; the Authorization header is dropped on every path that follows a redirect; the authenticator clock is UTC.",
		NotDecided: []string{
			"the token being accepted by an independent acceptor; the body bytes as received (runtime / cryptographic)",
		},
	})
}

// selfCallSites finds calls from fn (or functions it reaches within the same
// receiver's methods) back to fn: direct recursion and mutual recursion of depth 2.
func recursiveSites(w *World, fns []*ssa.Function) map[*ssa.Function][]*ssa.Call {
	in := map[*ssa.Function]bool{}
	for _, f := range fns {
		in[f] = true
	}
	// call edges among fns
	edges := map[*ssa.Function][]*ssa.Call{}
	for _, f := range fns {
		for _, b := range f.Blocks {
			for _, i := range b.Instrs {
				if call, ok := i.(*ssa.Call); ok {
					if cal := call.Call.StaticCallee(); cal != nil && in[cal] {
						edges[f] = append(edges[f], call)
					}
				}
			}
		}
	}
	// keep only edges that lie on a cycle
	reach := func(from, to *ssa.Function) bool {
		seen := map[*ssa.Function]bool{}
		st := []*ssa.Function{from}
		for len(st) > 0 {
			x := st[len(st)-1]
			st = st[:len(st)-1]
			if x == to {
				return true
			}
			if seen[x] {
				continue
			}
			seen[x] = true
			for _, c := range edges[x] {
				st = append(st, c.Call.StaticCallee())
			}
		}
		return false
	}
	out := map[*ssa.Function][]*ssa.Call{}
	for f, cs := range edges {
		for _, c := range cs {
			if reach(c.Call.StaticCallee(), f) {
				out[f] = append(out[f], c)
			}
		}
	}
	return out
}

func runC18(w *World, c *Check) {
	c.Rule("C18.bounded", "every recursive call of the SPNEGO client's request function is bounded by an increasing counter or by the length of the redirect chain, each tested against a constant", 2)
	c.Rule("C18.rechallenge", "a redirected request may be challenged again: redirects drop the Authorization header, so the 401-retry counter handed along a redirect is the constant 0", 1)
	c.Rule("C18.measure", "the redirect chain that bounds the recursion only grows: every store to it inside the request function appends", 1)
	c.Rule("C18.request", "a retry changes nothing of the request but its Body reader (and the Authorization header): no other field of the *http.Request is stored", 2)
	c.Rule("C18.identity", "the authenticator of the token names the client of the credentials: crealm and cname come from Credentials.Domain()/CName() and are not overwritten", 3)
	c.Rule("C18.body", "a request body is replayed from the tee buffer on both retry paths; the 401 response is drained and closed before retrying", 4)
	c.Rule("C18.header", "Authorization: Negotiate base64(token for the intended SPN); errors return before the header is set; challenge = 401 + WWW-Authenticate: Negotiate; redirects drop the Authorization header", 9)
	c.Rule("C18.utc", "the authenticator's timestamps are UTC (an acceptor other than this library rejects a GeneralizedTime with a zone offset)", 10)
	ruleClockUTC(w, c, "C18.utc")
	c.Rule("C18.token", "the mechanism token carries the ticket and session key given, with the RFC 4121 §4.1.1 authenticator checksum", 6)

	sp := w.SSAPkgs["spnego"]
	var clientFns []*ssa.Function
	for _, fn := range w.ModuleFuncs() {
		if fn.Pkg == sp && fn.Signature.Recv() != nil && strings.HasSuffix(fn.Signature.Recv().Type().String(), "spnego.Client") {
			clientFns = append(clientFns, fn)
		}
	}
	if len(clientFns) == 0 {
		c.Missing("C18.bounded", "spnego.(*Client) methods")
		return
	}
	sites := recursiveSites(w, clientFns)
	nSites := 0
	var doFn *ssa.Function
	for fn, calls := range sites {
		fa := NewFuncAn(w, fn)
		fk := FuncKey(fn)
		doFn = fn
		for _, call := range calls {
			nSites++
			where := w.Pos(InstrPos(call))
			args := fa.CallArgs(call)
			callee := call.Call.StaticCallee()
			// (a) an integer parameter passed increased, with a constant bound test dominating
			okCounter := false
			counterDetail := ""
			if callee == fn {
				for i, p := range fn.Params {
					if b, ok := p.Type().Underlying().(interface{ Info() interface{} }); ok {
						_ = b
					}
					if p.Type().String() != "int" || i >= len(args) {
						continue
					}
					pn := fa.R.R(p)
					if args[i] == "(1 + "+pn+")" || args[i] == "("+pn+" + 1)" {
						var pass []Edge
						bound := ""
						for _, cd := range fa.Conds {
							if cd.Kind == "gt" && isConstTerm(cd.L) && cd.R == pn { // K > p  ⇔ p < K : the edge on which it holds is the pass edge
								pass = append(pass, Edge{cd.If.Block(), cd.HoldsSucc})
								bound = cd.L
							}
							if cd.Kind == "gt" && cd.L == pn && isConstTerm(cd.R) { // p > K: pass = not holds
								pass = append(pass, Edge{cd.If.Block(), 1 - cd.HoldsSucc})
								bound = cd.R
							}
						}
						if len(pass) > 0 && fa.PathToInstrAvoiding(pass, call) == nil {
							okCounter = true
							counterDetail = "counter " + pn + " bounded by " + bound
						}
					}
				}
			}
			// (b) a container appended to and tested against a constant before the call
			okChain := false
			chainDetail := ""
			for _, cd := range fa.Conds {
				if cd.Kind != "gt" {
					continue
				}
				var lenT, k string
				var pass Edge
				switch {
				case strings.HasPrefix(cd.L, "len(") && isConstTerm(cd.R): // len > K
					lenT, k, pass = cd.L, cd.R, Edge{cd.If.Block(), 1 - cd.HoldsSucc}
				case strings.HasPrefix(cd.R, "len(") && isConstTerm(cd.L): // K > len
					lenT, k, pass = cd.R, cd.L, Edge{cd.If.Block(), cd.HoldsSucc}
				default:
					continue
				}
				if !strings.Contains(lenT, "recv.") {
					continue
				}
				if fa.PathToInstrAvoiding([]Edge{pass}, call) != nil {
					continue
				}
				// the container grows on every path to the call: a store of append(container, …) dominates the test
				field := strings.TrimSuffix(strings.TrimPrefix(lenT, "len("), ")")
				if strings.HasPrefix(field, "append(") {
					field = strings.SplitN(strings.TrimPrefix(field, "append("), ",", 2)[0]
				}
				for _, st := range fa.storesTo(q(field)) {
					if strings.HasPrefix(fa.R.R(st.Val), "append("+field+",") && instrDominates(st, call) {
						okChain = true
						chainDetail = "len(" + field + ") tested against " + k + " after appending"
					}
				}
			}
			name := "call " + FuncKey(callee) + "(" + trunc(strings.Join(args[1:], ", "), 60) + ")"
			c.Decide(okCounter || okChain, "C18.bounded", fk, name, where,
				"the recursive call is bounded (increasing counter with a constant limit, or the redirect chain's length against a constant)",
				"no bound dominates this recursive call: a server that keeps answering the way that leads here makes the call recurse until the stack gives out")
			// a site the chain bounds (a redirect) sends the request on without a token — the
			// Authorization header is dropped — so the new target may challenge and must get its
			// authenticated retry: the 401-retry counter starts afresh there
			if callee == fn && okChain && !okCounter {
				for i, p := range fn.Params {
					if p.Type().String() != "int" || i >= len(args) {
						continue
					}
					pn := fa.R.R(p)
					isCounter := false
					for _, other := range calls {
						if oa := fa.CallArgs(other); other.Call.StaticCallee() == fn && i < len(oa) && (oa[i] == "(1 + "+pn+")" || oa[i] == "("+pn+" + 1)") {
							isCounter = true
						}
					}
					if isCounter {
						c.Decide(args[i] == "0", "C18.rechallenge", fk, "redirect-resets-"+pn, where,
							"the request sent on after a redirect starts with a fresh retry budget ("+pn+" = 0)", "passes "+args[i]+": a target that challenges after the budget was spent on the way gets no authenticated retry")
					}
				}
			}
			if okCounter {
				c.Note("C18.bounded", fk, name+" bound", where, counterDetail)
			} else if okChain {
				c.Note("C18.bounded", fk, name+" bound", where, chainDetail)
			}
		}
	}
	if nSites == 0 {
		c.Note("C18.bounded", "spnego.(*Client)", "no-recursion", "-", "the client's methods are not recursive")
		c.Ok("C18.bounded", "spnego.(*Client)", "no-recursion", "-", "no recursive call: at most one retry is structurally possible")
		doFn = w.Func("spnego.(*Client).Do")
	}
	// every exported entry point reaches the bounded function only
	if doFn == nil {
		doFn = w.Func("spnego.(*Client).Do")
	}
	if doFn == nil {
		c.Missing("C18.body", "spnego.(*Client).Do")
		return
	}
	fa := NewFuncAn(w, doFn)
	fk := FuncKey(doFn)

	// ---- body replay ----------------------------------------------------------------
	tee := fa.Calls(`io\.TeeReader`)
	bufT := ""
	if len(tee) == 1 {
		bufT = fa.CallArgs(tee[0])[1]
	}
	c.Decide(bufT != "", "C18.body", fk, "tee", w.Pos(doFn.Pos()), "the first attempt tees the request body into a buffer", fmt.Sprintf("%d TeeReader calls", len(tee)))
	// every attempt that has a body tees it — also the authenticated retry, whose own retry (a
	// redirect after authentication) replays from the buffer of *this* call: nothing but the presence
	// of a body decides whether it is captured
	if len(tee) == 1 {
		okAlways := false
		for _, e := range fa.MatchGuard(NePass("nil", `req\.Body`)) {
			b := e.To()
			for steps := 0; steps < 6 && b != tee[0].Block() && len(b.Succs) == 1; steps++ {
				b = b.Succs[0]
			}
			if b == tee[0].Block() && e.From.Dominates(tee[0].Block()) {
				okAlways = true
			}
		}
		c.Decide(okAlways, "C18.body", fk, "tee-whenever-body", w.Pos(InstrPos(tee[0])), "the body is captured on every attempt that has one (no other condition between the body test and the tee)", "the tee is reached from `req.Body != nil` only under a further condition: an attempt that is not captured cannot be replayed after a redirect")
	}
	nReset := 0
	for _, st := range fa.storesTo(`.*\.Body`) {
		v := fa.R.R(st.Val)
		if !strings.HasPrefix(v, "io.NopCloser(") {
			continue
		}
		nReset++
		c.Decide(v == "io.NopCloser("+bufT+")", "C18.body", fk, fmt.Sprintf("replay#%d %s", nReset, strings.SplitN(fa.R.R(st.Addr), ".", 2)[0][:1]), w.Pos(InstrPos(st)), "the request re-sent gets the buffered body (io.NopCloser over the tee buffer)", "body is reset to "+v)
		// only when the original request had a body
		hasBody := fa.MatchGuard(NePass("nil", `req\.Body`))
		c.Decide(len(hasBody) > 0 && fa.PathToInstrAvoiding(hasBody, st) == nil, "C18.body", fk, fmt.Sprintf("replay#%d only-with-body", nReset), w.Pos(InstrPos(st)), "the body is replayed only when the request has one", "reset reachable when req.Body is nil")
	}
	c.Decide(nReset == 2, "C18.body", fk, "both-retry-paths", w.Pos(doFn.Pos()), "both the redirect and the 401 retry reset the body", fmt.Sprintf("%d resets found", nReset))
	drain := fa.Calls(`io\.Copy`)
	cls := fa.Calls(`io\.ReadCloser\.Close`)
	okDrain := false
	for _, d := range drain {
		a := fa.CallArgs(d)
		if len(a) == 2 && strings.Contains(a[0], "io.Discard") && strings.HasSuffix(a[1], ".Body") {
			for _, cl := range cls {
				if instrDominates(d, cl) {
					okDrain = true
				}
			}
		}
	}
	c.Decide(okDrain, "C18.body", fk, "drain-and-close", w.Pos(doFn.Pos()), "the 401 response body is drained and closed before the retry", "no io.Copy(io.Discard, resp.Body) followed by resp.Body.Close()")

	// ---- header ---------------------------------------------------------------------------
	hfa, hg := checkGuards(w, c, "C18.header", "spnego.SetSPNEGOHeader", BoolErrSuccess(-1, 0), []GuardSpec{
		{Name: "acquire-cred", Desc: "AcquireCred error ⇒ return", Main: []GuardPat{EqPass("nil", `spnego\.\(\*SPNEGO\)\.AcquireCred\(spnego\.SPNEGOClient\(cl, .*\)\)`)}},
		{Name: "init-sec-context", Desc: "InitSecContext error ⇒ return", Main: []GuardPat{EqPass("nil", `spnego\.\(\*SPNEGO\)\.InitSecContext\(spnego\.SPNEGOClient\(cl, .*\)\)#1`)}},
		{Name: "marshal", Desc: "Marshal error ⇒ return", Main: []GuardPat{EqPass("nil", `gssapi\.ContextToken\.Marshal\(.*\)#1`)}},
	})
	if hfa != nil {
		sets := hfa.Calls(`net/http\.\(Header\)\.Set`)
		okSet := false
		for _, s := range sets {
			a := hfa.CallArgs(s)
			if len(a) == 3 && a[1] == `"Authorization"` && fullMatch(`\("Negotiate " \+ encoding/base64\.\(\*Encoding\)\.EncodeToString\(encoding/base64\.StdEncoding, gssapi\.ContextToken\.Marshal\(spnego\.\(\*SPNEGO\)\.InitSecContext\(spnego\.SPNEGOClient\(cl, .*\)\)#0\)#0\)\)`, a[2]) {
				okSet = true
				requireDominated(c, "C18.header", hfa, "header-after-success", "the Authorization header is set only after credential, context and marshalling succeeded", s, hg, "acquire-cred", "init-sec-context", "marshal")
			}
		}
		c.Decide(okSet, "C18.header", FuncKey(hfa.Fn), "authorization-value", w.Pos(hfa.Fn.Pos()), "Authorization = \"Negotiate \" + base64.StdEncoding(marshalled token from InitSecContext)", fmt.Sprintf("Header.Set calls: %v", renderCalls(hfa, sets)))
		// the mechanism is built for the SPN argument, or the one derived from the request
		okSPN := false
		for _, dc := range hfa.CallsDeep(`spnego\.SPNEGOClient`) {
			if a := dc.fa.CallArgs(dc.ci); fullMatch(`φ\((spn\|types\.\(PrincipalName\)\.PrincipalNameString\(spnego\.setRequestSPN\(r\)#0\)|types\.\(PrincipalName\)\.PrincipalNameString\(spnego\.setRequestSPN\(r\)#0\)\|spn)\)`, a[1]) {
				okSPN = true
			}
		}
		c.Decide(okSPN, "C18.header", FuncKey(hfa.Fn), "spn", w.Pos(hfa.Fn.Pos()), "the token is requested for the SPN argument, or for the SPN derived from the request URL when none is given", "SPNEGOClient is not built for φ(spn | setRequestSPN(r))")
		derived := hfa.MatchGuard(EqPass(`""`, "spn"))
		c.Decide(len(derived) > 0, "C18.header", FuncKey(hfa.Fn), "spn-derived-only-when-empty", w.Pos(hfa.Fn.Pos()), "the SPN is derived from the URL only when the argument is empty", "no test spn == \"\"")
	}
	if fn := w.Func("spnego.respUnauthorizedNegotiate"); fn == nil {
		c.Missing("C18.header", "spnego.respUnauthorizedNegotiate")
	} else {
		rfa := NewFuncAn(w, fn)
		st := rfa.MatchGuard(EqPass("401", `resp\.StatusCode`))
		hd := rfa.MatchGuard(EqPass(`"Negotiate"`, `net/http\.\(Header\)\.Get\(resp\.Header, "WWW-Authenticate"\)`))
		var trues []Exit
		for _, x := range rfa.Exits() {
			if v, known := rfa.knownBool(RetResults(x.Ret)[0], x.In); !known || v {
				trues = append(trues, x)
			}
		}
		good := len(st) > 0 && len(hd) > 0 && len(trues) > 0 && rfa.PathAvoiding(st, trues) == nil && rfa.PathAvoiding(hd, trues) == nil
		if !good {
			// the single-expression form: return status == 401 && header == Negotiate
			good = rfa.TrueImplies(EqPass("401", `resp\.StatusCode`)) && rfa.TrueImplies(EqPass(`"Negotiate"`, `net/http\.\(Header\)\.Get\(resp\.Header, "WWW-Authenticate"\)`))
		}
		c.Decide(good, "C18.header", FuncKey(fn), "challenge", w.Pos(fn.Pos()), "a challenge is status 401 with WWW-Authenticate: Negotiate", "true is returned without both tests")
	}
	// redirect drops the Authorization header of the target
	okDel := false
	delBlocks := map[*ssa.BasicBlock]bool{}
	for _, dc := range fa.CallsDeep(`net/http\.\(Header\)\.Del`) {
		a := dc.fa.CallArgs(dc.ci)
		if len(a) == 2 && a[1] == `"Authorization"` && strings.Contains(a[0], "reqTarget") && strings.HasSuffix(a[0], ".Header") {
			okDel = true
			delBlocks[dc.site.Block()] = true
		}
	}
	// … on every way to following the redirect (a used token must not be sent a second time: the
	// acceptor's replay cache refuses it), not only for some targets
	if okDel {
		removed := map[Edge]bool{}
		for _, b := range doFn.Blocks {
			for k, sb := range b.Succs {
				if delBlocks[sb] {
					removed[Edge{b, k}] = true
				}
			}
		}
		for _, ci := range fa.Calls(`spnego\.\(\*Client\)\.do`) {
			a := fa.CallArgs(ci)
			if len(a) < 2 || !strings.Contains(a[1], "reqTarget") || delBlocks[ci.Block()] {
				continue
			}
			if p := pathTo(doFn.Blocks[0], removed, nil, map[*ssa.BasicBlock]bool{ci.Block(): true}); p != nil && !delBlocks[doFn.Blocks[0]] {
				okDel = false
			}
		}
	}
	c.Decide(okDel, "C18.header", fk, "redirect-drops-authorization", w.Pos(doFn.Pos()), "the redirect target does not inherit the Authorization header", "no Header.Del(\"Authorization\") on the redirect target")
	// the retry sets the header with the client's krb5 client and SPN on the request that is re-sent
	checkCallsFA(c, "C18.header", fa, []CallSpec{
		{Name: "retry-sets-header", Desc: "on a challenge the header is set on the request that is re-sent, with the client's Kerberos client and SPN", Callee: `spnego\.SetSPNEGOHeader`, Want: `spnego\.SetSPNEGOHeader\(recv\.krb5Client, req, recv\.spn\)`},
	})

	// ---- token ------------------------------------------------------------------------------
	checkCalls(w, c, "C18.token", "spnego.NewNegTokenInitKRB5", []CallSpec{
		{Name: "ticket-and-key", Desc: "the mechanism token is built from the ticket and session key given", Callee: `spnego\.NewKRB5TokenAPREQ`, Want: `spnego\.NewKRB5TokenAPREQ\(cl, tkt, sessionKey, .*\)`},
	})
	checkCalls(w, c, "C18.token", "spnego.NewKRB5TokenAPREQ", []CallSpec{
		{Name: "apreq-ticket-and-key", Desc: "the AP-REQ is built from that ticket and session key", Callee: `messages\.NewAPReq`, Want: `messages\.NewAPReq\(tkt, sessionKey, spnego\.krb5TokenAuthenticator\(cl\.Credentials, GSSAPIFlags\)#0\)`},
	})
	checkCalls(w, c, "C18.token", "spnego.(*SPNEGO).InitSecContext", []CallSpec{
		{Name: "ticket-for-spn", Desc: "the service ticket is requested for the mechanism's SPN and its key goes into the token", Callee: `spnego\.NewNegTokenInitKRB5`,
			Want: `spnego\.NewNegTokenInitKRB5\(recv\.client, client\.\(\*Client\)\.GetServiceTicket\(recv\.client, recv\.spn\)#0, client\.\(\*Client\)\.GetServiceTicket\(recv\.client, recv\.spn\)#1\)`},
	})
	if v, ok := w.ConstInt("iana/chksumtype", "GSSAPI"); !ok || v != 32771 {
		c.Fail("C18.token", "iana/chksumtype", "const GSSAPI", "-", "the authenticator checksum type is 0x8003 (RFC 4121 §4.1.1)", fmt.Sprintf("constant is %d", v))
	} else {
		c.Ok("C18.token", "iana/chksumtype", "const GSSAPI", "-", "the authenticator checksum type is 0x8003 (RFC 4121 §4.1.1)")
	}
	if fn := w.Func("spnego.newAuthenticatorChksum"); fn == nil {
		c.Missing("C18.token", "spnego.newAuthenticatorChksum")
	} else {
		nfa := NewFuncAn(w, fn)
		okLen, okFlags, okSize := false, false, false
		for _, ci := range nfa.Calls(`.*littleEndian\)\.PutUint32`) {
			a := nfa.CallArgs(ci)
			if strings.HasSuffix(a[1], "[:4]") && a[2] == "16" {
				okLen = true
			}
			if strings.HasSuffix(a[1], "[20:24]") {
				okFlags = true
			}
		}
		for _, b := range fn.Blocks {
			for _, in := range b.Instrs {
				if v, ok := in.(ssa.Value); ok {
					if s := nfa.R.R(v); s == "local<[24]byte>[:24]" || s == "make([]byte, 24)" {
						okSize = true
					}
				}
			}
		}
		c.Decide(okLen && okFlags && okSize, "C18.token", FuncKey(fn), "layout", w.Pos(fn.Pos()), "the 0x8003 checksum is 24 bytes: Lgth = 16 little-endian at [0:4], flags little-endian at [20:24]", fmt.Sprintf("length field ok=%v flags field ok=%v 24 bytes=%v", okLen, okFlags, okSize))
	}
	checkCalls(w, c, "C18.token", "spnego.krb5TokenAuthenticator", []CallSpec{
		{Name: "authenticator-identity", Desc: "the authenticator names the client's realm and principal", Callee: `types\.NewAuthenticator`, Want: `types\.NewAuthenticator\(credentials\.\(\*Credentials\)\.Domain\(creds\), credentials\.\(\*Credentials\)\.CName\(creds\)\)`},
	})
	ruleC18Extras(w, c)
}

func ruleC18Extras(w *World, c *Check) {
	// ---- the bounding measure is monotone, the request is otherwise untouched --------------------
	if fn := w.Func("spnego.(*Client).do"); fn == nil {
		c.Missing("C18.measure", "spnego.(*Client).do")
	} else {
		fa := NewFuncAn(w, fn)
		fk := FuncKey(fn)
		n := 0
		for _, st := range fa.storesTo(`recv\.reqs`) {
			n++
			v := fa.R.R(st.Val)
			c.Decide(strings.HasPrefix(v, "append(recv.reqs, ["), "C18.measure", fk, fmt.Sprintf("reqs-store#%d", n), w.Pos(InstrPos(st)), "the redirect chain is only appended to", "stores "+trunc(v, 120)+" into the chain whose length bounds the recursion: resetting it lets challenge/redirect alternation run forever")
		}
		if n == 0 {
			c.Fail("C18.measure", fk, "reqs-store", w.Pos(fn.Pos()), "the redirect chain is recorded", "no store to recv.reqs")
		}
		// stores into fields of an *http.Request
		m := 0
		for _, b := range fn.Blocks {
			for _, in := range b.Instrs {
				st, ok := in.(*ssa.Store)
				if !ok {
					continue
				}
				fad, ok := st.Addr.(*ssa.FieldAddr)
				if !ok {
					continue
				}
				pt, ok := fad.X.Type().Underlying().(*types.Pointer)
				if !ok || pt.Elem().String() != "net/http.Request" {
					continue
				}
				fld := pt.Elem().Underlying().(*types.Struct).Field(fad.Field).Name()
				m++
				c.Decide(fld == "Body", "C18.request", fk, fmt.Sprintf("request-store#%d:%s", m, fld), w.Pos(InstrPos(st)), "only the Body reader of a request is replaced", "stores into Request."+fld+": the request that is replayed is no longer the original one (a declared length over a partly consumed buffer sends a truncated body)")
			}
		}
		if m == 0 {
			c.Fail("C18.request", fk, "request-store", w.Pos(fn.Pos()), "the body reader is replaced for replay", "no store into a request")
		}
	}
	// ---- the authenticator's identity ----------------------------------------------------------------------------
	if fn := w.Func("spnego.krb5TokenAuthenticator"); fn == nil {
		c.Missing("C18.identity", "spnego.krb5TokenAuthenticator")
	} else {
		checkCalls(w, c, "C18.identity", "spnego.krb5TokenAuthenticator", []CallSpec{
			{Name: "from-credentials", Desc: "the authenticator is created for the credentials' realm and name", Callee: `types\.NewAuthenticator`,
				Want: substParams(fn, `types\.NewAuthenticator\(credentials\.\(\*Credentials\)\.Domain\(@0\), credentials\.\(\*Credentials\)\.CName\(@0\)\)`), AllMustMatch: true},
		})
	}
	for _, fk := range []string{"spnego.krb5TokenAuthenticator", "spnego.NewKRB5TokenAPREQ"} {
		fn := w.Func(fk)
		if fn == nil {
			c.Missing("C18.identity", fk)
			continue
		}
		var bad []string
		for _, b := range fn.Blocks {
			for _, in := range b.Instrs {
				st, ok := in.(*ssa.Store)
				if !ok {
					continue
				}
				fad, ok := st.Addr.(*ssa.FieldAddr)
				if !ok {
					continue
				}
				pt, ok := fad.X.Type().Underlying().(*types.Pointer)
				if !ok || !strings.HasSuffix(pt.Elem().String(), "types.Authenticator") {
					continue
				}
				fld := pt.Elem().Underlying().(*types.Struct).Field(fad.Field).Name()
				if fld == "CRealm" || fld == "CName" {
					bad = append(bad, fld)
				}
			}
		}
		c.Decide(len(bad) == 0, "C18.identity", fk, "not-overwritten", w.Pos(fn.Pos()), "crealm and cname of the authenticator are not overwritten after it was created for the credentials", fmt.Sprintf("stores into Authenticator.%v: the acceptor compares them with the ticket's client and rejects a mismatch (cross-realm)", bad))
	}
}
