package main

// Canonical rendering of SSA values as access-path / expression strings.
//
// A rendered term is position-free and independent of local variable names:
//   recv.Ticket.DecryptedEncPart.CName
//   types.(PrincipalName).Equal(recv.Authenticator.CName, recv.Ticket.DecryptedEncPart.CName)
//   (time.(Time).Sub(time.(Time).UTC(time.Now()), X) > d)
// Parameters are rendered by name (exported-API anchors keep their parameter
// names; rule patterns can use @0,@1.. placeholders that are replaced by the
// actual names), the receiver as "recv". Loads through FieldAddr chains are
// rendered as the path (no explicit deref), conversions are transparent,
// phi nodes are rendered as φ(a|b) with sorted unique operands. Commutative
// operators have their operands sorted, "<" and "<=" are rewritten to ">" and
// ">=" with swapped operands, so the same comparison always has one spelling.

import (
	"fmt"
	"go/constant"
	"go/token"
	"go/types"
	"sort"
	"strings"

	"golang.org/x/tools/go/ssa"
)

const maxTermDepth = 14

type Renderer struct {
	w     *World
	fn    *ssa.Function
	memo  map[ssa.Value]string
	stack map[ssa.Value]bool
	// Forward: when true, loads from escaping scalar allocs with a unique store are forwarded.
	allocOrd map[*ssa.Alloc]int
	// subst renders parameters as the caller's argument terms (context-
	// sensitive rendering used by the interprocedural walkers).
	subst map[*ssa.Parameter]string
	// inlineGetters: render calls of pure field getters as the field path (opt-in per rule)
	inlineGetters bool
	noInline      bool // render helper calls as calls
	loopSyms      map[*ssa.Phi]string
	// inlineDepth: nesting of helper bodies rendered in place of their calls (see inlineResults)
	inlineDepth int
	// phiPick renders the listed phis as one chosen operand (the value on one incoming edge):
	// used to split a call whose arguments were merged by hoisting into one variant per edge
	phiPick map[*ssa.Phi]int
}

// newHelper: a module function that does not exist on the reference tree (reffuncs_gen.go) — the
// product of an extract-method refactoring. Its calls are rendered as its body and call/guard
// searches descend into it, so that moving code into a helper does not change what the rules see.
func newHelper(f *ssa.Function) bool {
	if f == nil || len(f.Blocks) == 0 || f.Pkg == nil || !inModule(f.Pkg.Pkg.Path()) || f.Synthetic != "" {
		return false
	}
	if len(refFuncs) == 0 {
		return false
	}
	root := f
	for root.Parent() != nil {
		root = root.Parent()
	}
	if _, ok := aliasOf(root); ok {
		return false
	}
	return !refFuncs[FuncKey(root)] && !refFuncs[FuncKey(f)]
}

// inlineAlways: helpers of the tree as read that only give names to sub-expressions of their one
// caller. Rules about that caller are stated over the inlined term, so they hold whether the helper
// exists or its body was written out in place.
var inlineAlways = map[string]bool{
	"crypto/rfc4757.deriveKeys": true, // k1 = key; k2 = HMAC(k1, T); k3 = HMAC(k2, checksum)
}

// inlineResults renders the results of a call of a new helper as the helper's own return
// expressions with the arguments substituted for its parameters (φ over several returns).
func (r *Renderer) inlineResults(c *ssa.CallCommon, depth int) ([]string, bool) {
	f, ok := c.Value.(*ssa.Function)
	if r.noInline {
		return nil, false
	}
	if !ok || c.IsInvoke() || !(newHelper(f) || inlineAlways[FuncKey(f)] || (r.inlineGetters && pureGetter(f))) || r.inlineDepth >= 3 || f == r.fn {
		return nil, false
	}
	// a helper that writes memory it also reads for its result (c.x = …; return c.x) is not the
	// expression it returns: the caller-side term would read as the value before the write
	if storesThenLoads(f) {
		return nil, false
	}
	sub := NewRenderer(r.w, f)
	sub.inlineDepth = r.inlineDepth + 1
	sub.inlineGetters = r.inlineGetters
	sub.subst = map[*ssa.Parameter]string{}
	for i, p := range f.Params {
		if i < len(c.Args) {
			sub.subst[p] = r.render(c.Args[i], depth+1)
		}
	}
	n := f.Signature.Results().Len()
	if n == 0 {
		return nil, false
	}
	sets := make([]map[string]bool, n)
	for i := range sets {
		sets[i] = map[string]bool{}
	}
	nret, nerr := 0, 0
	for _, b := range f.Blocks {
		if b == f.Recover || len(b.Instrs) == 0 {
			continue
		}
		ret, ok := b.Instrs[len(b.Instrs)-1].(*ssa.Return)
		if !ok {
			continue
		}
		rs := RetResults(ret)
		if len(rs) != n {
			return nil, false
		}
		// results other than the error are meaningful on the success returns only (the caller
		// tests the error first): an error return's zero values are not alternatives of the value
		errRet := false
		if n >= 2 && f.Signature.Results().At(n-1).Type().String() == "error" {
			if cst, isC := rs[n-1].(*ssa.Const); !(isC && cst.Value == nil) {
				if _, isPhi := rs[n-1].(*ssa.Phi); !isPhi {
					if _, isParam := rs[n-1].(*ssa.Parameter); !isParam {
						errRet = true
					}
				}
			}
			// `return f(x)`: every result is the same-numbered result of one call — the error is
			// nil exactly when the callee's was, and the values are the callee's values
			if errRet && forwardsTuple(rs) {
				errRet = false
			}
		}
		if !errRet {
			nret++
		} else {
			nerr++
		}
		for i, v := range rs {
			if errRet && i < n-1 {
				continue
			}
			t := sub.R(v)
			// loop symbols number the helper's own loops: spell them out for the caller
			for k := 0; k < 3 && strings.Contains(t, "$L"); k++ {
				t = sub.ExpandLoopSyms(t)
			}
			sets[i][t] = true
		}
	}
	for i := range sets {
		if len(sets[i]) == 0 {
			return nil, false
		}
	}
	if nret+nerr == 0 || nret > 6 || nerr > 16 {
		return nil, false
	}
	out := make([]string, n)
	for i, set := range sets {
		keys := make([]string, 0, len(set))
		for k := range set {
			keys = append(keys, k)
		}
		sort.Strings(keys)
		if len(keys) == 1 {
			out[i] = keys[0]
		} else {
			out[i] = "φ(" + strings.Join(keys, "|") + ")"
		}
	}
	return out, true
}

// storesThenLoads: f stores through a field address (not into a local) and a result of f is a load
// of a field of the same name.
func storesThenLoads(f *ssa.Function) bool {
	written := map[string]bool{}
	fieldName := func(fa *ssa.FieldAddr) string {
		if st, ok := fa.X.Type().Underlying().(*types.Pointer).Elem().Underlying().(*types.Struct); ok {
			return st.Field(fa.Field).Name()
		}
		return ""
	}
	rooted := func(v ssa.Value) bool { // not a local under construction
		for i := 0; i < 8; i++ {
			switch x := v.(type) {
			case *ssa.FieldAddr:
				v = x.X
			case *ssa.IndexAddr:
				v = x.X
			case *ssa.UnOp:
				v = x.X
			case *ssa.Alloc:
				return false
			default:
				return true
			}
		}
		return true
	}
	for _, b := range f.Blocks {
		for _, in := range b.Instrs {
			if st, ok := in.(*ssa.Store); ok {
				if fa, ok := st.Addr.(*ssa.FieldAddr); ok && rooted(fa.X) {
					written[fieldName(fa)] = true
				}
			}
		}
	}
	if len(written) == 0 {
		return false
	}
	for _, b := range f.Blocks {
		for _, in := range b.Instrs {
			ret, ok := in.(*ssa.Return)
			if !ok {
				continue
			}
			for _, rv := range RetResults(ret) {
				var walk func(v ssa.Value, d int) bool
				walk = func(v ssa.Value, d int) bool {
					if d > 6 {
						return false
					}
					switch x := v.(type) {
					case *ssa.UnOp:
						if fa, ok := x.X.(*ssa.FieldAddr); ok && x.Op == token.MUL && written[fieldName(fa)] {
							return true
						}
						return walk(x.X, d+1)
					case *ssa.Phi:
						for _, e := range x.Edges {
							if walk(e, d+1) {
								return true
							}
						}
					case *ssa.Convert:
						return walk(x.X, d+1)
					case *ssa.ChangeType:
						return walk(x.X, d+1)
					case *ssa.Slice:
						return walk(x.X, d+1)
					}
					return false
				}
				if walk(rv, 0) {
					return true
				}
			}
		}
	}
	return false
}

// shiftOrRead: b[i]<<24 | b[i+1]<<16 | b[i+2]<<8 | b[i+3] (any order of the operands, any width
// 2/4/8) is the hand-written form of binary.BigEndian.Uint32(b[i:i+4]); ascending shifts are the
// little-endian one. It is rendered as that call, so rules see one spelling.
func (r *Renderer) shiftOrRead(x *ssa.BinOp, depth int) (string, bool) {
	type term struct {
		idx, shift int64
	}
	var terms []term
	var base ssa.Value
	ok := true
	var walk func(v ssa.Value)
	walk = func(v ssa.Value) {
		if !ok {
			return
		}
		for {
			if cv, isC := v.(*ssa.Convert); isC {
				v = cv.X
				continue
			}
			break
		}
		if bo, isB := v.(*ssa.BinOp); isB && bo.Op == token.OR {
			walk(bo.X)
			walk(bo.Y)
			return
		}
		var shift int64
		if bo, isB := v.(*ssa.BinOp); isB && bo.Op == token.SHL {
			k, isK := bo.Y.(*ssa.Const)
			if !isK || k.Value == nil {
				ok = false
				return
			}
			sh, isI := constInt64(k.Value)
			if !isI {
				ok = false
				return
			}
			shift = sh
			v = bo.X
			for {
				if cv, isC := v.(*ssa.Convert); isC {
					v = cv.X
					continue
				}
				break
			}
		}
		ld, isL := v.(*ssa.UnOp)
		if !isL || ld.Op != token.MUL {
			ok = false
			return
		}
		ia, isIA := ld.X.(*ssa.IndexAddr)
		if !isIA {
			ok = false
			return
		}
		k, isK := ia.Index.(*ssa.Const)
		if !isK || k.Value == nil {
			ok = false
			return
		}
		idx, isI := constInt64(k.Value)
		if !isI || (base != nil && ia.X != base) {
			ok = false
			return
		}
		if _, isSl := ia.X.Type().Underlying().(*types.Slice); !isSl {
			ok = false
			return
		}
		base = ia.X
		terms = append(terms, term{idx, shift})
	}
	walk(x)
	n := int64(len(terms))
	if !ok || base == nil || (n != 2 && n != 4 && n != 8) {
		return "", false
	}
	sort.Slice(terms, func(i, j int) bool { return terms[i].idx < terms[j].idx })
	i0 := terms[0].idx
	be, le := true, true
	for k, t := range terms {
		if t.idx != i0+int64(k) {
			return "", false
		}
		if t.shift != 8*(n-1-int64(k)) {
			be = false
		}
		if t.shift != 8*int64(k) {
			le = false
		}
	}
	if !be && !le {
		return "", false
	}
	b := r.render(base, depth+1)
	whole := false
	if i0 == 0 {
		if sl, isSl := base.(*ssa.Slice); isSl && sl.High != nil {
			if k, isK := sl.High.(*ssa.Const); isK && k.Value != nil {
				if h, isI := constInt64(k.Value); isI && h == n {
					whole = true
				}
			}
		}
	}
	if !whole {
		b = fmt.Sprintf("%s[%d:%d]", b, i0, i0+n)
	}
	if be {
		return fmt.Sprintf("encoding/binary.(bigEndian).Uint%d(encoding/binary.BigEndian, %s)", 8*n, b), true
	}
	return fmt.Sprintf("encoding/binary.(littleEndian).Uint%d(encoding/binary.LittleEndian, %s)", 8*n, b), true
}

func intWidth(b *types.Basic) int {
	switch b.Kind() {
	case types.Int8, types.Uint8:
		return 8
	case types.Int16, types.Uint16:
		return 16
	case types.Int32, types.Uint32:
		return 32
	}
	return 64
}

// pureGetter: a module function that only reads a field path of its receiver / parameters and
// returns it (x.GetF() ≡ x.a.F): rendering the call as that path is always faithful.
func pureGetter(f *ssa.Function) bool {
	if f == nil || len(f.Blocks) != 1 || f.Pkg == nil || !inModule(f.Pkg.Pkg.Path()) || f.Signature.Results().Len() != 1 {
		return false
	}
	for _, in := range f.Blocks[0].Instrs {
		switch x := in.(type) {
		case *ssa.FieldAddr, *ssa.Field, *ssa.Return, *ssa.DebugRef:
		case *ssa.UnOp:
			if x.Op != token.MUL {
				return false
			}
		case *ssa.Alloc:
			if x.Heap {
				return false
			}
		case *ssa.Store:
			if _, isAlloc := x.Addr.(*ssa.Alloc); !isAlloc {
				return false
			}
			if _, isParam := x.Val.(*ssa.Parameter); !isParam {
				return false
			}
		default:
			return false
		}
	}
	return true
}

func NewRenderer(w *World, fn *ssa.Function) *Renderer {
	r := &Renderer{w: w, fn: fn, memo: map[ssa.Value]string{}, stack: map[ssa.Value]bool{}, allocOrd: map[*ssa.Alloc]int{}}
	return r
}

func shortType(t types.Type) string {
	return types.TypeString(t, func(p *types.Package) string {
		if p == nil {
			return ""
		}
		if inModule(p.Path()) {
			return relPkg(p.Path())
		}
		return p.Path()
	})
}

func pkgQual(p *types.Package) string {
	if p == nil {
		return ""
	}
	if inModule(p.Path()) {
		return relPkg(p.Path())
	}
	return p.Path()
}

// calleeName renders a static callee as pkg.Func or pkg.(T).Method / pkg.(*T).Method.
func calleeName(fn *ssa.Function) string {
	if fn == nil {
		return "?"
	}
	if k, ok := aliasOf(fn); ok {
		return k
	}
	if fn.Parent() != nil {
		return FuncKey(fn)
	}
	if fn.Pkg == nil && fn.Object() == nil {
		return fn.Name()
	}
	var pkg *types.Package
	if fn.Object() != nil {
		pkg = fn.Object().Pkg()
	} else if fn.Pkg != nil {
		pkg = fn.Pkg.Pkg
	}
	if recv := fn.Signature.Recv(); recv != nil {
		t := recv.Type()
		star := ""
		if p, ok := t.(*types.Pointer); ok {
			t = p.Elem()
			star = "*"
		}
		name := shortType(t)
		if n, ok := t.(*types.Named); ok {
			name = n.Obj().Name()
			if n.Obj().Pkg() != nil {
				pkg = n.Obj().Pkg()
			}
		}
		return fmt.Sprintf("%s.(%s%s).%s", pkgQual(pkg), star, name, fn.Name())
	}
	return pkgQual(pkg) + "." + fn.Name()
}

func constInt64(v constant.Value) (int64, bool) {
	if v == nil {
		return 0, false
	}
	if v.Kind() == constant.Int {
		return constant.Int64Val(v)
	}
	if v.Kind() == constant.Float {
		f, _ := constant.Float64Val(v)
		if f == float64(int64(f)) {
			return int64(f), true
		}
	}
	return 0, false
}

func renderConst(c *ssa.Const) string {
	if c.Value == nil {
		if _, ok := c.Type().Underlying().(*types.Struct); ok {
			return "zero(" + shortType(c.Type()) + ")"
		}
		return "nil"
	}
	switch c.Value.Kind() {
	case constant.String:
		return fmt.Sprintf("%q", constant.StringVal(c.Value))
	case constant.Bool:
		if constant.BoolVal(c.Value) {
			return "true"
		}
		return "false"
	}
	return c.Value.ExactString()
}

// R renders v.
func (r *Renderer) R(v ssa.Value) string {
	s := r.render(v, 0)
	if r.subst != nil && strings.Contains(s, "len(") {
		s = r.foldConstLens(s)
	}
	return s
}

// foldConstLens: after parameters were substituted by the caller's terms, len(f(…)) of a module
// function with a constant result length (a 16-byte header builder) is that constant — the same
// rendering the expression has when the call is written in place.
func (r *Renderer) foldConstLens(s string) string {
	if r.w == nil {
		return s
	}
	if r.w.constLenNames == nil {
		r.w.constLenNames = map[string]int64{}
		for _, f := range r.w.ModuleFuncs() {
			if n, ok := funcConstLen(f, 0); ok {
				r.w.constLenNames[calleeName(f)] = n
			}
		}
	}
	for name, n := range r.w.constLenNames {
		pre := "len(" + name + "("
		for {
			i := strings.Index(s, pre)
			if i < 0 {
				break
			}
			// find the parenthesis closing the call, then the one closing len
			j := i + len(pre)
			depth := 1
			for j < len(s) && depth > 0 {
				switch s[j] {
				case '(':
					depth++
				case ')':
					depth--
				}
				j++
			}
			if depth != 0 || j >= len(s) || s[j] != ')' {
				break
			}
			s = s[:i] + fmt.Sprint(n) + s[j+1:]
		}
	}
	return s
}

func (r *Renderer) render(v ssa.Value, depth int) string {
	if v == nil {
		return "<nil>"
	}
	if s, ok := r.memo[v]; ok {
		return s
	}
	if depth > maxTermDepth {
		return "…"
	}
	if r.stack[v] {
		return "↺"
	}
	r.stack[v] = true
	var s string
	if els, ok := r.constBytes(v); ok {
		s = bytesLiteral(els)
	} else {
		s = r.render1(v, depth)
	}
	delete(r.stack, v)
	if !strings.Contains(s, "↺") && !strings.Contains(s, "…") {
		r.memo[v] = s
	}
	return s
}

// constBytes: v is a fixed byte string (literal, constant accessor function, read-only package
// array): all spellings render as the literal.
func (r *Renderer) constBytes(v ssa.Value) ([]string, bool) {
	switch v.(type) {
	case *ssa.Call, *ssa.UnOp, *ssa.Slice:
	default:
		return nil, false
	}
	switch t := v.Type().Underlying().(type) {
	case *types.Slice:
		if !isByte(t.Elem()) {
			return nil, false
		}
	case *types.Array:
		if !isByte(t.Elem()) {
			return nil, false
		}
	default:
		return nil, false
	}
	return valueConstBytes(r.w, v, 0)
}

func (r *Renderer) args(vs []ssa.Value, depth int) string {
	out := make([]string, len(vs))
	for i, a := range vs {
		out[i] = r.render(a, depth+1)
	}
	return strings.Join(out, ", ")
}

// uniqueStore returns the single value stored to addr in its function, if the
// address is only ever stored to once (and that store is not in a loop with
// other definitions). Used to see through address-taken locals (closure
// captures, spilled parameters).
func uniqueStore(addr ssa.Value) ssa.Value {
	refs := addr.Referrers()
	if refs == nil {
		return nil
	}
	var st ssa.Value
	n := 0
	for _, in := range *refs {
		if s, ok := in.(*ssa.Store); ok && s.Addr == addr {
			st = s.Val
			n++
		}
	}
	if n == 1 {
		// closures that capture the alloc may store too
		if a, ok := addr.(*ssa.Alloc); ok {
			if closureStores(a) {
				return nil
			}
		}
		return st
	}
	return nil
}

// uniqueStoreInstr is uniqueStore returning the store instruction.
func uniqueStoreInstr(addr ssa.Value) *ssa.Store {
	refs := addr.Referrers()
	if refs == nil {
		return nil
	}
	var st *ssa.Store
	n := 0
	for _, in := range *refs {
		if s, ok := in.(*ssa.Store); ok && s.Addr == addr {
			st = s
			n++
		}
	}
	if n != 1 {
		return nil
	}
	if a, ok := addr.(*ssa.Alloc); ok && closureStores(a) {
		return nil
	}
	return st
}

func instrIndex(in ssa.Instruction) int {
	for i, x := range in.Block().Instrs {
		if x == in {
			return i
		}
	}
	return -1
}

// instrDominates: a executes before b on every path to b.
func instrDominates(a, b ssa.Instruction) bool {
	if a.Block() == b.Block() {
		return instrIndex(a) < instrIndex(b)
	}
	return a.Block().Dominates(b.Block())
}

// base renders the base of a field/index/load expression. A local that is
// assigned exactly once as a whole, by a store that dominates the use, is
// named by the stored value (spilled parameters, range copies, multi-value
// results kept in a variable).
func (r *Renderer) base(v ssa.Value, use ssa.Instruction, depth int) string {
	if a, ok := v.(*ssa.Alloc); ok {
		if st := uniqueStoreInstr(a); st != nil && st.Parent() == use.Parent() && instrDominates(st, use) {
			return r.render(st.Val, depth+1)
		}
		return r.allocName(a)
	}
	return r.render(v, depth+1)
}

// arrayLiteralElems returns the values stored into the constant-index slots of
// a local array that is only used as a literal (variadic argument packaging,
// composite array literals).
func arrayLiteralElems(a *ssa.Alloc) ([]ssa.Value, bool) {
	arr, ok := a.Type().(*types.Pointer).Elem().Underlying().(*types.Array)
	if !ok || arr.Len() > 64 || a.Referrers() == nil {
		return nil, false
	}
	els := make([]ssa.Value, arr.Len())
	for _, ref := range *a.Referrers() {
		switch x := ref.(type) {
		case *ssa.IndexAddr:
			c, ok := x.Index.(*ssa.Const)
			if !ok || c.Value == nil {
				return nil, false
			}
			i, ok := constInt64(c.Value)
			if !ok || i < 0 || i >= arr.Len() || x.Referrers() == nil {
				return nil, false
			}
			for _, r2 := range *x.Referrers() {
				st, ok := r2.(*ssa.Store)
				if !ok || st.Addr != x {
					return nil, false
				}
				if els[i] != nil {
					return nil, false
				}
				els[i] = st.Val
			}
		case *ssa.Slice:
		case *ssa.DebugRef:
		default:
			return nil, false
		}
	}
	return els, true
}

// closureStores reports whether some closure capturing alloc a stores to it.
func closureStores(a *ssa.Alloc) bool {
	refs := a.Referrers()
	if refs == nil {
		return false
	}
	for _, in := range *refs {
		mc, ok := in.(*ssa.MakeClosure)
		if !ok {
			continue
		}
		fn := mc.Fn.(*ssa.Function)
		for i, b := range mc.Bindings {
			if b != a {
				continue
			}
			fv := fn.FreeVars[i]
			if fvStored(fv, map[*ssa.FreeVar]bool{}) {
				return true
			}
		}
	}
	return false
}

func fvStored(fv *ssa.FreeVar, seen map[*ssa.FreeVar]bool) bool {
	if seen[fv] {
		return false
	}
	seen[fv] = true
	refs := fv.Referrers()
	if refs == nil {
		return false
	}
	for _, in := range *refs {
		switch x := in.(type) {
		case *ssa.Store:
			if x.Addr == fv {
				return true
			}
		case *ssa.MakeClosure:
			fn := x.Fn.(*ssa.Function)
			for i, b := range x.Bindings {
				if b == fv && fvStored(fn.FreeVars[i], seen) {
					return true
				}
			}
		}
	}
	return false
}

func (r *Renderer) allocName(a *ssa.Alloc) string {
	t := a.Type().(*types.Pointer).Elem()
	ord, ok := r.allocOrd[a]
	if !ok {
		// ordinal among allocs of the same type in the function (block order)
		n := 0
		fn := a.Parent()
		found := false
		if fn != nil {
			for _, l := range fn.Locals {
				if types.Identical(l.Type(), a.Type()) {
					if l == a {
						found = true
						break
					}
					n++
				}
			}
			if !found {
				for _, b := range fn.Blocks {
					for _, in := range b.Instrs {
						if x, ok := in.(*ssa.Alloc); ok && x.Heap && types.Identical(x.Type(), a.Type()) {
							if x == a {
								found = true
								break
							}
							n++
						}
					}
					if found {
						break
					}
				}
			}
		}
		ord = n
		r.allocOrd[a] = ord
	}
	if ord == 0 {
		return "local<" + shortType(t) + ">"
	}
	return fmt.Sprintf("local<%s>#%d", shortType(t), ord)
}

func (r *Renderer) render1(v ssa.Value, depth int) string {
	switch x := v.(type) {
	case *ssa.Parameter:
		if s, ok := r.subst[x]; ok {
			return s
		}
		fn := x.Parent()
		if fn != nil && fn.Signature.Recv() != nil && len(fn.Params) > 0 && fn.Params[0] == x {
			return "recv"
		}
		return x.Name()
	case *ssa.FreeVar:
		// resolve through the enclosing MakeClosure when unique
		fn := x.Parent()
		if fn != nil && fn.Parent() != nil {
			idx := -1
			for i, fv := range fn.FreeVars {
				if fv == x {
					idx = i
				}
			}
			if idx >= 0 {
				var binding ssa.Value
				n := 0
				for _, b := range fn.Parent().Blocks {
					for _, in := range b.Instrs {
						if mc, ok := in.(*ssa.MakeClosure); ok && mc.Fn == fn {
							binding = mc.Bindings[idx]
							n++
						}
					}
				}
				if n == 1 && binding != nil {
					pr := NewRenderer(r.w, fn.Parent())
					return "^" + pr.render(binding, depth+1)
				}
			}
		}
		return "free:" + x.Name()
	case *ssa.Const:
		return renderConst(x)
	case *ssa.Global:
		return pkgQual(x.Pkg.Pkg) + "." + x.Name()
	case *ssa.Function:
		return "func:" + calleeName(x)
	case *ssa.Builtin:
		return x.Name()
	case *ssa.Alloc:
		// a spilled parameter is named by the parameter
		// a local assigned exactly once as a whole is named by that value
		// (spilled parameters; `v, err := f()` whose address is taken later)
		if sv := uniqueStoreInstr(x); sv != nil {
			return r.render(sv.Val, depth+1)
		}
		return r.allocName(x)
	case *ssa.FieldAddr:
		st := x.X.Type().Underlying().(*types.Pointer).Elem().Underlying().(*types.Struct)
		return r.base(x.X, x, depth) + "." + st.Field(x.Field).Name()
	case *ssa.Field:
		st := x.X.Type().Underlying().(*types.Struct)
		return r.render(x.X, depth+1) + "." + st.Field(x.Field).Name()
	case *ssa.IndexAddr:
		return r.base(x.X, x, depth) + "[" + r.render(x.Index, depth+1) + "]"
	case *ssa.Index:
		return r.render(x.X, depth+1) + "[" + r.render(x.Index, depth+1) + "]"
	case *ssa.Lookup:
		return r.render(x.X, depth+1) + "[" + r.render(x.Index, depth+1) + "]"
	case *ssa.Slice:
		lo, hi := "", ""
		if x.Low != nil {
			lo = r.render(x.Low, depth+1)
		}
		if x.High != nil {
			hi = r.render(x.High, depth+1)
		}
		if lo == "" && hi == "" {
			// x[:] of an array: variadic packaging — render the elements
			if a, ok := x.X.(*ssa.Alloc); ok {
				if els, ok := arrayLiteralElems(a); ok {
					parts := make([]string, len(els))
					for i, e := range els {
						if e == nil {
							parts[i] = "_"
						} else {
							parts[i] = r.render(e, depth+1)
						}
					}
					return "[" + strings.Join(parts, ", ") + "]"
				}
			}
			return r.render(x.X, depth+1) + "[:]"
		}
		return r.render(x.X, depth+1) + "[" + lo + ":" + hi + "]"
	case *ssa.UnOp:
		switch x.Op {
		case token.MUL:
			// load
			switch a := x.X.(type) {
			case *ssa.FieldAddr, *ssa.IndexAddr:
				return r.render(a, depth) // path, no explicit deref
			case *ssa.Alloc:
				return r.base(a, x, depth)
			case *ssa.FreeVar:
				s := r.render(a, depth+1)
				// ^local<T> of a spilled parameter: see through
				return s
			case *ssa.Global:
				return r.render(a, depth+1)
			}
			return "*" + r.render(x.X, depth+1)
		case token.NOT:
			return "!" + r.render(x.X, depth+1)
		case token.SUB:
			return "-" + r.render(x.X, depth+1)
		case token.XOR:
			return "^" + r.render(x.X, depth+1)
		case token.ARROW:
			return "<-" + r.render(x.X, depth+1)
		}
		return x.Op.String() + r.render(x.X, depth+1)
	case *ssa.BinOp:
		// the "index + 1" of a lowered range loop is the loop variable
		if phi, ok := x.X.(*ssa.Phi); ok && phi.Comment == "rangeindex" && x.Op == token.ADD {
			if c, ok := x.Y.(*ssa.Const); ok && c.Value != nil && c.Value.ExactString() == "1" {
				return r.loopVar(phi)
			}
		}
		if x.Op == token.OR {
			if s, ok := r.shiftOrRead(x, depth); ok {
				return s
			}
		}
		a, b := r.render(x.X, depth+1), r.render(x.Y, depth+1)
		op := x.Op
		switch op {
		case token.LSS:
			op, a, b = token.GTR, b, a
		case token.LEQ:
			op, a, b = token.GEQ, b, a
		case token.EQL, token.NEQ, token.ADD, token.MUL, token.AND, token.OR, token.XOR:
			if isCommutativeType(x.X.Type(), op) && b < a {
				a, b = b, a
			}
		}
		return "(" + a + " " + op.String() + " " + b + ")"
	case *ssa.Call:
		if res, ok := r.inlineResults(&x.Call, depth); ok && len(res) == 1 {
			return res[0]
		}
		return r.renderCall(&x.Call, depth)
	case *ssa.Extract:
		if call, isCall := x.Tuple.(*ssa.Call); isCall {
			if res, ok := r.inlineResults(&call.Call, depth); ok && x.Index < len(res) {
				return res[x.Index]
			}
		}
		return r.render(x.Tuple, depth+1) + fmt.Sprintf("#%d", x.Index)
	case *ssa.Phi:
		if k, ok := r.phiPick[x]; ok && k < len(x.Edges) {
			return r.render(x.Edges[k], depth+1)
		}
		if x.Comment == "rangeindex" {
			return r.loopVar(x)
		}
		// a loop-carried phi (one that depends on itself) is a symbol
		if sym, ok := r.loopPhiSym(x); ok {
			return sym
		}
		set := map[string]bool{}
		for _, e := range x.Edges {
			set[r.render(e, depth+1)] = true
		}
		keys := make([]string, 0, len(set))
		for k := range set {
			if k == "↺" {
				continue
			}
			keys = append(keys, k)
		}
		sort.Strings(keys)
		if len(keys) == 1 {
			return keys[0]
		}
		return "φ(" + strings.Join(keys, "|") + ")"
	case *ssa.Convert:
		// a narrowing integer conversion loses information (two different values can become equal):
		// it is part of the term. Widening and same-width conversions are not shown.
		if fb, ok1 := x.X.Type().Underlying().(*types.Basic); ok1 && fb.Info()&types.IsInteger != 0 {
			if tb, ok2 := x.Type().Underlying().(*types.Basic); ok2 && tb.Info()&types.IsInteger != 0 {
				if _, isConst := x.X.(*ssa.Const); !isConst && intWidth(tb) < intWidth(fb) {
					return tb.Name() + "(" + r.render(x.X, depth+1) + ")"
				}
			}
		}
		return r.render(x.X, depth)
	case *ssa.ChangeType:
		return r.render(x.X, depth)
	case *ssa.ChangeInterface:
		return r.render(x.X, depth)
	case *ssa.MakeInterface:
		return r.render(x.X, depth)
	case *ssa.SliceToArrayPointer:
		return r.render(x.X, depth)
	case *ssa.MultiConvert:
		return r.render(x.X, depth)
	case *ssa.TypeAssert:
		if x.CommaOk {
			return r.render(x.X, depth+1) + ".(" + shortType(x.AssertedType) + ",ok)"
		}
		return r.render(x.X, depth+1) + ".(" + shortType(x.AssertedType) + ")"
	case *ssa.MakeSlice:
		return "make(" + shortType(x.Type()) + ", " + r.render(x.Len, depth+1) + ")"
	case *ssa.MakeMap:
		return "make(" + shortType(x.Type()) + ")"
	case *ssa.MakeChan:
		return "make(" + shortType(x.Type()) + ", " + r.render(x.Size, depth+1) + ")"
	case *ssa.MakeClosure:
		return "closure:" + FuncKey(x.Fn.(*ssa.Function))
	case *ssa.Range:
		return "range(" + r.render(x.X, depth+1) + ")"
	case *ssa.Next:
		return "next(" + r.render(x.Iter, depth+1) + ")"
	case *ssa.Select:
		return "select"
	}
	return fmt.Sprintf("?%T", v)
}

// loopPhiSym names loop-carried phis $L0, $L1, … in order of appearance.
func (r *Renderer) loopPhiSym(phi *ssa.Phi) (string, bool) {
	if r.loopSyms == nil {
		r.loopSyms = map[*ssa.Phi]string{}
		n := 0
		fn := phi.Parent()
		for _, b := range fn.Blocks {
			for _, in := range b.Instrs {
				p, ok := in.(*ssa.Phi)
				if !ok {
					break
				}
				if p.Comment == "rangeindex" {
					continue
				}
				if phiDependsOnSelf(p) {
					r.loopSyms[p] = fmt.Sprintf("$L%d", n)
					n++
				}
			}
		}
	}
	s, ok := r.loopSyms[phi]
	return s, ok
}

// phiDependsOnSelf: following operands (through any value) leads back to the phi.
func phiDependsOnSelf(phi *ssa.Phi) bool {
	seen := map[ssa.Value]bool{}
	var rec func(v ssa.Value, depth int) bool
	rec = func(v ssa.Value, depth int) bool {
		if v == nil || depth > 40 {
			return false
		}
		if v == ssa.Value(phi) && depth > 0 {
			return true
		}
		if seen[v] {
			return false
		}
		seen[v] = true
		in, ok := v.(ssa.Instruction)
		if !ok {
			return false
		}
		for _, op := range in.Operands(nil) {
			if op != nil && *op != nil && rec(*op, depth+1) {
				return true
			}
		}
		return false
	}
	return rec(phi, 0)
}

// ExpandLoopSyms replaces each $Lk in s by φ⟲(operands…) of the loop-carried
// phi it names (one level; nested self references stay symbolic).
func (r *Renderer) ExpandLoopSyms(s string) string {
	if !strings.Contains(s, "$L") {
		return s
	}
	defs := map[string]string{}
	for phi, sym := range r.loopSyms {
		set := map[string]bool{}
		for _, d := range r.PhiDef(phi) {
			set[d] = true
		}
		keys := make([]string, 0, len(set))
		for k := range set {
			keys = append(keys, k)
		}
		sort.Strings(keys)
		defs[sym] = "φ⟲(" + strings.Join(keys, "|") + ")"
	}
	var sb strings.Builder
	for i := 0; i < len(s); {
		if strings.HasPrefix(s[i:], "$L") {
			j := i + 2
			for j < len(s) && s[j] >= '0' && s[j] <= '9' {
				j++
			}
			if def, ok := defs[s[i:j]]; ok && j > i+2 {
				sb.WriteString(def)
				i = j
				continue
			}
		}
		sb.WriteByte(s[i])
		i++
	}
	return sb.String()
}

// PhiDef renders the definition of a loop-carried phi: its operands.
func (r *Renderer) PhiDef(phi *ssa.Phi) []string {
	var out []string
	for _, e := range phi.Edges {
		out = append(out, r.R(e))
	}
	return out
}

// loopVar names the index of a lowered range loop: $i0, $i1, ... by order of
// appearance in the function.
func (r *Renderer) loopVar(phi *ssa.Phi) string {
	n := 0
	for _, b := range phi.Parent().Blocks {
		for _, in := range b.Instrs {
			p, ok := in.(*ssa.Phi)
			if !ok {
				break
			}
			if p == phi {
				return fmt.Sprintf("$i%d", n)
			}
			if p.Comment == "rangeindex" {
				n++
			}
		}
	}
	return "$i"
}

func isCommutativeType(t types.Type, op token.Token) bool {
	if op == token.ADD {
		// string concatenation is not commutative
		if b, ok := t.Underlying().(*types.Basic); ok && b.Info()&types.IsString != 0 {
			return false
		}
	}
	return true
}

func (r *Renderer) renderCall(c *ssa.CallCommon, depth int) string {
	if c.IsInvoke() {
		recvT := shortType(c.Value.Type())
		return fmt.Sprintf("%s.%s(%s)", recvT, c.Method.Name(), r.args(append([]ssa.Value{c.Value}, c.Args...), depth))
	}
	switch f := c.Value.(type) {
	case *ssa.Function:
		return calleeName(f) + "(" + r.args(refOrderArgs(f, c.Args), depth) + ")"
	case *ssa.Builtin:
		if f.Name() == "len" && len(c.Args) == 1 {
			if call, ok := c.Args[0].(*ssa.Call); ok {
				if g := call.Call.StaticCallee(); g != nil {
					if n, ok := funcConstLen(g, 0); ok {
						return fmt.Sprint(n)
					}
				}
			}
		}
		return f.Name() + "(" + r.args(c.Args, depth) + ")"
	case *ssa.MakeClosure:
		return "closure:" + FuncKey(f.Fn.(*ssa.Function)) + "(" + r.args(c.Args, depth) + ")"
	}
	return "dyn:" + r.render(c.Value, depth+1) + "(" + r.args(c.Args, depth) + ")"
}

// substParams replaces @0,@1,... placeholders in a pattern by the actual
// parameter names of fn (receiver excluded from numbering), and translates the
// parameter names the pattern was written with (the names on the tree the rule
// tables were transcribed from, frozen in refParams) to the names the
// function has now — so renaming a parameter does not trip a rule.
func substParams(fn *ssa.Function, pat string) string {
	params := fn.Params
	isMethod := fn.Signature.Recv() != nil
	if isMethod && len(params) > 0 {
		params = params[1:]
	}
	// the function's parameters in reference order (see sigalias.go); names[i] is what the i-th
	// reference parameter (receiver excluded) is called in the function now
	key := FuncKey(fn)
	if a, ok := aliasOf(fn); ok {
		key = a
	}
	var names []string
	recvNow := "" // what the reference receiver is called now (when it is no longer the receiver)
	if perm := permOf(fn); perm != nil {
		off := 0
		if refIsMethod(key) {
			off = 1
			if !(isMethod && perm[0] == 0) {
				recvNow = fn.Params[perm[0]].Name()
			}
		}
		for i := off; i < len(perm); i++ {
			p := fn.Params[perm[i]]
			if isMethod && perm[i] == 0 {
				names = append(names, "recv")
			} else {
				names = append(names, p.Name())
			}
		}
	} else {
		for _, p := range params {
			names = append(names, p.Name())
		}
	}
	// replace higher indexes first (@10 before @1)
	for i := len(names) - 1; i >= 0; i-- {
		pat = strings.ReplaceAll(pat, fmt.Sprintf("@%d", i), names[i])
	}
	ref, ok := refParams[key]
	if !ok || len(ref) != len(names) {
		return pat
	}
	ren := map[string]string{}
	for i, n := range names {
		if ref[i] != n && ref[i] != "" && ref[i] != "_" {
			ren[ref[i]] = n
		}
	}
	if recvNow != "" {
		ren["recv"] = recvNow
	}
	if len(ren) == 0 {
		return pat
	}
	return renameIdents(pat, ren)
}

// renameIdents replaces whole identifiers that are not field selectors
// (preceded by '.') nor regexp escapes (preceded by a backslash).
func renameIdents(pat string, ren map[string]string) string {
	var sb strings.Builder
	i := 0
	isId := func(c byte) bool {
		return c == '_' || (c >= 'a' && c <= 'z') || (c >= 'A' && c <= 'Z') || (c >= '0' && c <= '9')
	}
	for i < len(pat) {
		c := pat[i]
		if isId(c) && !(c >= '0' && c <= '9') {
			j := i
			for j < len(pat) && isId(pat[j]) {
				j++
			}
			id := pat[i:j]
			prev := byte(0)
			if i > 0 {
				prev = pat[i-1]
			}
			if to, ok := ren[id]; ok && prev != '.' && prev != '\\' && prev != '/' && !(j < len(pat) && pat[j] == '/') && !qualifierAt(pat, j) && !methodExprType(pat, i, j) {
				sb.WriteString(to)
			} else {
				sb.WriteString(id)
			}
			i = j
			continue
		}
		sb.WriteByte(c)
		i++
	}
	return sb.String()
}

// methodExprType: the identifier pat[i:j] is the type of a method expression pkg.(T).M or
// pkg.(*T).M (possibly regexp-escaped), not a value.
func methodExprType(pat string, i, j int) bool {
	before, after := pat[:i], pat[j:]
	if !(strings.HasPrefix(after, `).`) || strings.HasPrefix(after, `\)\.`)) {
		return false
	}
	for _, suf := range []string{`.(*`, `.(`, `\.\(\*`, `\.\(`} {
		if strings.HasSuffix(before, suf) {
			return true
		}
	}
	return false
}

// qualifierAt: the identifier ending at j is a package qualifier — it is followed by ".(" (a
// method expression pkg.(T).M) or by ".Name(" (a package-level function) — and not a parameter
// (whose uses are followed by a field selector, a comma or a bracket). Patterns are regexps, so
// the dot and the parenthesis may be backslash-escaped.
func qualifierAt(pat string, j int) bool {
	k := j
	if strings.HasPrefix(pat[k:], `\.`) {
		k += 2
	} else if strings.HasPrefix(pat[k:], `.`) {
		k++
	} else {
		return false
	}
	if strings.HasPrefix(pat[k:], `\(`) || strings.HasPrefix(pat[k:], `(`) {
		return true
	}
	m := k
	for m < len(pat) && (pat[m] == '_' || (pat[m] >= 'a' && pat[m] <= 'z') || (pat[m] >= 'A' && pat[m] <= 'Z') || (pat[m] >= '0' && pat[m] <= '9')) {
		m++
	}
	if m == k {
		return false
	}
	return strings.HasPrefix(pat[m:], `\(`) || strings.HasPrefix(pat[m:], `(`)
}

// funcConstLen: every return of the module function f yields (as its only result) a slice of one
// constant length: a make with a constant size, a slice of a whole local array, or such a value
// of another module function.
func funcConstLen(f *ssa.Function, depth int) (int64, bool) {
	if f == nil || depth > 2 || len(f.Blocks) == 0 || f.Pkg == nil || !inModule(f.Pkg.Pkg.Path()) || f.Signature.Results().Len() != 1 {
		return 0, false
	}
	if _, ok := f.Signature.Results().At(0).Type().Underlying().(*types.Slice); !ok {
		return 0, false
	}
	var n int64 = -1
	for _, b := range f.Blocks {
		if len(b.Instrs) == 0 || b == f.Recover {
			continue
		}
		ret, ok := b.Instrs[len(b.Instrs)-1].(*ssa.Return)
		if !ok {
			continue
		}
		rs := RetResults(ret)
		if len(rs) != 1 {
			return 0, false
		}
		var l int64 = -1
		switch x := rs[0].(type) {
		case *ssa.MakeSlice:
			if c, ok := x.Len.(*ssa.Const); ok && c.Value != nil {
				if v, exact := constant.Int64Val(c.Value); exact {
					l = v
				}
			}
		case *ssa.Slice:
			if x.Low == nil {
				if p, ok := x.X.Type().Underlying().(*types.Pointer); ok {
					if a, ok := p.Elem().Underlying().(*types.Array); ok {
						if x.High == nil {
							l = a.Len()
						} else if c, ok := x.High.(*ssa.Const); ok && c.Value != nil {
							if v, exact := constant.Int64Val(c.Value); exact && v <= a.Len() {
								l = v
							}
						}
					}
				}
			}
		case *ssa.Call:
			if g := x.Call.StaticCallee(); g != nil {
				if v, ok := funcConstLen(g, depth+1); ok {
					l = v
				}
			}
		}
		if l < 0 || (n >= 0 && n != l) {
			return 0, false
		}
		n = l
	}
	return n, n >= 0
}

// forwardsTuple: rs are the results 0..n-1, in order, of one call.
func forwardsTuple(rs []ssa.Value) bool {
	var tup ssa.Value
	for i, v := range rs {
		ex, ok := v.(*ssa.Extract)
		if !ok || ex.Index != i || (tup != nil && ex.Tuple != tup) {
			return false
		}
		tup = ex.Tuple
	}
	return tup != nil
}
