package main

// C17 — GSS-API MIC and Wrap tokens follow RFC 4121 §4.2.6 and bind header and payload.

import (
	"fmt"
	"regexp"
	"sort"
	"strings"

	"golang.org/x/tools/go/ssa"
)

func init() {
	register(&Property{
		ID:      "C17",
		Run:     runC17,
		Explain: "(1) header layout, writer ↔ reader ↔ RFC 4121 §4.2.6.1/.2: the constant offsets, widths and byte order of every header field are extracted from the slice expressions and binary.BigEndian calls of WrapToken/MICToken Marshal, Unmarshal and the checksum-header builders and compared field by field (token id 05 04 / 04 04 at [0:2], flags at [2], filler FF at [3] / FF×5 at [3:8], EC [4:6] and RRC [6:8] big-endian 16, sequence number [8:16] big-endian 64, payload from 16, checksum in the last EC bytes / from 16); (2) checksum input: the buffer given to GetChecksumHash receives the payload first and then the 16-byte header into which Flags and SndSeqNum flow (EC and RRC zero for Wrap, §4.2.4), keyed by the key value, the etype of the key type and the usage parameter; (3) Verify returns true only after hmac.Equal of the whole computed and the whole presented checksum, computed by the same routine as SetChecksum; (4) decoder rejections on every path to success: short input, token id, filler, acceptor flag in both directions, EC larger than the remaining bytes; (5) key usages 22–25, flag bits 1/2/4, initiator tokens use usages 24 (seal) and 25 (sign), flags 0 and EC = GetHMACBitLength()/8. Checksum values are C07's non-claim. As re-built: writers and the checksum input are read as byte placements of the returned/hashed buffer (make+copy, append chains, literals, bytes.Buffer, helpers), identifier and filler bytes are folded from literals, accessor functions or read-only package arrays, decoder guards fall back to scenario evaluation, and Verify/checksum/Marshal write no byte of the token or the key.",
		NotDecided: []string{
			"checksum values reproduced by an independent implementation (cryptographic)",
		},
	})
}

// headerFields extracts "field → position" facts from a function: writes into
// / reads from constant offsets of the token buffer.
func headerFields(fa *FuncAn, buf string) map[string]string {
	out := map[string]string{}
	fn := fa.Fn
	off := func(s string) string { // the [lo:hi] / [i] suffix relative to buf
		i := strings.LastIndex(s, "[")
		if i < 0 {
			return ""
		}
		return strings.TrimSuffix(s[i+1:], "]")
	}
	for _, b := range fn.Blocks {
		for _, in := range b.Instrs {
			switch x := in.(type) {
			case *ssa.Store:
				a := fa.R.R(x.Addr)
				v := fa.R.R(x.Val)
				if strings.HasPrefix(a, buf+"[") {
					// writer: buf[i] = v
					out["W:"+fieldName(v)] = off(a)
				}
				if strings.HasPrefix(a, "recv.") {
					// reader: recv.F = <expr of b>
					f := strings.TrimPrefix(a, "recv.")
					switch {
					case strings.HasPrefix(v, "b["):
						out["R:"+f] = off(v)
					case strings.Contains(v, ".Uint16(encoding/binary.BigEndian, b["):
						out["R:"+f] = off(strings.TrimSuffix(v, ")")) + " BE16"
					case strings.Contains(v, ".Uint64(encoding/binary.BigEndian, b["):
						out["R:"+f] = off(strings.TrimSuffix(v, ")")) + " BE64"
					case strings.Contains(v, ".Uint16(encoding/binary.LittleEndian") || strings.Contains(v, ".Uint64(encoding/binary.LittleEndian") || strings.Contains(v, ".Uint32("):
						out["R:"+f] = "wrong-endian-or-width: " + trunc(v, 80)
					}
				}
			case *ssa.Call:
				name := fa.CalleeName(x)
				args := fa.CallArgs(x)
				switch {
				case strings.HasSuffix(name, "bigEndian).PutUint16") && len(args) == 3 && strings.HasPrefix(args[1], buf+"["):
					out["W:"+fieldName(args[2])] = off(args[1]) + " BE16"
				case strings.HasSuffix(name, "bigEndian).PutUint64") && len(args) == 3 && strings.HasPrefix(args[1], buf+"["):
					out["W:"+fieldName(args[2])] = off(args[1]) + " BE64"
				case (strings.Contains(name, "littleEndian") || strings.HasSuffix(name, "PutUint32")) && len(args) == 3 && strings.HasPrefix(args[1], buf+"["):
					out["W:"+fieldName(args[2])] = "wrong-endian-or-width: " + name
				case name == "copy" && len(args) == 2 && strings.HasPrefix(args[0], buf+"["):
					out["W:"+fieldName(args[1])] = off(args[0])
				case name == "bytes.Equal" && len(args) == 2:
					for i, a := range args {
						if strings.HasPrefix(a, "b[") {
							out["R:"+fieldName(args[1-i])] = off(a)
						}
					}
				}
			}
		}
	}
	for _, cd := range fa.Conds {
		if cd.Kind == "eq" && strings.HasPrefix(cd.R, "b[") && isConstTerm(cd.L) {
			out["R:const "+cd.L] = off(cd.R)
		}
	}
	return out
}

var encRe = regexp.MustCompile(`^(BE|LE)(\d+)\((.*)\)$`)
var byteListRe = regexp.MustCompile(`^\[(\d+(, \d+)*)\]$`)

// returnedBytes: the byte slice a function returns on its success exits (result index 0).
func returnedBytes(fa *FuncAn) []ssa.Value {
	var out []ssa.Value
	seen := map[ssa.Value]bool{}
	for _, x := range fa.Exits() {
		rs := RetResults(x.Ret)
		if len(rs) == 0 {
			continue
		}
		if len(rs) >= 2 && rs[len(rs)-1].Type().String() == "error" {
			if c, ok := rs[len(rs)-1].(*ssa.Const); !ok || c.Value != nil {
				continue
			}
		}
		if c, ok := rs[0].(*ssa.Const); ok && c.Value == nil {
			continue
		}
		if !seen[rs[0]] {
			seen[rs[0]] = true
			out = append(out, rs[0])
		}
	}
	return out
}

// writerFields reads "which field is written where" off the placements of an assembled buffer
// (see concat.go), whatever mix of make/copy/append/element stores builds it. id and filler name
// the constant runs the RFC fixes; any other non-zero constant in the buffer is reported as stray.
func writerFields(fa *FuncAn, v ssa.Value, id []string) map[string]string {
	ps, _ := fa.BufferPlaces(v)
	out := map[string]string{}
	consts := map[int64]string{}
	for _, p := range ps {
		what, enc := p.What, ""
		if m := encRe.FindStringSubmatch(what); m != nil {
			what, enc = m[3], " "+m[1]+m[2]
		}
		if len(p.o.Syms) == 0 {
			if m := byteListRe.FindStringSubmatch(what); m != nil && enc == "" {
				for i, e := range strings.Split(m[1], ", ") {
					consts[p.o.K+int64(i)] = e
				}
				continue
			}
			if isConstTerm(what) && enc == "" && p.End == p.o.addK(1).String() {
				consts[p.o.K] = what
				continue
			}
		}
		end := p.End
		out["W:"+fieldName(what)] = p.Off + ":" + end + enc
	}
	run := func(from int64, want []string) bool {
		for i, b := range want {
			if consts[from+int64(i)] != b {
				return false
			}
		}
		return true
	}
	if len(id) > 0 && run(0, id) {
		out["W:ID"] = fmt.Sprintf("0:%d", len(id))
		for i := range id {
			delete(consts, int64(i))
		}
	}
	if run(3, []string{"255", "255", "255", "255", "255"}) {
		out["W:Filler"] = "3:8"
		for i := int64(3); i < 8; i++ {
			delete(consts, i)
		}
	} else if consts[3] == "255" {
		out["W:const 255"] = "3:4"
		delete(consts, 3)
	}
	var stray []string
	for o, b := range consts {
		if b != "0" {
			stray = append(stray, fmt.Sprintf("%s@%d", b, o))
		}
	}
	sort.Strings(stray)
	if len(stray) > 0 {
		out["W:stray"] = strings.Join(stray, " ")
	}
	return out
}

func fieldName(v string) string {
	v = strings.TrimSuffix(v, "[:]")
	switch {
	case strings.HasPrefix(v, "recv."):
		return strings.TrimPrefix(v, "recv.")
	case v == "[5, 4]", v == "[4, 4]":
		return "ID " + v
	case v == "[255, 255, 255, 255, 255]":
		return "Filler"
	case strings.HasPrefix(v, "gssapi.(*MICToken).getMICChecksumHeader(recv)"):
		return "Header"
	case isConstTerm(v):
		return "const " + v
	}
	return v
}

func compareFields(c *Check, rule, fk, where string, got, want map[string]string) {
	for _, k := range sortedKeys(want) {
		g, ok := got[k]
		desc := fmt.Sprintf("%s at %s (RFC 4121 §4.2.6)", strings.SplitN(k, ":", 2)[1], want[k])
		if !ok {
			c.Fail(rule, fk, k, where, desc, fmt.Sprintf("no such header operation found; operations found: %v", got))
			continue
		}
		good := g == want[k]
		if strings.HasSuffix(want[k], ":*") {
			good = strings.HasPrefix(g, strings.TrimSuffix(want[k], "*"))
		}
		c.Decide(good, rule, fk, k, where, desc, "the code uses "+g)
	}
}

func runC17(w *World, c *Check) {
	c.Rule("C17.layout", "header fields sit at the RFC 4121 §4.2.6 offsets with the RFC's widths and byte order, on the writing and on the reading side", 22)
	c.Rule("C17.input", "the checksum covers payload ‖ header with the token's flags and sequence number, keyed by key value, key type and usage", 8)
	c.Rule("C17.faithful", "MICToken.Verify and WrapToken.Verify never return (false, nil)", 4)
	c.Rule("C17.verify", "Verify is true only for a whole-slice equality of the computed and the presented checksum", 4)
	c.Rule("C17.reject", "decoders reject short input, wrong token id, wrong filler, wrong direction flag (both ways) and an EC larger than the remaining bytes", 11)
	c.Rule("C17.no-clobber", "computing or verifying a token's checksum, and encoding the token, never write into the token's own payload or checksum bytes (nor the key): a token that was built or decoded still verifies afterwards", 8)
	ruleNoClobber(w, c, "C17.no-clobber", []string{"gssapi.(*WrapToken).computeCheckSum", "gssapi.(*WrapToken).Verify", "gssapi.(*WrapToken).Marshal", "gssapi.(*MICToken).checksum", "gssapi.(*MICToken).Verify", "gssapi.(*MICToken).Marshal"},
		"the method does not write into the bytes of its receiver's payload/checksum or of the key")
	c.Rule("C17.consts", "key usages 22–25, flag bits 1/2/4, token ids; initiator tokens: usage 24/25, flags 0, EC = HMAC length", 12)

	// ---- layout ---------------------------------------------------------------------------
	// Writers are read through the placements of the buffer they return (concat.go): the same
	// table holds for make+copy, append chains, literals and element stores. Constant byte strings
	// are folded to literals whether they come from an accessor function, a read-only package
	// array or a literal at the use site (constfold.go).
	type lay struct {
		fk     string
		writer bool
		id     []string
		want   map[string]string
	}
	wrapID, micID := []string{"5", "4"}, []string{"4", "4"}
	for _, l := range []lay{
		{"gssapi.(*WrapToken).Marshal", true, wrapID, map[string]string{"W:ID": "0:2", "W:Flags": "2:3", "W:const 255": "3:4", "W:EC": "4:6 BE16", "W:RRC": "6:8 BE16", "W:SndSeqNum": "8:16 BE64", "W:Payload": "16:16+len(recv.Payload)", "W:CheckSum": "16+len(recv.Payload):*"}},
		{"gssapi.(*WrapToken).Unmarshal", false, wrapID, map[string]string{"R:ID": "0:2", "R:Flags": "2", "R:const 255": "3", "R:EC": "4:6 BE16", "R:RRC": "6:8 BE16", "R:SndSeqNum": "8:16 BE64"}},
		{"gssapi.getChecksumHeader", true, wrapID, map[string]string{"W:senderSeqNum": "8:16 BE64"}},
		{"gssapi.(*MICToken).getMICChecksumHeader", true, micID, map[string]string{"W:ID": "0:2", "W:Flags": "2:3", "W:Filler": "3:8", "W:SndSeqNum": "8:16 BE64"}},
		{"gssapi.(*MICToken).Marshal", true, nil, map[string]string{"W:Header": "0:16", "W:Checksum": "16:*"}},
		{"gssapi.(*MICToken).Unmarshal", false, micID, map[string]string{"R:ID": "0:2", "R:Flags": "2", "R:Filler": "3:8", "R:SndSeqNum": "8:16 BE64", "R:Checksum": "16:"}},
	} {
		fn := w.Func(l.fk)
		if fn == nil {
			c.Missing("C17.layout", l.fk)
			continue
		}
		fa := NewFuncAn(w, fn)
		var got map[string]string
		if l.writer {
			got = map[string]string{}
			for _, v := range returnedBytes(fa) {
				for k, val := range writerFields(fa, v, l.id) {
					if old, dup := got[k]; dup && old != val {
						val = old + " | " + val
					}
					got[k] = val
				}
			}
			stray, has := got["W:stray"]
			c.Decide(!has, "C17.layout", l.fk, "W:no-stray-constant", w.Pos(fn.Pos()), "no constant other than the RFC's identifier and filler bytes is written into the token", "constant byte(s) "+stray)
		} else {
			got = headerFields(fa, "b")
			idKey := "R:ID [" + strings.Join(l.id, ", ") + "]"
			if v, ok := got[idKey]; ok {
				got["R:ID"] = v
			}
		}
		compareFields(c, "C17.layout", l.fk, w.Pos(fn.Pos()), got, l.want)
	}
	// Wrap payload / checksum positions on the reading side
	if fn := w.Func("gssapi.(*WrapToken).Unmarshal"); fn != nil {
		fa := NewFuncAn(w, fn)
		ec := `encoding/binary.(bigEndian).Uint16(encoding/binary.BigEndian, b[4:6])`
		got := map[string]string{}
		for _, st := range fa.storesTo(`recv\.(Payload|CheckSum)`) {
			got[strings.TrimPrefix(fa.R.R(st.Addr), "recv.")] = fa.R.R(st.Val)
		}
		c.Decide(got["Payload"] == "b[16:(len(b) - "+ec+")]", "C17.layout", FuncKey(fn), "R:Payload", w.Pos(fn.Pos()), "the payload is b[16 : len-EC]", "payload is "+got["Payload"])
		c.Decide(got["CheckSum"] == "b[(len(b) - "+ec+"):]", "C17.layout", FuncKey(fn), "R:CheckSum", w.Pos(fn.Pos()), "the checksum is the last EC bytes", "checksum is "+got["CheckSum"])
	}
	// the constant prefix of the Wrap checksum header: 05 04 flags FF 00 00 00 00 (EC and RRC zero, §4.2.4)
	if fn := w.Func("gssapi.getChecksumHeader"); fn != nil {
		fa := NewFuncAn(w, fn)
		ok := false
		detail := "no returned buffer"
		for _, v := range returnedBytes(fa) {
			hf := writerFields(fa, v, wrapID)
			flagsAt := ""
			clean := true
			for k, val := range hf {
				if strings.HasPrefix(val, "2:3") {
					flagsAt = k
				}
				for _, o := range []string{"4:", "5:", "6:", "7:"} {
					if strings.HasPrefix(val, o) {
						clean = false
					}
				}
			}
			_, stray := hf["W:stray"]
			ok = hf["W:ID"] == "0:2" && flagsAt == substParams(fn, "W:flags") && hf["W:const 255"] == "3:4" && clean && !stray
			detail = fmt.Sprintf("header fields %v", hf)
		}
		c.Decide(ok, "C17.layout", FuncKey(fn), "W:prefix", w.Pos(fn.Pos()), "the checksummed Wrap header is 05 04 ‖ flags ‖ FF ‖ EC=0 ‖ RRC=0 (RFC 4121 §4.2.4)", detail)
	}
	// ---- checksum input ------------------------------------------------------------------------
	for _, ck := range []struct{ fk, hdr string }{
		{"gssapi.(*WrapToken).computeCheckSum", `gssapi\.getChecksumHeader\(recv\.Flags, recv\.SndSeqNum\)`},
		{"gssapi.(*MICToken).checksum", `gssapi\.\(\*MICToken\)\.getMICChecksumHeader\(recv\)`},
	} {
		fn := w.Func(ck.fk)
		if fn == nil {
			c.Missing("C17.input", ck.fk)
			continue
		}
		fa := NewFuncAn(w, fn)
		// the checksummed bytes, however the buffer is assembled: payload at 0, the 16-byte header after it
		calls := fa.CallsDeep(`crypto/etype\.EType\.GetChecksumHash`)
		okFirst, okHdr, okKeyed := false, false, false
		detail := fmt.Sprintf("%d GetChecksumHash calls", len(calls))
		if len(calls) == 1 {
			dc := calls[0]
			args := dc.ci.Common().Args // key, data, usage (receiver is the interface value)
			if len(args) == 3 {
				ps, total := dc.fa.BufferPlaces(args[1])
				detail = "checksummed bytes: " + placesString(ps) + " (length " + total + ")"
				if len(ps) == 2 && total == "16+len(recv.Payload)" {
					okFirst = ps[0].What == "recv.Payload" && ps[0].Off == "0" && ps[0].End == "len(recv.Payload)"
					okHdr = fullMatch(ck.hdr+`(\[:\])?`, ps[1].What) && ps[1].Off == "len(recv.Payload)"
				}
				okKeyed = dc.fa.M(`crypto\.GetEtype\(key\.KeyType\)#0`, dc.fa.R.R(dc.ci.Common().Value)) && dc.fa.M(`key\.KeyValue`, dc.fa.R.R(args[0])) && dc.fa.M(`keyUsage`, dc.fa.R.R(args[2]))
			}
		}
		where := w.Pos(fn.Pos())
		c.Decide(okFirst, "C17.input", ck.fk, "payload-first", where, "the checksummed buffer starts with the payload", detail)
		c.Decide(okHdr, "C17.input", ck.fk, "header-after-payload", where, "the 16-byte header (with the token's flags and sequence number) follows the payload", detail)
		c.Decide(okKeyed, "C17.input", ck.fk, "keyed", where, "GetChecksumHash of the key's etype, with the key value, that buffer and the usage parameter", detail)
	}
	for _, sk := range []struct{ fk, call string }{
		{"gssapi.(*WrapToken).SetCheckSum", `gssapi\.\(\*WrapToken\)\.computeCheckSum\(recv, key, keyUsage\)`},
		{"gssapi.(*MICToken).SetChecksum", `gssapi\.\(\*MICToken\)\.checksum\(recv, key, keyUsage\)`},
	} {
		fn := w.Func(sk.fk)
		if fn == nil {
			c.Missing("C17.input", sk.fk)
			continue
		}
		fa := NewFuncAn(w, fn)
		ok := false
		for _, st := range fa.storesTo(`recv\.(CheckSum|Checksum)`) {
			if fa.M(sk.call+`#0`, fa.R.R(st.Val)) {
				ok = true
			}
		}
		c.Decide(ok, "C17.input", sk.fk, "same-routine", w.Pos(fn.Pos()), "the checksum set on a token is computed by the routine Verify uses, with the caller's key and usage", "the stored checksum is not that routine's result")
	}

	// ---- verify ----------------------------------------------------------------------------------
	for _, vk := range []struct{ fk, comp, field string }{
		{"gssapi.(*WrapToken).Verify", `gssapi\.\(\*WrapToken\)\.computeCheckSum\(recv, key, keyUsage\)`, "recv.CheckSum"},
		{"gssapi.(*MICToken).Verify", `gssapi\.\(\*MICToken\)\.checksum\(recv, key, keyUsage\)`, "recv.Checksum"},
	} {
		eq := `crypto/hmac\.Equal\((` + vk.comp + `#0, ` + q(vk.field) + `|` + q(vk.field) + `, ` + vk.comp + `#0)\)`
		checkGuards(w, c, "C17.verify", vk.fk, BoolErrSuccess(0, 1), []GuardSpec{
			{Name: "compute-ok", Desc: "a failing checksum computation ⇒ false", Main: []GuardPat{EqPass("nil", vk.comp+`#1`)}},
			{Name: "whole-compare", Desc: "true only when hmac.Equal(computed, presented) over the whole slices", Main: []GuardPat{TruePass(eq)}},
		})
	}

	// ---- decoder rejections ------------------------------------------------------------------------
	acc := `\(1 & b\[2\]\)`
	rej := func(fk, id string, filler []GuardPat, extra []GuardSpec) {
		specs := []GuardSpec{
			{Name: "short-input", Desc: "fewer than 16 bytes ⇒ error", Main: []GuardPat{{Kind: "gt", X: "16", Y: `len\(b\)`, PassWhen: false}}},
			{Name: "token-id", Desc: "token id mismatch ⇒ error", Main: []GuardPat{TruePass(`bytes\.Equal\(` + id + `, b\[0:2\]\)`), TruePass(`bytes\.Equal\(b\[0:2\], ` + id + `\)`)}},
			{Name: "filler", Desc: "filler mismatch ⇒ error", Main: filler},
			{Name: "unexpected-acceptor-flag", Desc: "acceptor flag set but not expected ⇒ error",
				Main:   []GuardPat{TruePass(`expectFromAcceptor`)},
				Unless: []GuardPat{NePass(acc, "1"), EqPass(acc, "0")}},
			{Name: "missing-acceptor-flag", Desc: "acceptor flag expected but clear ⇒ error",
				Main:   []GuardPat{FalsePass(`expectFromAcceptor`)},
				Unless: []GuardPat{EqPass(acc, "1"), NePass(acc, "0")}},
		}
		checkGuards(w, c, "C17.reject", fk, BoolErrSuccess(-1, 0), append(specs, extra...))
	}
	rej("gssapi.(*WrapToken).Unmarshal", `\[5, 4\]`, []GuardPat{EqPass("255", `b\[3\]`)}, []GuardSpec{
		{Name: "ec-sane", Desc: "EC larger than the bytes after the header ⇒ error", Main: []GuardPat{{Kind: "gt", X: `encoding/binary\.\(bigEndian\)\.Uint16\(encoding/binary\.BigEndian, b\[4:6\]\)`, Y: `\(len\(b\) - 16\)`, PassWhen: false}}},
	})
	rej("gssapi.(*MICToken).Unmarshal", `\[4, 4\]`, []GuardPat{TruePass(`bytes\.Equal\(b\[3:8\], \[255, 255, 255, 255, 255\]\)`), TruePass(`bytes\.Equal\(\[255, 255, 255, 255, 255\], b\[3:8\]\)`)}, nil)

	// ---- constants -------------------------------------------------------------------------------------
	for n, v := range map[string]int64{"GSSAPI_ACCEPTOR_SEAL": 22, "GSSAPI_ACCEPTOR_SIGN": 23, "GSSAPI_INITIATOR_SEAL": 24, "GSSAPI_INITIATOR_SIGN": 25} {
		got, ok := w.ConstInt("iana/keyusage", n)
		c.Decide(ok && got == v, "C17.consts", "iana/keyusage", "const "+n, "-", fmt.Sprintf("%s = %d (RFC 4121 §2)", n, v), fmt.Sprintf("is %d", got))
	}
	for n, v := range map[string]int64{"MICTokenFlagSentByAcceptor": 1, "MICTokenFlagSealed": 2, "MICTokenFlagAcceptorSubkey": 4} {
		got, ok := w.ConstInt("gssapi", n)
		c.Decide(ok && got == v, "C17.consts", "gssapi", "const "+n, "-", fmt.Sprintf("flag %s = %d (RFC 4121 §4.2.2)", n, v), fmt.Sprintf("is %d", got))
	}
	checkCalls(w, c, "C17.consts", "gssapi.NewInitiatorWrapToken", []CallSpec{
		{Name: "usage-24", Desc: "an initiator Wrap token is checksummed with usage 24 (initiator seal) and the caller's key", Callee: `gssapi\.\(\*WrapToken\)\.SetCheckSum`, Want: `gssapi\.\(\*WrapToken\)\.SetCheckSum\(.*, key, 24\)`},
	})
	checkCalls(w, c, "C17.consts", "gssapi.NewInitiatorMICToken", []CallSpec{
		{Name: "usage-25", Desc: "an initiator MIC token is checksummed with usage 25 (initiator sign) and the caller's key", Callee: `gssapi\.\(\*MICToken\)\.SetChecksum`, Want: `gssapi\.\(\*MICToken\)\.SetChecksum\(.*, key, 25\)`},
	})
	if fn := w.Func("gssapi.NewInitiatorWrapToken"); fn != nil {
		fa := NewFuncAn(w, fn)
		got := map[string]string{}
		for _, st := range fa.storesTo(`.*\.(Flags|EC|RRC|SndSeqNum|Payload)`) {
			a := fa.R.R(st.Addr)
			got[a[strings.LastIndex(a, ".")+1:]] = fa.R.R(st.Val)
		}
		ok := got["Flags"] == "0" && got["RRC"] == "0" && got["SndSeqNum"] == "0" && fa.M(`payload`, got["Payload"]) &&
			fa.M(`(?:uint16\()?\(crypto/etype\.EType\.GetHMACBitLength\(crypto\.GetEtype\(key\.KeyType\)#0\) / 8\)\)?`, got["EC"])
		c.Decide(ok, "C17.consts", FuncKey(fn), "fields", w.Pos(fn.Pos()), "initiator Wrap token: flags 0, RRC 0, EC = GetHMACBitLength()/8 of the key's etype, the caller's payload", fmt.Sprintf("fields %v", got))
	}
	ruleFalseHasError(w, c, "C17.faithful", "gssapi.(*MICToken).Verify", "gssapi.(*WrapToken).Verify")
}
