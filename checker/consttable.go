package main

// E5: tables evaluated from source. Constant folding over SSA for
// constant-returning methods, and extraction of `switch x { case K: … }`
// tables (case constant → outcome) from the branch structure.

import (
	"fmt"
	"go/constant"
	"go/token"
	"go/types"
	"sort"
	"strings"

	"golang.org/x/tools/go/ssa"
)

// evalValue folds an SSA value to a constant rendering. Supported: constants,
// integer arithmetic, conversions, calls of module functions/methods that
// themselves fold (receiver-only methods of zero-size types), function values
// (rendered by name), len of a constant string.
func evalValue(v ssa.Value, depth int) (string, bool) {
	if depth > 8 {
		return "", false
	}
	switch x := v.(type) {
	case *ssa.Const:
		return renderConst(x), true
	case *ssa.Function:
		return "func:" + calleeName(x), true
	case *ssa.Convert:
		return evalValue(x.X, depth+1)
	case *ssa.ChangeType:
		return evalValue(x.X, depth+1)
	case *ssa.MakeInterface:
		return evalValue(x.X, depth+1)
	case *ssa.BinOp:
		a, ok1 := evalValue(x.X, depth+1)
		b, ok2 := evalValue(x.Y, depth+1)
		if !ok1 || !ok2 {
			return "", false
		}
		av, bv := constant.MakeFromLiteral(a, token.INT, 0), constant.MakeFromLiteral(b, token.INT, 0)
		if av.Kind() != constant.Int || bv.Kind() != constant.Int {
			return "", false
		}
		switch x.Op {
		case token.ADD, token.SUB, token.MUL:
			return constant.BinaryOp(av, x.Op, bv).ExactString(), true
		case token.QUO:
			if constant.Sign(bv) == 0 {
				return "", false
			}
			return constant.BinaryOp(av, token.QUO_ASSIGN, bv).ExactString(), true
		}
		return "", false
	case *ssa.Call:
		if x.Call.IsInvoke() {
			// h.Size() of a hash obtained from a known constructor
			if x.Call.Method.Name() == "Size" {
				if hv, ok := evalValue(x.Call.Value, depth+1); ok && strings.HasPrefix(hv, "hash:") {
					if n, ok := hashSizes[strings.TrimPrefix(hv, "hash:")]; ok {
						return fmt.Sprint(n), true
					}
				}
			}
			return "", false
		}
		f := x.Call.StaticCallee()
		if f == nil {
			// call of a function value that folds to a known hash constructor
			if fv, ok := evalValue(x.Call.Value, depth+1); ok && strings.HasPrefix(fv, "func:") {
				if _, known := hashSizes[strings.TrimPrefix(fv, "func:")]; known {
					return "hash:" + strings.TrimPrefix(fv, "func:"), true
				}
			}
			return "", false
		}
		if len(f.Blocks) == 0 {
			return "", false
		}
		return evalFunc(f, depth+1)
	case *ssa.Extract:
		return "", false
	}
	return "", false
}

// output sizes of the stdlib hash constructors the etypes use
var hashSizes = map[string]int{
	"crypto/sha1.New":             20,
	"crypto/md5.New":              16,
	"crypto/sha256.New":           32,
	"crypto/sha512.New384":        48,
	"crypto/sha512.New":           64,
	"golang.org/x/crypto/md4.New": 16,
}

// evalFunc folds a function whose single return yields a constant.
func evalFunc(f *ssa.Function, depth int) (string, bool) {
	var out string
	n := 0
	for _, b := range f.Blocks {
		ret, ok := lastInstr(b).(*ssa.Return)
		if !ok || b == f.Recover {
			continue
		}
		rs := RetResults(ret)
		if len(rs) < 1 {
			return "", false
		}
		s, ok := evalValue(rs[0], depth)
		if !ok {
			return "", false
		}
		if n > 0 && s != out {
			return "", false
		}
		out = s
		n++
	}
	return out, n > 0
}

// caseTable extracts the table of a switch over `term` in the function:
// case constant → outcome, where the outcome is the rendering of what the
// case returns (first result) or of the phi operand it contributes at the
// merge point. "default" is the outcome when no case matches.
func (fa *FuncAn) caseTable(termPat string) (map[string]string, []string) {
	out, order := fa.caseTable1(termPat)
	if len(out) > 0 {
		return out, order
	}
	// a constant look-up table composed with another function's switch: v, ok := table[x];
	// if !ok {…}; return g(v) — the table of g with its keys renamed through the map
	if o, ord := fa.mapComposedTable(termPat); len(o) > 0 {
		return o, ord
	}
	// the switch was extracted into a helper introduced later: read it there, with the helper's
	// parameters rendered as this function's arguments
	for _, b := range fa.Fn.Blocks {
		for _, in := range b.Instrs {
			call, ok := in.(*ssa.Call)
			if !ok {
				continue
			}
			if g := call.Call.StaticCallee(); g != nil && newHelper(g) && fa.R.inlineDepth < 2 {
				sub := NewFuncAnCtx(fa.W, g, fa.CallArgs(call))
				sub.R.inlineDepth = fa.R.inlineDepth + 1
				if o, ord := sub.caseTable(termPat); len(o) > 0 {
					return o, ord
				}
			}
		}
	}
	return out, order
}

func (fa *FuncAn) caseTable1(termPat string) (map[string]string, []string) {
	out := map[string]string{}
	var order []string
	follow := func(e Edge) string {
		// walk forward from the edge through straight-line blocks
		from, b := e.From, e.To()
		for steps := 0; steps < 16; steps++ {
			// phi contribution?
			for _, in := range b.Instrs {
				phi, ok := in.(*ssa.Phi)
				if !ok {
					break
				}
				for i, p := range b.Preds {
					if p == from {
						return fa.R.R(phi.Edges[i])
					}
				}
			}
			switch t := lastInstr(b).(type) {
			case *ssa.Return:
				rs := RetResults(t)
				if len(rs) == 0 {
					return "return"
				}
				return fa.R.R(rs[0])
			case *ssa.Jump:
				from, b = b, b.Succs[0]
				continue
			}
			return "?"
		}
		return "?"
	}
	var last *Cond
	for i := range fa.Conds {
		c := fa.Conds[i]
		if c.Kind != "eq" {
			continue
		}
		var k string
		switch {
		case fullMatch(termPat, c.L) && isConstTerm(c.R):
			k = c.R
		case fullMatch(termPat, c.R) && isConstTerm(c.L):
			k = c.L
		default:
			continue
		}
		o := follow(Edge{c.If.Block(), c.HoldsSucc})
		if prev, dup := out[k]; dup && prev != o {
			o = prev + "|" + o
		}
		out[k] = o
		order = append(order, k)
		last = &fa.Conds[i]
	}
	if last != nil {
		// the default: not-holds edge of the If whose not-holds successor is not another case test
		for i := range fa.Conds {
			c := fa.Conds[i]
			if c.Kind != "eq" {
				continue
			}
			if _, isCase := out[pickConst(termPat, c)]; !isCase {
				continue
			}
			nh := Edge{c.If.Block(), 1 - c.HoldsSucc}
			nb := nh.To()
			isTest := false
			if iff, ok := lastInstr(nb).(*ssa.If); ok && len(nb.Instrs) <= 3 {
				cc := fa.CondOf(iff)
				if cc.Kind == "eq" && pickConst(termPat, cc) != "" {
					isTest = true
				}
			}
			if !isTest {
				out["default"] = follow(nh)
			}
		}
	}
	return out, order
}

func pickConst(termPat string, c Cond) string {
	switch {
	case fullMatch(termPat, c.L) && isConstTerm(c.R):
		return c.R
	case fullMatch(termPat, c.R) && isConstTerm(c.L):
		return c.L
	}
	return ""
}

// compareTable checks got against want cell by cell.
func compareTable(c *Check, rule, fnKey, where, what string, got, want map[string]string, exact bool) {
	keys := map[string]bool{}
	for k := range got {
		keys[k] = true
	}
	for k := range want {
		keys[k] = true
	}
	ks := sortedKeys(keys)
	for _, k := range ks {
		g, gok := got[k]
		wv, wok := want[k]
		switch {
		case wok && !gok:
			c.Fail(rule, fnKey, what+"["+k+"]", where, fmt.Sprintf("%s maps %s to %s", what, k, wv), "no such case in the source")
		case gok && !wok:
			if exact {
				c.Fail(rule, fnKey, what+"["+k+"]", where, fmt.Sprintf("%s has exactly the reference rows", what), fmt.Sprintf("extra case %s → %s", k, g))
			}
		case g != wv:
			c.Fail(rule, fnKey, what+"["+k+"]", where, fmt.Sprintf("%s maps %s to %s", what, k, wv), "source maps it to "+g)
		default:
			c.Ok(rule, fnKey, what+"["+k+"]", where, fmt.Sprintf("%s maps %s to %s", what, k, wv))
		}
	}
}

// etypeImpls returns the module's implementations of etype.EType keyed by
// short type name, plus the interface.
func etypeImpls(w *World) (map[string]types.Type, *types.Interface) {
	var iface *types.Interface
	if p := w.SSAPkgs["crypto/etype"]; p != nil {
		if tn, ok := p.Pkg.Scope().Lookup("EType").(*types.TypeName); ok {
			iface, _ = tn.Type().Underlying().(*types.Interface)
		}
	}
	if iface == nil {
		return nil, nil
	}
	out := map[string]types.Type{}
	for _, t := range w.Implementers(iface) {
		n := t
		if p, ok := n.(*types.Pointer); ok {
			n = p.Elem()
		}
		if nn, ok := n.(*types.Named); ok {
			out[nn.Obj().Name()] = t
		}
	}
	return out, iface
}

// etypeParam evaluates a constant-returning method of an etype.
func etypeParam(w *World, t types.Type, method string) (string, *ssa.Function, bool) {
	f := w.MethodOf(t, method)
	if f == nil {
		return "", nil, false
	}
	s, ok := evalFunc(f, 0)
	return s, f, ok
}

func sortedNames(m map[string]types.Type) []string {
	var out []string
	for k := range m {
		out = append(out, k)
	}
	sort.Strings(out)
	return out
}

var _ = strings.Join

// constMapOf: the contents of a package-level map that the package initialiser fills with constant
// keys and values and that nothing writes afterwards.
func (w *World) constMapOf(g *ssa.Global) map[string]string {
	if _, isMap := g.Type().(*types.Pointer).Elem().Underlying().(*types.Map); !isMap {
		return nil
	}
	if w.tableWriters(g) != "" || len(w.globalWriters()[g]) > 0 {
		return nil
	}
	if g.Pkg == nil {
		return nil
	}
	init := g.Pkg.Func("init")
	if init == nil {
		return nil
	}
	var mk ssa.Value
	for _, b := range init.Blocks {
		for _, in := range b.Instrs {
			if st, ok := in.(*ssa.Store); ok && st.Addr == ssa.Value(g) {
				mk = st.Val
			}
		}
	}
	if mk == nil || mk.Referrers() == nil {
		return nil
	}
	out := map[string]string{}
	for _, ref := range *mk.Referrers() {
		switch x := ref.(type) {
		case *ssa.MapUpdate:
			k, ok1 := x.Key.(*ssa.Const)
			v, ok2 := x.Value.(*ssa.Const)
			if !ok1 || !ok2 || k.Value == nil || v.Value == nil {
				return nil
			}
			out[k.Value.ExactString()] = v.Value.ExactString()
		case *ssa.Store, *ssa.DebugRef:
		default:
			return nil
		}
	}
	return out
}

func (fa *FuncAn) mapComposedTable(termPat string) (map[string]string, []string) {
	for _, b := range fa.Fn.Blocks {
		for _, in := range b.Instrs {
			lk, ok := in.(*ssa.Lookup)
			if !ok || !lk.CommaOk || !fullMatch(termPat, fa.R.R(lk.Index)) {
				continue
			}
			ld, ok := lk.X.(*ssa.UnOp)
			if !ok {
				continue
			}
			g, ok := ld.X.(*ssa.Global)
			if !ok {
				continue
			}
			m := fa.W.constMapOf(g)
			if m == nil {
				continue
			}
			var val ssa.Value
			for _, ref := range derefRefs(lk) {
				if ex, isEx := ref.(*ssa.Extract); isEx && ex.Index == 0 {
					val = ex
				}
			}
			if val == nil {
				continue
			}
			// the hit path: a call g(val) whose results are returned
			for _, ref := range derefRefs(val) {
				call, isCall := ref.(*ssa.Call)
				if !isCall || len(call.Call.Args) != 1 || call.Call.Args[0] != val {
					continue
				}
				callee := call.Call.StaticCallee()
				if callee == nil || len(callee.Blocks) == 0 || len(callee.Params) != 1 {
					continue
				}
				sub := NewFuncAn(fa.W, callee)
				inner, _ := sub.caseTable(q(callee.Params[0].Name()))
				if len(inner) == 0 {
					continue
				}
				out := map[string]string{}
				var order []string
				for k, v := range m {
					if r, has := inner[v]; has {
						out[k] = r
					} else if d, hasD := inner["default"]; hasD {
						out[k] = d
					}
					order = append(order, k)
				}
				sort.Strings(order)
				// the miss path: what the function returns when the key is not in the table
				for _, x := range fa.Exits() {
					rs := RetResults(x.Ret)
					if len(rs) > 0 {
						if s := fa.R.R(rs[0]); s == "nil" || strings.HasPrefix(s, "zero(") {
							out["default"] = s
						}
					}
				}
				return out, order
			}
		}
	}
	return nil, nil
}
