package main

// C15 — credential cache files of every format version parse to what was written.

import (
	"fmt"
	"go/types"
	"strings"

	"golang.org/x/tools/go/ssa"
)

func init() {
	register(&Property{
		ID:      "C15",
		Run:     runC15,
		Explain: "There is no ccache writer in the repository, so the oracle is the MIT credential-cache format description: (1) layout traces of CCache.Unmarshal, parseHeader, parsePrincipal, parseCredential, readData, readAddress, readAuthDataEntry and readTimestamp — field operations in control-flow order with their version conditions and loop context — equal the format's sequences for versions 1–4 (v4-only header, name type omitted and component count adjusted in v1, the doubled key type in v3, 32-bit lengths, the four times in authtime/starttime/endtime/renew-till order, is_skey, 4 flag bytes, counted address and authdata lists, ticket, second ticket), each stored into the field the format names; byte order is native for versions 1–2 and big-endian for 3–4; (2) accessors: GetEntry/Contains compare the server principal with the argument, GetEntries drops exactly the entries whose server realm starts with X-CACHECONF, GetClientCredentials takes name and realm from the default principal; (3) client.NewFromCCache looks up krbtgt/<default realm>, builds the session from that credential's same-named fields and adds every entry's ticket, times and key from one credential. Equality of parsed values for every file is not decided. Added: times are the sign-extended int32 read; the version-4 header loop can end before its first field read; the version-1 component-count adjustment depends on the version test alone.",
		NotDecided: []string{
			"arithmetic of the v4 header loop bound (`*p <= length`) for header lengths that are not 0 or a multiple of 12 — a question about MIT's writer",
			"parsed values equal what an independent writer wrote, for every file; unchecked reads (C04)",
		},
	})
}

func runC15(w *World, c *Check) {
	c.Rule("C15.stateless", "parsing a credentials cache touches no package-level state (on this tree: the package keeps none): what one parse reads — byte order, cursor, version — cannot be changed by another parse running beside it", 2)
	ruleStatelessIn(w, c, "C15.stateless", "credentials", "a credentials-cache function")
	c.Rule("C15.layout", "the ccache reader follows the MIT format field by field for versions 1–4 and stores each value into the field the format names", 40)
	c.Rule("C15.endian", "native byte order for versions 1 and 2, big-endian for 3 and 4", 1)
	c.Rule("C15.accessors", "look-up by server principal; configuration entries (X-CACHECONF) filtered; client identity from the default principal", 5)
	c.Rule("C15.fresh", "the list GetEntries returns is built in fresh storage (it does not overwrite the cache's own credentials); every ticket decoded in a loop is decoded into a fresh value (absent OPTIONAL fields are not inherited from the previous ticket)", 2)
	c.Rule("C15.client", "a client built from a ccache takes the TGT of the default realm and pairs every ticket with its own key and times", 9)

	src := "MIT ccache file format"
	ver := `.*\.Version|v`
	for _, t := range []struct {
		fk   string
		want []string
	}{
		{"credentials.(*CCache).Unmarshal", []string{"HEADER [v==4]", "PRINC→DefaultPrincipal", "CRED→Credentials *"}},
		{"credentials.parseHeader", []string{"U16→length [v==4]", "U16→tag [v==4] *", "U16→length [v==4] *"}},
		{"credentials.parsePrincipal", []string{"U32→NameType [v!=1]", "U32→tmp", "DEC→tmp [v==1]", "U32→tmp", "BYTES(tmp)→Realm", "U32→tmp *", "BYTES(tmp)→NameString *"}},
		{"credentials.parseCredential", []string{"PRINC→Client", "PRINC→Server", "U16→KeyType", "U16→KeyType [v==3]", "DATA→KeyValue", "TS→AuthTime", "TS→StartTime", "TS→EndTime", "TS→RenewTill", "U8→tmp", "BYTES(4)→Bytes", "U32→tmp", "ADDR→Addresses *", "U32→tmp", "AUTHDATA→AuthData *", "DATA→Ticket", "DATA→SecondTicket"}},
		{"credentials.readData", []string{"U32→tmp", "BYTES(tmp)→ret"}},
		{"credentials.readAddress", []string{"U16→AddrType", "DATA→Address"}},
		{"credentials.readAuthDataEntry", []string{"U16→ADType", "DATA→ADData"}},
		{"credentials.readTimestamp", []string{"U32→ret"}},
	} {
		fn := w.Func(t.fk)
		if fn == nil {
			c.Missing("C15.layout", t.fk)
			continue
		}
		fa := NewFuncAn(w, fn)
		compareTrace(c, "C15.layout", t.fk, w.Pos(fn.Pos()), "reader", readerTrace(fa, readerOps("credentials"), ver), t.want, src)
	}
	// widths of the primitive readers
	for fk, n := range map[string]string{"credentials.readInt8": "1", "credentials.readInt16": "2", "credentials.readInt32": "4"} {
		fn := w.Func(fk)
		if fn == nil {
			c.Missing("C15.layout", fk)
			continue
		}
		fa := NewFuncAn(w, fn)
		ok := false
		var seen []string
		for _, ci := range fa.Calls(`bytes\.NewBuffer`) {
			a := fa.CallArgs(ci)[0]
			seen = append(seen, a)
			if fa.M(`b\[\*p:\(\*p \+ `+n+`\)\]`, a) {
				ok = true
			}
		}
		adv := false
		for _, st := range fa.storesTo(`\*?p`) {
			if v := fa.R.R(st.Val); fa.M(`\(\*p \+ `+n+`\)|\(`+n+` \+ \*p\)`, v) {
				adv = true
			}
		}
		c.Decide(ok && adv, "C15.layout", fk, "width", w.Pos(fn.Pos()), fk+" consumes exactly "+n+" byte(s) and advances the cursor by "+n, fmt.Sprintf("reads %v; cursor advanced by %s: %v", seen, n, adv))
	}
	// is_skey: zero ⇒ false
	if fn := w.Func("credentials.parseCredential"); fn != nil {
		fa := NewFuncAn(w, fn)
		z := fa.MatchGuard(EqPass("0", `credentials\.readInt8\(.*\)`))
		okS := len(z) > 0
		if !okS {
			// the expression form: IsSKey = readInt8(…) != 0
			for _, st := range fa.storesTo(`.*\.IsSKey`) {
				v := fa.R.R(st.Val)
				if fullMatch(`\((0 != credentials\.readInt8\(.*\)|credentials\.readInt8\(.*\) != 0)\)`, v) {
					okS = true
				}
			}
		}
		c.Decide(okS, "C15.layout", FuncKey(fn), "is_skey", w.Pos(fn.Pos()), "is_skey is false exactly when the byte is zero", "no zero test of the is_skey byte")
	}

	// ---- times are signed 32-bit seconds ---------------------------------------------------------
	// MIT writes times as signed 32-bit integers: a time before 1970 must come back as written, so the
	// value handed to time.Unix is the sign-extended int32 (no unsigned type on the way).
	if fn := w.Func("credentials.readTimestamp"); fn != nil {
		fa := NewFuncAn(w, fn)
		calls := fa.CallsDeep(`time\.Unix`)
		ok := len(calls) == 1
		detail := fmt.Sprintf("%d time.Unix calls", len(calls))
		for _, dc := range calls {
			v := dc.ci.Common().Args[0]
			chain := []string{}
			for {
				cv, isConv := v.(*ssa.Convert)
				if !isConv {
					break
				}
				chain = append(chain, cv.X.Type().String()+"→"+cv.Type().String())
				for _, t := range []types.Type{cv.X.Type(), cv.Type()} {
					if bt, isB := t.Underlying().(*types.Basic); !isB || bt.Info()&types.IsInteger == 0 || bt.Info()&types.IsUnsigned != 0 {
						ok = false
					}
				}
				v = cv.X
			}
			if !fullMatch(`credentials\.readInt32\(.*\)`, dc.fa.R.R(v)) || v.Type().String() != "int32" {
				ok = false
			}
			detail = "time.Unix argument: " + dc.fa.R.R(v) + " of type " + v.Type().String() + " through " + strings.Join(chain, ", ")
		}
		c.Decide(ok, "C15.layout", FuncKey(fn), "timestamp-signed", w.Pos(fn.Pos()), "a time is the signed 32-bit value read, sign-extended into time.Unix", detail)
	}

	// ---- header fields: zero or more ---------------------------------------------------------
	// A version 4 header may have no field at all: the loop that reads tag/length/value must be able
	// to end before its first read — some test that can leave the loop dominates every read in it.
	if fn := w.Func("credentials.parseHeader"); fn != nil {
		fa := NewFuncAn(w, fn)
		nReads, bad := 0, ""
		for _, sub := range fa.withNewHelpers() {
			for _, ci := range sub.Calls(`credentials\.readInt16`) {
				h := loopHeaderOf(ci.Block())
				if h == nil {
					continue
				}
				nReads++
				guarded := false
				for d := ci.Block(); d != nil; d = d.Idom() {
					if loopHeaderOf(d) != h && d != h {
						break
					}
					iff, isIf := lastInstr(d).(*ssa.If)
					if !isIf || !(d == ci.Block() && false || d.Dominates(ci.Block())) || d == ci.Block() {
						continue
					}
					for _, s := range d.Succs {
						if lh := loopHeaderOf(s); lh != h && s != h {
							guarded = true // this edge leaves the loop before the read
						}
					}
					_ = iff
				}
				if !guarded {
					bad = w.Pos(InstrPos(ci))
				}
			}
		}
		c.Decide(nReads >= 2 && bad == "", "C15.layout", FuncKey(fn), "header-fields-zero-or-more", w.Pos(fn.Pos()), "the header field loop can end before reading a field (a header with no fields is valid)", fmt.Sprintf("%d field reads in a loop; the read at %s is not preceded by a test that can leave the loop: a header without fields swallows the bytes that follow it", nReads, bad))
	}

	// ---- the full list: every credential that parses is kept ---------------------------------
	if fn := w.Func("credentials.(*CCache).Unmarshal"); fn != nil {
		fa := NewFuncAnRaw(w, fn)
		calls := fa.Calls(`credentials\.parseCredential`)
		var keep []*ssa.Store
		for _, st := range fa.storesTo(`recv\.Credentials`) {
			if strings.HasPrefix(fa.R.R(st.Val), "append("+fa.R.R(st.Addr)+", ") {
				keep = append(keep, st)
			}
		}
		ok, why := len(calls) == 1 && len(keep) >= 1, fmt.Sprintf("%d parseCredential calls, %d appends to the receiver's Credentials", len(calls), len(keep))
		if ok {
			call := calls[0].(*ssa.Call)
			hdr := loopHeaderOf(call.Block())
			nilEdges, _ := nilTestEdges(fa, errExtract(call, call.Call.Signature().Results().Len()-1))
			if hdr == nil || len(nilEdges) == 0 {
				ok, why = false, "parseCredential is not called in a loop whose body tests its error"
			} else {
				tb := map[*ssa.BasicBlock]bool{hdr: true}
				for _, e := range nilEdges {
					// from "this credential parsed" back to the loop head (or out of the function)
					// without passing an append: the credential is dropped
					seen := map[*ssa.BasicBlock]bool{}
					var walk func(b *ssa.BasicBlock) bool
					walk = func(b *ssa.BasicBlock) bool {
						if seen[b] {
							return false
						}
						seen[b] = true
						for _, st := range keep {
							if st.Block() == b {
								return false
							}
						}
						if tb[b] || len(b.Succs) == 0 {
							return true
						}
						for _, sx := range b.Succs {
							if walk(sx) {
								return true
							}
						}
						return false
					}
					if walk(e.To()) {
						ok, why = false, "from the edge on which parseCredential succeeded the loop continues (or the function returns) without appending the credential: an entry of the file is left out of the list"
					}
				}
			}
		}
		c.Decide(ok, "C15.layout", FuncKey(fn), "every-credential-kept", w.Pos(fn.Pos()), "every credential that parses is appended to the list (the list is the file's, whatever the entries' times, flags or names)", why)
	}

	// ---- byte order ---------------------------------------------------------------------
	if fn := w.Func("credentials.(*CCache).Unmarshal"); fn != nil {
		// the selection may live in a helper extracted from Unmarshal: the rule follows it there
		// (the helper's version parameter reads as the caller's argument)
		fa := NewFuncAn(w, fn)
		ok := false
		for _, sub := range fa.withNewHelpers() {
			var le []ssa.Instruction
			for _, b := range sub.Fn.Blocks {
				for _, in := range b.Instrs {
					if v, isU := in.(*ssa.UnOp); isU && strings.Contains(sub.R.R(v), "encoding/binary.LittleEndian") {
						le = append(le, in)
					}
				}
			}
			if len(le) == 0 {
				continue
			}
			v1 := sub.MatchGuard(EqPass("1", ver))
			v2 := sub.MatchGuard(EqPass("2", ver))
			nat := sub.MatchGuard(TruePass(`credentials\.isNativeEndianLittle\(\)`))
			ok = len(nat) > 0 && len(v1) > 0 && len(v2) > 0
			for _, in := range le {
				if sub.PathToInstrAvoiding(nat, in) != nil || sub.PathToInstrAvoiding(append(append([]Edge{}, v1...), v2...), in) != nil {
					ok = false
				}
			}
			break
		}
		c.Decide(ok, "C15.endian", FuncKey(fn), "byte-order", w.Pos(fn.Pos()), "little-endian only for versions 1 or 2 on a little-endian host; big-endian otherwise", "LittleEndian is selected outside `(version == 1 || version == 2) && isNativeEndianLittle()`")
		// magic and version range
		checkGuards(w, c, "C15.layout", "credentials.(*CCache).Unmarshal", BoolErrSuccess(-1, 0), []GuardSpec{
			{Name: "magic-5", Desc: "the first byte must be 5", Main: []GuardPat{EqPass("5", `b\[(0|local<int>)\]`)}},
			{Name: "version-min", Desc: "versions below 1 are rejected", Main: []GuardPat{{Kind: "gt", X: "1", Y: ver, PassWhen: false}}},
			{Name: "version-max", Desc: "versions above 4 are rejected", Main: []GuardPat{{Kind: "gt", X: ver, Y: "4", PassWhen: false}}},
		})
	}

	// ---- accessors ------------------------------------------------------------------------
	for _, fk := range []string{"credentials.(*CCache).GetEntry", "credentials.(*CCache).Contains"} {
		fn := w.Func(fk)
		if fn == nil {
			c.Missing("C15.accessors", fk)
			continue
		}
		// a positive answer only through the match — in the function, in a helper, or in the sibling
		// accessor it delegates to (decided by scenario: with the match failing no true result is reachable)
		checkGuards(w, c, "C15.accessors", fk, trueExitClass(fn.Signature.Results().Len()-1), []GuardSpec{
			{Name: "server-principal-match", Desc: "a credential is found only when its server principal equals the argument",
				Main: []GuardPat{TruePass(`types\.\(PrincipalName\)\.Equal\(recv\.Credentials\[\$i0\]\.Server\.PrincipalName, p\)`), TruePass(`types\.\(PrincipalName\)\.Equal\(p, recv\.Credentials\[\$i0\]\.Server\.PrincipalName\)`)}},
		})
	}
	if fn := w.Func("credentials.(*CCache).GetEntries"); fn == nil {
		c.Missing("C15.accessors", "credentials.(*CCache).GetEntries")
	} else {
		fa := NewFuncAn(w, fn)
		conf := fa.MatchGuard(FalsePass(`strings\.HasPrefix\(recv\.Credentials\[\$i0\]\.Server\.Realm, "X-CACHECONF"\)`))
		apps := fa.Calls(`append`)
		good := len(conf) > 0 && len(apps) == 1 && fa.PathToInstrAvoiding(conf, apps[0]) == nil
		c.Decide(good, "C15.accessors", FuncKey(fn), "cacheconf-filter", w.Pos(fn.Pos()), "exactly the credentials whose server realm starts with X-CACHECONF are dropped", "the append is not guarded by !HasPrefix(Server.Realm, \"X-CACHECONF\")")
	}
	if fn := w.Func("credentials.(*CCache).GetClientCredentials"); fn == nil {
		c.Missing("C15.accessors", "credentials.(*CCache).GetClientCredentials")
	} else {
		fa := NewFuncAn(w, fn)
		fa.R.inlineGetters = true // c.GetClientPrincipalName() ≡ c.DefaultPrincipal.PrincipalName
		got := map[string]string{}
		for _, st := range fa.storesTo(`.*\.(username|realm|cname)`) {
			a := fa.R.R(st.Addr)
			got[a[strings.LastIndex(a, ".")+1:]] = fa.R.R(st.Val)
		}
		good := strings.Contains(got["username"], "recv.DefaultPrincipal.PrincipalName") && strings.Contains(got["realm"], "DefaultPrincipal") || strings.Contains(got["realm"], "GetClientRealm")
		good = good && got["cname"] == "recv.DefaultPrincipal.PrincipalName"
		c.Decide(good, "C15.accessors", FuncKey(fn), "identity-from-default-principal", w.Pos(fn.Pos()), "user name, realm and cname come from the cache's default principal", fmt.Sprintf("stores %v", got))
	}
	checkCalls(w, c, "C15.accessors", "credentials.(*CCache).GetClientRealm", []CallSpec{})
	if fn := w.Func("credentials.(*CCache).GetClientRealm"); fn != nil {
		fa := NewFuncAn(w, fn)
		rs := fa.returnsOf()
		c.Decide(len(rs) == 1 && rs[0][0] == "recv.DefaultPrincipal.Realm", "C15.accessors", FuncKey(fn), "realm", w.Pos(fn.Pos()), "the client realm is the default principal's realm", fmt.Sprintf("returns %v", rs))
	}

	// ---- NewFromCCache ----------------------------------------------------------------------
	if fn := w.Func("client.NewFromCCache"); fn == nil {
		c.Missing("C15.client", "client.NewFromCCache")
	} else {
		fa := NewFuncAn(w, fn)
		fk := FuncKey(fn)
		// the SPN looked up
		get := fa.Calls(`credentials\.\(\*CCache\)\.GetEntry`)
		okSPN := false
		var names []string
		for _, a := range fa.withNewHelpers() {
			for _, st := range a.storesTo(`local<types\.PrincipalName>(#\d+)?\.NameString`) {
				names = append(names, a.R.R(st.Val))
				if v := a.R.R(st.Val); fa.M(`\["krbtgt", c\.DefaultPrincipal\.Realm\]`, v) {
					okSPN = true
				}
			}
		}
		c.Decide(len(get) == 1 && okSPN, "C15.client", fk, "tgt-spn", w.Pos(fn.Pos()), "the TGT looked up is krbtgt/<default principal's realm>", fmt.Sprintf("NameString stores: %v", names))
		found := fa.MatchGuard(TruePass(`credentials\.\(\*CCache\)\.GetEntry\(.*\)#1`))
		exits := fa.SuccessExits(BoolErrSuccess(-1, 1))
		c.Decide(len(found) > 0 && fa.PathAvoiding(found, exits) == nil, "C15.client", fk, "tgt-required", w.Pos(fn.Pos()), "a cache without that TGT yields an error", "success reachable without the TGT being found")
		cred := `credentials\.\(\*CCache\)\.GetEntry\(.*\)#0`
		want := map[string]string{"authTime": cred + `\.AuthTime`, "endTime": cred + `\.EndTime`, "renewTill": cred + `\.RenewTill`, "sessionKey": cred + `\.Key`, "realm": `c\.DefaultPrincipal\.Realm`, "tgt": `local<messages\.Ticket>`}
		got := map[string]string{}
		for _, st := range fa.storesTo(`(new\(client\.session\)|local<client\.session>|.*session.*)\.\w+`) {
			a := fa.R.R(st.Addr)
			got[a[strings.LastIndex(a, ".")+1:]] = fa.R.R(st.Val)
		}
		for _, f := range sortedKeys(want) {
			c.Decide(fa.M(want[f], got[f]), "C15.client", fk, "session."+f, w.Pos(fn.Pos()), "the session's "+f+" comes from the TGT credential's same-named field", "stored value is "+got[f])
		}
		// the TGT ticket is decoded from that credential's ticket bytes
		okT := false
		for _, ci := range fa.Calls(`messages\.\(\*Ticket\)\.Unmarshal`) {
			if a := fa.CallArgs(ci); fullMatch(cred+`\.Ticket`, a[1]) {
				okT = true
			}
		}
		c.Decide(okT, "C15.client", fk, "tgt-bytes", w.Pos(fn.Pos()), "the session's TGT is decoded from that credential's ticket bytes", "no Ticket.Unmarshal of the TGT credential's Ticket")
	}
	ruleFreshStorage(w, c, "C15.fresh")
}

// ruleFreshStorage: (a) the slice CCache.GetEntries returns grows from a fresh make/nil base, never
// from a re-slice of the receiver's own Credentials (filtering in place rewrites the cache);
// (b) in NewFromCCache, and anywhere else in the credentials/client packages, an Unmarshal called
// inside a loop decodes into a variable allocated inside that loop: the ASN.1 decoder leaves absent
// OPTIONAL fields untouched, so a variable shared across iterations leaks one ticket's fields into
// the next.
func ruleFreshStorage(w *World, c *Check, rule string) {
	if fn := w.Func("credentials.(*CCache).GetEntries"); fn == nil {
		c.Missing(rule, "credentials.(*CCache).GetEntries")
	} else {
		fa := NewFuncAn(w, fn)
		var leaves []ssa.Value
		seen := map[ssa.Value]bool{}
		var walk func(v ssa.Value)
		walk = func(v ssa.Value) {
			if seen[v] {
				return
			}
			seen[v] = true
			switch x := v.(type) {
			case *ssa.Phi:
				for _, e := range x.Edges {
					walk(e)
				}
			case *ssa.Call:
				if bi, ok := x.Call.Value.(*ssa.Builtin); ok && bi.Name() == "append" {
					walk(x.Call.Args[0])
					return
				}
				leaves = append(leaves, v)
			case *ssa.Slice:
				leaves = append(leaves, v)
			default:
				leaves = append(leaves, v)
			}
		}
		for _, b := range fn.Blocks {
			if ret, ok := lastInstr(b).(*ssa.Return); ok && len(ret.Results) == 1 {
				walk(ret.Results[0])
			}
		}
		ok := len(leaves) > 0
		var bad []string
		for _, l := range leaves {
			switch x := l.(type) {
			case *ssa.MakeSlice:
			case *ssa.Const:
				if x.Value != nil {
					ok = false
				}
			case *ssa.Slice:
				// make with constant size: a slice of a fresh local array
				if _, isAlloc := x.X.(*ssa.Alloc); !isAlloc {
					ok = false
					bad = append(bad, fa.R.R(l))
				}
			default:
				ok = false
				bad = append(bad, fa.R.R(l))
			}
		}
		c.Decide(ok, rule, FuncKey(fn), "fresh-result", w.Pos(fn.Pos()), "the returned list grows from a fresh make()/nil slice", fmt.Sprintf("it grows from %v: appending overwrites the storage of the cache's own list", bad))
	}
	n := 0
	for _, fn := range w.ModuleFuncs() {
		k := FuncKey(fn)
		if !(strings.HasPrefix(k, "client.") || strings.HasPrefix(k, "credentials.")) {
			continue
		}
		fa := NewFuncAn(w, fn)
		for _, ci := range fa.Calls(`.*\.\(\*\w+\)\.Unmarshal`) {
			call, ok := ci.(*ssa.Call)
			if !ok || len(call.Call.Args) == 0 {
				continue
			}
			hdr := loopHeaderOf(call.Block())
			if hdr == nil {
				continue
			}
			n++
			recv := call.Call.Args[0]
			al, isAlloc := recv.(*ssa.Alloc)
			fresh := isAlloc && loopHeaderOf(al.Block()) != nil && (al.Block() == hdr || hdr.Dominates(al.Block()))
			c.Decide(fresh, rule, k, "fresh-decode-target:"+fa.R.R(recv), w.Pos(InstrPos(call)), "a value decoded inside a loop is decoded into a variable of that iteration", "the target "+fa.R.R(recv)+" is allocated outside the loop: fields absent from one encoding keep the previous iteration's values")
		}
	}
	if n == 0 {
		c.Fail(rule, "client.NewFromCCache", "fresh-decode-target", "-", "NewFromCCache decodes each cached ticket in its loop", "no Unmarshal call inside a loop found in the client and credentials packages")
	}
}
