package main

// Calls and anchors in the vocabulary of the reference signatures.
//
// A maintainer may turn a function into a method (or back), move a parameter into the receiver,
// or reorder parameters — together with every caller — without changing what the code does. The
// rule tables name functions by their key on the reference tree and write call patterns with the
// reference argument order. To keep them meaningful:
//   - a reference function key that no longer exists is resolved to the one module function of
//     the same package and base name that is not itself a reference function (sigAlias);
//   - for every function that has a reference signature, the parameters (receiver included) are
//     matched to the reference parameter names by name first, then by position among the rest
//     (sigPerm), and calls to it are rendered under the reference key with the arguments in the
//     reference order; inside its body the reference names map to the matched parameters.
// On the reference tree itself every alias and permutation is the identity.

import (
	"strings"
	"sync"

	"golang.org/x/tools/go/ssa"
)

var sigMu sync.RWMutex
var sigAlias = map[*ssa.Function]string{} // current function -> reference key it stands for
var sigPerm = map[*ssa.Function][]int{}   // reference position (all parameters, receiver first) -> index into fn.Params

func baseName(key string) (pkg, name string) {
	i := strings.LastIndex(key, ".")
	if i < 0 {
		return "", key
	}
	name = key[i+1:]
	pkg = key[:i]
	if j := strings.Index(pkg, ".("); j >= 0 {
		pkg = pkg[:j]
	}
	return
}

func refIsMethod(key string) bool { return strings.Contains(key, ").") }

// refAllParams: the reference parameter names of key, receiver ("recv") first for methods.
func refAllParams(key string) ([]string, bool) {
	ps, ok := refParams[key]
	if !ok {
		return nil, false
	}
	if refIsMethod(key) {
		return append([]string{"recv"}, ps...), true
	}
	return ps, true
}

func (w *World) computeSignatures() {
	if len(refFuncs) == 0 {
		return
	}
	present := map[string]bool{}
	for k := range w.funcs {
		present[k] = true
	}
	// missing reference keys by (package, base name)
	type pn struct{ pkg, name string }
	missing := map[pn][]string{}
	for k := range refFuncs {
		if present[k] || strings.Contains(k, "$") {
			continue
		}
		p, n := baseName(k)
		missing[pn{p, n}] = append(missing[pn{p, n}], k)
	}
	cands := map[string][]*ssa.Function{}
	for _, f := range w.allFns {
		if f.Parent() != nil {
			continue
		}
		k := FuncKey(f)
		if refFuncs[k] {
			continue
		}
		p, n := baseName(k)
		if ks := missing[pn{p, n}]; len(ks) == 1 {
			cands[ks[0]] = append(cands[ks[0]], f)
		}
	}
	sigMu.Lock()
	defer sigMu.Unlock()
	for k, fs := range cands {
		if len(fs) == 1 {
			sigAlias[fs[0]] = k
			w.funcs[k] = fs[0]
		}
	}
	for _, f := range w.allFns {
		if f.Parent() != nil {
			continue
		}
		key := FuncKey(f)
		if a, ok := sigAlias[f]; ok {
			key = a
		} else if !refFuncs[key] {
			continue
		}
		ref, ok := refAllParams(key)
		if !ok || len(ref) != len(f.Params) || len(ref) == 0 {
			continue
		}
		curIsMethod := f.Signature.Recv() != nil
		perm := make([]int, len(ref))
		used := make([]bool, len(ref))
		for i := range perm {
			perm[i] = -1
		}
		for i, rn := range ref {
			if rn == "recv" {
				if curIsMethod {
					perm[i], used[0] = 0, true
				}
				continue
			}
			for j, p := range f.Params {
				if !used[j] && p.Name() == rn && !(curIsMethod && j == 0 && refIsMethod(key)) {
					perm[i], used[j] = j, true
					break
				}
			}
		}
		for i := range perm {
			if perm[i] >= 0 {
				continue
			}
			for j := range used {
				if !used[j] {
					perm[i], used[j] = j, true
					break
				}
			}
		}
		identity := true
		for i, j := range perm {
			if i != j {
				identity = false
			}
		}
		if !identity || sigAlias[f] != "" {
			sigPerm[f] = perm
		}
	}
}

func aliasOf(f *ssa.Function) (string, bool) {
	sigMu.RLock()
	defer sigMu.RUnlock()
	k, ok := sigAlias[f]
	return k, ok
}

func permOf(f *ssa.Function) []int {
	sigMu.RLock()
	defer sigMu.RUnlock()
	return sigPerm[f]
}

// refOrderArgs: the arguments of a static call of f (receiver first, as in ssa.CallCommon.Args)
// in the order of the reference signature.
func refOrderArgs(f *ssa.Function, args []ssa.Value) []ssa.Value {
	perm := permOf(f)
	if perm == nil || len(perm) != len(args) {
		return args
	}
	out := make([]ssa.Value, len(args))
	for i, j := range perm {
		out[i] = args[j]
	}
	return out
}

// refKeyOf: the key under which the rule tables know f (its reference key when it was re-signed).
func refKeyOf(f *ssa.Function) string {
	if k, ok := aliasOf(f); ok {
		return k
	}
	return FuncKey(f)
}
