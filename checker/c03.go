package main

// C03 — the SPNEGO HTTP wrapper serves the inner handler only to
// authenticated requests; every other path answers 401/5xx; no verification
// API reports success without an accepted AP-REQ.

import (
	"fmt"
	"go/types"
	"strings"

	"golang.org/x/tools/go/ssa"
)

func init() {
	register(&Property{
		ID:      "C03",
		Run:     runC03,
		Explain: "Static analysis of the closure returned by spnego.SPNEGOKRB5Authenticate and of the token-verification API: every call of the wrapped handler's ServeHTTP is dominated either by a successfully loaded, authenticated session or by AcceptSecContext returning true with status code provably StatusComplete (value-set facts along branch edges), and passes the identity obtained from that same source; the wrapped handler is used nowhere else; every path of the closure that returns without serving passes a responder (401 + WWW-Authenticate: Negotiate, or 500 only from the session-store path), interprocedurally through the helpers' error contracts; every ContextToken.Verify implementation and AcceptSecContext return true only as the forwarded result of another Verify or under the ok ∧ err==nil edge of service.VerifyAPREQ, and the credentials context value is set only there; mechanism OID guards precede verification.",
		NotDecided: []string{
			"HTTP bytes as observed by a client; behaviour of the application's session store",
			"malformed base64/ASN.1 handling beyond 'a responder is on every non-serving path'",
			"the MechTypes[0] index on an empty list (C04)",
		},
	})
}

func findHandlerClosure(w *World) *ssa.Function {
	parent := w.Func("spnego.SPNEGOKRB5Authenticate")
	if parent == nil {
		return nil
	}
	for _, an := range parent.AnonFuncs {
		sig := an.Signature
		if sig.Params().Len() == 2 && sig.Params().At(0).Type().String() == "net/http.ResponseWriter" && sig.Params().At(1).Type().String() == "*net/http.Request" {
			return an
		}
	}
	return nil
}

// callsIn lists call instructions of fa whose callee name matches.
func blocksCalling(fa *FuncAn, pred func(name string, ci ssa.CallInstruction) bool) map[*ssa.BasicBlock]bool {
	out := map[*ssa.BasicBlock]bool{}
	for _, b := range fa.Fn.Blocks {
		for _, in := range b.Instrs {
			if ci, ok := in.(ssa.CallInstruction); ok {
				if _, isGo := in.(*ssa.Go); isGo {
					continue
				}
				if pred(fa.CalleeName(ci), ci) {
					out[b] = true
				}
			}
		}
	}
	return out
}

// unrespondedExit returns a path from entry to a return that passes no blocked
// block and no removed edge; nil if none.
func unrespondedExit(fa *FuncAn, blocked map[*ssa.BasicBlock]bool, removed []Edge, exitFilter func(Exit) bool) []*ssa.BasicBlock {
	fn := fa.Fn
	if len(fn.Blocks) == 0 || blocked[fn.Blocks[0]] {
		return nil
	}
	rm := map[Edge]bool{}
	for _, e := range removed {
		rm[e] = true
	}
	for b := range blocked {
		for k := range b.Succs {
			rm[Edge{b, k}] = true
		}
	}
	te := map[Edge]bool{}
	tb := map[*ssa.BasicBlock]bool{}
	for _, x := range fa.Exits() {
		if blocked[x.Ret.Block()] {
			continue
		}
		if exitFilter != nil && !exitFilter(x) {
			continue
		}
		if x.In == nil {
			tb[x.Ret.Block()] = true
		} else {
			te[*x.In] = true
		}
	}
	return pathTo(fn.Blocks[0], rm, te, tb)
}

type responderInfo struct {
	always  map[*ssa.Function]bool // responds (or serves) on every path
	onError map[*ssa.Function]bool // responds on every path that returns a non-nil error / nil token
	onTrue  map[*ssa.Function]bool // single bool result: responds (serves) on every path that may return true
}

// failureEdges: the edges of fa on which a conditional responder called in it has responded —
// err != nil (or a nil first result that only comes with an error) of an onError function, a true
// result of an onTrue function.
func (ri *responderInfo) failureEdges(w *World, fa *FuncAn) []Edge {
	var removed []Edge
	for _, b := range fa.Fn.Blocks {
		for _, in := range b.Instrs {
			call, ok := in.(*ssa.Call)
			if !ok {
				continue
			}
			f := call.Call.StaticCallee()
			if f == nil {
				continue
			}
			callS := q(fa.R.R(call))
			if ri.onTrue[f] {
				removed = append(removed, fa.MatchGuard(TruePass(callS))...)
			}
			if !ri.onError[f] {
				continue
			}
			res := f.Signature.Results()
			for i := 0; i < res.Len(); i++ {
				term := callS
				if res.Len() > 1 {
					term = callS + fmt.Sprintf("#%d", i)
				}
				if res.At(i).Type().String() == "error" {
					// edge on which err != nil
					removed = append(removed, fa.MatchGuard(NePass("nil", term))...)
				} else if _, isPtr := res.At(i).Type().(*types.Pointer); isPtr {
					// a nil result is only returned together with the error
					if nilOnlyWithError(w, f, i) {
						removed = append(removed, fa.MatchGuard(EqPass("nil", term))...)
					}
				}
			}
		}
	}
	return removed
}

// computeResponders classifies the functions of package spnego (least fixpoint).
func computeResponders(w *World, c *Check) *responderInfo {
	ri := &responderInfo{always: map[*ssa.Function]bool{}, onError: map[*ssa.Function]bool{}, onTrue: map[*ssa.Function]bool{}}
	sp := w.SSAPkgs["spnego"]
	var fns []*ssa.Function
	for _, fn := range w.ModuleFuncs() {
		if fn.Pkg == sp && len(fn.Blocks) > 0 {
			fns = append(fns, fn)
		}
	}
	isResp := func(name string, ci ssa.CallInstruction) bool {
		if name == "net/http.Error" || name == "net/http.Handler.ServeHTTP" {
			return true
		}
		if f := ci.Common().StaticCallee(); f != nil && ri.always[f] {
			return true
		}
		return false
	}
	for changed := true; changed; {
		changed = false
		for _, fn := range fns {
			if ri.always[fn] {
				continue
			}
			fa := NewFuncAnRaw(w, fn)
			blocked := blocksCalling(fa, isResp)
			removed := ri.failureEdges(w, fa)
			if len(blocked) == 0 && len(removed) == 0 {
				continue
			}
			if unrespondedExit(fa, blocked, removed, nil) == nil {
				ri.always[fn] = true
				changed = true
				continue
			}
			res := fn.Signature.Results()
			errIdx := -1
			for i := 0; i < res.Len(); i++ {
				if res.At(i).Type().String() == "error" {
					errIdx = i
				}
			}
			if errIdx >= 0 && !ri.onError[fn] {
				// exits on which the error may be non-nil must have responded
				p := unrespondedExit(fa, blocked, removed, func(x Exit) bool {
					r := RetResults(x.Ret)[errIdx]
					if k, ok := r.(*ssa.Const); ok && k.Value == nil {
						return false // returns nil error: not a failure exit
					}
					return true
				})
				if p == nil {
					ri.onError[fn] = true
					changed = true
				}
			}
			if res.Len() == 1 && res.At(0).Type().String() == "bool" && !ri.onTrue[fn] {
				p := unrespondedExit(fa, blocked, removed, func(x Exit) bool {
					v, known := fa.knownBool(RetResults(x.Ret)[0], x.In)
					return !known || v
				})
				if p == nil {
					ri.onTrue[fn] = true
					changed = true
				}
			}
		}
	}
	return ri
}

func runC03(w *World, c *Check) {
	c.Rule("C03.serve", "every inner.ServeHTTP call is dominated by an authenticated session or by AcceptSecContext ok ∧ status StatusComplete, and passes the identity from that source", 6)
	c.Rule("C03.inner", "the wrapped handler is used only as the receiver of those ServeHTTP calls", 1)
	c.Rule("C03.respond", "every path of the wrapper that returns without serving passes a responder (401 + WWW-Authenticate: Negotiate, or 500 from the session-store path)", 4)
	c.Rule("C03.verify", "no ContextToken.Verify implementation (nor AcceptSecContext) returns true except by forwarding another Verify or under service.VerifyAPREQ ok ∧ err == nil; the credentials context value is set only there", 8)
	c.Rule("C03.mech", "only the KRB5 mechanism OIDs are accepted before verification", 2)

	h := findHandlerClosure(w)
	if h == nil {
		c.Missing("C03.serve", "spnego.SPNEGOKRB5Authenticate$closure(http.ResponseWriter, *http.Request)")
		return
	}
	fa := NewFuncAn(w, h)
	hk := FuncKey(h)
	complete, okc := w.ConstInt("gssapi", "StatusComplete")
	if !okc {
		c.Missing("C03.serve", "gssapi.StatusComplete")
		return
	}
	ctxKey := ""
	if sp := w.SSAPkgs["spnego"]; sp != nil {
		if k, ok := sp.Pkg.Scope().Lookup("ctxCredentials").(*types.Const); ok {
			ctxKey = k.Val().ExactString()
		}
	}
	if ctxKey == "" {
		c.Missing("C03.serve", "spnego.ctxCredentials")
		return
	}

	const reSess = `spnego\.getSessionCredentials\(.*\)`
	const reAccept = `spnego\.\(\*SPNEGO\)\.AcceptSecContext\(.*\)`
	// ---- rule 1+2: ServeHTTP dominance and identity provenance ---------------
	// the serve sites: in the wrapper closure or in helpers extracted from it (their parameters read
	// as the closure's arguments); a guard holds for a site when it dominates the call inside the
	// helper, or dominates, in the closure, the call through which the helper is reached
	serve := fa.CallsDeep(`net/http\.Handler\.ServeHTTP`)
	if len(serve) == 0 {
		c.Fail("C03.serve", hk, "serve-sites", w.Pos(h.Pos()), "the wrapper calls the wrapped handler", "no ServeHTTP call found in the wrapper closure")
	}
	domDeep := func(name, where, desc string, dc deepCall, pat GuardPat) {
		inner := dc.fa.MatchGuard(pat)
		if len(inner) > 0 && dc.fa.PathToInstrAvoiding(inner, dc.ci) == nil {
			c.Ok("C03.serve", hk, name, where, desc)
			return
		}
		if dc.fa.Fn != h {
			outer := fa.MatchGuard(pat)
			if len(outer) > 0 && fa.PathToInstrAvoiding(outer, dc.site) == nil {
				c.Ok("C03.serve", hk, name, where, desc)
				return
			}
			if len(inner) == 0 && len(outer) == 0 {
				c.Fail("C03.serve", hk, name, where, desc, "no branch tests this condition; conditions present: "+trunc(fa.condSummary()+" ; "+dc.fa.condSummary(), 600))
				return
			}
			c.Fail("C03.serve", hk, name, where, desc, "the call is reachable without the accepting edge of this test (neither inside "+FuncKey(dc.fa.Fn)+" nor at its call in the wrapper)")
			return
		}
		decideDom(c, fa, "C03.serve", name, where, desc, inner, dc.ci)
	}
	for i, dc := range serve {
		ci := dc.ci
		args := dc.fa.CallArgs(ci)
		where := w.Pos(InstrPos(ci))
		name := fmt.Sprintf("serve#%d", i+1)
		if len(args) != 3 {
			continue
		}
		idm := regexpFind(substParams(h, `^github\.com/jcmturner/goidentity/v6\.AddToHTTPRequestContext\((.*), @1\)$`), args[2])
		switch {
		case idm != "" && fullMatch(reSess+`#0`, idm):
			// session branch
			name += "(session)"
			domDeep(name+":session-loaded", where, "served under a session only when the session credentials were loaded without error", dc, EqPass("nil", reSess+`#1`))
			domDeep(name+":session-authenticated", where, "served under a session only when its credentials are marked authenticated", dc, TruePass(`credentials\.\(\*Credentials\)\.Authenticated\(`+reSess+`#0\)`))
			c.Ok("C03.serve", hk, name+":identity", where, "identity in the request context is the session's credentials")
		case idm != "" && fullMatch(`context\.Context\.Value\(`+reAccept+`#1, `+q(ctxKey)+`\)\.\(\*credentials\.Credentials\)`, idm):
			name += "(token)"
			domDeep(name+":accepted", where, "served only when AcceptSecContext reported the context as established", dc, TruePass(reAccept+`#0`))
			vs := fa.ValueSets(reAccept + `#2\.Code`)
			at := vs.At(dc.site.Block())
			good := len(at) == 1 && at[0] == fmt.Sprint(complete)
			c.Decide(good, "C03.serve", hk, name+":status-complete", where,
				fmt.Sprintf("at the serve site the GSS status code can only be StatusComplete (%d)", complete),
				fmt.Sprintf("possible status codes at the serve site: %v (universe %v)", at, vs.Universe))
			c.Ok("C03.serve", hk, name+":identity", where, "identity in the request context is the credentials value of the context returned by that AcceptSecContext call")
		default:
			c.Fail("C03.serve", hk, name+":identity", where, "identity placed in the request context comes from the loaded session or from the accepted security context",
				"request passed to the wrapped handler is "+trunc(args[2], 300))
		}
	}

	// ---- inner used nowhere else ---------------------------------------------
	parent := h.Parent()
	innerOK := true
	detail := ""
	var innerParam *ssa.Parameter
	for _, p := range parent.Params {
		if p.Type().String() == "net/http.Handler" {
			innerParam = p
		}
	}
	if innerParam == nil {
		c.Missing("C03.inner", "SPNEGOKRB5Authenticate(inner http.Handler, …)")
	} else {
		var check func(v ssa.Value, fn *ssa.Function)
		seen := map[ssa.Value]bool{}
		check = func(v ssa.Value, fn *ssa.Function) {
			if seen[v] || v.Referrers() == nil {
				return
			}
			seen[v] = true
			for _, ref := range *v.Referrers() {
				switch x := ref.(type) {
				case *ssa.Store:
					if x.Val == v {
						check(x.Addr, fn) // spilled for capture
					}
				case *ssa.UnOp:
					check(x, fn)
				case *ssa.MakeClosure:
					cl := x.Fn.(*ssa.Function)
					for bi, b := range x.Bindings {
						if b == v {
							check(cl.FreeVars[bi], cl)
						}
					}
				case *ssa.Call:
					if x.Call.IsInvoke() && x.Call.Value == v && x.Call.Method.Name() == "ServeHTTP" {
						continue
					}
					// handed to a helper extracted from the wrapper: its uses there are checked the same way
					if g := x.Call.StaticCallee(); g != nil && newHelper(g) && len(g.Blocks) > 0 {
						passed := false
						for ai, a := range x.Call.Args {
							if a == v && ai < len(g.Params) {
								check(g.Params[ai], g)
								passed = true
							}
						}
						if passed {
							continue
						}
					}
					innerOK = false
					detail = "used at " + w.Pos(InstrPos(x)) + ": " + trunc(x.String(), 120)
				case *ssa.DebugRef:
				default:
					innerOK = false
					detail = "used at " + w.Pos(InstrPos(ref)) + ": " + trunc(ref.String(), 120)
				}
			}
		}
		check(innerParam, parent)
		c.Decide(innerOK, "C03.inner", FuncKey(parent), "inner-uses", w.Pos(parent.Pos()), "the wrapped handler is only ever invoked through the guarded ServeHTTP calls", detail)
	}

	// ---- rule 3: response discipline -------------------------------------------
	ri := computeResponders(w, c)
	var always, onErr []string
	for f := range ri.always {
		always = append(always, FuncKey(f))
	}
	for f := range ri.onError {
		onErr = append(onErr, FuncKey(f))
	}
	c.extra["responders_always"] = sortedStrings(always)
	c.extra["responders_on_error"] = sortedStrings(onErr)
	blocked := blocksCalling(fa, func(name string, ci ssa.CallInstruction) bool {
		if name == "net/http.Error" || name == "net/http.Handler.ServeHTTP" {
			return true
		}
		f := ci.Common().StaticCallee()
		return f != nil && ri.always[f]
	})
	// failure edges of conditional responders: err != nil, nil first result, or a true 'served' result
	nfa := NewFuncAnRaw(w, h)
	removed := ri.failureEdges(w, nfa)
	path := unrespondedExit(fa, blocked, removed, nil)
	c.Decide(path == nil, "C03.respond", hk, "every-exit-responds", w.Pos(h.Pos()),
		"every return of the wrapper is preceded by ServeHTTP, a responder, or the failure edge of a helper that responds on failure",
		"a path returns without any response: "+fa.DescribePath(path))
	// shape of the responders: 401 with WWW-Authenticate: Negotiate…, 500 only from newSession
	sp := w.SSAPkgs["spnego"]
	for _, fn := range w.ModuleFuncs() {
		if fn.Pkg != sp {
			continue
		}
		rfa := NewFuncAn(w, fn)
		for _, ci := range rfa.Calls(`net/http\.Error`) {
			args := rfa.CallArgs(ci)
			where := w.Pos(InstrPos(ci))
			if len(args) != 3 {
				continue
			}
			switch args[2] {
			case "401":
				// a header Set("WWW-Authenticate", "Negotiate…") must precede on every path
				var setters []ssa.Instruction
				for _, sc := range rfa.Calls(`net/http\.\(Header\)\.Set`) {
					a := rfa.CallArgs(sc)
					if len(a) == 3 && a[1] == `"WWW-Authenticate"` && strings.HasPrefix(a[2], `"Negotiate`) {
						setters = append(setters, sc)
					}
				}
				good := false
				for _, s := range setters {
					if instrDominates(s, ci) {
						good = true
					}
				}
				c.Decide(good, "C03.respond", FuncKey(fn), "401-has-negotiate-challenge", where, "a 401 is sent only after setting WWW-Authenticate to a Negotiate challenge", "http.Error(…, 401) not dominated by Header().Set(\"WWW-Authenticate\", \"Negotiate…\")")
			case "500":
				// only reachable from the session-store failure path
				callers := staticCallers(w, fn)
				good := len(callers) > 0
				for _, cf := range callers {
					if refKeyOf(cf) != "spnego.newSession" {
						good = false
					}
				}
				c.Decide(good, "C03.respond", FuncKey(fn), "500-only-from-session-store", where, "a 5xx is produced only when the application's session store fails", fmt.Sprintf("500 responder is called from %v", funcKeys(callers)))
			default:
				c.Fail("C03.respond", FuncKey(fn), "status", where, "refusals use status 401 (or 500 for session-store failures)", "http.Error status is "+args[2])
			}
		}
	}

	// ---- rule 4: Verify implementers ---------------------------------------------
	var iface *types.Interface
	if g := w.SSAPkgs["gssapi"]; g != nil {
		if tn, ok := g.Pkg.Scope().Lookup("ContextToken").(*types.TypeName); ok {
			iface, _ = tn.Type().Underlying().(*types.Interface)
		}
	}
	if iface == nil {
		c.Missing("C03.verify", "gssapi.ContextToken")
	} else {
		impls := w.Implementers(iface)
		var verifyFns []*ssa.Function
		for _, t := range impls {
			if f := w.MethodOf(t, "Verify"); f != nil && len(f.Blocks) > 0 {
				verifyFns = append(verifyFns, f)
			}
		}
		if a := w.Func("spnego.(*SPNEGO).AcceptSecContext"); a != nil {
			verifyFns = append(verifyFns, a)
		} else {
			c.Missing("C03.verify", "spnego.(*SPNEGO).AcceptSecContext")
		}
		isVerifyCall := func(v ssa.Value) bool {
			ex, ok := v.(*ssa.Extract)
			if !ok || ex.Index != 0 {
				return false
			}
			call, ok := ex.Tuple.(*ssa.Call)
			if !ok {
				return false
			}
			if call.Call.IsInvoke() {
				return call.Call.Method.Name() == "Verify" && types.Identical(call.Call.Value.Type().Underlying(), iface)
			}
			f := call.Call.StaticCallee()
			if f == nil || f.Name() != "Verify" || f.Signature.Recv() == nil {
				return false
			}
			return types.Implements(f.Signature.Recv().Type(), iface)
		}
		for _, vf := range verifyFns {
			vfa := NewFuncAn(w, vf)
			apPass1 := vfa.MatchGuard(EqPass("nil", `service\.VerifyAPREQ\(.*\)#2`))
			apPass2 := vfa.MatchGuard(TruePass(`service\.VerifyAPREQ\(.*\)#0`))
			n := 0
			for _, x := range vfa.Exits() {
				res := RetResults(x.Ret)
				if len(res) == 0 {
					continue
				}
				v := res[0]
				where := w.Pos(InstrPos(x.Ret))
				if val, known := vfa.knownBool(v, x.In); known && !val {
					continue
				}
				n++
				key := fmt.Sprintf("true-return:%s@%s", trunc(vfa.R.R(v), 60), vfa.exitLabel(x))
				if isVerifyCall(v) {
					c.Ok("C03.verify", FuncKey(vf), key, where, "success is the forwarded result of another ContextToken.Verify")
					continue
				}
				// a result assembled from several sources (a φ, the returns of a helper the tail was
				// moved into): every source that is not the constant false is a forwarded Verify
				{
					allForwarded, any := true, false
					for _, lf := range vfa.LeafValues(v) {
						if k, isK := lf.v.(*ssa.Const); isK && k.Value != nil && k.Value.String() == "false" {
							continue
						}
						any = true
						if !isVerifyCall(lf.v) {
							allForwarded = false
						}
					}
					if any && allForwarded {
						c.Ok("C03.verify", FuncKey(vf), key, where, "success is the forwarded result of another ContextToken.Verify")
						continue
					}
				}
				if len(apPass1) > 0 && len(apPass2) > 0 &&
					vfa.PathAvoiding(apPass1, []Exit{x}) == nil && vfa.PathAvoiding(apPass2, []Exit{x}) == nil {
					c.Ok("C03.verify", FuncKey(vf), key, where, "success is returned only under service.VerifyAPREQ ok ∧ err == nil")
					continue
				}
				c.Fail("C03.verify", FuncKey(vf), key, where, "a verification API may report success only for an accepted AP-REQ",
					"this return may yield true without an accepted AP-REQ (neither a forwarded Verify nor dominated by service.VerifyAPREQ ok ∧ err == nil)")
			}
			if n == 0 {
				c.Ok("C03.verify", FuncKey(vf), "never-true", w.Pos(vf.Pos()), "function never reports success")
			}
		}
		// the credentials context value
		nWV := 0
		for _, fn := range w.ModuleFuncs() {
			ffa := NewFuncAn(w, fn)
			for _, ci := range ffa.Calls(`context\.WithValue`) {
				args := ffa.CallArgs(ci)
				if len(args) != 3 || args[1] != ctxKey {
					continue
				}
				nWV++
				p1 := ffa.MatchGuard(EqPass("nil", `service\.VerifyAPREQ\(.*\)#2`))
				p2 := ffa.MatchGuard(TruePass(`service\.VerifyAPREQ\(.*\)#0`))
				good := len(p1) > 0 && len(p2) > 0 && ffa.PathToInstrAvoiding(p1, ci) == nil && ffa.PathToInstrAvoiding(p2, ci) == nil &&
					fullMatch(`service\.VerifyAPREQ\(.*\)#1`, args[2])
				c.Decide(good, "C03.verify", FuncKey(fn), "ctx-credentials-set", w.Pos(InstrPos(ci)),
					"the credentials context value is set only to VerifyAPREQ's credentials after it succeeded", "value "+trunc(args[2], 120)+" set without the VerifyAPREQ success edges dominating")
			}
		}
		if nWV == 0 {
			c.Fail("C03.verify", "spnego", "ctx-credentials-set", "-", "the accepted credentials are published through context.WithValue(ctxCredentials)", "no such call found")
		}
	}

	// ---- rule 5: mechanism OIDs ----------------------------------------------------
	if a := w.Func("spnego.(*SPNEGO).AcceptSecContext"); a != nil {
		afa := NewFuncAn(w, a)
		eq := `github\.com/jcmturner/gofork/encoding/asn1\.\(ObjectIdentifier\)\.Equal\(`
		// one guard with two accepting spellings: also found behind a helper that tests `a || b`
		pass, _ := afa.MatchGuardSet([]GuardPat{TruePass(eq + `.*, gssapi\.\(OIDName\)\.OID\("KRB5"\)\)`), TruePass(eq + `.*, gssapi\.\(OIDName\)\.OID\("MSLegacyKRB5"\)\)`)}, nil)
		for _, ci := range afa.Calls(`spnego\.\(\*SPNEGOToken\)\.Verify|gssapi\.ContextToken\.Verify`) {
			p := afa.PathToInstrAvoiding(pass, ci)
			c.Decide(len(pass) > 0 && p == nil, "C03.mech", FuncKey(a), "oid-before-verify", w.Pos(InstrPos(ci)), "the token is verified only when its mechanism OID is KRB5 or MS-legacy KRB5", "Verify reachable without the OID test: "+afa.DescribePath(p))
		}
	}
	checkGuards(w, c, "C03.mech", "spnego.(*KRB5Token).Unmarshal", BoolErrSuccess(-1, 0), []GuardSpec{
		{Name: "krb5-oid", Desc: "a KRB5 mechanism token must carry the KRB5 OID",
			Main: []GuardPat{TruePass(`github\.com/jcmturner/gofork/encoding/asn1\.\(ObjectIdentifier\)\.Equal\(.*, gssapi\.\(OIDName\)\.OID\("KRB5"\)\)`)}},
	})
}

func decideDom(c *Check, fa *FuncAn, rule, name, where, desc string, pass []Edge, in ssa.Instruction) {
	fk := FuncKey(fa.Fn)
	if len(pass) == 0 {
		c.Fail(rule, fk, name, where, desc, "no branch tests this condition; conditions present: "+trunc(fa.condSummary(), 600))
		return
	}
	p := fa.PathToInstrAvoiding(pass, in)
	c.Decide(p == nil, rule, fk, name, where, desc, "the call is reachable without the accepting edge of this test: "+fa.DescribePath(p))
}

func regexpFind(pat, s string) string {
	re := compileRe(pat)
	m := re.FindStringSubmatch(s)
	if len(m) < 2 {
		return ""
	}
	return m[1]
}

// nilOnlyWithError: in f, result i is the nil constant only on returns whose
// error result is non-nil-able (not the nil constant).
func nilOnlyWithError(w *World, f *ssa.Function, i int) bool {
	res := f.Signature.Results()
	errIdx := -1
	for k := 0; k < res.Len(); k++ {
		if res.At(k).Type().String() == "error" {
			errIdx = k
		}
	}
	if errIdx < 0 {
		return false
	}
	for _, b := range f.Blocks {
		ret, ok := lastInstr(b).(*ssa.Return)
		if !ok || b == f.Recover {
			continue
		}
		rs := RetResults(ret)
		if k, ok := rs[i].(*ssa.Const); ok && k.Value == nil {
			if e, ok := rs[errIdx].(*ssa.Const); ok && e.Value == nil {
				return false
			}
		}
	}
	return true
}

func staticCallers(w *World, fn *ssa.Function) []*ssa.Function {
	var out []*ssa.Function
	for _, f := range w.ModuleFuncs() {
		found := false
		for _, b := range f.Blocks {
			for _, in := range b.Instrs {
				if ci, ok := in.(ssa.CallInstruction); ok && ci.Common().StaticCallee() == fn {
					found = true
				}
			}
		}
		if found {
			out = append(out, f)
		}
	}
	return out
}

func funcKeys(fs []*ssa.Function) []string {
	var out []string
	for _, f := range fs {
		out = append(out, FuncKey(f))
	}
	return out
}

func sortedStrings(s []string) []string {
	m := map[string]bool{}
	for _, x := range s {
		m[x] = true
	}
	return sortedKeys(m)
}
