package main

// E3: flow-sensitive must-held lockset, context-sensitive through static
// module callees (inlining depth bounded). Lock identity = (base access path,
// mutex field, mode, acquiring instruction).

import (
	"fmt"
	"go/types"
	"sort"
	"strings"

	"golang.org/x/tools/go/ssa"
)

type Held struct {
	Base  string     // rendered base object (e.g. "recv", "cl.sessions")
	Field *types.Var // the mutex field (nil for a non-field mutex)
	Name  string     // Type.field, e.g. "service.Cache.mux"
	Mode  byte       // 'W' or 'R'
	Site  ssa.Instruction
}

func (h Held) key() string { return fmt.Sprintf("%s|%s|%c|%p", h.Base, h.Name, h.Mode, h.Site) }
func (h Held) String() string {
	return fmt.Sprintf("%s.%s:%c", h.Base, h.Name[strings.LastIndex(h.Name, ".")+1:], h.Mode)
}

type lockState map[string]Held

func (s lockState) clone() lockState {
	o := lockState{}
	for k, v := range s {
		o[k] = v
	}
	return o
}

func intersect(a, b lockState) lockState {
	o := lockState{}
	for k, v := range a {
		if _, ok := b[k]; ok {
			o[k] = v
		}
	}
	return o
}

func sameState(a, b lockState) bool {
	if len(a) != len(b) {
		return false
	}
	for k := range a {
		if _, ok := b[k]; !ok {
			return false
		}
	}
	return true
}

func (s lockState) list() []Held {
	var out []Held
	for _, k := range sortedKeys(s) {
		out = append(out, s[k])
	}
	return out
}

// lockOp describes a sync.(RW)Mutex operation.
type lockOp struct {
	Base    string
	Field   *types.Var
	Name    string
	Mode    byte
	Acquire bool
}

func (fa *FuncAn) lockOpOf(c *ssa.CallCommon) (lockOp, bool) {
	f := c.StaticCallee()
	if f == nil || f.Pkg == nil || f.Pkg.Pkg.Path() != "sync" || f.Signature.Recv() == nil {
		return lockOp{}, false
	}
	rt := f.Signature.Recv().Type().String()
	if rt != "*sync.RWMutex" && rt != "*sync.Mutex" {
		return lockOp{}, false
	}
	var op lockOp
	switch f.Name() {
	case "Lock":
		op.Mode, op.Acquire = 'W', true
	case "Unlock":
		op.Mode = 'W'
	case "RLock":
		op.Mode, op.Acquire = 'R', true
	case "RUnlock":
		op.Mode = 'R'
	default:
		return lockOp{}, false
	}
	if len(c.Args) == 0 {
		return lockOp{}, false
	}
	recv := c.Args[0]
	if fad, ok := recv.(*ssa.FieldAddr); ok {
		st := fad.X.Type().Underlying().(*types.Pointer).Elem()
		op.Field = st.Underlying().(*types.Struct).Field(fad.Field)
		op.Base = fa.R.base(fad.X, fad, 0)
		op.Name = shortType(st) + "." + op.Field.Name()
	} else {
		op.Base = fa.R.R(recv)
		op.Name = "(mutex)"
	}
	return op, true
}

// LockCtx is the context of a visited instruction.
type LockCtx struct {
	Root  *ssa.Function
	Fn    *ssa.Function
	FA    *FuncAn
	Chain []ssa.CallInstruction // call sites from the root to Fn
	Async bool                  // Fn (or an ancestor in the chain) runs in a goroutine started in the chain
}

func (c *LockCtx) ChainString() string {
	var s []string
	s = append(s, FuncKey(c.Root))
	for _, ci := range c.Chain {
		if f := ci.Common().StaticCallee(); f != nil {
			s = append(s, FuncKey(f))
		} else {
			s = append(s, "closure")
		}
	}
	return strings.Join(s, " → ")
}

type LockWalker struct {
	W        *World
	MaxDepth int
	Visit    func(ctx *LockCtx, in ssa.Instruction, held []Held)
	// Scope limits descent to functions for which it returns true (nil: module functions).
	Scope func(fn *ssa.Function) bool
	// Unbalanced collects functions whose exit lock state differs from entry.
	Unbalanced map[string]string
	fas        map[*ssa.Function]*FuncAn
	visited    map[string]bool
}

func NewLockWalker(w *World) *LockWalker {
	return &LockWalker{W: w, MaxDepth: 6, Unbalanced: map[string]string{}, fas: map[*ssa.Function]*FuncAn{}, visited: map[string]bool{}}
}

func (lw *LockWalker) fa(fn *ssa.Function) *FuncAn {
	if f, ok := lw.fas[fn]; ok {
		return f
	}
	f := NewFuncAn(lw.W, fn)
	lw.fas[fn] = f
	return f
}

// Walk analyses root with an empty entry lockset.
func (lw *LockWalker) Walk(root *ssa.Function) {
	lw.walk(&LockCtx{Root: root, Fn: root, FA: lw.fa(root)}, lockState{})
}

func (lw *LockWalker) transfer(fa *FuncAn, in ssa.Instruction, st lockState, deferred *[]lockOp) {
	switch x := in.(type) {
	case *ssa.Call:
		if op, ok := fa.lockOpOf(&x.Call); ok {
			if op.Acquire {
				h := Held{Base: op.Base, Field: op.Field, Name: op.Name, Mode: op.Mode, Site: x}
				st[h.key()] = h
			} else {
				for k, h := range st {
					if h.Base == op.Base && h.Name == op.Name && h.Mode == op.Mode {
						delete(st, k)
					}
				}
			}
		}
	case *ssa.Defer:
		if op, ok := fa.lockOpOf(&x.Call); ok && !op.Acquire {
			*deferred = append(*deferred, op)
		}
	case *ssa.RunDefers:
		for _, op := range *deferred {
			for k, h := range st {
				if h.Base == op.Base && h.Name == op.Name && h.Mode == op.Mode {
					delete(st, k)
				}
			}
		}
	}
}

func (lw *LockWalker) walk(ctx *LockCtx, entry lockState) {
	fn := ctx.Fn
	if len(fn.Blocks) == 0 {
		return
	}
	// memo on (root-independent) function + entry lock names
	var ek []string
	for _, h := range entry {
		ek = append(ek, fmt.Sprintf("%s|%s|%c", h.Base, h.Name, h.Mode))
	}
	sort.Strings(ek)
	var ps []string
	for _, p := range fn.Params {
		ps = append(ps, ctx.FA.R.R(p))
	}
	mk := fmt.Sprintf("%p|%s|%v|%s", fn, strings.Join(ek, ","), ctx.Async, strings.Join(ps, ","))
	if lw.visited[mk] {
		return
	}
	lw.visited[mk] = true
	fa := ctx.FA
	// collect deferred unlocks flow-insensitively first
	var deferred []lockOp
	for _, b := range fn.Blocks {
		for _, in := range b.Instrs {
			if d, ok := in.(*ssa.Defer); ok {
				if op, ok := fa.lockOpOf(&d.Call); ok && !op.Acquire {
					deferred = append(deferred, op)
				}
			}
		}
	}
	in := map[*ssa.BasicBlock]lockState{fn.Blocks[0]: entry.clone()}
	work := []*ssa.BasicBlock{fn.Blocks[0]}
	for len(work) > 0 {
		b := work[0]
		work = work[1:]
		st := in[b].clone()
		var dummy []lockOp
		for _, ins := range b.Instrs {
			if _, isDefer := ins.(*ssa.Defer); isDefer {
				lw.transfer(fa, ins, st, &dummy)
				continue
			}
			lw.transfer(fa, ins, st, &deferred)
		}
		for _, s := range b.Succs {
			old, ok := in[s]
			var nw lockState
			if !ok {
				nw = st.clone()
			} else {
				nw = intersect(old, st)
			}
			if !ok || !sameState(old, nw) {
				in[s] = nw
				work = append(work, s)
			}
		}
	}
	// second pass: visit
	for _, b := range fn.Blocks {
		st0, ok := in[b]
		if !ok {
			continue // unreachable
		}
		st := st0.clone()
		for _, ins := range b.Instrs {
			if lw.Visit != nil {
				lw.Visit(ctx, ins, st.list())
			}
			lw.descend(ctx, ins, st)
			var dummy []lockOp
			if _, isDefer := ins.(*ssa.Defer); isDefer {
				lw.transfer(fa, ins, st, &dummy)
			} else {
				lw.transfer(fa, ins, st, &deferred)
			}
			if _, isRet := ins.(*ssa.Return); isRet {
				// balanced?
				if !sameNames(st, entry) {
					lw.Unbalanced[FuncKey(fn)] = fmt.Sprintf("exit holds %v, entry held %v", names(st), names(entry))
				}
			}
		}
	}
}

func names(s lockState) []string {
	var out []string
	for _, h := range s {
		out = append(out, h.String())
	}
	sort.Strings(out)
	return out
}

func sameNames(a, b lockState) bool {
	x, y := names(a), names(b)
	if len(x) != len(y) {
		return false
	}
	for i := range x {
		if x[i] != y[i] {
			return false
		}
	}
	return true
}

func (lw *LockWalker) inScope(fn *ssa.Function) bool {
	if fn == nil || len(fn.Blocks) == 0 {
		return false
	}
	if lw.Scope != nil {
		return lw.Scope(fn)
	}
	return fn.Pkg != nil && inModule(fn.Pkg.Pkg.Path())
}

// descend follows calls into module callees with the translated lock state.
func (lw *LockWalker) descend(ctx *LockCtx, ins ssa.Instruction, st lockState) {
	if len(ctx.Chain) >= lw.MaxDepth {
		return
	}
	var common *ssa.CallCommon
	async := false
	switch x := ins.(type) {
	case *ssa.Call:
		common = &x.Call
	case *ssa.Go:
		common = &x.Call
		async = true
	case *ssa.Defer:
		common = &x.Call
	default:
		return
	}
	ci := ins.(ssa.CallInstruction)
	var callee *ssa.Function
	var args []ssa.Value
	switch f := common.Value.(type) {
	case *ssa.Function:
		callee, args = f, common.Args
	case *ssa.MakeClosure:
		callee, args = f.Fn.(*ssa.Function), common.Args
	}
	// sync.Once.Do(closure) runs the closure synchronously
	if callee != nil && callee.Pkg != nil && callee.Pkg.Pkg.Path() == "sync" && callee.Name() == "Do" && len(common.Args) == 2 {
		if mc, ok := common.Args[1].(*ssa.MakeClosure); ok {
			callee, args = mc.Fn.(*ssa.Function), nil
		}
	}
	if callee == nil || !lw.inScope(callee) {
		return
	}
	for _, c := range ctx.Chain {
		if c.Common().StaticCallee() == callee {
			return // recursion
		}
	}
	if callee == ctx.Fn || callee == ctx.Root {
		return
	}
	// context-sensitive rendering: the callee's parameters are rendered as the
	// caller's argument terms, so lock bases and access paths stay in the
	// root's namespace
	var argS []string
	for _, a := range args {
		argS = append(argS, ctx.FA.R.R(a))
	}
	cfa := NewFuncAnCtx(lw.W, callee, argS)
	entry := lockState{}
	if !async {
		entry = st.clone()
	}
	nctx := &LockCtx{Root: ctx.Root, Fn: callee, FA: cfa, Chain: append(append([]ssa.CallInstruction{}, ctx.Chain...), ci), Async: ctx.Async || async}
	lw.walk(nctx, entry)
}

// heldHas reports whether a lock on the named mutex field is held with at
// least the given mode, optionally for a specific base.
func heldHas(held []Held, name string, mode byte, base string) bool {
	for _, h := range held {
		if h.Name != name {
			continue
		}
		if mode == 'W' && h.Mode != 'W' {
			continue
		}
		if base != "" && h.Base != base {
			continue
		}
		return true
	}
	return false
}

func heldString(held []Held) string {
	if len(held) == 0 {
		return "{}"
	}
	var s []string
	for _, h := range held {
		s = append(s, h.String())
	}
	return "{" + strings.Join(s, ", ") + "}"
}
