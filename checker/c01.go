package main

// C01 — Service accepts an AP-REQ exactly when RFC 4120 §3.2.3 says so.
// Decided: the check-lists of APReq.Verify, Ticket.Valid and VerifyAPREQ are
// complete on every CFG path to a success exit, with the operands the RFC
// names; the identity handed to the application comes from the ticket (or
// from authenticator fields that the check-list compares equal to the
// ticket's); key selection arguments and key usages.

import (
	_ "fmt"
	"strings"

	"golang.org/x/tools/go/ssa"
)

func init() {
	register(&Property{
		ID:  "C01",
		Run: runC01,
		Explain: "Static check-list analysis (SSA, edge-level must-pass-through reachability) of messages.(*APReq).Verify, messages.(*Ticket).Valid, " +
			"messages.(*Ticket).DecryptEncPart/Decrypt and service.VerifyAPREQ: every guard RFC 4120 §3.2.3 requires exists, compares the operands the RFC names " +
			"(by access path), rejects in the right direction, and lies on every CFG path to a success exit; the replay test is ordered after authentication; " +
			"the client name, realm and expiry handed to the application derive from the ticket's decrypted part or from authenticator fields that the check-list compares equal to it; " +
			"key-selection arguments and key-usage constants (2, 7, 11) are the RFC's. This decides the 'only if' (necessary-condition) side of the property on all paths, not the behaviour on concrete requests.",
		NotDecided: []string{
			"the 'if' direction (every valid request is accepted)",
			"behaviour exactly at a skew-window boundary (> vs >= is printed as a note)",
			"that decryption authenticates (C06) and the semantics of HostAddress.Equal / PrincipalName.Equal",
		},
	})
}

const (
	tktDEP = "recv.Ticket.DecryptedEncPart"
)

func runC01(w *World, c *Check) {
	c.Rule("C01.verify", "every path of (*APReq).Verify to a success exit passes the accepting edge of each RFC 4120 §3.2.3 check, with the RFC's operands", 9)
	c.Rule("C01.valid", "every path of (*Ticket).Valid to `true, nil` passes the start-time, invalid-flag and end-time checks on the decrypted part", 3)
	c.Rule("C01.service", "every path of service.VerifyAPREQ to `true, creds, nil` passes Verify (with the Settings' values), the required-address test, the replay test (after authentication) and the PAC test", 8)
	c.Rule("C01.identity", "the identity and expiry given to the application derive from the ticket's decrypted part, or from authenticator fields compared equal to it by the check-list", 3)
	c.Rule("C01.keysel", "the ticket key is looked up with (sname|override, ticket realm, kvno, etype) in parameter order and the ticket is decrypted with key usage 2", 4)
	c.Rule("C01.faithful", "APReq.Verify, Ticket.Valid and VerifyAPREQ never return (false, nil): every rejection names its KRB error", 12)
	c.Rule("C01.authusage", "authenticator key usage is 7 for krbtgt and 11 otherwise, used by both the encrypting and the decrypting side", 4)

	// ---- rule 1: APReq.Verify -------------------------------------------------
	ct := P("time.(Time).Add(recv.Authenticator.CTime, ", re(`[^,]*recv\.Authenticator\.Cusec[^,]*`), ")")
	decTkt := P("messages.(*Ticket).DecryptEncPart(recv.Ticket, @0, ", re(`(?:φ\(recv\.Ticket\.SName\|@3\)|@3)`), ")") // the override may be passed straight through: DecryptEncPart applies the same nil default (C01.keysel)
	valid := P("messages.(*Ticket).Valid(recv.Ticket, @1)")
	decAuth := P("messages.(*APReq).DecryptAuthenticator(recv, " + tktDEP + ".Key)")
	verifyFA, vg := checkGuards(w, c, "C01.verify", "messages.(*APReq).Verify", BoolErrSuccess(0, 1), []GuardSpec{
		{Name: "ticket-decrypts", Desc: "Ticket.DecryptEncPart(keytab, override-or-ticket-sname) error ⇒ reject",
			Main: []GuardPat{EqPass(decTkt, "nil")}},
		{Name: "ticket-valid-err", Desc: "Ticket.Valid(skew) error ⇒ reject",
			Main: []GuardPat{EqPass(valid+"#1", "nil")}},
		{Name: "ticket-valid-ok", Desc: "Ticket.Valid(skew) not ok ⇒ reject",
			Main: []GuardPat{TruePass(valid + "#0")}},
		{Name: "caddr-contains", Desc: "when the ticket lists client addresses, the peer address must be among them",
			Main:   []GuardPat{TruePass(P("types.HostAddressesContains(" + tktDEP + ".CAddr, @2)"))},
			Unless: []GuardPat{{Kind: "gt", X: P("len(" + tktDEP + ".CAddr)"), Y: "0", PassWhen: false}, EqPass(P("len("+tktDEP+".CAddr)"), "0")}},
		{Name: "authenticator-decrypts", Desc: "DecryptAuthenticator(ticket session key) error ⇒ reject",
			Main: []GuardPat{EqPass(decAuth, "nil")}},
		{Name: "cname-equal", Desc: "Authenticator.CName must equal the ticket's CName",
			Main: []GuardPat{
				TruePass(P("types.(PrincipalName).Equal(recv.Authenticator.CName, " + tktDEP + ".CName)")),
				TruePass(P("types.(PrincipalName).Equal(" + tktDEP + ".CName, recv.Authenticator.CName)"))}},
		{Name: "crealm-equal", Desc: "Authenticator.CRealm must equal the ticket's CRealm (RFC 4120 §3.2.3: name and realm)",
			Main: []GuardPat{EqPass("recv.Authenticator.CRealm", q(tktDEP+".CRealm"))}},
		{Name: "skew-past", Desc: "now − ctime(+cusec) exceeding the skew ⇒ reject",
			Main: []GuardPat{NotExceeds(P("time.(Time).Sub(", reNow, ", ", re(ct), ")"), "@1")}},
		{Name: "skew-future", Desc: "ctime(+cusec) − now exceeding the skew ⇒ reject",
			Main: []GuardPat{NotExceeds(P("time.(Time).Sub(", re(ct), ", ", reNow, ")"), "@1")}},
	})
	_ = vg
	if verifyFA != nil {
		noteStrictness(c, verifyFA, "C01.verify")
	}

	// ---- rule 2: Ticket.Valid ---------------------------------------------------
	vfa, _ := checkGuards(w, c, "C01.valid", "messages.(*Ticket).Valid", BoolErrSuccess(0, 1), []GuardSpec{
		{Name: "not-yet-valid", Desc: "starttime − now exceeding the skew ⇒ reject",
			Main: []GuardPat{NotExceeds(P("time.(Time).Sub(recv.DecryptedEncPart.StartTime, ", reNow, ")"), "@0")}},
		{Name: "invalid-flag", Desc: "INVALID flag (bit 7) set ⇒ reject",
			Main: []GuardPat{FalsePass(P("types.IsFlagSet(recv.DecryptedEncPart.Flags, 7)"))}},
		{Name: "expired", Desc: "now − endtime exceeding the skew ⇒ reject",
			Main: []GuardPat{NotExceeds(P("time.(Time).Sub(", reNow, ", recv.DecryptedEncPart.EndTime)"), "@0")}},
	})
	if vfa != nil {
		noteStrictness(c, vfa, "C01.valid")
	}

	// ---- rule 3: VerifyAPREQ ----------------------------------------------------
	const sAcc = "service.(*Settings)."
	verifyCall := P("messages.(*APReq).Verify(@0, @1.Keytab, " + sAcc + "MaxClockSkew(@1), " + sAcc + "ClientAddress(@1), " + sAcc + "KeytabPrincipal(@1))")
	replayCall := P("service.(*Cache).IsReplay(service.GetReplayCache(" + sAcc + "MaxClockSkew(@1)), @0.Ticket.SName, @0.Authenticator)")
	pacCall := P("messages.(*Ticket).GetPACType(@0.Ticket, @1.Keytab, "+sAcc+"KeytabPrincipal(@1), ", reAny, ")")
	caddrLen := P("len(@0.Ticket.DecryptedEncPart.CAddr)")
	sfa, sg := checkGuards(w, c, "C01.service", "service.VerifyAPREQ", BoolErrSuccess(0, 2), []GuardSpec{
		{Name: "verify-err", Desc: "APReq.Verify(s.Keytab, s.MaxClockSkew(), s.ClientAddress(), s.KeytabPrincipal()) error ⇒ reject",
			Main: []GuardPat{EqPass(verifyCall+"#1", "nil")}},
		{Name: "verify-ok", Desc: "APReq.Verify not ok ⇒ reject",
			Main: []GuardPat{TruePass(verifyCall + "#0")}},
		{Name: "require-hostaddr", Desc: "with RequireHostAddr, a ticket without client addresses ⇒ reject",
			Main:   []GuardPat{{Kind: "gt", X: "1", Y: caddrLen}, NePass(caddrLen, "0"), {Kind: "gt", X: caddrLen, Y: "0", PassWhen: true}},
			Unless: []GuardPat{FalsePass(P(sAcc + "RequireHostAddr(@1)"))}},
		{Name: "not-replay", Desc: "IsReplay(ticket sname, authenticator) on the singleton cache ⇒ reject",
			Main: []GuardPat{FalsePass(replayCall)}},
		{Name: "pac-verifies", Desc: "with PAC decoding enabled, a PAC that fails processing ⇒ reject",
			Main:   []GuardPat{EqPass(pacCall+"#2", "nil")},
			Unless: []GuardPat{FalsePass(pacCall + "#0"), TruePass("@1.disablePACDecoding"), FalsePass(P(sAcc + "DecodePAC(@1)"))}},
	})
	if sfa != nil {
		// ordering: the replay cache is consulted (and written) only for authenticated requests
		for _, ci := range sfa.Calls(P("service.(*Cache).IsReplay")) {
			requireDominated(c, "C01.service", sfa, "replay-after-auth", "IsReplay is reached only after APReq.Verify succeeded (unauthenticated requests must not populate the replay cache)",
				ci, sg, "verify-err", "verify-ok")
		}
		for _, ci := range sfa.Calls(P("credentials.(*Credentials).SetAuthenticated")) {
			if args := sfa.CallArgs(ci); len(args) == 2 && args[1] == "true" {
				requireDominated(c, "C01.service", sfa, "authenticated-flag", "SetAuthenticated(true) only after Verify succeeded and the replay test passed",
					ci, sg, "verify-ok", "not-replay")
			}
		}
	}

	// ---- rule 4: identity provenance -------------------------------------------
	if sfa != nil {
		crealmGuarded := c.Held("C01.verify", "messages.(*APReq).Verify", "crealm-equal")
		cnameGuarded := c.Held("C01.verify", "messages.(*APReq).Verify", "cname-equal")
		sites := sfa.Calls(P("credentials.NewFromPrincipalName"))
		if len(sites) == 0 {
			// any other constructor of the returned credentials is unknown to the rule
			c.Fail("C01.identity", "service.VerifyAPREQ", "constructor", w.Pos(sfa.Fn.Pos()), "credentials are built by credentials.NewFromPrincipalName(cname, crealm)", "no such call: the identity's provenance cannot be established")
		}
		for _, ci := range sites {
			args := sfa.CallArgs(ci)
			where := w.Pos(InstrPos(ci))
			if len(args) != 2 {
				continue
			}
			okName := args[0] == "APReq.Ticket.DecryptedEncPart.CName" || (args[0] == "APReq.Authenticator.CName" && cnameGuarded)
			okName = okName || substParams(sfa.Fn, "@0.Ticket.DecryptedEncPart.CName") == args[0] || (substParams(sfa.Fn, "@0.Authenticator.CName") == args[0] && cnameGuarded)
			c.Decide(okName, "C01.identity", "service.VerifyAPREQ", "cname", where,
				"client name reported to the application is the ticket's CName (or the authenticator's, compared equal in Verify)",
				"client name is taken from "+args[0])
			okRealm := substParams(sfa.Fn, "@0.Ticket.DecryptedEncPart.CRealm") == args[1] || (substParams(sfa.Fn, "@0.Authenticator.CRealm") == args[1] && crealmGuarded)
			c.Decide(okRealm, "C01.identity", "service.VerifyAPREQ", "crealm", where,
				"client realm reported to the application is the ticket's CRealm (or the authenticator's, compared equal in Verify)",
				"client realm is taken from "+args[1]+", which the client writes and which no guard of APReq.Verify compares with the ticket's CRealm")
		}
		checkCallsFA(c, "C01.identity", sfa, []CallSpec{
			{Name: "valid-until", Desc: "expiry reported to the application is the ticket's EndTime",
				Callee: P("credentials.(*Credentials).SetValidUntil"),
				Want:   P("credentials.(*Credentials).SetValidUntil(", reAny, ", @0.Ticket.DecryptedEncPart.EndTime)"), AllMustMatch: true},
		})
	}

	// ---- rule 5: key selection --------------------------------------------------
	getKey := P("keytab.(*Keytab).GetEncryptionKey(@0, ", re(`\*φ\(recv\.SName\|@1\)`), ", recv.Realm, recv.EncPart.KVNO, recv.EncPart.EType)")
	dfa, _ := checkGuards(w, c, "C01.keysel", "messages.(*Ticket).DecryptEncPart", BoolErrSuccess(-1, 0), []GuardSpec{
		{Name: "key-found", Desc: "GetEncryptionKey(sname-or-override, realm, kvno, etype) error ⇒ reject",
			Main: []GuardPat{EqPass(getKey+"#2", "nil")}},
	})
	if dfa != nil {
		checkCallsFA(c, "C01.keysel", dfa, []CallSpec{
			{Name: "decrypt-with-found-key", Desc: "the ticket is decrypted with the key that was looked up",
				Callee: P("messages.(*Ticket).Decrypt"), Want: P("messages.(*Ticket).Decrypt(recv, ", re(getKey), "#0)")},
		})
	}
	tfa, _ := checkGuards(w, c, "C01.keysel", "messages.(*Ticket).Decrypt", BoolErrSuccess(-1, 0), []GuardSpec{
		{Name: "decrypt-usage-2", Desc: "crypto.DecryptEncPart(EncPart, key, usage 2) error ⇒ reject",
			Main: []GuardPat{EqPass(P("crypto.DecryptEncPart(recv.EncPart, @0, 2)#1"), "nil")}},
		{Name: "encpart-unmarshals", Desc: "EncTicketPart.Unmarshal of the decrypted bytes error ⇒ reject",
			Main: []GuardPat{EqPass(P("messages.(*EncTicketPart).Unmarshal(", reAny, ", crypto.DecryptEncPart(recv.EncPart, @0, 2)#0)"), "nil")}},
	})
	_ = tfa

	// ---- rule 6: authenticator key usage ---------------------------------------
	if fn := w.Func("messages.authenticatorKeyUsage"); fn == nil {
		c.Missing("C01.authusage", "messages.authenticatorKeyUsage")
	} else {
		fa := NewFuncAn(w, fn)
		krb := fa.MatchGuard(EqPass(`"krbtgt"`, P("@0.NameString[0]")))
		where := w.Pos(fn.Pos())
		if len(krb) != 1 {
			c.Fail("C01.authusage", FuncKey(fn), "krbtgt-test", where, "usage is selected by sname[0] == \"krbtgt\"", "test not found; conditions: "+fa.condSummary())
		} else {
			// exit returning 7 only via the holds edge, exit returning 11 only via the other
			for _, x := range fa.Exits() {
				if len(x.Ret.Results) != 1 {
					continue
				}
				v := fa.R.R(RetResults(x.Ret)[0])
				switch v {
				case "7":
					// only when the first component is "krbtgt"
					path := fa.PathAvoiding([]Edge{krb[0]}, []Exit{x})
					c.Decide(path == nil, "C01.authusage", FuncKey(fn), "usage-"+v, w.Pos(x.Ret.Pos()),
						"usage 7 is returned only when the first component is \"krbtgt\"", "returned on another branch: "+fa.DescribePath(path))
				case "11":
					// never when the first component is "krbtgt" (a name without components is not a krbtgt)
					path := pathTo(krb[0].To(), nil, nil, map[*ssa.BasicBlock]bool{x.Ret.Block(): true})
					c.Decide(path == nil, "C01.authusage", FuncKey(fn), "usage-"+v, w.Pos(x.Ret.Pos()),
						"usage 11 is never returned when the first component is \"krbtgt\"", "reachable from the krbtgt branch: "+fa.DescribePath(path))
				default:
					c.Fail("C01.authusage", FuncKey(fn), "usage-value", w.Pos(x.Ret.Pos()), "returned usages are 7 (TGS-REQ PA-TGS-REQ authenticator) and 11 (AP-REQ authenticator)", "returns "+v)
				}
			}
		}
	}
	checkCalls(w, c, "C01.authusage", "messages.(*APReq).DecryptAuthenticator", []CallSpec{
		{Name: "decrypt-usage", Desc: "authenticator is decrypted with the session key parameter and authenticatorKeyUsage(ticket sname)",
			Callee: P("crypto.DecryptEncPart"), Want: P("crypto.DecryptEncPart(recv.EncryptedAuthenticator, @0, ", re(`(?:uint32\()?`), "messages.authenticatorKeyUsage(recv.Ticket.SName)", re(`\)?`), ")")},
	})
	checkCalls(w, c, "C01.authusage", "messages.encryptAuthenticator", []CallSpec{
		{Name: "encrypt-usage", Desc: "authenticator is encrypted with the session key parameter and authenticatorKeyUsage(ticket sname)",
			Callee: P("crypto.GetEncryptedData"), Want: P("crypto.GetEncryptedData(", reAny, ", @1, ", re(`(?:uint32\()?`), "messages.authenticatorKeyUsage(@2.SName)", re(`\)?`), ", @2.EncPart.KVNO)")},
	})

	// shared with C14: the keytab filter
	keytabFilterRule(w, c, "C01.keytab")
	// the comparison helpers the check-lists rely on
	ruleEqualityHelpers(w, c, "C01.equal")
	ruleFalseHasError(w, c, "C01.faithful", "messages.(*APReq).Verify", "messages.(*Ticket).Valid", "service.VerifyAPREQ")
}

// noteStrictness prints which time comparisons are strict (the property does
// not fix behaviour at the boundary instant).
func noteStrictness(c *Check, fa *FuncAn, rule string) {
	for _, cd := range fa.Conds {
		if cd.Kind == "gt" && strings.Contains(cd.L, "time.(Time).Sub(") {
			kind := "strict (>): a timestamp exactly at the bound is accepted"
			if cd.HoldsSucc == 1 {
				kind = "written as a negated comparison"
			}
			c.Note(rule, FuncKey(fa.Fn), "boundary:"+trunc(cd.L, 80), fa.W.Pos(InstrPos(cd.If)), "comparator at the window boundary: "+kind)
		}
	}
}

var _ ssa.Value
