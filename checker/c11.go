package main

// C11 — a client and its configuration can be shared by goroutines safely:
// lockset discipline of the client package, unsynchronised writes to shared
// client state, read-only configuration API, lock order and blocking under lock.

import (
	"fmt"
	"go/token"
	"go/types"
	"sort"
	"strings"

	"golang.org/x/tools/go/ssa"
)

func init() {
	register(&Property{
		ID:      "C11",
		Run:     runC11,
		Explain: "Static lockset analysis (flow-sensitive must-held locks, context-sensitive through static callees, roots = every exported entry point, goroutine body and otherwise uncalled function of package client): (1) guarded-by table — every read of sessions.Entries, of a session's time/ticket/key/cancel fields and of client.Cache.Entries holds the owning mutex (R or W), every write holds it in W mode, with the two recognised exemptions (object not yet published; channel field received from in the goroutine started after it was written); (2) every store through memory reachable from the *Client receiver made in a context rooted at an exported Client method is under a mutex of the same or an enclosing object; (3) the read-only configuration API (GetKDCs, GetKpasswdServers, ResolveRealm, JSON) performs no store through memory aliased from the receiver, followed interprocedurally into callees that receive an aliased slice; (4) the lock-order graph over the client's mutexes is acyclic with no same-object re-entry, and no network exchange is reachable while a lock is held. Race freedom under every schedule is reduced to these lockset conditions; schedules are not executed. Added: every channel that is sent on while a lock is held is created with constant capacity ≥ 1.",
		NotDecided: []string{
			"absence of races inside dependencies; liveness of the renewal goroutine; fairness",
			"whether a channel send under a lock can block (depends on how often a session is cancelled — a history question; listed as notes)",
		},
	})
}

// refLike: the type can alias memory (slice, map, pointer, interface, chan, func) or contains such.
func refLike(t types.Type, depth int) bool {
	if depth > 4 {
		return true
	}
	switch u := t.Underlying().(type) {
	case *types.Slice, *types.Map, *types.Pointer, *types.Interface, *types.Chan, *types.Signature:
		return true
	case *types.Struct:
		for i := 0; i < u.NumFields(); i++ {
			if refLike(u.Field(i).Type(), depth+1) {
				return true
			}
		}
	case *types.Array:
		return refLike(u.Elem(), depth+1)
	}
	return false
}

// aliasWrites finds stores through memory aliased from the given root values
// in fn, following static module callees that receive an aliased value.
type aliasAn struct {
	w     *World
	memo  map[string][]string
	depth int
}

func (aa *aliasAn) writes(fn *ssa.Function, rootParams []int, chain string) []string {
	key := fmt.Sprintf("%p|%v", fn, rootParams)
	if r, ok := aa.memo[key]; ok {
		return r
	}
	aa.memo[key] = nil
	if len(fn.Blocks) == 0 || strings.Count(chain, "→") > 4 {
		return nil
	}
	fa := NewFuncAn(aa.w, fn)
	P := map[ssa.Value]bool{}      // values referencing shared memory (pointers, slices, maps)
	C := map[ssa.Value]bool{}      // struct copies holding references into shared memory
	holder := map[ssa.Value]bool{} // local allocs holding such copies
	for _, i := range rootParams {
		if i < len(fn.Params) {
			p := fn.Params[i]
			if _, isStruct := p.Type().Underlying().(*types.Struct); isStruct {
				C[p] = true
			} else {
				P[p] = true
			}
		}
	}
	sharedAddr := func(v ssa.Value) bool {
		switch x := v.(type) {
		case *ssa.FieldAddr:
			return P[x.X]
		case *ssa.IndexAddr:
			return P[x.X]
		}
		return P[v] && isPtr(v.Type())
	}
	localHolderAddr := func(v ssa.Value) bool {
		for {
			switch x := v.(type) {
			case *ssa.FieldAddr:
				v = x.X
				continue
			case *ssa.IndexAddr:
				if _, isArr := x.X.Type().Underlying().(*types.Pointer); isArr {
					v = x.X
					continue
				}
			}
			break
		}
		return holder[v]
	}
	for changed := true; changed; {
		changed = false
		mark := func(m map[ssa.Value]bool, v ssa.Value) {
			if !m[v] {
				m[v] = true
				changed = true
			}
		}
		for _, b := range fn.Blocks {
			for _, in := range b.Instrs {
				switch x := in.(type) {
				case *ssa.UnOp:
					if x.Op.String() != "*" {
						continue
					}
					if sharedAddr(x.X) || localHolderAddr(x.X) {
						if _, isStruct := x.Type().Underlying().(*types.Struct); isStruct && refLike(x.Type(), 0) {
							mark(C, x)
						} else if refLike(x.Type(), 0) {
							mark(P, x)
						}
					}
				case *ssa.Store:
					if C[x.Val] || P[x.Val] {
						if a, ok := x.Addr.(*ssa.Alloc); ok {
							mark(holder, a)
						}
					}
				case *ssa.Field:
					if C[x.X] && refLike(x.Type(), 0) {
						if _, isStruct := x.Type().Underlying().(*types.Struct); isStruct {
							mark(C, x)
						} else {
							mark(P, x)
						}
					}
				case *ssa.FieldAddr:
					if P[x.X] {
						mark(P, x) // pointer into shared memory
					}
				case *ssa.IndexAddr:
					if P[x.X] {
						mark(P, x)
					}
				case *ssa.Slice:
					if P[x.X] {
						mark(P, x)
					}
				case *ssa.Phi:
					for _, e := range x.Edges {
						if P[e] {
							mark(P, x)
						}
						if C[e] {
							mark(C, x)
						}
					}
				case *ssa.Lookup:
					if P[x.X] && refLike(x.Type(), 0) {
						mark(P, x)
					}
				case *ssa.Extract:
					if nx, ok := x.Tuple.(*ssa.Next); ok {
						if rg, ok := nx.Iter.(*ssa.Range); ok && P[rg.X] && refLike(x.Type(), 0) {
							mark(P, x)
						}
					}
				case *ssa.Call:
					if bi, ok := x.Call.Value.(*ssa.Builtin); ok && bi.Name() == "append" && len(x.Call.Args) > 0 && P[x.Call.Args[0]] {
						mark(P, x)
					}
				case *ssa.ChangeType:
					if P[x.X] {
						mark(P, x)
					}
				case *ssa.MakeInterface:
					if P[x.X] {
						mark(P, x)
					}
				}
			}
		}
	}
	var out []string
	for _, b := range fn.Blocks {
		for _, in := range b.Instrs {
			switch x := in.(type) {
			case *ssa.Store:
				if fad, ok := x.Addr.(*ssa.FieldAddr); ok && P[fad.X] {
					out = append(out, fmt.Sprintf("%s: store to %s in %s", aa.w.Pos(InstrPos(in)), fa.R.R(x.Addr), FuncKey(fn)))
				}
				if ia, ok := x.Addr.(*ssa.IndexAddr); ok && P[ia.X] {
					out = append(out, fmt.Sprintf("%s: store to element %s in %s", aa.w.Pos(InstrPos(in)), fa.R.R(x.Addr), FuncKey(fn)))
				}
			case *ssa.MapUpdate:
				if P[x.Map] {
					out = append(out, fmt.Sprintf("%s: map update of %s in %s", aa.w.Pos(InstrPos(in)), fa.R.R(x.Map), FuncKey(fn)))
				}
			case *ssa.Call:
				if bi, ok := x.Call.Value.(*ssa.Builtin); ok {
					if (bi.Name() == "delete" || bi.Name() == "copy" || bi.Name() == "clear") && len(x.Call.Args) > 0 && P[x.Call.Args[0]] {
						out = append(out, fmt.Sprintf("%s: %s on %s in %s", aa.w.Pos(InstrPos(in)), bi.Name(), fa.R.R(x.Call.Args[0]), FuncKey(fn)))
					}
					continue
				}
				callee := x.Call.StaticCallee()
				if callee == nil || callee.Pkg == nil || !inModule(callee.Pkg.Pkg.Path()) {
					continue
				}
				var idx []int
				for i, a := range x.Call.Args {
					if P[a] || C[a] {
						idx = append(idx, i)
					}
				}
				if len(idx) > 0 {
					for _, sub := range aa.writes(callee, idx, chain+"→") {
						out = append(out, sub+" ← called from "+FuncKey(fn)+" at "+aa.w.Pos(InstrPos(in)))
					}
				}
			}
		}
	}
	aa.memo[key] = out
	return out
}

func isPtr(t types.Type) bool {
	_, ok := t.Underlying().(*types.Pointer)
	return ok
}

type guardedField struct {
	typ, field, mux string
}

func runC11(w *World, c *Check) {
	c.Rule("C11.guarded", "reads of sessions.Entries, session.{authTime,endTime,renewTill,tgt,sessionKey,sessionKeyExpiration,cancel} and client.Cache.Entries hold the owning mutex (R/W), writes hold it in W mode", 30)
	c.Rule("C11.snapshot", "the values a session hands out together were stored together: tgtDetails and timeDetails read every field they return themselves, inside one acquisition of the session's mutex (two critical sections can straddle an update and pair the ticket of one issue with the key of the next)", 2)
	for _, fk := range []string{"client.(*session).tgtDetails", "client.(*session).timeDetails"} {
		fn := w.Func(fk)
		if fn == nil {
			c.Missing("C11.snapshot", fk)
			continue
		}
		fa := NewFuncAnRaw(w, fn)
		locks := fa.Calls(`sync\.\(\*RWMutex\)\.(RLock|Lock)`)
		var bad []string
		if len(locks) != 1 {
			bad = append(bad, fmt.Sprintf("%d lock acquisitions in the function", len(locks)))
		}
		// nothing is fetched through another function (which would take and release the lock by itself)
		for _, b := range fn.Blocks {
			for _, in := range b.Instrs {
				if call, isCall := in.(ssa.CallInstruction); isCall {
					if f := call.Common().StaticCallee(); f != nil && f.Pkg != nil && inModule(f.Pkg.Pkg.Path()) {
						bad = append(bad, "a value is fetched through "+FuncKey(f)+", outside this function's critical section")
					}
				}
			}
		}
		for _, ci := range locks {
			for _, b := range fn.Blocks {
				for _, in := range b.Instrs {
					if u, isU := in.(*ssa.UnOp); isU && u.Op == token.MUL && strings.HasPrefix(fa.R.R(u), "recv.") && !strings.HasPrefix(fa.R.R(u), "recv.mux") && !instrDominates(ci, in) {
						bad = append(bad, "the read of "+fa.R.R(u)+" is not preceded by the lock acquisition")
					}
				}
			}
		}
		c.Decide(len(bad) == 0, "C11.snapshot", fk, "one-critical-section", w.Pos(fn.Pos()), "every returned value is a field of the session read under the one lock acquisition of the function", strings.Join(bad, "; "))
	}
	c.Rule("C11.shared-write", "a store through memory reachable from the *Client receiver, in a context rooted at an exported Client method, is under a mutex of the same or an enclosing object", 1)
	c.Rule("C11.readonly", "Config.GetKDCs, GetKpasswdServers, ResolveRealm and JSON do not write through memory aliased from the configuration", 4)
	c.Rule("C11.permutation", "randServOrder hands out the configured servers once each: every step draws among those that remain and removes exactly the drawn one", 5)
	c.Rule("C11.key-bytes", "the bytes of an EncryptionKey read from a structure (cache entry, session, credentials, ticket) are never written in place: holders of a returned (ticket, key) pair share that backing array", 6)
	c.Rule("C11.lockorder", "the lock-order graph of the client's mutexes is acyclic with no same-object re-entry; no KDC/network exchange is reachable while a lock is held", 2)

	cl := w.SSAPkgs["client"]
	if cl == nil {
		c.Missing("C11.guarded", "package client")
		return
	}
	table := []guardedField{
		{"sessions", "Entries", "client.sessions.mux"},
		{"session", "authTime", "client.session.mux"}, {"session", "endTime", "client.session.mux"}, {"session", "renewTill", "client.session.mux"},
		{"session", "tgt", "client.session.mux"}, {"session", "sessionKey", "client.session.mux"}, {"session", "sessionKeyExpiration", "client.session.mux"},
		{"session", "cancel", "client.session.mux"},
		{"Cache", "Entries", "client.Cache.mux"},
		{"Settings", "assumePreAuthentication", "client.Settings.mux"}, {"Settings", "preAuthEType", "client.Settings.mux"},
	}
	guarded := map[*types.Var]guardedField{}
	for _, g := range table {
		st := w.StructOf("client", g.typ)
		if st == nil {
			c.Missing("C11.guarded", "client."+g.typ)
			continue
		}
		found := false
		for i := 0; i < st.NumFields(); i++ {
			if st.Field(i).Name() == g.field {
				guarded[st.Field(i)] = g
				found = true
			}
		}
		if !found {
			c.Missing("C11.guarded", "client."+g.typ+"."+g.field)
		}
	}

	// roots
	called := map[*ssa.Function]bool{}
	var fns []*ssa.Function
	for _, fn := range w.ModuleFuncs() {
		for _, b := range fn.Blocks {
			for _, in := range b.Instrs {
				if ci, ok := in.(*ssa.Call); ok {
					if f := ci.Call.StaticCallee(); f != nil {
						called[f] = true
					}
				}
			}
		}
		if fn.Pkg == cl {
			fns = append(fns, fn)
		}
	}
	var roots []*ssa.Function
	for _, fn := range fns {
		exported := fn.Object() != nil && fn.Object().Exported()
		if exported || !called[fn] || fn.Parent() != nil {
			roots = append(roots, fn)
		}
	}

	type edgeK struct{ from, to string }
	lockEdges := map[edgeK]string{}
	selfReentry := map[string]string{}
	blocking := map[string]string{}
	chanUnderLock := map[string]string{}
	isNet := func(name string) bool {
		return strings.HasPrefix(name, "net.") || strings.Contains(name, ".sendToKDC") || strings.Contains(name, ".sendKDC") ||
			strings.HasSuffix(name, ".ASExchange") || strings.HasSuffix(name, ".TGSExchange") || strings.HasSuffix(name, ".Login") || strings.HasSuffix(name, ".realmLogin") ||
			name == "time.Sleep"
	}
	reported := map[string]bool{}
	lw := NewLockWalker(w)
	lw.Scope = func(fn *ssa.Function) bool { return fn.Pkg == cl }
	freshBase := func(s string) bool {
		return strings.HasPrefix(s, "local<") || strings.HasPrefix(s, "new(") || strings.HasPrefix(s, "&") || strings.Contains(s, "{")
	}
	lw.Visit = func(ctx *LockCtx, in ssa.Instruction, held []Held) {
		fa := ctx.FA
		fk := FuncKey(ctx.Fn)
		where := w.Pos(InstrPos(in))
		// ---- lock acquisition: order edges, re-entry
		if call, ok := in.(*ssa.Call); ok {
			if op, ok := fa.lockOpOf(&call.Call); ok && op.Acquire {
				for _, h := range held {
					if h.Name == op.Name && h.Base == op.Base {
						selfReentry[fmt.Sprintf("%s %s", h.String(), fk)] = fmt.Sprintf("%s re-acquired at %s while already held (chain %s)", h.String(), where, ctx.ChainString())
					} else if h.Name != op.Name {
						lockEdges[edgeK{h.Name, op.Name}] = fmt.Sprintf("%s at %s (chain %s)", fk, where, ctx.ChainString())
					} else {
						// same mutex field, different object: ordered by construction? record as edge to itself
						lockEdges[edgeK{h.Name, op.Name + " (other object)"}] = fmt.Sprintf("%s at %s", fk, where)
					}
				}
			}
			if len(held) > 0 {
				name := fa.CalleeName(call)
				if isNet(name) {
					blocking[fk+"|"+name] = fmt.Sprintf("%s called at %s while holding %s (chain %s)", name, where, heldString(held), ctx.ChainString())
				}
			}
		}
		if snd, ok := in.(*ssa.Send); ok && len(held) > 0 {
			chanUnderLock[fk+"|"+fa.R.R(snd.Chan)] = fmt.Sprintf("send on %s at %s while holding %s", fa.R.R(snd.Chan), where, heldString(held))
		}
		// ---- guarded-by
		check := func(fad *ssa.FieldAddr, write bool, what string) {
			st := fad.X.Type().Underlying().(*types.Pointer).Elem().Underlying().(*types.Struct)
			g, ok := guarded[st.Field(fad.Field)]
			if !ok {
				return
			}
			base := fa.R.base(fad.X, fad, 0)
			if freshBase(base) {
				return // object under construction, not yet published
			}
			// functional options (closures returned by an exported func(...) func(*Settings)) run
			// inside NewSettings before the object is published
			if p := ctx.Fn.Parent(); p != nil && ctx.Root == ctx.Fn && p.Object() != nil && p.Object().Exported() {
				if res := p.Signature.Results(); res.Len() == 1 {
					if sig, ok := res.At(0).Type().Underlying().(*types.Signature); ok && sig.Params().Len() == 1 && sig.Results().Len() == 0 {
						return
					}
				}
			}
			mode := byte('R')
			if write {
				mode = 'W'
			}
			good := heldHas(held, g.mux, mode, base)
			construct := fmt.Sprintf("%s %s.%s in %s", what, g.typ, g.field, fk)
			k := construct + "@" + FuncKey(ctx.Root) + fmt.Sprint(good)
			if reported[k] {
				return
			}
			reported[k] = true
			// exemption: the goroutine started by the function that wrote the channel receives from it
			if !good && g.field == "cancel" && !write && (ctx.Fn.Parent() != nil || onlyStartedByGo(w, ctx.Fn)) {
				c.Note("C11.guarded", fk, construct, where, "read of the cancel channel in the renewal goroutine: written (under the lock) before the go statement that starts it")
				return
			}
			need := "R or W"
			if write {
				need = "W"
			}
			c.Decide(good, "C11.guarded", fk, construct+" via "+FuncKey(ctx.Root), where,
				fmt.Sprintf("%s of %s.%s holds %s of the same object (%s)", what, g.typ, g.field, g.mux, need),
				fmt.Sprintf("base %s; locks held: %s; chain %s", base, heldString(held), ctx.ChainString()))
		}
		switch x := in.(type) {
		case *ssa.UnOp:
			if fad, ok := x.X.(*ssa.FieldAddr); ok && x.Op.String() == "*" {
				// a load of a map header that only feeds a MapUpdate/delete is checked at the update
				check(fad, false, "read")
			}
		case *ssa.Store:
			if fad, ok := x.Addr.(*ssa.FieldAddr); ok {
				check(fad, true, "write")
			}
		case *ssa.MapUpdate:
			if u, ok := x.Map.(*ssa.UnOp); ok {
				if fad, ok := u.X.(*ssa.FieldAddr); ok {
					check(fad, true, "map insert")
				}
			}
		case *ssa.Call:
			if bi, ok := x.Call.Value.(*ssa.Builtin); ok && bi.Name() == "delete" {
				if u, ok := x.Call.Args[0].(*ssa.UnOp); ok {
					if fad, ok := u.X.(*ssa.FieldAddr); ok {
						check(fad, true, "map delete")
					}
				}
			}
		}
		// ---- shared writes from exported Client methods
		if st, ok := in.(*ssa.Store); ok {
			rootIsClientMethod := false
			if r := ctx.Root; r.Signature.Recv() != nil && r.Object() != nil && r.Object().Exported() && strings.HasSuffix(r.Signature.Recv().Type().String(), "client.Client") {
				rootIsClientMethod = true
			}
			if !rootIsClientMethod {
				return
			}
			fad, ok := st.Addr.(*ssa.FieldAddr)
			if !ok {
				return
			}
			addr := fa.R.R(st.Addr)
			if !strings.HasPrefix(addr, "recv.") && !strings.HasPrefix(addr, "client.(*sessions).get(recv.") {
				return
			}
			stt := fad.X.Type().Underlying().(*types.Pointer).Elem().Underlying().(*types.Struct)
			if _, isGuarded := guarded[stt.Field(fad.Field)]; isGuarded {
				return // covered by the guarded-by rule
			}
			base := fa.R.base(fad.X, fad, 0)
			good := false
			for _, h := range held {
				if h.Mode == 'W' && (h.Base == base || strings.HasPrefix(base, h.Base+".")) {
					good = true
				}
			}
			construct := "store " + addr
			k := "sw|" + construct + "|" + fk
			if reported[k+fmt.Sprint(good)] {
				return
			}
			reported[k+fmt.Sprint(good)] = true
			c.Decide(good, "C11.shared-write", fk, construct, where,
				"a write to client state reachable by other goroutines holds a mutex of that object",
				fmt.Sprintf("%s is written with locks %s held (entry point %s): concurrent calls on one client race on it", addr, heldString(held), FuncKey(ctx.Root)))
		}
	}
	for _, r := range roots {
		lw.Walk(r)
	}
	for fn, why := range lw.Unbalanced {
		c.Note("C11.guarded", fn, "unbalanced", "-", "function returns with a different lock set than it was entered with: "+why)
	}

	// ---- lock order --------------------------------------------------------------------
	adj := map[string][]string{}
	var edgeDesc []string
	for e, wh := range lockEdges {
		adj[e.from] = append(adj[e.from], e.to)
		edgeDesc = append(edgeDesc, e.from+" → "+e.to+" ["+wh+"]")
	}
	sort.Strings(edgeDesc)
	c.extra["lock_order_edges"] = edgeDesc
	cyc := ""
	var visit func(n string, stack []string, seen map[string]bool)
	visit = func(n string, stack []string, seen map[string]bool) {
		for _, s := range stack {
			if s == n {
				cyc = strings.Join(append(stack, n), " → ")
				return
			}
		}
		if seen[n] {
			return
		}
		seen[n] = true
		for _, m := range adj[n] {
			visit(m, append(stack, n), seen)
		}
	}
	for n := range adj {
		visit(n, nil, map[string]bool{})
	}
	var re []string
	for _, v := range selfReentry {
		re = append(re, v)
	}
	sort.Strings(re)
	c.Decide(cyc == "" && len(re) == 0, "C11.lockorder", "client", "acyclic", "-", "locks are always acquired in one order and never re-acquired on the same object", "cycle: "+cyc+" re-entry: "+strings.Join(re, "; "))
	var bl []string
	for _, v := range blocking {
		bl = append(bl, v)
	}
	sort.Strings(bl)
	c.Decide(len(bl) == 0, "C11.lockorder", "client", "no-exchange-under-lock", "-", "no KDC exchange, network call or sleep is reached while a client lock is held", strings.Join(bl, "; "))
	// a send made while a lock is held must not wait for a receiver: the channel it goes to is created
	// with room for the signal (every make(chan …) stored into that field has a constant capacity ≥ 1)
	for _, k := range sortedKeys(chanUnderLock) {
		term := k[strings.Index(k, "|")+1:]
		field := term[strings.LastIndex(term, ".")+1:]
		nMake, unbuffered := 0, ""
		for _, fn := range w.ModuleFuncs() {
			if fn.Pkg == nil || relPkg(fn.Pkg.Pkg.Path()) != "client" {
				continue
			}
			for _, b := range fn.Blocks {
				for _, in := range b.Instrs {
					st, ok := in.(*ssa.Store)
					if !ok {
						continue
					}
					fad, ok := st.Addr.(*ssa.FieldAddr)
					if !ok {
						continue
					}
					stt, ok := fad.X.Type().Underlying().(*types.Pointer).Elem().Underlying().(*types.Struct)
					if !ok || stt.Field(fad.Field).Name() != field {
						continue
					}
					mk, ok := st.Val.(*ssa.MakeChan)
					if !ok {
						continue
					}
					nMake++
					if n, isC := constInt(mk.Size); !isC || n < 1 {
						unbuffered = w.Pos(InstrPos(mk))
					}
				}
			}
		}
		c.Decide(nMake > 0 && unbuffered == "", "C11.lockorder", "client", "chan-send:"+k, "-", "a channel sent on while a lock is held has room for one signal (capacity ≥ 1): the first cancellation of a session never waits for a receiver that has ended or is itself waiting for the lock (whether one session object can be cancelled twice without a receiver is a question about histories, not decided here)",
			fmt.Sprintf("%s; the channel is created without buffer at %s (%d creation sites found)", chanUnderLock[k], unbuffered, nMake))
	}

	// ---- read-only configuration API ---------------------------------------------------------
	aa := &aliasAn{w: w, memo: map[string][]string{}}
	for _, fk := range []string{"config.(*Config).GetKDCs", "config.(*Config).GetKpasswdServers", "config.(*Config).ResolveRealm", "config.(*Config).JSON"} {
		fn := w.Func(fk)
		if fn == nil {
			c.Missing("C11.readonly", fk)
			continue
		}
		ws := aa.writes(fn, []int{0}, "")
		sort.Strings(ws)
		c.Decide(len(ws) == 0, "C11.readonly", fk, "no-write-through-receiver", w.Pos(fn.Pos()),
			"resolving servers/realms or dumping the configuration does not modify it (it is shared by every goroutine using the client)",
			"writes through memory aliased from the configuration: "+strings.Join(ws, " | "))
	}
	ruleDrawRemove(w, c, "C11.permutation")
	ruleKeyBytesImmutable(w, c, "C11.key-bytes")
}

// ruleKeyBytesImmutable: GetServiceTicket/GetCachedTicket hand out EncryptionKey values whose
// KeyValue slice shares its backing array with the cache entry (and sessions, credentials, decoded
// messages hold keys the same way). Writing an element of a KeyValue that was loaded from such a
// structure — zeroing on Destroy, in-place transformation — changes pairs other goroutines already
// hold. Every function that loads a KeyValue field is an instance; an element store, copy() or
// clear() whose destination is that loaded slice is a violation.
func ruleKeyBytesImmutable(w *World, c *Check, rule string) {
	isKeyValueLoad := func(v ssa.Value) bool {
		for i := 0; i < 4; i++ {
			switch x := v.(type) {
			case *ssa.Slice:
				v = x.X
				continue
			case *ssa.Phi:
				for _, e := range x.Edges {
					if e != v {
						v = e
						break
					}
				}
				continue
			}
			break
		}
		var fld *types.Var
		switch x := v.(type) {
		case *ssa.UnOp:
			if fa, ok := x.X.(*ssa.FieldAddr); ok {
				if st, ok := fa.X.Type().Underlying().(*types.Pointer).Elem().Underlying().(*types.Struct); ok {
					fld = st.Field(fa.Field)
				}
			}
		case *ssa.Field:
			if st, ok := x.X.Type().Underlying().(*types.Struct); ok {
				fld = st.Field(x.Field)
			}
		}
		return fld != nil && fld.Name() == "KeyValue"
	}
	for _, fn := range w.ModuleFuncs() {
		k := FuncKey(fn)
		if strings.HasPrefix(k, "examples") || strings.HasPrefix(k, "test") || strings.HasPrefix(k, "crypto") {
			continue
		}
		loads := 0
		var bad []string
		var pos ssa.Instruction
		for _, b := range fn.Blocks {
			for _, in := range b.Instrs {
				switch x := in.(type) {
				case *ssa.UnOp, *ssa.Field:
					if isKeyValueLoad(x.(ssa.Value)) {
						loads++
					}
				case *ssa.Store:
					if ia, ok := x.Addr.(*ssa.IndexAddr); ok && isKeyValueLoad(ia.X) {
						bad = append(bad, "element store")
						pos = in
					}
				case *ssa.Call:
					if bi, ok := x.Call.Value.(*ssa.Builtin); ok && (bi.Name() == "copy" || bi.Name() == "clear") && len(x.Call.Args) > 0 && isKeyValueLoad(x.Call.Args[0]) {
						bad = append(bad, bi.Name()+"()")
						pos = in
					}
				}
			}
		}
		if loads == 0 {
			continue
		}
		if len(bad) > 0 {
			c.Fail(rule, k, "key-bytes", w.Pos(InstrPos(pos)), "the bytes of a key read from a structure are not modified in place", strings.Join(bad, ", ")+" into a KeyValue slice loaded from a structure: (ticket, key) pairs already handed out share these bytes")
		} else {
			c.Ok(rule, k, "key-bytes", w.Pos(fn.Pos()), "reads key bytes without writing them in place")
		}
	}
}

// onlyStartedByGo: every call of fn in the module is a go statement — fn is a goroutine body
// (the named-method spelling of `go func() {…}()`).
func onlyStartedByGo(w *World, fn *ssa.Function) bool {
	n := w.CallGraph().Nodes[fn]
	if n == nil || len(n.In) == 0 {
		return false
	}
	for _, e := range n.In {
		if _, isGo := e.Site.(*ssa.Go); !isGo {
			return false
		}
	}
	return true
}
